(* C05 — model of the store-pruning decisions of the querier's fan-out:
     pkg/store/proxy.go      storeMatches, storeMatchDebugMetadata, matchersMatchAddress,
                             LabelSetsMatch, ProxyStore.matchingStores, storesForTSDBSelector
     pkg/store/prometheus.go matchesExternalLabels
     pkg/store/tsdb_selector.go TSDBSelector.MatchLabelSets (relabel keep decision = oracle)
   The time-range test [time_skip] is NOT written here: it is regenerated from
   the `if` condition in storeMatches into Gen/C05.v on every run (tie T).
   Matchers are abstract: a type M with a name and an arbitrary decision
   function M -> string -> bool (Prometheus' labels.Matcher.Matches, all four
   types, any regex). The concrete instance used for the correspondence check
   carries the truth table that the real Matcher.Matches produced (oracle).
   Executable definitions only. *)
From Coq Require Import ZArith NArith List Bool.
Import ListNotations.
From Verif Require Import Lib.Corr Lib.Proxy_Order Gen.C05.
Open Scope Z_scope.

Definition str := list N.
Definition str_eqb : str -> str -> bool := list_eqb N.eqb.
(* a label set as labels.Labels presents it: Get/Has find the first entry *)
Definition labels := list (str * str).

Fixpoint lfind (ls : labels) (n : str) : option str :=
  match ls with
  | [] => None
  | (k, v) :: r => if str_eqb k n then Some v else lfind r n
  end.
Definition lhas (ls : labels) (n : str) : bool :=
  match lfind ls n with Some _ => true | None => false end.
(* labels.Labels.Get: "" when absent *)
Definition lget (ls : labels) (n : str) : str :=
  match lfind ls n with Some v => v | None => [] end.
Definition is_empty_str (s : str) : bool := match s with [] => true | _ => false end.

(* "__address__" *)
Definition ADDRESS : str := [95;95;97;100;100;114;101;115;115;95;95]%N.

Inductive reason := ROk | RTime | RLocal | RAddr | RExt | RFilter.

Record store := MkStore {
  smin : Z; smax : Z;               (* Client.TimeRange *)
  sexts : list labels;              (* Client.LabelSets *)
  skeep : list bool;                (* relabel.Process keep decision for each of sexts (oracle) *)
  saddr : str; slocal : bool;       (* Client.Addr *)
  sfilter : bool                    (* Client.Matches(matchers) (oracle) *)
}.

Section Generic.
Context {M : Type} (mname : M -> str) (mmatch : M -> str -> bool).

(* LabelSetsMatch: inner loop = "some matcher names a label the set has and rejects its value" *)
Definition lset_rejected (ms : list M) (ls : labels) : bool :=
  existsb (fun m => lhas ls (mname m) && negb (mmatch m (lget ls (mname m)))) ms.

Definition label_sets_match (ms : list M) (lsets : list labels) : bool :=
  match lsets with
  | [] => true
  | _ => existsb (fun ls => negb (lset_rejected ms ls)) lsets
  end.

Definition matchers_match_address (ms : list M) (addr : str) : bool :=
  forallb (fun m => negb (str_eqb (mname m) ADDRESS && negb (mmatch m addr))) ms.

(* storeMatchDebugMetadata *)
Definition store_match_debug (dbg : list (list M)) (st : store) : reason :=
  match dbg with
  | [] => ROk
  | _ => if slocal st then RLocal
         else if existsb (fun sm => matchers_match_address sm (saddr st)) dbg then ROk else RAddr
  end.

(* storeMatches: the order of the four tests is the order in the source *)
Definition store_matches (dbg : list (list M)) (mint maxt : Z) (ms : list M) (st : store) : reason :=
  if time_skip mint maxt (smin st) (smax st) then RTime
  else match store_match_debug dbg st with
       | ROk => if negb (label_sets_match ms (sexts st)) then RExt
                else if negb (sfilter st) then RFilter else ROk
       | r => r
       end.

(* matchesExternalLabels: None = "no match"; Some kept = matchers that are
   agnostic to the external labels (Get(name) = "") *)
Fixpoint ext_loop (ms : list M) (ext : labels) : option (list M) :=
  match ms with
  | [] => Some []
  | m :: r =>
      if is_empty_str (lget ext (mname m)) then
        match ext_loop r ext with Some k => Some (m :: k) | None => None end
      else if mmatch m (lget ext (mname m)) then ext_loop r ext
      else None
  end.
Definition matches_external_labels (ms : list M) (ext : labels) : option (list M) :=
  match ext with [] => Some ms | _ => ext_loop ms ext end.

(* TSDBSelector.MatchLabelSets: (matches, matched label sets or nil) *)
Definition kept_lsets (st : store) : list labels :=
  map fst (filter snd (combine (sexts st) (skeep st))).
Definition selector_match (selector_on : bool) (st : store) : bool * list labels :=
  if negb selector_on || (match sexts st with [] => true | _ => false end) then (true, [])
  else let k := kept_lsets st in ((match k with [] => false | _ => true end), k).

(* ProxyStore.matchingStores over stores paired with their index *)
Fixpoint matching_stores (selector_on : bool) (dbg : list (list M)) (mint maxt : Z) (ms : list M)
    (sts : list (nat * store)) : list nat * list labels :=
  match sts with
  | [] => ([], [])
  | (i, st) :: r =>
      let '(ks, ls) := matching_stores selector_on dbg mint maxt ms r in
      if fst (selector_match selector_on st) then
        match store_matches dbg mint maxt ms st with
        | ROk => (i :: ks, snd (selector_match selector_on st) ++ ls)
        | _ => (ks, ls)
        end
      else (ks, ls)
  end.

(* ---- what "holds matching data" means ---- *)
(* a series (labels, sample timestamps) as a store with label set ext presents it (C08):
   it carries every label of ext with ext's value *)
Definition extends_b (s ext : labels) : bool :=
  forallb (fun p => str_eqb (lget s (fst p)) (lget ext (fst p))) ext.
Definition series_of_store_b (sel : labels) (st : store) (ser : labels * list Z) : bool :=
  extends_b (fst ser) sel
  && (match sexts st with [] => true | _ => existsb (extends_b (fst ser)) (sexts st) end)
  && forallb (fun t => (smin st <=? t) && (t <=? smax st)) (snd ser).
Definition selected_b (ms : list M) (mint maxt : Z) (ser : labels * list Z) : bool :=
  forallb (fun m => mmatch m (lget (fst ser) (mname m))) ms
  && existsb (fun t => (mint <=? t) && (t <=? maxt)) (snd ser).

(* the proxy's decision for one store and one request, as ProxyStore.Series /
   LabelNames / LabelValues compose it: selector labels first, then storeMatches
   on the stripped matchers. None = the whole request is answered empty. *)
Definition proxy_decision (sel : labels) (dbg : list (list M)) (mint maxt : Z) (ms : list M) (st : store)
  : option reason :=
  match matches_external_labels ms sel with
  | None => None
  | Some kept => Some (store_matches dbg mint maxt kept st)
  end.
Definition pruned (d : option reason) : bool :=
  match d with None | Some RTime | Some RExt => true | _ => false end.

End Generic.

(* ---- MatchersForLabelSets (pkg/store/tsdb_selector.go) ---- *)
Fixpoint sinsert (x : str) (l : list str) : list str :=
  match l with
  | [] => [x]
  | y :: r => match str_cmp x y with Gt => y :: sinsert x r | Eq => l | Lt => x :: l end
  end.
(* slices.Sorted(maps.Keys(set)) *)
Definition sset (l : list str) : list str := fold_right sinsert [] l.
Definition RE_EMPTY : str := [94; 36]%N.   (* reMatchEmpty = "^$" *)
Definition sel_names (lsets : list labels) : list str := sset (concat (map (map fst) lsets)).
Definition sel_count (n : str) (lsets : list labels) : nat := length (filter (fun l => lhas l n) lsets).
Definition sel_alts (n : str) (lsets : list labels) : list str :=
  sset (concat (map (fun l => match lfind l n with Some v => [v] | None => [] end) lsets)
        ++ (if (sel_count n lsets <? length lsets)%nat then [RE_EMPTY] else [])).
Fixpoint join_bar (l : list str) : str :=
  match l with
  | [] => []
  | [x] => x
  | x :: r => x ++ 124%N :: join_bar r
  end.
Definition selector_matchers (lsets : list labels) : list (str * str) :=
  map (fun n => (n, join_bar (sel_alts n lsets))) (sel_names lsets).

(* meaning of the generated pattern v1|...|vn (anchored) when no vi contains a regex
   metacharacter other than the reMatchEmpty alternative *)
Definition alt_sem (alts : list str) (x : str) : bool :=
  existsb (fun a => if str_eqb a RE_EMPTY then is_empty_str x else str_eqb a x) alts.


(* all label sets mention the same label names *)
Definition homogeneous_names (lsets : list labels) : bool :=
  match lsets with
  | [] => true
  | l0 :: r => forallb (fun l => list_eqb str_eqb (map fst l) (map fst l0)) r
  end.

(* ---- concrete matcher: position in the request, name, truth table of the real
   Matcher.Matches over every string occurring in the case ---- *)
Record matcher := MkM { mid : nat; mname : str; mtbl : list (str * bool) }.
Fixpoint tbl_find (t : list (str * bool)) (v : str) : bool :=
  match t with
  | [] => false
  | (k, b) :: r => if str_eqb k v then b else tbl_find r v
  end.
Definition mmatch (m : matcher) (v : str) : bool := tbl_find (mtbl m) v.

Definition reason_code (r : reason) : Z :=
  match r with ROk => 0 | RTime => 1 | RLocal => 2 | RAddr => 3 | RExt => 4 | RFilter => 5 end.

Inductive case :=
| CPrune (sel : labels) (ms : list matcher) (dbg : list (list matcher)) (selector_on : bool)
         (mint maxt : Z) (stores : list (store * list (labels * list Z)))
         (* implementation observables *)
         (o_ext : option (list nat))     (* matchesExternalLabels(ms, sel): positions of the kept matchers *)
         (o_reasons : list Z)            (* storeMatches per store on the kept matchers *)
         (o_kept : list nat) (o_lsets : list labels) (* matchingStores: indices of queried stores, label sets for extra matchers *)
(* MatchersForLabelSets(lsets): the generated (name, pattern) pairs sorted by name, and for probe
   series the verdict of the real regex matchers: (series labels, per generated matcher accepted?) *)
| CSelM (lsets : list labels) (o_ms : list (str * str)) (probes : list (labels * list bool)).

Definition labels_eqb : labels -> labels -> bool := list_eqb (pair_eqb str_eqb str_eqb).

Definition corr_ok (c : case) : bool :=
  match c with
  | CPrune sel ms dbg son mint maxt stores o_ext o_reasons o_kept o_lsets =>
      match matches_external_labels mname mmatch ms sel, o_ext with
      | None, None => true
      | Some kept, Some ok =>
          list_eqb Nat.eqb (map mid kept) ok
          && list_eqb Z.eqb (map (fun s => reason_code (store_matches mname mmatch dbg mint maxt kept (fst s))) stores) o_reasons
          && (let '(ks, ls) := matching_stores mname mmatch son dbg mint maxt kept
                                 (combine (seq 0 (length stores)) (map fst stores)) in
              list_eqb Nat.eqb ks o_kept && list_eqb labels_eqb ls o_lsets)
      | _, _ => false
      end
  | CSelM lsets o_ms probes =>
      list_eqb (pair_eqb str_eqb str_eqb) (selector_matchers lsets) o_ms
      (* the reading of the patterns used by the theorems agrees with the real regex matchers *)
      && forallb (fun p => list_eqb Bool.eqb (map (fun n => alt_sem (sel_alts n lsets) (lget (fst p) n)) (sel_names lsets)) (snd p)) probes
  end.

(* the property on the implementation's own decisions: a store that was not
   queried because of its time range or external labels (or because the proxy's
   selector labels contradict the request) has no series selected by the request *)
Definition pred_skip (c : case) : bool :=
  match c with
  | CPrune sel ms dbg son mint maxt stores o_ext o_reasons o_kept o_lsets =>
      let no_series_selected (p : store * list (labels * list Z)) :=
        forallb (fun ser => negb (series_of_store_b sel (fst p) ser && selected_b mname mmatch ms mint maxt ser)) (snd p) in
      (match o_ext with
       | None => forallb no_series_selected stores
       | Some _ =>
           forallb (fun pr => if (snd pr =? 1) || (snd pr =? 4) then no_series_selected (fst pr) else true)
                   (combine stores o_reasons)
       end)
  | CSelM lsets o_ms probes =>
      (* the extra matchers sent for the kept label sets accept every series that carries one of them *)
      forallb (fun p => negb (existsb (extends_b (fst p)) lsets) || forallb (fun b => b) (snd p)) probes
  end.

Definition pred_selector (c : case) : bool :=
  match c with
  | CPrune sel ms dbg son mint maxt stores o_ext o_reasons o_kept o_lsets =>
      (* with a TSDB selector: the extra matchers generated from the label sets matchingStores returned
         go to every queried store; they must not skip data of a queried store that belongs to one of
         its KEPT label sets. Checked when all label sets of the case have the same label names (for
         other cases see the known finding on MatchersForLabelSets). *)
      (if son && homogeneous_names (concat (map (fun p => sexts (fst p)) stores)) then
            forallb (fun ip =>
                let '(i, p) := ip in
                negb (existsb (Nat.eqb i) o_kept)
                || forallb (fun ser =>
                       negb (series_of_store_b sel (fst p) ser && selected_b mname mmatch ms mint maxt ser
                             && existsb (extends_b (fst ser)) (kept_lsets (fst p)))
                       || forallb (fun n => alt_sem (sel_alts n o_lsets) (lget (fst ser) n)) (sel_names o_lsets)) (snd p))
              (combine (seq 0 (length stores)) stores)
          else true)
  | CSelM _ _ _ => true
  end.

Definition pred_ok (c : case) : bool := pred_skip c && pred_selector c.
