(* C01 — model of pkg/dedup/iter.go: dedupSeriesIterator (Next, the repaired
   Seek, At/AtT), its pairwise fold dedupSeries.Iterator and the single-replica
   shortcut of dedupSeriesSet.At, for non-counter query functions.
   The model itself is in Lib/Dedup_Iter.v (shared with C02, C40); the penalty
   constant and formulas come from Gen/C01.v, regenerated from the Go source on
   every run. Executable definitions only. *)
From Coq Require Import ZArith List Bool String.
Import ListNotations.
From Verif Require Import Lib.Corr Lib.Dedup_Iter Gen.C01.
Open Scope Z_scope.

Definition cfg : pcfg := mkCfg initialPenalty penA_formula penB_formula.

(* dedup.NewSeriesSet(set, "", penalty).At().Iterator(nil) for the replicas of one series *)
Definition dedup_iter (first : list sample) (rest : list (list sample)) : iter :=
  tower false cfg first rest.

(* ---- source facts the model relies on (tie T), as decidable checks ---- *)
Open Scope string_scope.
(* the repaired Seek: the guard comes before the loop *)
Definition seek_shape_ok : bool :=
  match seek_events with
  | ("call", "it.Next") :: ("if", g) :: ("return", "chunkenc.ValNone") :: ("endif", _) :: ("for", _) ::
    ("call", "it.AtT") :: ("if", "ts >= t") :: _ =>
      String.eqb g "it.lastT == math.MinInt64 && it.Next() == chunkenc.ValNone"
  | _ => false
  end.
(* order and right-hand sides of the useA / penalty assignments in Next *)
Definition next_shape_ok : bool :=
  list_eqb String.eqb next_assignments
    ["useA = false"; "penB = 0"; "useA = true"; "penA = 0"; "useA = ta <= tb";
     "penB = <formula>"; "penB = initialPenalty"; "penA = 0";
     "penA = <formula>"; "penA = initialPenalty"; "penB = 0"].
Close Scope string_scope.

(* ---- correspondence and predicate on implementation observables ---- *)
Inductive case :=
| Case (reps : list (list sample)) (ops : list op) (full : list sample) (reader : list obs).

Definition obs_eqb (a b : obs) : bool := option_eqb sample_eqb a b.
Definition samples_eqb := list_eqb sample_eqb.

Definition corr_ok (c : case) : bool :=
  match c with
  | Case [] _ _ _ => false
  | Case (f :: r) ops full reader =>
      option_eqb samples_eqb (drain (dedup_iter f r)) (Some full)
      && list_eqb obs_eqb (run_prog (dedup_iter f r) ops) reader
  end.

(* all replicas equal to the first *)
Definition identical (f : list sample) (r : list (list sample)) : bool :=
  forallb (samples_eqb f) r.

(* The property, on what the implementation produced ([full] = iterating from
   the start, [reader] = what a reader program saw):
   strictly increasing, every sample held by a replica, a single replica or
   identical replicas unchanged, and every reader (in particular one that
   seeks first) sees what a reader of the plain list [full] sees. Stated for
   replicas with strictly increasing timestamps and readers that do not seek
   after exhaustion. *)
Definition pred_ok (c : case) : bool :=
  match c with
  | Case [] _ _ _ => false
  | Case (f :: r) ops full reader =>
      if forallb strict_incr (f :: r) then
        strict_incr full
        && all_from full (f :: r)
        && (if identical f r then samples_eqb full f else true)
        && (if proto_ok false None full ops then list_eqb obs_eqb (spec_run None full ops) reader else true)
      else true
  end.

(* what a reader sees on n successive calls of Next over the list l: the samples, then ValNone *)
Fixpoint take_obs (n : nat) (l : list sample) : list obs :=
  match n with
  | O => []
  | S k => match l with [] => None :: take_obs k [] | s :: r => Some s :: take_obs k r end
  end.
