(* C15 — model of pkg/store/bucket.go bucketBlockSet.getFor (recursive gap
   filling over the resolution levels) and of what bucketBlockSet.add
   guarantees (per-resolution lists sorted by min time, then max time).
   [dd = true] is the code with the fix C15-fix.patch (blocks returned by the
   gap-filling calls are appended only if not yet present; no level allowed =>
   nil); [dd = false] is the code before the fix (plain append; indexing
   s.blocks[len] panics = [None]).
   ResLevel0/1/2 and the order of s.resolutions come from Gen/C15.v (tie T).
   Executable definitions only. *)
From Coq Require Import ZArith NArith List Bool Lia.
Import ListNotations.
From Verif Require Import Lib.Corr Gen.C15.
Open Scope Z_scope.

Record block := mkBlock { bid : N; bmin : Z; bmax : Z; bres : Z }.

Definition block_eqb (a b : block) : bool :=
  N.eqb (bid a) (bid b) && (bmin a =? bmin b) && (bmax a =? bmax b) && (bres a =? bres b).

(* slices.Contains(bs, m) on block pointers: the harness gives every block its
   own id, so pointer equality is equality of the records *)
Definition contains (l : list block) (b : block) : bool := existsb (block_eqb b) l.

(* appendNewBlocks *)
Fixpoint append_new (acc more : list block) : list block :=
  match more with
  | [] => acc
  | b :: r => if contains acc b then append_new acc r else append_new (acc ++ [b]) r
  end.

Definition app_dd (dd : bool) (acc more : list block) : list block :=
  if dd then append_new acc more else acc ++ more.

(* the loop `for _, b := range s.blocks[i]` with its state (start, bs) and the
   trailing gap fill; [lower m M] is s.getFor(m, M, s.resolutions[i+1], ...) *)
Fixpoint scan (dd : bool) (lower : Z -> Z -> list block) (mint maxt : Z)
         (blocks : list block) (start : Z) (acc : list block) : list block :=
  match blocks with
  | [] => app_dd dd acc (lower start maxt)
  | b :: r =>
    if bmax b <=? mint then scan dd lower mint maxt r start acc            (* continue *)
    else if bmin b >? maxt then app_dd dd acc (lower start maxt)           (* break *)
    else scan dd lower mint maxt r (bmax b) (app_dd dd acc (lower start (bmin b - 1)) ++ [b])
  end.

(* getFor at the first level of [levels]; the recursive call passes
   s.resolutions[i+1], which selects the next level because s.resolutions is
   strictly decreasing (lemma resolutions_decreasing) *)
Fixpoint get_for (dd : bool) (levels : list (list block)) (mint maxt : Z) : list block :=
  match levels with
  | [] => []
  | cur :: lower =>
    if mint >? maxt then [] else scan dd (get_for dd lower) mint maxt cur mint []
  end.

(* for ; i < len(s.resolutions) && s.resolutions[i] > maxResolutionMillis; i++ {} *)
Fixpoint drop_levels {A} (maxres : Z) (res : list Z) (levels : list A) : list A :=
  match res, levels with
  | r :: res', l :: levels' => if r >? maxres then drop_levels maxres res' levels' else levels
  | _, _ => []
  end.

Definition get_for_top (dd : bool) (levels : list (list block)) (mint maxt maxres : Z) : option (list block) :=
  if mint >? maxt then Some []
  else match drop_levels maxres resolutions levels with
       | [] => if dd then Some [] else None
       | ls => Some (get_for dd ls mint maxt)
       end.

(* ---- what add establishes ------------------------------------------------ *)

Definition blk_le (a b : block) : bool :=
  (bmin a <? bmin b) || ((bmin a =? bmin b) && (bmax a <=? bmax b)).

Fixpoint sorted_by (le : block -> block -> bool) (l : list block) : bool :=
  match l with
  | [] => true
  | a :: r => match r with [] => true | b :: _ => le a b end && sorted_by le r
  end.

Definition min_le (a b : block) : bool := bmin a <=? bmin b.

Definition known_res (r : Z) : bool := existsb (Z.eqb r) resolutions.

(* ---- cases ----------------------------------------------------------------- *)

Inductive case :=
(* the blocks in add order; per add whether it failed; the ids held per level
   after the adds (s.blocks); the query; ids returned by getFor (None = panic) *)
| CGet (input : list block) (add_failed : list bool) (levels : list (list N))
       (mint maxt maxres : Z) (out : option (list N)).

Definition find_block (input : list block) (i : N) : option block :=
  find (fun b => N.eqb (bid b) i) input.

Fixpoint resolve (input : list block) (ids : list N) : option (list block) :=
  match ids with
  | [] => Some []
  | i :: r => match find_block input i, resolve input r with
              | Some b, Some l => Some (b :: l)
              | _, _ => None
              end
  end.

Fixpoint resolve_levels (input : list block) (levels : list (list N)) : option (list (list block)) :=
  match levels with
  | [] => Some []
  | l :: r => match resolve input l, resolve_levels input r with
              | Some a, Some b => Some (a :: b)
              | _, _ => None
              end
  end.

Fixpoint nodup_n (l : list N) : bool :=
  match l with
  | [] => true
  | a :: r => negb (existsb (N.eqb a) r) && nodup_n r
  end.

(* level k holds exactly the input blocks of resolution resolutions[k], sorted by (min, max) *)
Definition level_ok (input : list block) (r : Z) (lvl : list block) : bool :=
  forallb (fun b => bres b =? r) lvl && forallb (contains input) lvl && sorted_by blk_le lvl &&
  nodup_n (map bid lvl) &&
  Nat.eqb (length lvl) (length (filter (fun b => bres b =? r) input)).

Fixpoint levels_ok (input : list block) (res : list Z) (lvls : list (list block)) : bool :=
  match res, lvls with
  | [], [] => true
  | r :: res', l :: lvls' => level_ok input r l && levels_ok input res' lvls'
  | _, _ => false
  end.

Definition ids_eqb := list_eqb N.eqb.

Definition corr_ok (c : case) : bool :=
  match c with
  | CGet input failed levels mint maxt maxres out =>
    nodup_n (map bid input) &&
    list_eqb Bool.eqb failed (map (fun b => negb (known_res (bres b))) input) &&
    match resolve_levels input levels with
    | None => false
    | Some lv =>
      levels_ok input resolutions lv &&
      option_eqb ids_eqb (option_map (map bid) (get_for_top true lv mint maxt maxres)) out
    end
  end.

(* ---- the property on the implementation's own output ------------------------ *)

Definition covers (b : block) (t : Z) : bool := (bmin b <=? t) && (t <? bmax b).
Definition allowed (maxres : Z) (b : block) : bool := known_res (bres b) && (bres b <=? maxres).

(* coverage is decided at the critical instants: the query start, the starts of
   allowed blocks and the ends of selected blocks (lemma cover_check_sound) *)
Definition critical (input sel : list block) (mint maxres : Z) : list Z :=
  mint :: map bmin (filter (allowed maxres) input) ++ map bmax sel.

Definition cover_check (input sel : list block) (mint maxt maxres : Z) : bool :=
  forallb (fun t =>
    if (mint <=? t) && (t <=? maxt) && existsb (fun a => allowed maxres a && covers a t) input
    then existsb (fun s => covers s t) sel else true)
    (critical input sel mint maxres).

Definition pred_sel (input sel : list block) (mint maxt maxres : Z) : bool :=
  forallb (fun b => bres b <=? maxres) sel &&                         (* never above the max resolution *)
  nodup_n (map bid sel) &&                                            (* no block twice *)
  forallb (fun b => (bmin b <=? maxt) && (mint <? bmax b)) sel &&     (* all overlap [mint, maxt] *)
  cover_check input sel mint maxt maxres.                             (* cover what allowed blocks cover *)

Definition pred_ok (c : case) : bool :=
  match c with
  | CGet input _ _ mint maxt maxres out =>
    match out with
    | None => false
    | Some ids => match resolve input ids with
                  | None => false
                  | Some sel => pred_sel input sel mint maxt maxres
                  end
    end
  end.
