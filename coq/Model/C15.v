(* C15 — model of pkg/store/bucket.go bucketBlockSet.getFor (recursive gap
   filling over the resolution levels) and of what bucketBlockSet.add
   guarantees (per-resolution lists sorted by min time, then max time).
   [dd = true] is the code with the fix C15-fix.patch (blocks returned by the
   gap-filling calls are appended only if not yet present; no level allowed =>
   nil); [dd = false] is the code before the fix (plain append; indexing
   s.blocks[len] panics = [None]).
   ResLevel0/1/2 and the order of s.resolutions come from Gen/C15.v (tie T).
   Executable definitions only. *)
From Coq Require Import ZArith NArith List Bool Lia.
Import ListNotations.
From Verif Require Import Lib.Corr Gen.C15.
Open Scope Z_scope.

Record block := mkBlock { bid : N; bmin : Z; bmax : Z; bres : Z }.

Definition block_eqb (a b : block) : bool :=
  N.eqb (bid a) (bid b) && (bmin a =? bmin b) && (bmax a =? bmax b) && (bres a =? bres b).

(* slices.Contains(bs, m) on block pointers: the harness gives every block its
   own id, so pointer equality is equality of the records *)
Definition contains (l : list block) (b : block) : bool := existsb (block_eqb b) l.

(* appendNewBlocks *)
Fixpoint append_new (acc more : list block) : list block :=
  match more with
  | [] => acc
  | b :: r => if contains acc b then append_new acc r else append_new (acc ++ [b]) r
  end.

Definition app_dd (dd : bool) (acc more : list block) : list block :=
  if dd then append_new acc more else acc ++ more.

(* the loop `for _, b := range s.blocks[i]` with its state (start, bs) and the
   trailing gap fill; [lower m M] is s.getFor(m, M, s.resolutions[i+1], ...) *)
Fixpoint scan (dd : bool) (lower : Z -> Z -> list block) (mint maxt : Z)
         (blocks : list block) (start : Z) (acc : list block) : list block :=
  match blocks with
  | [] => app_dd dd acc (lower start maxt)
  | b :: r =>
    if bmax b <=? mint then scan dd lower mint maxt r start acc            (* continue *)
    else if bmin b >? maxt then app_dd dd acc (lower start maxt)           (* break *)
    else scan dd lower mint maxt r (bmax b) (app_dd dd acc (lower start (bmin b - 1)) ++ [b])
  end.

(* getFor at the first level of [levels]; the recursive call passes
   s.resolutions[i+1], which selects the next level because s.resolutions is
   strictly decreasing (lemma resolutions_decreasing) *)
Fixpoint get_for (dd : bool) (levels : list (list block)) (mint maxt : Z) : list block :=
  match levels with
  | [] => []
  | cur :: lower =>
    if mint >? maxt then [] else scan dd (get_for dd lower) mint maxt cur mint []
  end.

(* for ; i < len(s.resolutions) && s.resolutions[i] > maxResolutionMillis; i++ {} *)
Fixpoint drop_levels {A} (maxres : Z) (res : list Z) (levels : list A) : list A :=
  match res, levels with
  | r :: res', l :: levels' => if r >? maxres then drop_levels maxres res' levels' else levels
  | _, _ => []
  end.

Definition get_for_top (dd : bool) (levels : list (list block)) (mint maxt maxres : Z) : option (list block) :=
  if mint >? maxt then Some []
  else match drop_levels maxres resolutions levels with
       | [] => if dd then Some [] else None
       | ls => Some (get_for dd ls mint maxt)
       end.

(* ---- what add establishes ------------------------------------------------ *)

Definition blk_le (a b : block) : bool :=
  (bmin a <? bmin b) || ((bmin a =? bmin b) && (bmax a <=? bmax b)).

Fixpoint sorted_by (le : block -> block -> bool) (l : list block) : bool :=
  match l with
  | [] => true
  | a :: r => match r with [] => true | b :: _ => le a b end && sorted_by le r
  end.

Definition min_le (a b : block) : bool := bmin a <=? bmin b.

Definition known_res (r : Z) : bool := existsb (Z.eqb r) resolutions.

(* ---- cases ----------------------------------------------------------------- *)

(* ---- histories on one block set --------------------------------------------------------- *)

Inductive hop :=
| OAdd (b : block)                    (* s.add(b) *)
| ORemove (id : N)                    (* s.remove(id) *)
| OGet (mint maxt maxres : Z).        (* s.getFor(mint, maxt, maxres, nil) *)

(* the blocks the set is supposed to hold after a call (the specification set, in add order) *)
Definition spec_step (cur : list block) (o : hop) : list block :=
  match o with
  | OAdd b => if known_res (bres b) then cur ++ [b] else cur
  | ORemove id => filter (fun b => negb (N.eqb (bid b) id)) cur
  | OGet _ _ _ => cur
  end.

(* the set as per-resolution sorted lists: add inserts at its place in (min, max) order (what
   append + sort gives, up to the order of equal ranges), remove deletes preserving the order
   (append(bs[:j], bs[j+1:]...)) *)
Fixpoint insert_blk (b : block) (l : list block) : list block :=
  match l with
  | [] => [b]
  | x :: r => if blk_le b x then b :: l else x :: insert_blk b r
  end.

Fixpoint madd (res : list Z) (lv : list (list block)) (b : block) : list (list block) :=
  match res, lv with
  | r :: res', l :: lv' => if bres b =? r then insert_blk b l :: lv' else l :: madd res' lv' b
  | _, _ => lv
  end.

Definition mremove (id : N) (lv : list (list block)) : list (list block) :=
  map (filter (fun b => negb (N.eqb (bid b) id))) lv.

Definition mset_step (lv : list (list block)) (o : hop) : list (list block) :=
  match o with
  | OAdd b => madd resolutions lv b
  | ORemove id => mremove id lv
  | OGet _ _ _ => lv
  end.

Definition mset_init : list (list block) := map (fun _ => []) resolutions.

(* ids added are new *)
Fixpoint fresh_ids (cur : list block) (ops : list hop) : bool :=
  match ops with
  | [] => true
  | o :: r =>
    match o with
    | OAdd b => negb (existsb (fun x => N.eqb (bid x) (bid b)) cur)
    | _ => true
    end && fresh_ids (spec_step cur o) r
  end.

Inductive case :=
(* the blocks in add order; per add whether it failed; the ids held per level
   after the adds (s.blocks); the query; ids returned by getFor (None = panic) *)
| CGet (input : list block) (add_failed : list bool) (levels : list (list N))
       (mint maxt maxres : Z) (out : option (list N))
(* a history of add / remove / getFor calls on ONE bucketBlockSet; after every call: did add
   fail, the ids held per level (s.blocks), and for getFor the ids returned (None = panic) *)
| CHistory (ops : list hop) (obs : list (bool * list (list N) * option (list N))).

Definition find_block (input : list block) (i : N) : option block :=
  find (fun b => N.eqb (bid b) i) input.

Fixpoint resolve (input : list block) (ids : list N) : option (list block) :=
  match ids with
  | [] => Some []
  | i :: r => match find_block input i, resolve input r with
              | Some b, Some l => Some (b :: l)
              | _, _ => None
              end
  end.

Fixpoint resolve_levels (input : list block) (levels : list (list N)) : option (list (list block)) :=
  match levels with
  | [] => Some []
  | l :: r => match resolve input l, resolve_levels input r with
              | Some a, Some b => Some (a :: b)
              | _, _ => None
              end
  end.

Fixpoint nodup_n (l : list N) : bool :=
  match l with
  | [] => true
  | a :: r => negb (existsb (N.eqb a) r) && nodup_n r
  end.

(* level k holds exactly the input blocks of resolution resolutions[k], sorted by (min, max) *)
Definition level_ok (input : list block) (r : Z) (lvl : list block) : bool :=
  forallb (fun b => bres b =? r) lvl && forallb (contains input) lvl && sorted_by blk_le lvl &&
  nodup_n (map bid lvl) &&
  Nat.eqb (length lvl) (length (filter (fun b => bres b =? r) input)).

Fixpoint levels_ok (input : list block) (res : list Z) (lvls : list (list block)) : bool :=
  match res, lvls with
  | [], [] => true
  | r :: res', l :: lvls' => level_ok input r l && levels_ok input res' lvls'
  | _, _ => false
  end.

Definition ids_eqb := list_eqb N.eqb.

(* replay a history against the observations: [cur] = specification set *)
Fixpoint hist_corr (cur : list block) (ops : list hop) (obs : list (bool * list (list N) * option (list N))) : bool :=
  match ops, obs with
  | [], [] => true
  | o :: r, (failed, levels, out) :: obr =>
    let cur' := spec_step cur o in
    match resolve_levels cur' levels with
    | None => false
    | Some lv =>
      (* after every call s.blocks holds exactly the blocks of the set, per resolution, sorted by (min, max) *)
      levels_ok cur' resolutions lv &&
      match o with
      | OAdd b => Bool.eqb failed (negb (known_res (bres b))) && option_eqb ids_eqb out None
      | ORemove _ => negb failed && option_eqb ids_eqb out None
      | OGet mint maxt maxres =>
        negb failed && option_eqb ids_eqb (option_map (map bid) (get_for_top true lv mint maxt maxres)) out
      end && hist_corr cur' r obr
    end
  | _, _ => false
  end.

Definition corr_ok (c : case) : bool :=
  match c with
  | CHistory ops obs => fresh_ids [] ops && hist_corr [] ops obs
  | CGet input failed levels mint maxt maxres out =>
    nodup_n (map bid input) &&
    list_eqb Bool.eqb failed (map (fun b => negb (known_res (bres b))) input) &&
    match resolve_levels input levels with
    | None => false
    | Some lv =>
      levels_ok input resolutions lv &&
      option_eqb ids_eqb (option_map (map bid) (get_for_top true lv mint maxt maxres)) out
    end
  end.

(* ---- the property on the implementation's own output ------------------------ *)

Definition covers (b : block) (t : Z) : bool := (bmin b <=? t) && (t <? bmax b).
Definition allowed (maxres : Z) (b : block) : bool := known_res (bres b) && (bres b <=? maxres).

(* coverage is decided at the critical instants: the query start, the starts of
   allowed blocks and the ends of selected blocks (lemma cover_check_sound) *)
Definition critical (input sel : list block) (mint maxres : Z) : list Z :=
  mint :: map bmin (filter (allowed maxres) input) ++ map bmax sel.

Definition cover_check (input sel : list block) (mint maxt maxres : Z) : bool :=
  forallb (fun t =>
    if (mint <=? t) && (t <=? maxt) && existsb (fun a => allowed maxres a && covers a t) input
    then existsb (fun s => covers s t) sel else true)
    (critical input sel mint maxres).

Definition pred_sel (input sel : list block) (mint maxt maxres : Z) : bool :=
  forallb (fun b => bres b <=? maxres) sel &&                         (* never above the max resolution *)
  nodup_n (map bid sel) &&                                            (* no block twice *)
  forallb (fun b => (bmin b <=? maxt) && (mint <? bmax b)) sel &&     (* all overlap [mint, maxt] *)
  cover_check input sel mint maxt maxres.                             (* cover what allowed blocks cover *)

(* the four clauses on every getFor of the history, against the blocks in the set at that moment *)
Fixpoint hist_pred (cur : list block) (ops : list hop) (obs : list (bool * list (list N) * option (list N))) : bool :=
  match ops, obs with
  | [], [] => true
  | o :: r, (_, _, out) :: obr =>
    let cur' := spec_step cur o in
    match o with
    | OGet mint maxt maxres =>
      match out with
      | None => false
      | Some ids => match resolve cur' ids with
                    | None => false
                    | Some sel => pred_sel cur' sel mint maxt maxres
                    end
      end
    | _ => true
    end && hist_pred cur' r obr
  | _, _ => false
  end.

Definition pred_ok (c : case) : bool :=
  match c with
  | CHistory ops obs => hist_pred [] ops obs
  | CGet input _ _ mint maxt maxres out =>
    match out with
    | None => false
    | Some ids => match resolve input ids with
                  | None => false
                  | Some sel => pred_sel input sel mint maxt maxres
                  end
    end
  end.
