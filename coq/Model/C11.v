(* C11 — model of pkg/block/indexheader/binary_reader.go:
     BinaryReader.init          (sampling of the postings offset table, index format V2)
     BinaryReader.postingsOffset (the multi-value lookup loop)
     BinaryReader.LabelValues / LabelNames
   for ONE label name: [tbl] is the list of that name's entries of the postings
   offset table, in table order, as (value, postings offset in the index file).
   Byte-level decoding (encoding.Decbuf, uvarints, skipNAndName) is abstracted:
   "the decbuf positioned at tableOff" is the suffix of [tbl] starting at the
   entry's position. Reading past the last entry of the name (where the real
   code would read the next name's entry or hit the end of the table) is [RErr]
   / [Err]; the theorems show it never happens for sorted requests.
   Executable definitions only. *)
From Coq Require Import ZArith NArith List Bool Lia.
Import ListNotations.
From Verif Require Import Lib.Corr Lib.Storegw_Str Gen.C11.
Open Scope Z_scope.

Definition entry := (str * Z)%type.        (* label value, postings offset *)
Definition sample := (str * nat)%type.     (* postingOffset{value, tableOff}: tableOff as entry position *)
Definition range := (Z * Z)%type.          (* index.Range{Start, End} *)

Definition NotFound : range := not_found_range.   (* NotFoundRange, value printed from the linked package (Gen/C11.v) *)
Definition crc32_size : Z := 4.
Definition posting_length_field_size : Z := 4.

(* ---- BinaryReader.init, V2 branch, for one name -------------------------
   callback per entry:  lastValue = value; lastTableOff = labelOffset; valueCount++
                        if (valueCount-1) % sampling == 0 { append }
   at the name switch / end: if (valueCount-1) % sampling != 0 { append last }.
   [sample_keep] is regenerated from the Go condition (Gen/C11.v). *)
Fixpoint init_loop (n : Z) (tbl : list entry) (pos : nat) (vc : Z)
         (last : option sample) (acc : list sample) : list sample :=
  match tbl with
  | [] =>
      match last with
      | Some l => if sample_last_end vc n then acc ++ [l] else acc
      | None => acc
      end
  | (v, _) :: r =>
      let vc' := vc + 1 in
      let acc' := if sample_keep vc' n then acc ++ [(v, pos)] else acc in
      init_loop n r (S pos) vc' (Some (v, pos)) acc'
  end.

Definition init_sample (n : Z) (tbl : list entry) : list sample :=
  init_loop n tbl 0%nat 0 None [].

(* lastValOffset = (postings offset of the next name's first entry | indexLastPostingEnd) - crc32.Size *)
Definition last_val_offset (next_off : Z) : Z := next_off - crc32_size.

(* ---- postingsOffset ------------------------------------------------------ *)

(* sort.Search(len(e.offsets), func(i) { return e.offsets[i].value >= wanted }):
   smallest index whose value is >= wanted (len when none) *)
Fixpoint search (offs : list sample) (w : str) : nat :=
  match offs with
  | [] => 0%nat
  | (v, _) :: r => if str_leb w v then 0%nat else S (search r w)
  end.

Definition value_at (offs : list sample) (i : nat) : option str :=
  match nth_error offs i with Some (v, _) => Some v | None => None end.
Definition pos_at (offs : list sample) (i : nat) : nat :=
  match nth_error offs i with Some (_, p) => p | None => 0%nat end.

Definition is_nil {A} (l : list A) : bool := match l with [] => true | _ => false end.

(* for j := range newSameRngs { newSameRngs[j].End = e } *)
Definition close_rngs (e : Z) (l : list range) : list range := map (fun r => (fst r, e)) l.

(* the `for string(value) >= wantedValue` loop *)
Inductive inner_res :=
| IBreakIter (vs : list str) (rngs : list range)
| IDone (vs : list str) (newSame rngs : list range).

Fixpoint inner (value : str) (po : Z) (next : option str) (vs : list str)
         (newSame rngs : list range) : inner_res :=
  match vs with
  | [] => IDone [] newSame rngs
  | w :: rest =>
      if str_leb w value then
        let newSame' := if str_eqb value w then newSame ++ [(po + posting_length_field_size, 0)] else newSame in
        let rngs' := if str_eqb value w then rngs else rngs ++ [NotFound] in
        match rest with
        | [] => IDone [] newSame' rngs'                 (* valueIndex == len(values): break *)
        | w' :: _ =>
            if is_nil newSame' && match next with Some nv => str_leb nv w' | None => false end
            then IBreakIter rest rngs'                   (* break Iter *)
            else inner value po next rest newSame' rngs'
        end
      else IDone vs newSame rngs
  end.

(* the `Iter: for d.Err() == nil` loop; [d] = entries still ahead of the decbuf *)
Inductive iter_res :=
| ROuter (vs : list str) (rngs : list range)
| RErr.

Fixpoint iter (offs : list sample) (lastVal : Z) (d : list entry) (i : nat)
         (vs : list str) (newSame rngs : list range) : iter_res :=
  match d with
  | [] => RErr
  | (value, po) :: d' =>
      let rngs1 := if is_nil newSame then rngs else rngs ++ close_rngs (po - crc32_size) newSame in
      let next := value_at offs (S i) in
      match inner value po next vs [] rngs1 with
      | IBreakIter vs' rngs' => ROuter vs' rngs'
      | IDone vs' ns rngs' =>
          if Nat.eqb (S i) (length offs) then
            ROuter vs' (rngs' ++ close_rngs lastVal ns)
          else
            let final :=
              if is_nil ns then ROuter vs' rngs'
              else match d' with
                   | [] => RErr
                   | (_, po2) :: _ => ROuter vs' (rngs' ++ close_rngs (po2 - crc32_size) ns)
                   end in
            match vs', next with
            | w :: _, Some nv =>
                if str_leb w nv then
                  iter offs lastVal d' (if str_eqb w nv then S i else i) vs' ns rngs'
                else final
            | _, _ => final
            end
      end
  end.

Inductive res :=
| OK (l : list range)
| Err          (* d.Err() != nil *)
| OutOfFuel.

(* the `for valueIndex < len(values)` loop *)
Fixpoint outer (fuel : nat) (offs : list sample) (lastVal : Z) (tbl : list entry)
         (total : nat) (vs : list str) (rngs : list range) : res :=
  match vs with
  | [] => OK rngs
  | w :: _ =>
      match fuel with
      | O => OutOfFuel
      | S f =>
          let i := search offs w in
          if Nat.eqb i (length offs) then
            OK (rngs ++ repeat NotFound (total - length rngs))
          else
            let i := if (Nat.ltb 0 i) && negb (option_eqb str_eqb (value_at offs i) (Some w))
                     then pred i else i in
            match iter offs lastVal (skipn (pos_at offs i) tbl) i vs [] rngs with
            | RErr => Err
            | ROuter vs' rngs' => outer f offs lastVal tbl total vs' rngs'
            end
      end
  end.

(* discard values before the start *)
Fixpoint discard (first : str) (vs : list str) : list range * list str :=
  match vs with
  | [] => ([], [])
  | v :: r =>
      if str_ltb v first then
        let (a, b) := discard first r in (NotFound :: a, b)
      else ([], vs)
  end.

Definition postings_offset (offs : list sample) (lastVal : Z) (tbl : list entry)
           (vs : list str) : res :=
  match vs with
  | [] => OK []
  | _ =>
      match offs with
      | [] => Err      (* e.offsets[0] would panic; never built by init *)
      | (first, _) :: _ =>
          let (pre, rest) := discard first vs in
          outer (S (length rest)) offs lastVal tbl (length vs) rest pre
      end
  end.

(* ---- LabelValues ---------------------------------------------------------- *)
Fixpoint lv_scan (d : list entry) (lastVal : str) (acc : list str) : option (list str) :=
  match d with
  | [] => None
  | (v, _) :: d' =>
      if str_eqb v lastVal then Some (acc ++ [v]) else lv_scan d' lastVal (acc ++ [v])
  end.

Definition label_values (offs : list sample) (tbl : list entry) : option (list str) :=
  match offs with
  | [] => Some []
  | (_, p0) :: _ =>
      match value_at offs (pred (length offs)) with
      | Some lv => lv_scan (skipn p0 tbl) lv []
      | None => None
      end
  end.

(* ---- LabelNames: keys of r.postings minus the all-postings key "", sorted -- *)
Fixpoint insert_str (x : str) (l : list str) : list str :=
  match l with
  | [] => [x]
  | y :: r => if str_leb x y then x :: l else y :: insert_str x r
  end.
Definition sort_str (l : list str) : list str := fold_right insert_str [] l.
Fixpoint mem_str (x : str) (l : list str) : bool :=
  match l with [] => false | y :: r => str_eqb x y || mem_str x r end.
Fixpoint dedup_str (l : list str) : list str :=
  match l with
  | [] => []
  | x :: r => if mem_str x r then dedup_str r else x :: dedup_str r
  end.
(* [names] = the name of every table entry, in table order *)
Definition label_names (names : list str) : list str :=
  sort_str (filter (fun s => negb (is_nil s)) (dedup_str names)).

(* ---- LookupSymbol: name symbols map + direct-mapped value-symbol cache ------------ *)
(* valueSymbols [valueSymbolsCacheSize]struct{index uint32; symbol string}: slot = o % 1024;
   a slot is a hit only when its index is the looked-up reference (and its string is non-empty).
   [tbl] is the symbol table (symbols.Lookup; None = error), given as data. [names] are the
   references of label-name symbols (r.nameSymbols), answered without touching the cache. *)
Definition sym_cache_size : Z := 1024.
Definition scache := list (Z * (Z * str)).     (* slot -> (index, symbol) *)
Fixpoint sc_get (c : scache) (slot : Z) : option (Z * str) :=
  match c with
  | [] => None
  | (k, v) :: r => if k =? slot then Some v else sc_get r slot
  end.

Definition lookup_symbol (tbl : Z -> option str) (names : list Z) (c : scache) (o : Z) : option str * scache :=
  if existsb (Z.eqb o) names then (tbl o, c)
  else
    let slot := Z.rem o sym_cache_size in
    match sc_get c slot with
    | Some (idx, x :: s) => if idx =? o then (Some (x :: s), c) else
        match tbl o with Some s' => (Some s', (slot, (o, s')) :: c) | None => (None, c) end
    | _ => match tbl o with Some s' => (Some s', (slot, (o, s')) :: c) | None => (None, c) end
    end.

Fixpoint run_lookups (tbl : Z -> option str) (names : list Z) (c : scache) (h : list Z) : list (option str) :=
  match h with
  | [] => []
  | o :: r => let '(a, c') := lookup_symbol tbl names c o in a :: run_lookups tbl names c' r
  end.

(* the same without the `cached.index == o` test (what a slot-only hit test would do) *)
Definition lookup_symbol_noidx (tbl : Z -> option str) (names : list Z) (c : scache) (o : Z) : option str * scache :=
  if existsb (Z.eqb o) names then (tbl o, c)
  else
    let slot := Z.rem o sym_cache_size in
    match sc_get c slot with
    | Some (idx, x :: s) => (Some (x :: s), c)
    | _ => match tbl o with Some s' => (Some s', (slot, (o, s')) :: c) | None => (None, c) end
    end.
Fixpoint run_lookups_noidx (tbl : Z -> option str) (names : list Z) (c : scache) (h : list Z) : list (option str) :=
  match h with
  | [] => []
  | o :: r => let '(a, c') := lookup_symbol_noidx tbl names c o in a :: run_lookups_noidx tbl names c' r
  end.

(* the table restricted to the references that occur in a history, as data *)
Fixpoint tbl_of (l : list (Z * option str)) (o : Z) : option str :=
  match l with
  | [] => None
  | (k, v) :: r => if k =? o then v else tbl_of r o
  end.

(* ---- specification: what the full index says ------------------------------ *)
(* posting list of value w: starts after the length field of its own offset,
   ends before the CRC that precedes the next posting list (the next table
   entry's offset; for the last value of the name: lastValOffset) *)
Fixpoint spec_range (tbl : list entry) (lastVal : Z) (w : str) : range :=
  match tbl with
  | [] => NotFound
  | (v, po) :: r =>
      if str_eqb v w then
        (po + posting_length_field_size,
         match r with [] => lastVal | (_, po') :: _ => po' - crc32_size end)
      else spec_range r lastVal w
  end.

(* ---- cases ---------------------------------------------------------------- *)
Definition range_eqb (a b : range) : bool := (fst a =? fst b) && (snd a =? snd b).
Definition sample_eqb (a b : sample) : bool := str_eqb (fst a) (fst b) && Nat.eqb (snd a) (snd b).

Definition res_eqb (r : res) (o : option (list range)) : bool :=
  match r, o with
  | OK l, Some l' => list_eqb range_eqb l l'
  | Err, None => true
  | _, _ => false
  end.

(* one query: requested values, implementation answer (None = error), ranges of
   the same values in the full index (index.Reader.PostingsRanges; (-1,-1) when absent) *)
Definition query := (list str * option (list range) * list range)%type.

Inductive case :=
| CName (n : Z) (tbl : list entry) (next_off : Z)
        (samp : list sample) (last_val : Z)
        (queries : list query)
        (lv_impl : option (list str)) (lv_full : list str)
| CNames (names : list str) (impl full : list str)
| CAbsent (in_table : bool) (offsets_len values_len : nat)
| CSymbols (impl full : list str)
(* a lookup history on ONE reader: name-symbol references, then (reference, symbol in the full
   index (None = out of range), answer of LookupSymbol (None = error)) in the order of the calls *)
| CSymHist (names : list Z) (hist : list (Z * option str * option str)).

Definition corr_ok (c : case) : bool :=
  match c with
  | CName n tbl next_off samp last_val queries lv_impl lv_full =>
      let offs := init_sample n tbl in
      let lastVal := last_val_offset next_off in
      list_eqb sample_eqb offs samp
      && (lastVal =? last_val)
      && forallb (fun q : query =>
                    let '(vs, out, full) := q in
                    res_eqb (postings_offset offs lastVal tbl vs) out
                    (* the specification itself agrees with the full index *)
                    && list_eqb range_eqb (map (spec_range tbl lastVal) vs) full) queries
      && option_eqb (list_eqb str_eqb) (label_values offs tbl) lv_impl
  | CNames names impl _ => list_eqb str_eqb (label_names names) impl
  | CAbsent in_table ol vl => in_table || (Nat.eqb ol 0 && Nat.eqb vl 0)
  | CSymbols _ _ => true     (* symbol table decoding is not modelled *)
  | CSymHist names hist =>
      lookup_symbol_cond_ok &&
      let tbl := tbl_of (map (fun x => (fst (fst x), snd (fst x))) hist) in
      list_eqb (option_eqb str_eqb) (run_lookups tbl names [] (map (fun x => fst (fst x)) hist)) (map snd hist)
  end.

Definition pred_ok (c : case) : bool :=
  match c with
  | CName _ _ _ _ _ queries lv_impl lv_full =>
      forallb (fun q : query =>
                 let '(vs, out, full) := q in
                 option_eqb (list_eqb range_eqb) out (Some full)) queries
      && option_eqb (list_eqb str_eqb) lv_impl (Some lv_full)
  | CNames _ impl full => list_eqb str_eqb impl full
  | CAbsent in_table ol vl => in_table || (Nat.eqb ol 0 && Nat.eqb vl 0)
  | CSymbols impl full => list_eqb str_eqb impl full
  | CSymHist _ hist => forallb (fun x => option_eqb str_eqb (snd x) (snd (fst x))) hist
  end.
