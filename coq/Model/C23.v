(* C23 — model of the failure classification of a replicated remote write:
   pkg/receive/handler.go  fanoutForward (response loop, canReturnEarly),
   replicationErrors.Cause, writeErrors.Cause, errors.Cause chain, and the
   status switch of handleV1HTTP.
   Regenerated from the Go source on every run (Gen/C23.v, tie T): writeQuorum,
   the failureThreshold expression, WHICH threshold is handed to
   newReplicationErrors, the status switch arms, the order of the
   expectedErrors literals, and the if/return skeletons of the two Cause
   methods and canReturnEarly (that they still have the modelled shape is the
   theorem C23_source_shape).
   Executable definitions only. *)
From Coq Require Import ZArith List Bool Lia String.
Import ListNotations.
From Verif Require Import Lib.Corr Gen.C23.
Open Scope Z_scope.

(* ---- outcomes of one forwarded write, by what isConflict / isNotReady /
   isUnavailable say about errors.Cause(resp.err) ---- *)
Inductive okind := KOk | KConflict | KUnavailGrpc | KUnavailSent | KNotReady | KOther.

Definition is_conflict (k : okind) := match k with KConflict => true | _ => false end.
(* a gRPC Unavailable status satisfies BOTH isNotReady and isUnavailable *)
Definition is_notready (k : okind) := match k with KUnavailGrpc | KNotReady => true | _ => false end.
Definition is_unavail (k : okind) := match k with KUnavailGrpc | KUnavailSent => true | _ => false end.
Definition is_ok (k : okind) := match k with KOk => true | _ => false end.

Definition b2z (b : bool) : Z := if b then 1 else 0.

(* per-series counters: successes[i], failures[i] = len(seriesErrs[i].errs),
   conflictFailures[i], and the two other per-kind counts that
   replicationErrors.Cause recomputes from errs *)
Record sst := mk_sst { succ : Z; fail : Z; confl : Z; nrdy : Z; unav : Z }.
Definition sst0 : sst := mk_sst 0 0 0 0 0.

Definition bump (k : okind) (s : sst) : sst :=
  if is_ok k then mk_sst (succ s + 1) (fail s) (confl s) (nrdy s) (unav s)
  else mk_sst (succ s) (fail s + 1) (confl s + b2z (is_conflict k))
              (nrdy s + b2z (is_notready k)) (unav s + b2z (is_unavail k)).

Definition resp := (list nat * okind)%type.   (* writeResponse: seriesIDs, err *)

Fixpoint upd_nth {A} (n : nat) (f : A -> A) (l : list A) : list A :=
  match l, n with
  | [], _ => []
  | x :: r, O => f x :: r
  | x :: r, S m => x :: upd_nth m f r
  end.

(* `for _, seriesID := range resp.seriesIDs { ...[seriesID]++ }` *)
Definition apply_resp (st : list sst) (r : resp) : list sst :=
  fold_left (fun st id => upd_nth id (bump (snd r)) st) (fst r) st.

(* ---- causes (the sentinel errors errors.Cause can end at) ---- *)
Inductive cause := CConflict | CNotReady | CUnavailable | CBadReplica | CValidation
                 | CNil      (* errors.Cause(err) = nil *)
                 | CUnknown. (* anything else, e.g. errorSet{} *)

Definition cause_of_name (n : string) : option cause :=
  if String.eqb n "errConflict" then Some CConflict
  else if String.eqb n "errNotReady" then Some CNotReady
  else if String.eqb n "errUnavailable" then Some CUnavailable
  else None.

Definition cause_name (c : cause) : string :=
  match c with
  | CConflict => "errConflict" | CNotReady => "errNotReady" | CUnavailable => "errUnavailable"
  | CBadReplica => "errBadReplica" | CValidation => "errValidation"
  | CNil | CUnknown => "default"
  end.

(* count of errs satisfying the named predicate *)
Definition count_of_pred (p : string) (s : sst) : option Z :=
  if String.eqb p "isConflict" then Some (confl s)
  else if String.eqb p "isNotReady" then Some (nrdy s)
  else if String.eqb p "isUnavailable" then Some (unav s)
  else None.

(* does the named predicate hold of a sentinel cause *)
Definition pred_holds (p : string) (c : cause) : option bool :=
  if String.eqb p "isConflict" then Some (match c with CConflict => true | _ => false end)
  else if String.eqb p "isNotReady" then Some (match c with CNotReady => true | _ => false end)
  else if String.eqb p "isUnavailable" then Some (match c with CUnavailable => true | _ => false end)
  else None.

Fixpoint exp_entries (order : list (string * string)) (s : sst) : option (list (cause * Z)) :=
  match order with
  | [] => Some []
  | (e, p) :: r =>
      match cause_of_name e, count_of_pred p s, exp_entries r s with
      | Some c, Some n, Some l => Some ((c, n) :: l)
      | _, _, _ => None
      end
  end.

(* sort.Sort(sort.Reverse(expErrs)) on 3 elements = insertion sort: an element
   moves left past strictly smaller counts only, so ties keep source order *)
Fixpoint ins_desc (x : cause * Z) (l : list (cause * Z)) : list (cause * Z) :=
  match l with
  | [] => [x]
  | y :: r => if snd y <? snd x then x :: y :: r else y :: ins_desc x r
  end.
Definition sort_desc (l : list (cause * Z)) : list (cause * Z) :=
  fold_left (fun acc x => ins_desc x acc) l [].

Definition string_pair_eqb (a b : string * string) : bool :=
  String.eqb (fst a) (fst b) && String.eqb (snd a) (snd b).

Definition expected_replCause_skeleton : list (string * string) :=
  [("if", "len(es.errs) == 0"); ("return", "errorSet{}");
   ("if", "exp.cause(errors.Cause(err))");
   ("if", "exp.count >= es.threshold"); ("return", "exp.err");
   ("if", "len(es.errs) >= es.threshold"); ("return", "errUnavailable");
   ("return", "nil")]%string.
Definition expected_writeCause_skeleton : list (string * string) :=
  [("if", "len(es.errs) == 0"); ("return", "nil");
   ("if", "exp.cause(cause)"); ("if", "!knownCause");
   ("if", "exp.count > 0"); ("return", "exp.err");
   ("return", "unknownErr")]%string.
Definition expected_canReturnEarly_skeleton : list (string * string) :=
  [("if", "successes[i] < successThreshold && conflictFailures[i] < failureThreshold");
   ("return", "false"); ("return", "true")]%string.

Definition skeleton_ok : bool :=
  list_eqb string_pair_eqb replCause_skeleton expected_replCause_skeleton
  && list_eqb string_pair_eqb writeCause_skeleton expected_writeCause_skeleton
  && list_eqb string_pair_eqb canReturnEarly_skeleton expected_canReturnEarly_skeleton.

(* replicationErrors.Cause with es.threshold = thr. None = the model does
   not cover the current source (unknown names in the expectedErrors literal).
   The model is NOT switched off when the if/return skeletons change (so the
   correspondence check keeps localising a behavioural difference); instead
   [skeleton_ok = true] is a theorem of Properties/C23.v. *)
Definition repl_cause (thr : Z) (s : sst) : option cause :=
  if fail s =? 0 then Some CUnknown
  else match exp_entries replCause_order s with
       | None => None
       | Some es =>
           match sort_desc es with
           | (c, n) :: _ =>
               if n >=? thr then Some c
               else if fail s >=? thr then Some CUnavailable
               else Some CNil
           | [] => None
           end
       end.

(* writeErrors.Cause over the causes of the added series errors *)
Fixpoint holds_any (p : string) (cs : list cause) : option bool :=
  match cs with
  | [] => Some false
  | x :: l => match pred_holds p x, holds_any p l with
              | Some b, Some b' => Some (b || b')
              | _, _ => None
              end
  end.

(* first entry of the literal, in source order, whose count is > 0 *)
Fixpoint first_counted (order : list (string * string)) (cs : list cause) : option (option cause) :=
  match order with
  | [] => Some None
  | (e, p) :: r =>
      match cause_of_name e, holds_any p cs with
      | Some c, Some true => Some (Some c)
      | Some _, Some false => first_counted r cs
      | _, _ => None
      end
  end.

Definition write_cause (cs : list cause) : option cause :=
  match first_counted writeCause_order cs with
  | None => None
  | Some (Some c) => Some c
  | Some None => Some (last cs CNil)   (* unknownErr: cause of the last unknown error *)
  end.

Fixpoint assoc_status (arms : list (string * Z)) (n : string) : option Z :=
  match arms with
  | [] => None
  | (k, v) :: r => if String.eqb k n then Some v else assoc_status r n
  end.

(* the status switch of handleV1HTTP *)
Definition status_of (c : cause) : option Z :=
  match assoc_status v1_status_arms (cause_name c) with
  | Some v => Some v
  | None => assoc_status v1_status_arms "default"
  end.

(* ---- the response loop of fanoutForward ---- *)
Definition determined (q ft : Z) (s : sst) : bool := negb ((succ s <? q) && (confl s <? ft)).
Definition can_return_early (q ft : Z) (st : list sst) : bool := forallb (determined q ft) st.

Fixpoint failed_causes (thr ft : Z) (st : list sst) : option (list cause) :=
  match st with
  | [] => Some []
  | s :: r =>
      match failed_causes thr ft r with
      | None => None
      | Some cs =>
          if fail s >=? ft then
            match repl_cause thr s with Some c => Some (c :: cs) | None => None end
          else Some cs
      end
  end.

Inductive fo_result := Ack | Failed (c : cause).

Definition finish (thr ft : Z) (st : list sst) : option fo_result :=
  match failed_causes thr ft st with
  | None => None
  | Some [] => Some Ack
  | Some cs => option_map Failed (write_cause cs)
  end.

Fixpoint loop (thr q ft : Z) (st : list sst) (rs : list resp) : option fo_result :=
  match rs with
  | [] => finish thr ft st                       (* channel closed *)
  | r :: rs' =>
      let st' := apply_resp st r in
      if can_return_early q ft st' then finish thr ft st' else loop thr q ft st' rs'
  end.

Definition result_status (r : fo_result) : option Z :=
  match r with Ack => Some 200 | Failed c => status_of c end.

(* the fan-out with the threshold the CURRENT source hands to newReplicationErrors *)
Definition fan_status (n : nat) (q ft : Z) (rs : list resp) : option Z :=
  match loop (replErr_threshold q ft) q ft (repeat sst0 n) rs with
  | Some r => result_status r
  | None => None
  end.

(* ---- whole request: handleRequest / forward / distributeTimeseriesToReplicas ---- *)
Definition placed (place : list (list nat)) (s r : nat) : nat := nth r (nth s place []) 0%nat.

Definition ids_of (place : list (list nat)) (node r : nat) : list nat :=
  filter (fun s => Nat.eqb (placed place s r) node) (seq 0 (List.length place)).

Definition write := (nat * nat * okind)%type.   (* node, replica, outcome *)

Definition resps_of (place : list (list nat)) (ws : list write) : list resp :=
  map (fun w => (ids_of place (fst (fst w)) (snd (fst w)), snd w)) ws.

Definition success_threshold (rf rep : Z) : Z := if rep =? 0 then writeQuorum rf else 1.
Definition n_replicas (rf rep : Z) : Z := if rep =? 0 then rf else 1.

Definition handle (rf rep : Z) (place : list (list nat)) (ws : list write) : option Z :=
  if Nat.eqb (List.length place) 0 then Some 200
  else if rep >? rf then status_of CBadReplica
  else
    let q := success_threshold rf rep in
    let ft := failureThreshold_expr (n_replicas rf rep) q in
    fan_status (List.length place) q ft (resps_of place ws).

(* ---- specification vocabulary ---- *)
(* number of conflict responses series s received *)
Definition conflicts_of (s : nat) (rs : list resp) : Z :=
  fold_right (fun r acc => Z.of_nat (count_occ Nat.eq_dec (fst r) s) * b2z (is_conflict (snd r)) + acc) 0 rs.

(* the outcomes series s received, in arrival order (a response naming s
   several times counts that often, as the Go loop does) *)
Definition kinds_for (s : nat) (rs : list resp) : list okind :=
  flat_map (fun r => repeat (snd r) (count_occ Nat.eq_dec (fst r) s)) rs.

(* number of responses series s received *)
Definition responses_of (s : nat) (rs : list resp) : Z := Z.of_nat (List.length (kinds_for s rs)).

(* replicas that stored series s *)
Definition successes_of (s : nat) (rs : list resp) : Z :=
  Z.of_nat (List.length (filter is_ok (kinds_for s rs))).

(* the write quorum, stated independently of the source: a majority of the
   replicas, except that replication factor 2 is satisfied by one copy; an
   already replicated request addresses one replica *)
Definition spec_quorum (rf : Z) : Z := if rf =? 2 then 1 else rf / 2 + 1.
Definition spec_threshold (rf rep : Z) : Z := if rep =? 0 then spec_quorum rf else 1.

(* failures after which quorum q is out of reach among nrep replicas *)
Definition spec_ft (nrep q : Z) : Z := nrep - q + 1.

(* ---- correspondence and predicate ---- *)
Inductive case :=
| CFan (rf rep : Z) (place : list (list nat)) (ws : list write) (status : Z).

Definition corr_ok (c : case) : bool :=
  match c with
  | CFan rf rep place ws status => option_eqb Z.eqb (handle rf rep place ws) (Some status)
  end.

Definition only_conflict_unavailable (ws : list write) : bool :=
  forallb (fun w => match snd w with KOther => false | _ => true end) ws.

(* The status as a function of WHAT the replicas answered, not of the order:
   200 iff every series reached quorum; otherwise 409 iff every series that
   missed quorum is blocked by conflicts alone (>= ft conflicts: no retry can
   help); otherwise 503 (some failed series can still succeed on retry).
   It is the only order-independent reading of "409 only if conflicts alone
   make quorum impossible, 503 when retryable, never 500" that agrees with the
   early return on conflicts; theorem C23_status_is_spec proves the fan-out
   computes exactly this. *)
Definition spec_status (n : nat) (q ft : Z) (rs : list resp) : Z :=
  if forallb (fun s => successes_of s rs >=? q) (seq 0 n) then 200
  else if forallb (fun s => (successes_of s rs >=? q) || (conflicts_of s rs >=? ft)) (seq 0 n) then 409
  else 503.

Definition pred_ok (c : case) : bool :=
  match c with
  | CFan rf rep place ws status =>
      if rep >? rf then true
      else if Nat.eqb (List.length place) 0 then true
      else
        let rs := resps_of place ws in
        let q := spec_threshold rf rep in
        let ft := spec_ft (n_replicas rf rep) q in
        if only_conflict_unavailable ws then status =? spec_status (List.length place) q ft rs
        else
          (* unknown errors are outside the property's quantifier: only "409 implies a blocked series" is demanded *)
          negb (status =? 409) || existsb (fun s => conflicts_of s rs >=? ft) (seq 0 (List.length place))
  end.
