(* C04 — model of the querier's read path behind query.NewQueryableCreator:
   pkg/query/querier.go (selectFn), pkg/query/iter.go (promSeriesSet, chunkSeries,
   chunkSeriesIterator), pkg/dedup/iter.go (overlapSplitSet, dedupSeriesSet,
   dedupSeriesIterator = penalty algorithm, boundedSeriesIterator), on top of a
   relational specification of what the proxy hands to the querier
   (pkg/store/proxy*.go: replica labels removed, equal series chained, identical
   chunks dropped, chunks sorted by (MinTime, MaxTime)).
   Samples are (timestamp, value); values are opaque (raw XOR chunks, hints.Func
   = "", so no counter adjustment and no aggregate arithmetic is involved).
   Executable definitions only. *)
From Coq Require Import ZArith List Bool NArith Lia.
Import ListNotations.
From Verif Require Import Lib.Corr Gen.C04.
Open Scope Z_scope.

Definition str := list N.
Definition label := (str * str)%type.
Definition labels := list label.
Definition sample := (Z * Z)%type.
Record chunk := mkChunk { cmin : Z; cmax : Z; csamples : list sample }.

Definition MinT : Z := -9223372036854775808.

(* ---------- equality deciders ---------- *)
Definition str_eqb : str -> str -> bool := list_eqb N.eqb.
Definition label_eqb (a b : label) : bool := str_eqb (fst a) (fst b) && str_eqb (snd a) (snd b).
Definition labels_eqb : labels -> labels -> bool := list_eqb label_eqb.
Definition sample_eqb (a b : sample) : bool := (fst a =? fst b) && (snd a =? snd b).
Definition samples_eqb : list sample -> list sample -> bool := list_eqb sample_eqb.
Definition chunk_eqb (a b : chunk) : bool :=
  (cmin a =? cmin b) && (cmax a =? cmax b) && samples_eqb (csamples a) (csamples b).

(* ---------- overlapSplitSet.Next (pkg/dedup/iter.go) ---------- *)
(* replicas are kept with their LAST chunk first *)
Fixpoint place (c : chunk) (reps : list (list chunk)) : list (list chunk) :=
  match reps with
  | [] => [[c]]                                   (* not found: a new "fake" series *)
  | r :: rest =>
      match r with
      | [] => [c] :: rest                         (* len(o.replicas[ri]) == 0 *)
      | l :: _ => if cmax l <? cmin c then (c :: r) :: rest else r :: place c rest
      end
  end.

Definition overlap_split (cs : list chunk) : list (list chunk) :=
  match cs with
  | [] => [[]]
  | c0 :: rest => map (@rev chunk) (fold_left (fun reps c => place c reps) rest [[c0]])
  end.

(* ---------- chunkSeriesIterator (pkg/query/iter.go), at stream level ----------
   The samples the iterator positions at, in order: all of the first chunk; when
   a chunk is exhausted at timestamp T, the following chunks are entered with
   Seek(T+1): samples below T+1 are skipped; a chunk that is skipped entirely
   leaves the threshold unchanged (its own last timestamp is below it). *)
Fixpoint drop_lt (thr : Z) (l : list sample) : list sample :=
  match l with
  | [] => []
  | x :: r => if fst x <? thr then drop_lt thr r else l
  end.

Fixpoint last_t (d : Z) (l : list sample) : Z :=
  match l with [] => d | x :: r => last_t (fst x) r end.

Fixpoint chunk_iter_from (thr : Z) (cs : list (list sample)) : list sample :=
  match cs with
  | [] => []
  | c :: rest =>
      match drop_lt thr c with
      | [] => chunk_iter_from thr rest
      | x :: c' => (x :: c') ++ chunk_iter_from (last_t (fst x) c' + 1) rest
      end
  end.

Definition chunk_iter (cs : list chunk) : list sample :=
  chunk_iter_from (MinT + 1) (map csamples cs).

(* ---------- iterators ---------- *)
(* Leaf = boundedSeriesIterator over a chunkSeriesIterator whose stream is l
   (head of l = current sample once started); Node = dedupSeriesIterator. *)
Inductive it :=
| Leaf (started : bool) (l : list sample)
| Node (a b : it) (aval bval : bool) (lastT : Z) (lastA : bool) (penA penB : Z) (useA : bool).

Fixpoint atT (i : it) : Z :=
  match i with
  | Leaf s l => if s then match l with x :: _ => fst x | [] => MinT end else MinT
  | Node a b _ _ _ _ _ _ ua => if ua then atT a else atT b
  end.

Fixpoint at_ (i : it) : sample :=
  match i with
  | Leaf _ l => match l with x :: _ => x | [] => (0, 0) end
  | Node a b _ _ _ la _ _ _ => if la then at_ a else at_ b
  end.

Fixpoint size (i : it) : nat :=
  match i with
  | Leaf _ l => length l
  | Node a b _ _ _ _ _ _ _ => S (size a + size b)
  end.

Definition nonempty {A} (l : list A) : bool := match l with [] => false | _ => true end.

Section Bounds.
Variables mint maxt : Z.

(* Next / Seek of both iterator kinds; fuel = None when exhausted *)
Fixpoint next (f : nat) (i : it) : option (it * bool) :=
  match f with
  | O => None
  | S f' =>
    match i with
    | Leaf s l =>
        let l1 := if s then tl l else l in                 (* it.it.Next() *)
        match l1 with
        | [] => Some (Leaf true [], false)
        | x :: _ =>
            if fst x <? mint then                          (* it.Seek(it.mint) *)
              if maxt <? mint then Some (Leaf true l1, false)
              else match drop_lt mint l1 with
                   | [] => Some (Leaf true [], false)
                   | y :: r => Some (Leaf true (y :: r), fst y <=? maxt)
                   end
            else Some (Leaf true l1, fst x <=? maxt)
        end
    | Node a b av bv lastT la pa pb ua =>
        match (if av then seek f' (lastT + 1 + pa) a else Some (a, false)) with
        | None => None
        | Some (a', av') =>
          match (if bv then seek f' (lastT + 1 + pb) b else Some (b, false)) with
          | None => None
          | Some (b', bv') =>
            if negb av' then
              if bv' then Some (Node a' b' av' bv' (atT b') false pa 0 false, true)
              else Some (Node a' b' av' bv' lastT la pa pb false, false)
            else if negb bv' then Some (Node a' b' av' bv' (atT a') true 0 pb true, true)
            else
              let ta := atT a' in
              let tb := atT b' in
              if ta <=? tb then
                Some (Node a' b' true true ta true 0 (if lastT =? MinT then initialPenalty else penaltyFactor * (ta - lastT)) true, true)
              else
                Some (Node a' b' true true tb false (if lastT =? MinT then initialPenalty else penaltyFactor * (tb - lastT)) 0 false, true)
          end
        end
    end
  end
with seek (f : nat) (t : Z) (i : it) : option (it * bool) :=
  match f with
  | O => None
  | S f' =>
    match i with
    | Leaf s l =>
        if maxt <? t then Some (i, false)                   (* t > it.maxt *)
        else
          let l2 := drop_lt (Z.max t mint) l in             (* chunkSeriesIterator.Seek: Next until AtT >= t *)
          (* (fix) a sample past maxt is not valid *)
          Some (Leaf true l2, match l2 with [] => false | y :: _ => fst y <=? maxt end)
    | Node a b av bv lastT la pa pb ua =>
        (* Seek before the first Next: go through Next once, so that time never
           goes backwards (lastT is MinInt64 only before the first valid Next,
           timestamps being above MinInt64) *)
        if lastT =? MinT then
          match next f' i with
          | None => None
          | Some (i', false) => Some (i', false)
          | Some (i', true) => seek f' t i'
          end
        else
        let ts := atT i in
        if t <=? ts then
          if ua then
            match seek f' ts a with
            | Some (a', v) => Some (Node a' b av bv lastT la pa pb ua, v)
            | None => None
            end
          else
            match seek f' ts b with
            | Some (b', v) => Some (Node a b' av bv lastT la pa pb ua, v)
            | None => None
            end
        else
          match next f' i with
          | None => None
          | Some (i', false) => Some (i', false)
          | Some (i', true) => seek f' t i'
          end
    end
  end.

(* newDedupSeriesIterator: both inputs are advanced once *)
Definition mk_node (f : nat) (a b : it) : option it :=
  match next f a, next f b with
  | Some (a', av), Some (b', bv) => Some (Node a' b' av bv MinT true 0 0 true)
  | _, _ => None
  end.

(* dedupSeries.Iterator: left-nested over the replicas *)
Fixpoint build (f : nat) (acc : it) (ws : list (list sample)) : option it :=
  match ws with
  | [] => Some acc
  | w :: rest => match mk_node f acc (Leaf false w) with
                 | Some n => build f n rest
                 | None => None
                 end
  end.

(* for it.Next() != ValNone { it.At() } *)
Fixpoint drain (f : nat) (n : nat) (i : it) : option (list sample) :=
  match n with
  | O => None
  | S n' =>
      match next f i with
      | None => None
      | Some (_, false) => Some []
      | Some (i', true) =>
          match drain f n' i' with
          | Some r => Some (at_ i' :: r)
          | None => None
          end
      end
  end.

Definition total (ws : list (list sample)) : nat := fold_right (fun w n => (length w + n)%nat) O ws.

Definition fuel_of (ws : list (list sample)) : nat := ((total ws + 3) * (length ws + 2) + 16)%nat.

(* the sample stream of one output series built from the streams of its replicas *)
Definition series_samples (ws : list (list sample)) : option (list sample) :=
  match ws with
  | [] => Some []
  | w0 :: rest =>
      let f := fuel_of ws in
      match build f (Leaf false w0) rest with
      | Some i => drain f (S (total ws)) i
      | None => None
      end
  end.

(* ---------- dedupSeriesSet: group adjacent series with equal labels ---------- *)
Fixpoint group_adj (l : list (labels * list sample)) : list (labels * list (list sample)) :=
  match l with
  | [] => []
  | (ls, w) :: rest =>
      match group_adj rest with
      | (ls', ws) :: gs => if labels_eqb ls ls' then (ls, w :: ws) :: gs else (ls, [w]) :: (ls', ws) :: gs
      | [] => [(ls, [w])]
      end
  end.

Definition pseries := (labels * list chunk)%type.          (* what the proxy hands over *)
Definition oseries := (labels * list sample)%type.         (* what Select returns *)

Fixpoint sequence {A} (l : list (option A)) : option (list A) :=
  match l with
  | [] => Some []
  | None :: _ => None
  | Some x :: r => match sequence r with Some r' => Some (x :: r') | None => None end
  end.

(* querier.selectFn + iteration of every returned series *)
Definition select (dedup : bool) (po : list pseries) : option (list oseries) :=
  if dedup then
    let subs := flat_map (fun s => map (fun r => (fst s, chunk_iter r)) (overlap_split (snd s))) po in
    sequence (map (fun g => match series_samples (snd g) with
                            | Some w => Some (fst g, w)
                            | None => None
                            end) (group_adj subs))
  else
    sequence (map (fun s => match series_samples [chunk_iter (snd s)] with
                            | Some w => Some (fst s, w)
                            | None => None
                            end) po).
End Bounds.

(* ---------- the logical input and the proxy specification ---------- *)
(* one replica of a logical series: value of the replica label, its samples,
   its chunks (the cuts), as placed on the stores *)
Record replica := mkR { r_val : str; r_samples : list sample; r_chunks : list chunk }.
Record lseries := mkL { l_labels : labels; l_reps : list replica }.   (* labels WITHOUT the replica label *)

Definition in_range (mint maxt : Z) (l : list sample) : list sample :=
  filter (fun x => (mint <=? fst x) && (fst x <=? maxt)) l.

Fixpoint strictly_sorted (l : list sample) : bool :=
  match l with
  | [] => true
  | x :: r => match r with [] => true | y :: _ => (fst x <? fst y) && strictly_sorted r end
  end.

Fixpoint chunks_sorted (l : list chunk) : bool :=
  match l with
  | [] => true
  | x :: r => match r with
              | [] => true
              | y :: _ => ((cmin x <? cmin y) || ((cmin x =? cmin y) && (cmax x <=? cmax y))) && chunks_sorted r
              end
  end.

Definition mem_chunk (c : chunk) (l : list chunk) : bool := existsb (chunk_eqb c) l.
Definition mem_samples (c : list sample) (l : list chunk) : bool := existsb (fun d => samples_eqb c (csamples d)) l.

Fixpoint nodup_samples (l : list chunk) : bool :=
  match l with [] => true | c :: r => negb (mem_samples (csamples c) r) && nodup_samples r end.

(* insert the replica label (name, value) keeping label names sorted is done by
   the harness; here full labels of a (series, replica) are looked up only by
   equality *)
Definition find_series (ls : labels) (po : list pseries) : option (list chunk) :=
  option_map snd (find (fun s => labels_eqb ls (fst s)) po).

Fixpoint nodup_labels (l : list labels) : bool :=
  match l with [] => true | x :: r => negb (existsb (labels_eqb x) r) && nodup_labels r end.

(* proxy specification, dedup on: one series per logical series (labels
   without replica labels); its chunks are the union of all replicas' chunks with
   identical data kept once, sorted by (MinTime, MaxTime) *)
Definition proxy_ok_dedup (ls : list lseries) (po : list pseries) : bool :=
  nodup_labels (map fst po)
  && (length po =? length ls)%nat
  && forallb (fun s =>
        match find_series (l_labels s) po with
        | None => false
        | Some cs =>
            let all := flat_map r_chunks (l_reps s) in
            chunks_sorted cs && nodup_samples cs
            && forallb (fun c => mem_chunk c all) cs
            && forallb (fun c => mem_samples (csamples c) cs) all
        end) ls.

(* ---------- correspondence cases ---------- *)
Inductive case :=
(* dedup on: replica labels, range, logical series, proxy output, Select output *)
| CDedup (mint maxt : Z) (ls : list lseries) (po : list pseries) (out : list oseries)
(* dedup off: range, proxy output (one series per replica, replica label kept),
   for each the samples of that replica, Select output *)
| CPlain (mint maxt : Z) (po : list (pseries * list sample)) (out : list oseries).

Definition oseries_eqb (a b : oseries) : bool := labels_eqb (fst a) (fst b) && samples_eqb (snd a) (snd b).

Definition corr_ok (c : case) : bool :=
  match c with
  | CDedup mint maxt ls po out =>
      proxy_ok_dedup ls po
      && option_eqb (list_eqb oseries_eqb) (select mint maxt true po) (Some out)
  | CPlain mint maxt po out =>
      option_eqb (list_eqb oseries_eqb) (select mint maxt false (map fst po)) (Some out)
  end.

(* all replicas hold the same samples *)
Definition identical (s : lseries) : option (list sample) :=
  match l_reps s with
  | [] => None
  | r0 :: rest => if forallb (fun r => samples_eqb (r_samples r) (r_samples r0)) rest
                  then Some (r_samples r0) else None
  end.

Definition find_out (ls : labels) (out : list oseries) : option (list sample) :=
  option_map snd (find (fun s => labels_eqb ls (fst s)) out).

(* the property, on the implementation's own output *)
Definition pred_ok (c : case) : bool :=
  match c with
  | CDedup mint maxt ls _ out =>
      (* one series per label set *)
      nodup_labels (map fst out) && (length out =? length ls)%nat
      && forallb (fun s =>
           match find_out (l_labels s) out with
           | None => false
           | Some w =>
               strictly_sorted w
               && match identical s with
                  | Some L => samples_eqb w (in_range mint maxt L)
                  | None => true
                  end
           end) ls
  | CPlain mint maxt po out =>
      (* every replica is its own series with its own samples *)
      (length out =? length po)%nat
      && forallb (fun p =>
           match find_out (fst (fst p)) out with
           | None => false
           | Some w => samples_eqb w (in_range mint maxt (snd p))
           end) po
  end.
