(* C37 — Downsampled counters preserve the raw counter's increase.
   Model: DownsampleRaw (Lib/Downsample_Core.v), downsampleAggr and
   ApplyCounterResetsSeriesIterator (Lib/Downsample_Aggr.v), instantiated with
   [currentWindow] regenerated from the Go source (Gen/C37.v).  This file adds the
   reading of the counter aggregate (Next-only and Next/Seek programs), the
   specification (reset-adjusted raw counter) and the case type / checks. *)
From Coq Require Import ZArith List Bool Lia Sorted.
Import ListNotations.
From Verif Require Import Lib.Corr Lib.Downsample_Core Lib.Downsample_Aggr Lib.Downsample_Counter Gen.C37.
Open Scope Z_scope.

Definition cw : Z -> Z -> Z := currentWindow.

(* ---- reading the counter aggregate of a chunk sequence ---- *)

Definition counter_toks (ks : list achunk) : list tok := toks_of (present k_counter ks).

(* NewApplyCounterResetsIterator(counter chunks...) read with Next until ValNone *)
Definition read_counter (ks : list achunk) : option (list sample) :=
  let toks := counter_toks ks in
  match acr_run (S (length toks)) toks acr0 with
  | Some (emitted, _) => Some emitted
  | None => None
  end.

(* a program of iterator calls: Next or Seek x; it stops at the first ValNone *)
Inductive op := ONext | OSeek (x : Z).

Fixpoint run_prog (prog : list op) (toks : list tok) (st : acr) : option (list (option sample)) :=
  match prog with
  | [] => Some []
  | o :: rest =>
      let r := match o with
               | ONext => acr_next (acr_fuel toks) toks st
               | OSeek x => acr_seek (S (acr_fuel toks)) x toks st
               end in
      match r with
      | None => None
      | Some (false, _, _) => Some [None]
      | Some (true, toks', st') =>
          match run_prog rest toks' st' with
          | None => None
          | Some l => Some (Some (c_lastT st', c_totalV st') :: l)
          end
      end
  end.

(* ---- specification: the raw counter adjusted for resets ---- *)

(* [adj vs] (Lib/Downsample_Counter.v): value of the reset-adjusted cumulative counter
   after the raw values vs: the first value, plus v - last for every increase, plus v for
   every decrease (reset). *)

(* ... at the last raw sample at or before t *)
Definition adj_at (d : list sample) (t : Z) : Z :=
  adj (map snd (filter (fun s => fst s <=? t) d)).

(* ---- the two-level pipeline ---- *)

Definition level1 (res1 : Z) (nc1 : nat) (data : list rsample) : option (list achunk) :=
  downsample_raw cw res1 nc1 data.

Definition level2 (res2 : Z) (nc2 : nat) (l1 : list achunk) : option (list achunk) :=
  downsample_aggr cw res2 nc2 l1.

(* ---- cases ---- *)

Inductive case :=
| CCounter (res1 res2 : Z) (nc1 nc2 : nat) (data : list rsample)
           (read1 : list sample)                (* counter read over the 5m chunks *)
           (read2 : list sample)                (* counter read over the 1h chunks *)
           (prog : list op) (prog_res : list (option sample)).  (* a Next/Seek program on the 5m chunks *)

Definition sample_eqb (a b : sample) : bool := (fst a =? fst b) && (snd a =? snd b).
Definition samples_eqb : list sample -> list sample -> bool := list_eqb sample_eqb.

Definition corr_ok (c : case) : bool :=
  match c with
  | CCounter res1 res2 nc1 nc2 data read1 read2 prog pres =>
      match level1 res1 nc1 data with
      | Some l1 =>
          option_eqb samples_eqb (read_counter l1) (Some read1)
          && option_eqb (list_eqb (option_eqb sample_eqb)) (run_prog prog (counter_toks l1) acr0) (Some pres)
          && match level2 res2 nc2 l1 with
             | Some l2 => option_eqb samples_eqb (read_counter l2) (Some read2)
             | None => false
             end
      | None => false
      end
  end.

Fixpoint strictly_inc (l : list Z) : bool :=
  match l with
  | a :: ((b :: _) as r) => (a <? b) && strictly_inc r
  | _ => true
  end.

(* raw counters the property speaks about: resolutions > 0, timestamps int64, >= 0 and
   strictly increasing, values >= 0 *)
Definition valid_input (res1 res2 : Z) (data : list rsample) : bool :=
  (0 <? res1) && (0 <? res2)
  && forallb (fun s => (0 <=? fst s) && (fst s <=? max_int64)
                       && match snd s with Some v => 0 <=? v | None => true end) data
  && strictly_inc (map fst data).

(* every value read is the adjusted raw counter at the last raw sample at or before its timestamp *)
Definition values_ok (d : list sample) (r : list sample) : bool :=
  forallb (fun s => snd s =? adj_at d (fst s)) r.

Definition reads_ok (d : list sample) (r : list sample) : bool :=
  values_ok d r && strictly_inc (map fst r).

(* the whole increase is preserved: the last value read is the adjusted counter at the end *)
Definition last_ok (d : list sample) (r : list sample) : bool :=
  match d with
  | [] => match r with [] => true | _ => false end
  | _ => match r with
         | [] => false
         | _ => snd (last r (0, 0)) =? adj (map snd d)
         end
  end.

(* what is read over the 5m chunks / over the 1h chunks *)
Definition level_ok (d : list sample) (r : list sample) : bool := reads_ok d r && last_ok d r.

Definition pred_ok (c : case) : bool :=
  match c with
  | CCounter res1 res2 nc1 nc2 data read1 read2 prog pres =>
      if valid_input res1 res2 data then
        let d := keep_nonnan data in
        level_ok d read1
        && level_ok d read2
        && forallb (fun o => match o with Some s => snd s =? adj_at d (fst s) | None => true end) pres
      else true
  end.

(* ---- specification vocabulary (Prop level) ---- *)

(* raw counter series: resolution > 0, timestamps int64, >= 0 and strictly increasing,
   values (where not NaN) >= 0 *)
Definition valid_counter (res : Z) (data : list rsample) : Prop :=
  0 < res /\ StronglySorted Z.lt (map fst data) /\
  Forall (fun s => 0 <= fst s <= max_int64 /\ match snd s with Some v => 0 <= v | None => True end) data.
