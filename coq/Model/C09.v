(* C09 — model of pkg/store/limiter.go: Limiter.Reserve/ReserveWithType (cumulative
   atomic counter, 0 = unlimited) and limitedServer.Send (series, then samples =
   chunks * MaxSamplesPerChunk), driven by a stream of responses that stops at the
   first Send error (what a StoreServer.Series does with a failed Send).
   MaxSamplesPerChunk comes from Gen/C09.v. Executable definitions only. *)
From Coq Require Import ZArith NArith List Bool Lia.
Import ListNotations.
From Verif Require Import Lib.Corr Gen.C09.
Open Scope N_scope.

Definition two64 : N := 18446744073709551616.
Definition samples_per_chunk : N := Z.to_N MaxSamplesPerChunk.

Record limiter := mkL { lim : N; reserved : N }.
Definition new_limiter (limit : N) : limiter := mkL limit 0.

(* ReserveWithType: if l.limit == 0 { return nil }; if reserved := l.reserved.Add(num); reserved > l.limit { error }.
   atomic.Uint64.Add wraps modulo 2^64. true = nil error. *)
Definition reserve (l : limiter) (num : N) : bool * limiter :=
  if lim l =? 0 then (true, l)
  else let r := (reserved l + num) mod two64 in (r <=? lim l, mkL (lim l) r).

(* a sequence of Reserve calls on one limiter (all are issued) *)
Fixpoint reserves (l : limiter) (nums : list N) : list bool :=
  match nums with
  | [] => []
  | n :: r => let '(ok, l') := reserve l n in ok :: reserves l' r
  end.

(* storepb.SeriesResponse as seen by limitedServer.Send *)
Inductive resp :=
| RSeries (chunks : N)                       (* one series with that many chunks *)
| RBatch (entries : list (option N))         (* batch; None = nil entry (skipped) *)
| ROther.                                    (* warning / hints: passed through *)

Fixpoint batch_counts (es : list (option N)) : N * N :=
  match es with
  | [] => (0, 0)
  | None :: r => batch_counts r
  | Some k :: r => let '(s, c) := batch_counts r in (s + 1, c + k)
  end.

Definition counts (r : resp) : option (N * N) :=
  match r with
  | RSeries k => Some (1, k)
  | RBatch es => Some (batch_counts es)
  | ROther => None
  end.

(* limitedServer.Send: true = forwarded upstream without error *)
Definition send (sl cl : limiter) (r : resp) : bool * limiter * limiter :=
  match counts r with
  | None => (true, sl, cl)
  | Some (s, c) =>
    let '(ok1, sl') := reserve sl s in
    if ok1 then
      let '(ok2, cl') := reserve cl ((c * samples_per_chunk) mod two64) in (ok2, sl', cl')
    else (false, sl', cl)
  end.

(* the store sends the responses in order and returns the first Send error:
   (number of responses forwarded, whether Series returned nil) *)
Fixpoint stream (sl cl : limiter) (rs : list resp) : N * bool :=
  match rs with
  | [] => (0, true)
  | r :: rest =>
    let '(ok, sl', cl') := send sl cl r in
    if ok then let '(n, fin) := stream sl' cl' rest in (n + 1, fin) else (0, false)
  end.

(* totals of a list of responses *)
Fixpoint totals (rs : list resp) : N * N :=
  match rs with
  | [] => (0, 0)
  | r :: rest =>
    let '(s, c) := totals rest in
    match counts r with
    | None => (s, c)
    | Some (s1, c1) => (s + s1, c + c1)
    end
  end.

Fixpoint sum_n (l : list N) : N := match l with [] => 0 | x :: r => x + sum_n r end.

(* ---- reservation schedule of BucketStore.Series --------------------------------------- *)

(* One block of the request, as its block client sees it: whether postings were expanded
   lazily (some matchers are left to be applied to the fetched series), and the fetched
   postings in order, each with: does the series pass the lazy matchers (always true when
   not lazy), and its number of chunks in the requested time range (0 = none).
   [reqlim] is SeriesRequest.Limit (0 = none), [bsz] the store's series batch size. *)
Record blockq := mkB { b_lazy : bool; b_entries : list (bool * N) }.

(* the loop of nextBatch over one batch, from seriesMatched = [matched]:
   (seriesMatched at the end, chunk reservations in order, entries appended, stopped by reqlim) *)
Fixpoint batch_go (skip : bool) (reqlim : N) (es : list (bool * N)) (matched : N) : N * list N * N * bool :=
  match es with
  | [] => (matched, [], 0, false)
  | (lm, k) :: r =>
    if negb lm || negb (0 <? k) then batch_go skip reqlim r matched      (* continue *)
    else
      let m' := matched + 1 in
      if (0 <? reqlim) && (reqlim <? m') then (m', [], 0, true)          (* hasMorePostings = false; break *)
      else
        let '(mf, cr, ne, st) := batch_go skip reqlim r m' in
        (mf, (if skip then cr else k :: cr), ne + 1, st)
  end.

(* postings[start:end] batches *)
Fixpoint chunked {A} (fuel : nat) (bsz : nat) (l : list A) : list (list A) :=
  match fuel with
  | O => []
  | S f => match l with
           | [] => []
           | _ => firstn bsz l :: chunked f bsz (skipn bsz l)
           end
  end.

(* successive nextBatch calls: (series reservations, chunk reservations, series returned) *)
Fixpoint batches_go (lazy skip : bool) (reqlim : N) (bs : list (list (bool * N))) : list N * list N * N :=
  match bs with
  | [] => ([], [], 0)
  | b :: r =>
    let '(m, cr, ne, st) := batch_go skip reqlim b 0 in
    let sres := if lazy then [m] else [] in                 (* lazy: seriesLimiter.Reserve(seriesMatched) per batch *)
    if st then (sres, cr, ne)
    else let '(s2, c2, n2) := batches_go lazy skip reqlim r in (sres ++ s2, cr ++ c2, ne + n2)
  end.

Definition block_run (bsz : nat) (skip : bool) (reqlim : N) (b : blockq) : list N * list N * N :=
  match b_entries b with
  | [] => ([], [], 0)                                       (* no postings: emptyLazyPostings, nothing reserved *)
  | es =>
    if b_lazy b then batches_go true skip reqlim (chunked (length es) (Nat.min bsz (length es)) es)
    else
      (* ExpandPostings: postings = postings[:seriesLimit] when longer; Reserve(len(postings)) *)
      let es' := if (0 <? reqlim) && (reqlim <? N.of_nat (length es)) then firstn (N.to_nat reqlim) es else es in
      let '(s, c, n) := batches_go false skip reqlim (chunked (length es') (Nat.min bsz (length es')) es') in
      (N.of_nat (length es') :: s, c, n)
  end.

Fixpoint request_run (bsz : nat) (skip : bool) (reqlim : N) (blocks : list blockq) : list N * list N * N :=
  match blocks with
  | [] => ([], [], 0)
  | b :: r =>
    let '(s1, c1, n1) := block_run bsz skip reqlim b in
    let '(s2, c2, n2) := request_run bsz skip reqlim r in
    (s1 ++ s2, c1 ++ c2, n1 + n2)
  end.

Definition series_reservations bsz skip reqlim blocks : list N := fst (fst (request_run bsz skip reqlim blocks)).
Definition chunk_reservations bsz skip reqlim blocks : list N := snd (fst (request_run bsz skip reqlim blocks)).
(* series sent by the block clients (before equal series of different blocks are merged and
   before the request's own Limit cuts the merged stream) *)
Definition returned_series bsz skip reqlim blocks : N := snd (request_run bsz skip reqlim blocks).

(* the request succeeds iff no reservation fails; all block clients share the two limiters *)
Definition store_ok (slimit climit : N) bsz skip reqlim blocks : bool :=
  forallb (fun b => b) (reserves (new_limiter slimit) (series_reservations bsz skip reqlim blocks)) &&
  forallb (fun b => b) (reserves (new_limiter climit) (chunk_reservations bsz skip reqlim blocks)).

(* what the blocks hold for the request: series passing all matchers with a chunk in range, and their chunks *)
Definition wanted (b : blockq) : list N :=
  map snd (filter (fun e : bool * N => fst e && (0 <? snd e)) (b_entries b)).
Definition true_series (blocks : list blockq) : N := N.of_nat (length (concat (map wanted blocks))).
Definition true_chunks (skip : bool) (blocks : list blockq) : N :=
  if skip then 0 else sum_n (concat (map wanted blocks)).

Fixpoint insert_sorted (x : N) (l : list N) : list N :=
  match l with
  | [] => [x]
  | y :: r => if x <=? y then x :: l else y :: insert_sorted x r
  end.
Definition sort_n (l : list N) : list N := fold_right insert_sorted [] l.

(* both lists sorted: every element of [a] is matched by a distinct equal element of [b] *)
Fixpoint sub_multiset (a b : list N) : bool :=
  match b with
  | [] => match a with [] => true | _ => false end
  | y :: b' => match a with
               | [] => true
               | x :: a' => if x =? y then sub_multiset a' b' else if y <? x then sub_multiset a b' else false
               end
  end.

(* ---- cases --------------------------------------------------------------------- *)

Inductive case :=
(* NewLimiter(limit) and the results (nil error?) of Reserve(n) for each n in turn *)
| CLimiter (limit : N) (nums : list N) (oks : list bool)
(* NewLimitedStoreServer with the two limits around a store that sends [rs]:
   how many responses reached the client stream, and whether Series returned nil *)
| CServer (slimit samples_limit : N) (rs : list resp) (forwarded : N) (ok : bool)
(* a real BucketStore.Series request over real blocks: the limits; SkipChunks; per selected
   block the chunk counts of the matched series (ground truth read with the Prometheus index
   reader); whether Series returned nil; whether the error was ResourceExhausted; the sorted
   arguments of all Reserve calls on the series / chunks limiter; series and chunks received
   by the client; distinct series and chunks the blocks hold for the request *)
| CStore (slimit climit : N) (bsz : nat) (skip : bool) (reqlim : N) (blocks : list blockq) (ok exhausted : bool)
         (sres cres : list N) (nseries nchunks tseries tchunks : N).

Definition corr_ok (c : case) : bool :=
  match c with
  | CLimiter limit nums oks => list_eqb Bool.eqb (reserves (new_limiter limit) nums) oks
  | CServer sl cl rs fwd ok =>
    let '(n, fin) := stream (new_limiter sl) (new_limiter cl) rs in (n =? fwd) && Bool.eqb fin ok
  | CStore sl cl bsz skip reqlim blocks ok _ sres cres nseries _ _ _ =>
    if reqlim =? 0 then
      Bool.eqb (store_ok sl cl bsz skip reqlim blocks) ok &&
      (* when the request ran to the end every reservation of the schedule was made, no other *)
      (if ok then list_eqb N.eqb (sort_n (series_reservations bsz skip reqlim blocks)) sres &&
                  list_eqb N.eqb (sort_n (chunk_reservations bsz skip reqlim blocks)) cres
       else true)
    else
      (* with a request Limit the merged stream is cut and later batches may never be asked for:
         the reservations made are some of the schedule's, the series sent at most the schedule's *)
      (if ok then (nseries <=? returned_series bsz skip reqlim blocks) &&
                  sub_multiset sres (sort_n (series_reservations bsz skip reqlim blocks)) &&
                  sub_multiset cres (sort_n (chunk_reservations bsz skip reqlim blocks))
       else negb (store_ok sl cl bsz skip reqlim blocks))
  end.

(* prefix sums stay within the limit exactly while the calls succeed *)
Fixpoint limiter_pred (limit acc : N) (nums : list N) (oks : list bool) : bool :=
  match nums, oks with
  | [], [] => true
  | n :: nr, ok :: okr => Bool.eqb ok (acc + n <=? limit) && limiter_pred limit (acc + n) nr okr
  | _, _ => false
  end.

Definition within (limit total : N) : bool := (limit =? 0) || (total <=? limit).

Definition pred_ok (c : case) : bool :=
  match c with
  | CLimiter limit nums oks =>
    if (limit =? 0) then forallb (fun b => b) oks && (length oks =? length nums)%nat
    else if sum_n nums <? two64 then limiter_pred limit 0 nums oks else true
  | CServer sl cl rs fwd ok =>
    let '(s_all, c_all) := totals rs in
    if (c_all * samples_per_chunk <? two64) && (s_all <? two64) then
      let '(s_fwd, c_fwd) := totals (firstn (N.to_nat fwd) rs) in
      (* what reached the client respects both limits *)
      within sl s_fwd && within cl (c_fwd * samples_per_chunk) &&
      (* success = everything was forwarded and the totals are within the limits;
         totals above a limit = an error, never a silently shortened stream *)
      Bool.eqb ok (within sl s_all && within cl (c_all * samples_per_chunk)) &&
      (if ok then fwd =? N.of_nat (length rs) else true)
    else true
  | CStore sl cl bsz skip reqlim blocks ok exhausted sres cres nseries nchunks tseries tchunks =>
    if ok then
      (* within the configured limits and the request's own Limit; without a request Limit nothing is missing *)
      within sl nseries && within cl nchunks && within reqlim nseries &&
      (if reqlim =? 0 then (nseries =? tseries) && (nchunks =? tchunks) else true)
    else
      (* refused with ResourceExhausted, and a limit really is exceeded by what the request reserves *)
      exhausted && negb (store_ok sl cl bsz skip reqlim blocks)
  end.
