(* C09 — model of pkg/store/limiter.go: Limiter.Reserve/ReserveWithType (cumulative
   atomic counter, 0 = unlimited) and limitedServer.Send (series, then samples =
   chunks * MaxSamplesPerChunk), driven by a stream of responses that stops at the
   first Send error (what a StoreServer.Series does with a failed Send).
   MaxSamplesPerChunk comes from Gen/C09.v. Executable definitions only. *)
From Coq Require Import ZArith NArith List Bool Lia.
Import ListNotations.
From Verif Require Import Lib.Corr Gen.C09.
Open Scope N_scope.

Definition two64 : N := 18446744073709551616.
Definition samples_per_chunk : N := Z.to_N MaxSamplesPerChunk.

Record limiter := mkL { lim : N; reserved : N }.
Definition new_limiter (limit : N) : limiter := mkL limit 0.

(* ReserveWithType: if l.limit == 0 { return nil }; if reserved := l.reserved.Add(num); reserved > l.limit { error }.
   atomic.Uint64.Add wraps modulo 2^64. true = nil error. *)
Definition reserve (l : limiter) (num : N) : bool * limiter :=
  if lim l =? 0 then (true, l)
  else let r := (reserved l + num) mod two64 in (r <=? lim l, mkL (lim l) r).

(* a sequence of Reserve calls on one limiter (all are issued) *)
Fixpoint reserves (l : limiter) (nums : list N) : list bool :=
  match nums with
  | [] => []
  | n :: r => let '(ok, l') := reserve l n in ok :: reserves l' r
  end.

(* storepb.SeriesResponse as seen by limitedServer.Send *)
Inductive resp :=
| RSeries (chunks : N)                       (* one series with that many chunks *)
| RBatch (entries : list (option N))         (* batch; None = nil entry (skipped) *)
| ROther.                                    (* warning / hints: passed through *)

Fixpoint batch_counts (es : list (option N)) : N * N :=
  match es with
  | [] => (0, 0)
  | None :: r => batch_counts r
  | Some k :: r => let '(s, c) := batch_counts r in (s + 1, c + k)
  end.

Definition counts (r : resp) : option (N * N) :=
  match r with
  | RSeries k => Some (1, k)
  | RBatch es => Some (batch_counts es)
  | ROther => None
  end.

(* limitedServer.Send: true = forwarded upstream without error *)
Definition send (sl cl : limiter) (r : resp) : bool * limiter * limiter :=
  match counts r with
  | None => (true, sl, cl)
  | Some (s, c) =>
    let '(ok1, sl') := reserve sl s in
    if ok1 then
      let '(ok2, cl') := reserve cl ((c * samples_per_chunk) mod two64) in (ok2, sl', cl')
    else (false, sl', cl)
  end.

(* the store sends the responses in order and returns the first Send error:
   (number of responses forwarded, whether Series returned nil) *)
Fixpoint stream (sl cl : limiter) (rs : list resp) : N * bool :=
  match rs with
  | [] => (0, true)
  | r :: rest =>
    let '(ok, sl', cl') := send sl cl r in
    if ok then let '(n, fin) := stream sl' cl' rest in (n + 1, fin) else (0, false)
  end.

(* totals of a list of responses *)
Fixpoint totals (rs : list resp) : N * N :=
  match rs with
  | [] => (0, 0)
  | r :: rest =>
    let '(s, c) := totals rest in
    match counts r with
    | None => (s, c)
    | Some (s1, c1) => (s + s1, c + c1)
    end
  end.

Fixpoint sum_n (l : list N) : N := match l with [] => 0 | x :: r => x + sum_n r end.

(* ---- reservation schedule of BucketStore.Series (eager postings) ------------------ *)

(* A block of the request = the series matched by the postings, in postings order, each
   with its number of chunks in the requested time range (0 = none: the series is not
   returned). blockSeriesClient.ExpandPostings reserves len(postings) series (nothing when
   there are no postings); nextBatch reserves len(chkMetas) chunks for every series that
   has chunks, unless the request skips chunks. All block clients share the two limiters. *)
Definition series_reservations (blocks : list (list N)) : list N :=
  filter (fun n => 0 <? n) (map (fun b => N.of_nat (length b)) blocks).

Definition chunk_reservations (skip : bool) (blocks : list (list N)) : list N :=
  if skip then [] else filter (fun k => 0 <? k) (concat blocks).

(* the request succeeds iff no reservation fails; reservations only accumulate *)
Definition store_ok (slimit climit : N) (skip : bool) (blocks : list (list N)) : bool :=
  forallb (fun b => b) (reserves (new_limiter slimit) (series_reservations blocks)) &&
  forallb (fun b => b) (reserves (new_limiter climit) (chunk_reservations skip blocks)).

(* series / chunks a successful request sends before merging equal series of different blocks *)
Definition returned_series (blocks : list (list N)) : N :=
  N.of_nat (length (filter (fun k => 0 <? k) (concat blocks))).
Definition returned_chunks (skip : bool) (blocks : list (list N)) : N :=
  if skip then 0 else sum_n (concat blocks).

Fixpoint insert_sorted (x : N) (l : list N) : list N :=
  match l with
  | [] => [x]
  | y :: r => if x <=? y then x :: l else y :: insert_sorted x r
  end.
Definition sort_n (l : list N) : list N := fold_right insert_sorted [] l.

(* ---- cases --------------------------------------------------------------------- *)

Inductive case :=
(* NewLimiter(limit) and the results (nil error?) of Reserve(n) for each n in turn *)
| CLimiter (limit : N) (nums : list N) (oks : list bool)
(* NewLimitedStoreServer with the two limits around a store that sends [rs]:
   how many responses reached the client stream, and whether Series returned nil *)
| CServer (slimit samples_limit : N) (rs : list resp) (forwarded : N) (ok : bool)
(* a real BucketStore.Series request over real blocks: the limits; SkipChunks; per selected
   block the chunk counts of the matched series (ground truth read with the Prometheus index
   reader); whether Series returned nil; whether the error was ResourceExhausted; the sorted
   arguments of all Reserve calls on the series / chunks limiter; series and chunks received
   by the client; distinct series and chunks the blocks hold for the request *)
| CStore (slimit climit : N) (skip : bool) (blocks : list (list N)) (ok exhausted : bool)
         (sres cres : list N) (nseries nchunks true_series true_chunks : N).

Definition corr_ok (c : case) : bool :=
  match c with
  | CLimiter limit nums oks => list_eqb Bool.eqb (reserves (new_limiter limit) nums) oks
  | CServer sl cl rs fwd ok =>
    let '(n, fin) := stream (new_limiter sl) (new_limiter cl) rs in (n =? fwd) && Bool.eqb fin ok
  | CStore sl cl skip blocks ok _ sres cres _ _ _ _ =>
    Bool.eqb (store_ok sl cl skip blocks) ok &&
    (* when the request ran to the end every reservation of the schedule was made, no other *)
    (if ok then list_eqb N.eqb (sort_n (series_reservations blocks)) sres &&
                list_eqb N.eqb (sort_n (chunk_reservations skip blocks)) cres
     else true)
  end.

(* prefix sums stay within the limit exactly while the calls succeed *)
Fixpoint limiter_pred (limit acc : N) (nums : list N) (oks : list bool) : bool :=
  match nums, oks with
  | [], [] => true
  | n :: nr, ok :: okr => Bool.eqb ok (acc + n <=? limit) && limiter_pred limit (acc + n) nr okr
  | _, _ => false
  end.

Definition within (limit total : N) : bool := (limit =? 0) || (total <=? limit).

Definition pred_ok (c : case) : bool :=
  match c with
  | CLimiter limit nums oks =>
    if (limit =? 0) then forallb (fun b => b) oks && (length oks =? length nums)%nat
    else if sum_n nums <? two64 then limiter_pred limit 0 nums oks else true
  | CServer sl cl rs fwd ok =>
    let '(s_all, c_all) := totals rs in
    if (c_all * samples_per_chunk <? two64) && (s_all <? two64) then
      let '(s_fwd, c_fwd) := totals (firstn (N.to_nat fwd) rs) in
      (* what reached the client respects both limits *)
      within sl s_fwd && within cl (c_fwd * samples_per_chunk) &&
      (* success = everything was forwarded and the totals are within the limits;
         totals above a limit = an error, never a silently shortened stream *)
      Bool.eqb ok (within sl s_all && within cl (c_all * samples_per_chunk)) &&
      (if ok then fwd =? N.of_nat (length rs) else true)
    else true
  | CStore sl cl skip blocks ok exhausted sres cres nseries nchunks tseries tchunks =>
    if ok then
      (* within the limits, and nothing missing *)
      within sl nseries && within cl nchunks && (nseries =? tseries) && (nchunks =? tchunks)
    else
      (* refused with ResourceExhausted, and a limit really is exceeded by what the request needs *)
      exhausted && negb (store_ok sl cl skip blocks)
  end.
