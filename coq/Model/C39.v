(* C39 — model of pkg/compact/downsample/aggr.go: EncodeAggrChunk and
   AggrChunk.Get, on bytes ([list N], one N per byte), together with
   encoding/binary's PutUvarint / Uvarint as they are written in the Go
   standard library.  Executable definitions only.

   Two variants of Get are modelled:
     [get]          the code WITH the repair delivered as C39-fix.patch
                    (zero-length test before the size test);
     [get_presize]  the code as found at the pinned commit (size test first),
                    kept to state the defect as a theorem (C39_..._refuted).
   Gen/C39.v (regenerated from the source tree on every run) supplies the list
   of encodings chunkenc.FromData accepts and the source-order event list of
   Get, from which [get_order_ok] decides that the zero-length test precedes
   the size test in the source. *)
From Coq Require Import ZArith NArith String List Bool Lia.
Import ListNotations.
From Verif Require Import Lib.Corr Gen.C39.
Open Scope N_scope.

(* ---- encoding/binary ---- *)

(* PutUvarint: for x >= 0x80 { buf[i] = byte(x)|0x80; x >>= 7; i++ }; buf[i] = byte(x).
   A uint64 needs at most 10 bytes, so fuel 10 is enough for every x < 2^64
   (lemma put_uvarint_fuel in Proofs). *)
Fixpoint put_uvarint_f (fuel : nat) (x : N) : list N :=
  match fuel with
  | O => [x]
  | S f => if x <? 128 then [x] else (N.lor (x mod 256) 128) :: put_uvarint_f f (N.shiftr x 7)
  end.

Definition put_uvarint (x : N) : list N := put_uvarint_f 10 x.

(* Uvarint: returns (value, n); n = 0: buffer too small; n < 0: overflow.
   i = index of the byte, s = 7*i the shift. *)
Fixpoint uvarint_go (buf : list N) (i : nat) (x s : N) : N * Z :=
  match buf with
  | [] => (0, 0%Z)
  | b :: r =>
      if Nat.eqb i 10 then (0, (- (Z.of_nat i + 1))%Z)
      else if b <? 128 then
        if Nat.eqb i 9 && (1 <? b) then (0, (- (Z.of_nat i + 1))%Z)
        else (N.lor x (N.shiftl b s), (Z.of_nat i + 1)%Z)
      else uvarint_go r (S i) (N.lor x (N.shiftl (N.land b 127) s)) (s + 7)
  end.

Definition uvarint (buf : list N) : N * Z := uvarint_go buf 0 0 0.

(* int(l) for a uint64 l: two's complement reinterpretation *)
Definition to_int64 (l : N) : Z :=
  if l <? 2 ^ 63 then Z.of_N l else (Z.of_N l - 2 ^ 64)%Z.

(* int(l)+1 in int64 arithmetic (wraps at MaxInt64) *)
Definition int_l_plus_1 (l : N) : Z :=
  let m := (to_int64 l + 1)%Z in
  if (m <? 2 ^ 63)%Z then m else (m - 2 ^ 64)%Z.

(* ---- EncodeAggrChunk ---- *)

(* one aggregate slot: None = nil chunk; Some (encoding byte, Bytes()) *)
Definition sub : Type := option (N * list N).

(* the [8]byte scratch buffer: PutUvarint panics when more than 8 bytes are needed *)
Definition uvarint_buf_len : nat := 8.

(* None = the Go code panics (length needs more than 8 uvarint bytes) *)
Fixpoint encode (chks : list sub) : option (list N) :=
  match chks with
  | [] => Some []
  | None :: r =>
      match encode r with
      | Some tl => Some (put_uvarint 0 ++ tl)
      | None => None
      end
  | Some (e, d) :: r =>
      let u := put_uvarint (N.of_nat (length d)) in
      if Nat.ltb uvarint_buf_len (length u) then None
      else match encode r with
           | Some tl => Some (u ++ e :: d ++ tl)
           | None => None
           end
  end.

(* ---- AggrChunk.Get ---- *)

Inductive get_res :=
| GOk (enc : N) (data : list N)   (* chunkenc.FromData(enc, data) succeeded *)
| GNotExist                      (* ErrAggrNotExist *)
| GErr                           (* any other error ("invalid size", FromData's "invalid chunk encoding") *)
| GPanic.                        (* slice bounds / index out of range on corrupted input *)

Definition from_data (x : list N) : get_res :=
  match x with
  | [] => GPanic                                   (* x[0] *)
  | e :: d => if existsb (N.eqb e) valid_encodings then GOk e d else GErr
  end.

(* the loop `for i := 0; i <= t; i++`; k = t - i iterations remain after this one.
   Repaired order: n < 1, zero-length test, then the size test. *)
Fixpoint get_loop (k : nat) (b : list N) : get_res :=
  let '(l, n) := uvarint b in
  if (n <? 1)%Z then GErr else
  let b := skipn (Z.to_nat n) b in
  if l =? 0 then
    match k with O => GNotExist | S k' => get_loop k' b end
  else
    let m := int_l_plus_1 l in
    if (Z.of_nat (length b) <? m)%Z then GErr
    else if (m <? 0)%Z then GPanic                 (* b[:int(l)+1] with a negative bound *)
    else
      let x := firstn (Z.to_nat m) b in
      let b := skipn (Z.to_nat m) b in
      match k with O => from_data x | S k' => get_loop k' b end.

Definition get (t : nat) (b : list N) : get_res := get_loop t b.

(* the code as found: `if n < 1 || len(b[n:]) < int(l)+1 { invalid size }` first *)
Fixpoint get_presize_loop (k : nat) (b : list N) : get_res :=
  let '(l, n) := uvarint b in
  let m := int_l_plus_1 l in
  if (n <? 1)%Z || (Z.of_nat (length (skipn (Z.to_nat n) b)) <? m)%Z then GErr else
  let b := skipn (Z.to_nat n) b in
  if l =? 0 then
    match k with O => GNotExist | S k' => get_presize_loop k' b end
  else
    if (m <? 0)%Z then GPanic
    else
      let x := firstn (Z.to_nat m) b in
      let b := skipn (Z.to_nat m) b in
      match k with O => from_data x | S k' => get_presize_loop k' b end.

Definition get_presize (t : nat) (b : list N) : get_res := get_presize_loop t b.

(* ---- tie T: statement order inside Get (from Gen.C39.Get_events) ---- *)

Fixpoint index_of (p : string * string -> bool) (l : list (string * string)) (i : nat) : option nat :=
  match l with
  | [] => None
  | e :: r => if p e then Some i else index_of p r (S i)
  end.

Fixpoint contains (needle hay : string) : bool :=
  match hay with
  | EmptyString => match needle with EmptyString => true | _ => false end
  | String _ r => prefix needle hay || contains needle r
  end.

Definition is_if (needle : string) (e : string * string) : bool :=
  String.eqb (fst e) "if" && contains needle (snd e).

(* the `l == 0` test comes before the test mentioning `int(l)+1`, and the first
   test of the loop body is on `n < 1` only *)
Definition get_order_ok : bool :=
  match index_of (is_if "l == 0") Get_events 0, index_of (is_if "int(l)+1") Get_events 0 with
  | Some a, Some b => Nat.ltb a b
  | _, _ => false
  end.

(* ---- cases ---- *)

Inductive case :=
(* EncodeAggrChunk(chks).Bytes() = out, and gets = [Get(0); ...; Get(5)] on it *)
| CEnc (chks : list sub) (out : list N) (gets : list get_res)
(* AggrChunk(bytes).Get(t) on an arbitrary (possibly corrupted) byte string *)
| CGet (bytes : list N) (t : nat) (res : get_res).

Definition bytes_eqb : list N -> list N -> bool := list_eqb N.eqb.

Definition get_res_eqb (a b : get_res) : bool :=
  match a, b with
  | GOk e d, GOk e' d' => (e =? e') && bytes_eqb d d'
  | GNotExist, GNotExist => true
  | GErr, GErr => true
  | GPanic, GPanic => true
  | _, _ => false
  end.

Definition corr_ok (c : case) : bool :=
  match c with
  | CEnc chks out gets =>
      option_eqb bytes_eqb (encode chks) (Some out)
      && list_eqb get_res_eqb (map (fun t => get t out) (seq 0 6)) gets
  | CGet b t res => get_res_eqb (get t b) res
  end.

(* well-formed slot, as every chunkenc.Chunk implementation guarantees: a
   present chunk has at least one byte (XOR/histogram chunks start with a
   2-byte sample count) and carries an encoding FromData knows *)
Definition sub_wf (s : sub) : bool :=
  match s with
  | None => true
  | Some (e, d) => negb (Nat.eqb (length d) 0) && existsb (N.eqb e) valid_encodings
                   && (N.of_nat (length d) <? 2 ^ 56)
  end.

Definition expected (s : sub) : get_res :=
  match s with
  | None => GNotExist
  | Some (e, d) => GOk e d
  end.

(* the property on the implementation's own observables: every present
   aggregate is returned unchanged, every absent one is ErrAggrNotExist *)
Definition pred_ok (c : case) : bool :=
  match c with
  | CEnc chks _ gets =>
      if forallb sub_wf chks
      then list_eqb get_res_eqb (firstn (length chks) gets) (map expected chks)
      else true
  | CGet _ _ _ => true
  end.
