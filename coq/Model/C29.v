(* C29 — Compaction never loses or invents data, even if it crashes.
   Block-level model of the bucket as the compactor, the blocks cleaner and a
   store gateway see it: a visible block has the set of original (level-1)
   blocks it was built from ([sources]), its samples and possibly a deletion
   mark. A history is a sequence of block-level events
       HAdd  (a compaction result became visible: its meta.json was uploaded)
       HMark (a deletion mark was uploaded)
       HDel  (the block's meta.json was deleted)
   and is LEGAL when every event satisfies the guard below in the state where it
   happens (what Group.compact, Syncer.GarbageCollect and BlocksCleaner are
   allowed to do). The theorems quantify over every legal history and every
   prefix of it (= every crash point, and every restart continues a legal
   history). The order of the calls in Group.compact / deleteBlock /
   BucketCompactor.Compact is pinned by the lists of Gen/C29.v.
   Executable definitions only. *)
From Coq Require Import ZArith NArith List Bool String.
Import ListNotations.
From Verif Require Import Lib.Corr Gen.C29.
From Verif Require Model.C31.

(* ---- tie T ---- *)
Definition ev_eqb (a b : string * string) : bool :=
  String.eqb (fst a) (fst b) && String.eqb (snd a) (snd b).

(* result uploaded before the sources are retired; sources are retired by a deletion
   mark, never by deleting; cleaning of marked blocks and garbage collection happen
   after a fresh sync and before grouping *)
Definition order_ok : bool :=
  list_eqb ev_eqb compact_calls
    [("block.Download", "meta.ULID"); ("comp.CompactWithBlockPopulator", "toCompactDirs");
     ("cg.deleteBlock", "meta.ULID"); ("block.Upload", "bdir"); ("cg.deleteBlock", "meta.ULID")]%string
  && list_eqb ev_eqb deleteBlock_calls
    [("os.RemoveAll", "bdir"); ("block.MarkForDeletion", "id")]%string
  && list_eqb ev_eqb bucket_compact_calls
    [("g.Compact", "workCtx"); ("c.sy.SyncMetas", "ctx"); ("c.blocksCleaner.DeleteMarkedBlocks", "ctx");
     ("c.sy.GarbageCollect", "ctx"); ("c.grouper.Groups", "c.sy.Metas()")]%string
  (* on any error of the result upload (also a cancelled context: graceful shutdown) Group.compact
     returns at once - nothing between the upload and the marking of the sources carries on *)
  && list_eqb ev_eqb after_upload
    [("return", "block.Upload(ctx, cg.logger, cg.bkt, bdir, cg.hashFunc, objstore.WithUploadConcurrency(cg.blockFilesConcurrency))");
     ("if", "err != nil");
     ("return", "false, nil, retry(errors.Wrapf(err, ""upload of %s failed"", compID))");
     ("endif", "")]%string.

(* ---- samples and finite sets as lists ---- *)
Definition sample := (N * Z * Z)%type.     (* series, timestamp, value *)
Definition sm (s : N) (t v : Z) : sample := (s, t, v).

Definition sample_eqb (a b : sample) : bool :=
  N.eqb (fst (fst a)) (fst (fst b)) && Z.eqb (snd (fst a)) (snd (fst b)) && Z.eqb (snd a) (snd b).

Fixpoint mem {A} (eqb : A -> A -> bool) (x : A) (l : list A) : bool :=
  match l with [] => false | y :: r => eqb x y || mem eqb x r end.
Definition subset {A} (eqb : A -> A -> bool) (a b : list A) : bool := forallb (fun x => mem eqb x b) a.
Definition seteq {A} (eqb : A -> A -> bool) (a b : list A) : bool := subset eqb a b && subset eqb b a.
Definition disjoint {A} (eqb : A -> A -> bool) (a b : list A) : bool := forallb (fun x => negb (mem eqb x b)) a.
Fixpoint nodup {A} (eqb : A -> A -> bool) (l : list A) : bool :=
  match l with [] => true | x :: r => negb (mem eqb x r) && nodup eqb r end.

Definition memN := mem N.eqb.
Definition subN := subset N.eqb.
Definition memS := mem sample_eqb.
Definition subS := subset sample_eqb.

(* ---- state ---- *)
(* a visible block: sources, samples, deletion mark; compaction group (external labels and
   resolution), compaction level, time range [mint, maxt) *)
Record mb := mkmb { m_sources : list N; m_samples : list sample; m_marked : bool;
                    m_group : N; m_level : Z; m_mint : Z; m_maxt : Z }.
Definition state := list (N * mb).

Fixpoint find (st : state) (id : N) : option mb :=
  match st with [] => None | (i, b) :: r => if N.eqb id i then Some b else find r id end.
Fixpoint remove (st : state) (id : N) : state :=
  match st with [] => [] | (i, b) :: r => if N.eqb id i then remove r id else (i, b) :: remove r id end.
Definition set_marked (st : state) (id : N) : state :=
  map (fun p => if N.eqb (fst p) id then (fst p, mkmb (m_sources (snd p)) (m_samples (snd p)) true (m_group (snd p)) (m_level (snd p)) (m_mint (snd p)) (m_maxt (snd p))) else p) st.

Record cblk := mkcb { cb_sources : list N; cb_parents : list N; cb_samples : list sample;
                      cb_group : N; cb_level : Z; cb_mint : Z; cb_maxt : Z }.
Inductive hop := HAdd (id : N) (b : cblk) | HMark (id : N) | HDel (id : N).

Definition apply_hop (st : state) (o : hop) : state :=
  match o with
  | HAdd id b => st ++ [(id, mkmb (cb_sources b) (cb_samples b) false (cb_group b) (cb_level b) (cb_mint b) (cb_maxt b))]
  | HMark id => set_marked st id
  | HDel id => remove st id
  end.

Fixpoint all_some_mb (l : list (option mb)) : option (list mb) :=
  match l with
  | [] => Some []
  | None :: _ => None
  | Some x :: r => match all_some_mb r with Some y => Some (x :: y) | None => None end
  end.
Definition parents_of (st : state) (ps : list N) : option (list mb) := all_some_mb (map (find st) ps).

Definition has (st : state) (id : N) : bool := match find st id with Some _ => true | None => false end.

Fixpoint pairwise_disjoint (l : list (list N)) : bool :=
  match l with
  | [] => true
  | a :: r => forallb (fun b => disjoint N.eqb a b) r && pairwise_disjoint r
  end.

(* ---- what the compactor may do ---- *)
Definition hop_ok (st : state) (o : hop) : bool :=
  match o with
  | HAdd id b =>
      (* a new block: built from visible parent blocks; its sources are theirs; its samples are
         exactly theirs, each once (overlapping identical samples merged) *)
      negb (has st id)
      && match parents_of st (cb_parents b) with
         | None => false
         | Some ps =>
             match ps with [] => false | _ => true end
             && seteq N.eqb (cb_sources b) (List.concat (map m_sources ps))
             && seteq sample_eqb (cb_samples b) (List.concat (map m_samples ps))
             && nodup sample_eqb (cb_samples b)
             (* the parents are blocks the duplicate filter lets through: none is strictly
                contained in another visible block, and no two share a source *)
             && forallb (fun p => forallb (fun q => negb (subN (m_sources p) (m_sources (snd q)))
                                                    || subN (m_sources (snd q)) (m_sources p)) st) ps
             && pairwise_disjoint (map m_sources ps)
             (* same compaction group as every parent; the time range contains theirs *)
             && forallb (fun p => N.eqb (m_group p) (cb_group b)
                                  && Z.leb (cb_mint b) (m_mint p) && Z.leb (m_maxt p) (cb_maxt b)) ps
         end
  | HMark id =>
      (* a block is retired only when another visible, unmarked block contains all its sources *)
      match find st id with
      | Some a => existsb (fun p => negb (N.eqb (fst p) id) && negb (m_marked (snd p))
                                    && subN (m_sources a) (m_sources (snd p))) st
      | None => false
      end
  | HDel id =>
      (* only marked blocks are deleted *)
      match find st id with Some a => m_marked a | None => false end
  end.

(* ---- cases ---- *)
(* metadata of the original blocks: compaction group, time range *)
Record ometa := mkom { og : N; omint : Z; omaxt : Z }.
Definition om (id : N) (g : N) (mint maxt : Z) : N * ometa := (id, mkom g mint maxt).
Fixpoint ometa_of (G : list (N * ometa)) (id : N) : ometa :=
  match G with [] => mkom 0 0 0 | (i, m) :: r => if N.eqb id i then m else ometa_of r id end.

Definition ib (id : N) (l : list sample) : N * list sample := (id, l).

(* after an event: what a store gateway's fetcher selects, with deletion marks hidden at once
   (sel0) and never (sel1) *)
Definition step := (hop * list N * list N)%type.
Definition mkstep (o : hop) (sel0 sel1 : list N) : step := (o, sel0, sel1).

Inductive case :=
| CHist (vertical : bool) (G : list (N * ometa)) (init : list (N * list sample)) (sel0 sel1 : list N)
        (steps : list step) (quiescent : bool)
  (* replicated streams compacted with deduplication (replica label removed by the compactor,
     penalty merge): exact = the replicas carry identical samples *)
| CHistD (exact : bool) (G : list (N * ometa)) (init : list (N * list sample)) (sel0 sel1 : list N)
        (steps : list step) (quiescent : bool).

Definition init_state (G : list (N * ometa)) (init : list (N * list sample)) : state :=
  map (fun p => let m := ometa_of G (fst p) in
                (fst p, mkmb [fst p] (snd p) false (og m) 1 (omint m) (omaxt m))) init.

(* ---- the store gateway's selection: deletion-mark filter, then DefaultDeduplicateFilter
   (the model of property C31, imported) ---- *)
Definition eligible (hide : bool) (st : state) : state :=
  filter (fun p => negb (hide && m_marked (snd p))) st.

Definition to31 (p : N * mb) : C31.blk :=
  C31.mk_blk (Z.of_N (fst p)) (Z.of_N (m_group (snd p))) (map Z.of_N (m_sources (snd p))) (m_level (snd p)).

Definition sg_select (st : state) (hide : bool) : list N :=
  let e := eligible hide st in
  let l := map to31 e in
  map fst (filter (fun p => negb (C31.hidden l (to31 p))) e).

Definition sel_eq (a b : list N) : bool := seteq N.eqb a b.

(* ---- deduplicating compaction of replicated streams: the result is a subset of the parents'
   samples that keeps every series (penalty deduplication picks one replica at a time); its
   compaction group (labels without the replica label) differs from the parents' ---- *)
Definition series_of (s : sample) : N := fst (fst s).

Definition hop_ok_dd (st : state) (o : hop) : bool :=
  match o with
  | HAdd id b =>
      negb (has st id)
      && match parents_of st (cb_parents b) with
         | None => false
         | Some ps =>
             match ps with [] => false | _ => true end
             && seteq N.eqb (cb_sources b) (List.concat (map m_sources ps))
             && subS (cb_samples b) (List.concat (map m_samples ps))
             && forallb (fun s => existsb (fun s' => N.eqb (series_of s') (series_of s)) (cb_samples b))
                        (List.concat (map m_samples ps))
             && nodup sample_eqb (cb_samples b)
         end
  | _ => hop_ok st o
  end.

Fixpoint legal_dd (st : state) (l : list hop) : bool :=
  match l with
  | [] => true
  | o :: r => hop_ok_dd st o && legal_dd (apply_hop st o) r
  end.

Fixpoint legal (st : state) (l : list hop) : bool :=
  match l with
  | [] => true
  | o :: r => hop_ok st o && legal (apply_hop st o) r
  end.

(* the observed selections are the ones the model of the filter chain computes *)
Fixpoint sel_steps (st : state) (l : list step) : bool :=
  match l with
  | [] => true
  | (o, s0, s1) :: r =>
      let st' := apply_hop st o in
      sel_eq s0 (sg_select st' true) && sel_eq s1 (sg_select st' false) && sel_steps st' r
  end.

Definition in_range (mint maxt : Z) (s : sample) : bool := Z.leb mint (snd (fst s)) && Z.ltb (snd (fst s)) maxt.

Definition corr_ok (c : case) : bool :=
  match c with
  | CHist _ G init s0 s1 steps _ =>
      order_ok && nodup N.eqb (map fst init) && forallb (fun p => nodup sample_eqb (snd p)) init
      && legal (init_state G init) (map (fun s => fst (fst s)) steps)
      (* the samples of an original block lie in its time range *)
      && forallb (fun p => forallb (in_range (omint (ometa_of G (fst p))) (omaxt (ometa_of G (fst p)))) (snd p)) init
      && sel_eq s0 (sg_select (init_state G init) true) && sel_eq s1 (sg_select (init_state G init) false)
      && sel_steps (init_state G init) steps
  | CHistD _ G init s0 s1 steps _ =>
      order_ok && nodup N.eqb (map fst init) && forallb (fun p => nodup sample_eqb (snd p)) init
      && legal_dd (init_state G init) (map (fun s => fst (fst s)) steps)
      && sel_eq s0 (sg_select (init_state G init) true) && sel_eq s1 (sg_select (init_state G init) false)
      && sel_steps (init_state G init) steps
  end.

(* ---- the property on the observed selections ---- *)
(* what C31 guarantees of the duplicate filter: only eligible blocks are selected and every
   eligible block's sources are contained in a selected block's *)
Definition cover_ok (st : state) (hide : bool) (sel : list N) : bool :=
  forallb (fun id => memN id (map fst (eligible hide st))) sel
  && forallb (fun p => existsb (fun id => match find st id with
                                          | Some b => subN (m_sources (snd p)) (m_sources b)
                                          | None => false end) sel) (eligible hide st).

(* no selected block's sources are contained in another selected block's *)
Definition antichain_ok (st : state) (sel : list N) : bool :=
  nodup N.eqb sel &&
  forallb (fun i => forallb (fun j => N.eqb i j ||
     match find st i, find st j with
     | Some a, Some c => negb (subN (m_sources a) (m_sources c))
     | _, _ => false
     end) sel) sel.

Definition served_by (st : state) (sel : list N) (s : sample) : bool :=
  existsb (fun id => match find st id with Some b => memS s (m_samples b) | None => false end) sel.

(* every original sample is served; every served sample is an original one *)
Definition served_ok (init : list (N * list sample)) (st : state) (sel : list N) : bool :=
  forallb (fun p => forallb (served_by st sel) (snd p)) init
  && forallb (fun id => match find st id with
                        | Some b => forallb (fun s => existsb (fun p => memS s (snd p)) init) (m_samples b)
                        | None => false end) sel.

Definition served_list (st : state) (sel : list N) : list sample :=
  List.concat (map (fun id => match find st id with Some b => m_samples b | None => [] end) sel).

Fixpoint cover_steps (st : state) (l : list step) : bool :=
  match l with
  | [] => true
  | (o, s0, s1) :: r =>
      let st' := apply_hop st o in
      cover_ok st' true s0 && cover_ok st' false s1
      && antichain_ok st' s0 && antichain_ok st' s1 && cover_steps st' r
  end.

Fixpoint served_steps (init : list (N * list sample)) (st : state) (l : list step) : bool :=
  match l with
  | [] => true
  | (o, s0, s1) :: r =>
      let st' := apply_hop st o in
      served_ok init st' s0 && served_ok init st' s1 && served_steps init st' r
  end.

(* the state and the two selections after the last event *)
Fixpoint last_view (st : state) (s0 s1 : list N) (l : list step) : state * list N * list N :=
  match l with
  | [] => (st, s0, s1)
  | (o, a, b) :: r => last_view (apply_hop st o) a b r
  end.

Definition cover_all (c : case) : bool :=
  match c with
  | CHist _ G init s0 s1 steps _ =>
      cover_ok (init_state G init) true s0 && cover_ok (init_state G init) false s1
      && antichain_ok (init_state G init) s0 && antichain_ok (init_state G init) s1
      && cover_steps (init_state G init) steps
  | CHistD _ _ _ _ _ _ _ => true
  end.

Definition served_all (c : case) : bool :=
  match c with
  | CHist _ G init s0 s1 steps _ =>
      served_ok init (init_state G init) s0 && served_ok init (init_state G init) s1
      && served_steps init (init_state G init) steps
  | CHistD _ _ _ _ _ _ _ => true
  end.

(* once compaction has finished every sample is served exactly once *)
Definition once_ok (c : case) : bool :=
  match c with
  | CHist _ G init s0 s1 steps q =>
      if q then
        match last_view (init_state G init) s0 s1 steps with
        | (st, f0, f1) => nodup sample_eqb (served_list st f0) && nodup sample_eqb (served_list st f1)
        end
      else true
  | CHistD _ _ _ _ _ _ _ => true
  end.

(* compaction has finished (also vertical compaction): no two selected blocks of one
   compaction group overlap in time - the planner finds nothing to merge *)
Definition ranges_meet (a c : mb) : bool := Z.ltb (m_mint a) (m_maxt c) && Z.ltb (m_mint c) (m_maxt a).
Definition quiet_ok (st : state) (sel : list N) : bool :=
  nodup N.eqb sel &&
  forallb (fun i => forallb (fun j => N.eqb i j ||
     match find st i, find st j with
     | Some a, Some c => negb (N.eqb (m_group a) (m_group c)) || negb (ranges_meet a c)
     | _, _ => false
     end) sel) sel.

Definition quiet_all (c : case) : bool :=
  match c with
  | CHist _ G init s0 s1 steps q =>
      if q then
        match last_view (init_state G init) s0 s1 steps with
        | (st, f0, f1) => quiet_ok st f0 && quiet_ok st f1
        end
      else true
  | CHistD _ _ _ _ _ _ _ => true
  end.

(* original blocks of different compaction groups (different external labels) share no sample *)
Definition groups_disjoint_b (G : list (N * ometa)) (init : list (N * list sample)) : bool :=
  forallb (fun p => forallb (fun q => N.eqb (og (ometa_of G (fst p))) (og (ometa_of G (fst q)))
                                      || disjoint sample_eqb (snd p) (snd q)) init) init.

(* the original blocks share no sample (no overlapping input) *)
Fixpoint orig_disjoint_b (init : list (N * list sample)) : bool :=
  match init with
  | [] => true
  | p :: r => forallb (fun q => disjoint sample_eqb (snd p) (snd q)) r && orig_disjoint_b r
  end.

(* ---- replicated streams: nothing is invented, no series disappears ---- *)
Definition dd_ok (init : list (N * list sample)) (st : state) (sel : list N) : bool :=
  forallb (fun p => forallb (fun s =>
     existsb (fun id => match find st id with
                        | Some b => existsb (fun s' => N.eqb (series_of s') (series_of s)) (m_samples b)
                        | None => false end) sel) (snd p)) init
  && forallb (fun id => match find st id with
                        | Some b => forallb (fun s => existsb (fun p => memS s (snd p)) init) (m_samples b)
                        | None => false end) sel.

Fixpoint dd_steps (init : list (N * list sample)) (st : state) (l : list step) : bool :=
  match l with
  | [] => true
  | (o, s0, s1) :: r =>
      let st' := apply_hop st o in
      dd_ok init st' s0 && dd_ok init st' s1 && dd_steps init st' r
  end.

(* identical replicas: every compaction result holds exactly the parents' samples *)
Fixpoint exact_steps (st : state) (l : list step) : bool :=
  match l with
  | [] => true
  | (o, _, _) :: r =>
      (match o with
       | HAdd _ b => match parents_of st (cb_parents b) with
                     | Some ps => seteq sample_eqb (cb_samples b) (List.concat (map m_samples ps))
                     | None => false end
       | _ => true end) && exact_steps (apply_hop st o) r
  end.

Definition dd_all (c : case) : bool :=
  match c with
  | CHist _ _ _ _ _ _ _ => true
  | CHistD _ G init s0 s1 steps _ =>
      dd_ok init (init_state G init) s0 && dd_ok init (init_state G init) s1 && dd_steps init (init_state G init) steps
  end.

Definition exact_all (c : case) : bool :=
  match c with
  | CHistD true G init _ _ steps _ => exact_steps (init_state G init) steps
  | _ => true
  end.

Definition pred_ok (c : case) : bool :=
  cover_all c && served_all c && quiet_all c && once_ok c && dd_all c && exact_all c.
