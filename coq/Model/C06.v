(* C06 — Partial-response strategy is honoured under store failures.
   Same executable model of ProxyStore.Series as C03 (Lib/Proxy_Model.v with the
   labels / chunks of Model/C03.v); here the scripts of the stores may fail: Series()
   itself fails ([sopen_err]), or Recv fails / times out after some frames
   ([send] = ERecvErr). The two strategy tests and the limit test are regenerated from
   pkg/store/proxy.go into Gen/C06.v on every run. Executable definitions only. *)
From Coq Require Import ZArith NArith List Bool.
Import ListNotations.
From Verif Require Export Lib.Proxy_Order Lib.Proxy_Model Model.C03.
From Verif Require Import Lib.Corr Gen.C06.
Open Scope Z_scope.

Definition proxy6 (lazy : bool) (wrl : list str) (disabled : bool) (strategy : Z) (limit : Z) (batch : nat)
    (ss : list script) : option (list frame) :=
  proxy_series lbl_cmp ckey keqb cleb wlen Gen.C06.limit_break lazy (match wrl with [] => false | _ => true end)
               (negb (open_warn_mode disabled strategy)) (loop_abort_mode disabled strategy)
               (rm_labels wrl) limit batch ss.

(* what the receiver makes of a store's stream that ends with an error that is not io.EOF itself but
   may wrap it ([wraps]): with the source's end-of-stream test ([recv_eos_lazy] / [recv_eos_eager],
   regenerated) it stays a failure unless the test also accepts wrapping errors *)
Definition effective (lazy : bool) (wrl : list str) (wraps : bool) (s : script) : script :=
  match send s with
  | ERecvErr _ =>
      let read_lazily := lazy && negb (negb (ssupports s) && (match wrl with [] => false | _ => true end)) in
      if (if read_lazily then recv_eos_lazy false wraps else recv_eos_eager false wraps)
      then MkScript (sopen_err s) (sframes s) EEof (ssupports s)
      else s
  | EEof => s
  end.
Fixpoint effective_all (lazy : bool) (wrl : list str) (ws : list bool) (ss : list script) : list script :=
  match ss with
  | [] => []
  | s :: r => effective lazy wrl (match ws with w :: _ => w | [] => false end) s
              :: effective_all lazy wrl (match ws with _ :: t => t | [] => [] end) r
  end.

(* the warning the proxy makes of a store's failure, if it fails *)
Definition fail_warning (s : script) : option str :=
  match sopen_err s with
  | Some w => Some w
  | None => match send s with ERecvErr w => Some w | EEof => None end
  end.
Definition fails (s : script) : bool := match fail_warning s with Some _ => true | None => false end.
(* warnings reach the merge: a failure, or a warning frame the store itself sent *)
Definition warns_source (s : script) : bool :=
  fails s || match sopen_err s with Some _ => false | None => negb (match frame_warnings (sframes s) with [] => true | _ => false end) end.

(* ---- through the Thanos querier (pkg/query/querier.go): Select with partial response on / off
   issues the Series request with strategy WARN / ABORT (PartialResponseDisabled unset, no
   replica labels when deduplication is off, no limit); warnings become annotations (a set of
   texts), an aborted request is the error of the series set ---- *)
Fixpoint uinsert (x : str) (l : list str) : list str :=
  match l with
  | [] => [x]
  | y :: r => match str_cmp x y with Gt => y :: uinsert x r | Eq => l | Lt => x :: l end
  end.
Definition uset (l : list str) : list str := fold_right uinsert [] l.
Definition querier_select (lazy partial : bool) (batch : nat) (ss : list script) : option (list labels * list str) :=
  match proxy6 lazy [] false (if partial then WARN else ABORT) 0 batch ss with
  | None => None
  | Some fs => Some (map fst (out_series fs), uset (frame_warnings fs))
  end.

Inductive case :=
| CFail (lazy : bool) (buf : nat) (wrl : list str) (disabled : bool) (strategy : Z) (batch : nat) (stores : list script)
        (wraps : list bool)   (* per store: its failure's error wraps io.EOF (errors.Is) without being io.EOF *)
        (* implementation observables: None = Series returned an error; frames with warning texts blanked,
           warning texts sorted (a warning naming a failing store is replaced by that store's token) *)
        (o_frames : option (list frame)) (o_warns : list str)
        (* the same stores through querier.Select with partialResponse = q_partial: None = the series set's
           error; label sets in order, distinct annotation texts sorted (failing stores as tokens) *)
        (q_partial : bool) (o_q : option (list labels * list str)).

Definition corr_ok (c : case) : bool :=
  match c with
  | CFail lazy buf wrl disabled strategy batch stores wraps o_frames o_warns q_partial o_q =>
      (match proxy6 lazy wrl disabled strategy 0 batch (effective_all lazy wrl wraps stores), o_frames with
      | Some fs, Some ofs =>
          list_eqb frame_eqb (map anon fs) ofs && list_eqb str_eqb (ssort (frame_warnings fs)) o_warns
      | None, None => true
      | _, _ => false
      end)
      && match querier_select lazy q_partial batch (effective_all lazy [] wraps stores), o_q with
         | None, None => true
         | Some (ls, ws), Some (ols, ows) => list_eqb labels_eqb ls ols && list_eqb str_eqb ws ows
         | _, _ => false
         end
  end.

(* the property on the implementation's own result *)
Definition pred_ok (c : case) : bool :=
  match c with
  | CFail lazy buf wrl disabled strategy batch stores wraps o_frames o_warns q_partial o_q =>
      (let abort := disabled || (strategy =? ABORT) in
      if abort then
        (* a failing (or warning) store fails the request; without one it succeeds *)
        if existsb warns_source stores
        then match o_frames with None => true | Some _ => false end
        else match o_frames with None => false | Some _ => true end
      else
        match o_frames with
        | None => false
        | Some ofs =>
            let outs := out_series ofs in
            (* at least one warning for each failed store *)
            forallb (fun s => match fail_warning s with
                              | Some w => existsb (str_eqb w) o_warns
                              | None => true end) stores
            (* every series (with all its chunks) of every store that did not fail *)
            && forallb (fun s => fails s
                          || forallb (fun q => existsb (fun p => labels_eqb (fst p) (fst q)
                                                             && subset_keys (map ckey (snd q)) (map ckey (snd p))) outs)
                                     (in_series wrl s)) stores
        end)
      (* the same through the querier *)
      && (if negb q_partial then
            if existsb warns_source stores
            then match o_q with None => true | Some _ => false end
            else match o_q with None => false | Some _ => true end
          else match o_q with
               | None => false
               | Some (ols, ows) =>
                   forallb (fun s => match fail_warning s with
                                     | Some w => existsb (str_eqb w) ows
                                     | None => true end) stores
                   && forallb (fun s => fails s
                                 || forallb (fun q => existsb (labels_eqb (fst q)) ols) (in_series [] s)) stores
               end)
  end.
