(* C32 — model of the three deletion decisions:
     pkg/compact/retention.go   ApplyRetentionPolicyByResolution
     pkg/compact/blocks_cleaner.go  BlocksCleaner.DeleteMarkedBlocks
     pkg/compact/clean.go       BestEffortCleanAbortedPartialUploads
   with the clock as an explicit parameter.  Every comparison is NOT written
   here: the conditions are regenerated from the Go source into Gen/C32.v on
   every run.  Instants/durations in ns, block times in ms, mark times in s. *)
From Coq Require Import ZArith List Bool Lia.
Import ListNotations.
From Verif Require Import Lib.Corr Gen.C32.
Open Scope Z_scope.

Definition ns_per_ms : Z := 1000000.
Definition ns_per_s : Z := 1000000000.

(* is block (MaxTime = maxt ms, retention ret ns for its resolution) marked at [now]? *)
Definition retention_marks (now maxt ret : Z) : bool :=
  if retention_disabled ret then false else retention_due now (retention_maxTime maxt) ret.

(* is a block whose deletion mark carries DeletionTime = mark (s) deleted at [now]? *)
Definition cleaner_deletes (now mark delay : Z) : bool := cleaner_due now mark delay.

(* is a partial upload (newest object modified at lm) removed at [now]? *)
Definition partial_deleted (now lm : Z) (marked : bool) : bool :=
  if marked && partial_skips_marked then false else negb (partial_young now lm).

(* getOldestModifiedTime: the bucket listing of the block's objects passes their
   last-modified times [lms] (in listing order; [] = the bucket reports none) and may
   fail after [k] objects ([fault] = Some k).  zero_time stands for Go's zero time.Time
   (year 1).  What is returned on the error path is regenerated from clean.go
   (oldest_time_on_error: the ULID creation time, not what was seen so far). *)
Definition zero_time : Z := - 62135596800 * 1000000000.

Definition seen_max (lms : list Z) : Z := fold_left Z.max lms zero_time.

Definition time_used (ulid_t : Z) (lms : list Z) (fault : option nat) : Z :=
  match fault with
  | Some k => oldest_time_on_error ulid_t (seen_max (firstn k lms))
  | None => let m := seen_max lms in if m =? zero_time then ulid_t else m
  end.

Definition partial_deleted_listing (now ulid_t : Z) (lms : list Z) (fault : option nat) (marked : bool) : bool :=
  partial_deleted now (time_used ulid_t lms fault) marked.

(* judged from the bucket's true attributes: every object (or, when the bucket reports no
   times, the block's creation time) is older than the threshold *)
Definition partial_pred_listing (now ulid_t : Z) (lms : list Z) (marked deleted : bool) : bool :=
  if deleted then
    negb marked && match lms with
                   | [] => PartialUploadThresholdAge <? now - ulid_t
                   | _ => forallb (fun t => PartialUploadThresholdAge <? now - t) lms
                   end
  else true.

(* ---- the property's predicates, at an instant [now] ------------------------
   the newest sample of a block is at most MaxTime-1 (MaxTime is exclusive) *)
Definition ret_pred (now maxt ret : Z) (marked : bool) : bool :=
  if marked then negb (ret =? 0) && (ret <? now - (maxt - 1) * ns_per_ms) else true.

Definition clean_pred (now mark delay : Z) (deleted : bool) : bool :=
  if deleted then delay <? now - mark * ns_per_s else true.

Definition partial_pred (now lm : Z) (marked deleted : bool) : bool :=
  if deleted then negb marked && (PartialUploadThresholdAge <? now - lm) else true.

(* ---- cases: the real functions were run between the wall-clock readings
   nowA and nowB; an observation is compared with the model only when the
   model gives the same answer at both instants ---------------------------- *)
Inductive case :=
| CRet (nowA nowB : Z) (blocks : list (Z * Z * bool))
| CClean (nowA nowB delay : Z) (blocks : list (Z * bool))
| CPartial (nowA nowB : Z) (blocks : list (Z * list Z * option nat * bool * bool)).

Definition agree (a b obs : bool) : bool := if Bool.eqb a b then Bool.eqb obs a else true.

Definition corr_ok (c : case) : bool :=
  match c with
  | CRet nowA nowB bs =>
      forallb (fun x => let '(maxt, ret, m) := x in
        agree (retention_marks nowA maxt ret) (retention_marks nowB maxt ret) m) bs
  | CClean nowA nowB delay bs =>
      forallb (fun x => let '(mark, d) := x in
        agree (cleaner_deletes nowA mark delay) (cleaner_deletes nowB mark delay) d) bs
  | CPartial nowA nowB bs =>
      forallb (fun x => let '(ulid_t, lms, fault, marked, d) := x in
        agree (partial_deleted_listing nowA ulid_t lms fault marked) (partial_deleted_listing nowB ulid_t lms fault marked) d) bs
  end.

(* evaluated at the later reading: an action taken at some t <= nowB that
   violates the predicate at nowB violated it at t as well *)
Definition pred_ok (c : case) : bool :=
  match c with
  | CRet _ nowB bs => forallb (fun x => let '(maxt, ret, m) := x in ret_pred nowB maxt ret m) bs
  | CClean _ nowB delay bs => forallb (fun x => let '(mark, d) := x in clean_pred nowB mark delay d) bs
  | CPartial _ nowB bs => forallb (fun x => let '(ulid_t, lms, _, marked, d) := x in partial_pred_listing nowB ulid_t lms marked d) bs
  end.
