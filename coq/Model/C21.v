(* C21 — Shuffle-sharded tenants get stable, correctly sized sub-rings.
   Model of shuffleShardHashring.getShardSize / getTenantShard / getTenantShardCached
   (pkg/receive/hashring.go). The base ring is the shared ketama model. Supplied
   by the harness as data: section hashes (xxhash), the positions drawn from
   math/rand seeded with ShuffleShardSeed(tenant, zone) (md5), filepath.Match results.
   The sub-ring built from the selected nodes (newKetamaHashring with 1000
   sections per node) is the function modelled and tied in C18/C19; here only its
   "fewer nodes than the replication factor" error is modelled. *)
From Coq Require Import ZArith List Bool Arith Sorting.Mergesort Orders.
Import ListNotations.
From Verif Require Import Lib.Corr Lib.Hashring_Ketama Gen.C21.
Close Scope Z_scope.

(* matcher type of an override: "exact", "glob", unset (""), anything else *)
Inductive mtype := MExact | MGlob | MUnset | MOther.

(* ShuffleShardingOverrideConfig: shard size, matcher type, tenants (ids of the strings) *)
Definition override := (Z * mtype * list Z)%type.

(* getShardSize: first override that matches wins. [globm] holds, per override and
   per pattern, the result of filepath.Match(pattern, tenant): Some b, or None for an error. *)
Fixpoint glob_any (ms : list (option bool)) : bool :=
  match ms with
  | [] => false
  | Some true :: _ => true
  | _ :: r => glob_any r
  end.

Fixpoint shard_size (ovs : list override) (globm : list (list (option bool))) (tenant : Z) (dflt : Z) : Z :=
  match ovs with
  | [] => dflt
  | (size, mt, ts) :: r =>
    let gm := match globm with g :: _ => g | [] => [] end in
    let rest := shard_size r (tl globm) tenant dflt in
    match mt with
    | MExact => if existsb (Z.eqb tenant) ts then size else rest
    | MUnset => if unset_is_exact && existsb (Z.eqb tenant) ts then size else rest
    | MGlob => if glob_any gm then size else rest
    | MOther => rest
    end
  end.

(* ShuffleShardExpectedInstancesPerZone = ceil(shardSize / numZones), for shardSize >= 0 *)
Definition per_zone (size : Z) (zones : nat) : Z := ((size + Z.of_nat zones - 1) / Z.of_nat zones)%Z.

(* the walk `for j := range len(azSections)` from startIdx: first endpoint not yet selected *)
Fixpoint pick_first (secs : list section) (selected : list nat) : option nat :=
  match secs with
  | [] => None
  | s :: r => if existsb (Nat.eqb (s_ep s)) selected then pick_first r selected else Some (s_ep s)
  end.

Definition rot {A} (l : list A) (i : nat) : list A := skipn i l ++ firstn i l.

(* the `for i := 0; i < take; i++` loop of one zone *)
Fixpoint select (secs : list section) (positions : list Z) (take : nat) (selected : list nat) {struct take} : list nat :=
  match take, positions with
  | S t, pos :: ps =>
    match pick_first (rot secs (ring_index secs pos)) selected with
    | Some e => select secs ps t (selected ++ [e])
    | None => select secs ps t selected
    end
  | _, _ => selected
  end.

Definition zone_of (disabled : bool) (az : Z) : Z := if disabled then (-1)%Z else az.

(* zones of the (deduplicated) nodes, first occurrences *)
Fixpoint zones_of (disabled : bool) (seen : list Z) (eps : list (Z * list Z)) : list Z :=
  match eps with
  | [] => rev seen
  | (az, _) :: r =>
    let z := zone_of disabled az in
    if existsb (Z.eqb z) seen then zones_of disabled seen r else zones_of disabled (z :: seen) r
  end.

Definition zone_nodes (disabled : bool) (eps : list (Z * list Z)) (z : Z) : nat :=
  length (filter (fun e => (zone_of disabled (fst e) =? z)%Z) eps).

Definition lookup_pos (rand : list (Z * list Z)) (z : Z) : list Z :=
  match find (fun p => (fst p =? z)%Z) rand with Some p => snd p | None => [] end.

Inductive shard_result :=
| SOk (nodes : list nat)     (* finalNodes: positions in the base endpoint list, zone after zone *)
| SErr.

Fixpoint shard_zones (disabled : bool) (eps : list (Z * list Z)) (ring : list section)
         (rand : list (Z * list Z)) (take : Z) (zs : list Z) : option (list nat) :=
  match zs with
  | [] => Some []
  | z :: r =>
    if (Z.of_nat (zone_nodes disabled eps z) <? take)%Z then None
    else
      let secs := filter (fun s => (zone_of disabled (s_az s) =? z)%Z) ring in
      let sel := if (length secs =? 0) then [] else select secs (lookup_pos rand z) (Z.to_nat take) [] in
      match shard_zones disabled eps ring rand take r with
      | Some rest => Some (sel ++ rest)
      | None => None
      end
  end.

(* getTenantShard followed by the endpoint-count test of newKetamaHashring *)
Definition tenant_shard (eps : list (Z * list Z)) (rf : nat) (dflt : Z) (disabled : bool)
           (ovs : list override) (globm : list (list (option bool))) (tenant : Z)
           (rand : list (Z * list Z)) : shard_result :=
  let ring := sort_sections (sections_of 0 eps) in
  let zs := zones_of disabled [] eps in
  let ss := shard_size ovs globm tenant dflt in
  let take := if disabled then ss else per_zone ss (length zs) in
  match shard_zones disabled eps ring rand take zs with
  | None => SErr
  | Some nodes => if length nodes <? rf then SErr else SOk nodes
  end.

(* ---- the cache: any eviction policy ---- *)
Section Cache.
  Variable compute : Z -> shard_result.
  (* after a miss the computed entry is added and then any entries may be dropped *)
  Variable evict : list (Z * shard_result) -> list (Z * shard_result).
  Definition cache_get (cache : list (Z * shard_result)) (t : Z) : shard_result * list (Z * shard_result) :=
    match find (fun p => (fst p =? t)%Z) cache with
    | Some p => (snd p, cache)
    | None =>
      let r := compute t in
      match r with
      | SErr => (r, cache)                 (* errors are not cached *)
      | SOk _ => (r, evict ((t, r) :: cache))
      end
    end.
  Fixpoint run_requests (cache : list (Z * shard_result)) (ts : list Z) : list shard_result :=
    match ts with
    | [] => []
    | t :: r => let '(a, c') := cache_get cache t in a :: run_requests c' r
    end.
End Cache.

(* ---- cases ---- *)
Module NatOrder <: TotalLeBool.
  Definition t := nat.
  Definition leb := Nat.leb.
  Theorem leb_total : forall a b, leb a b = true \/ leb b a = true.
  Proof. intros a b. unfold leb. destruct (Nat.leb_spec a b); [now left|right]. apply Nat.leb_le. apply Nat.lt_le_incl. assumption. Qed.
End NatOrder.
Module NatSort := Sort NatOrder.

Inductive query :=
| Q (tenant : Z) (globm : list (list (option bool))) (rand : list (Z * list Z))
    (shard1 shard2 shard3 : option (list nat))
      (* observed sub-ring nodes (sorted base positions), None = error: first call, repeated call, uncached recomputation *)
    (answers : list (list nat)).   (* GetN answers (base positions) n = 0..rf-1 for some series of the tenant *)

Inductive case :=
| CShard (eps : list (Z * list Z)) (rf : nat) (dflt : Z) (disabled : bool) (ovs : list override) (qs : list query).

Definition res_eqb (r : shard_result) (o : option (list nat)) : bool :=
  match r, o with
  | SOk n, Some m => list_eqb Nat.eqb (NatSort.sort n) m
  | SErr, None => true
  | _, _ => false
  end.

Definition corr_ok (c : case) : bool :=
  match c with
  | CShard eps rf dflt disabled ovs qs =>
      forallb (fun q => match q with Q t gm rand s1 _ _ _ =>
        res_eqb (tenant_shard eps rf dflt disabled ovs gm t rand) s1 end) qs
  end.

(* documented override semantics (unset matcher type = exact), used by pred_ok only *)
Fixpoint shard_size_doc (ovs : list override) (globm : list (list (option bool))) (tenant : Z) (dflt : Z) : Z :=
  match ovs with
  | [] => dflt
  | (size, mt, ts) :: r =>
    let gm := match globm with g :: _ => g | [] => [] end in
    let rest := shard_size_doc r (tl globm) tenant dflt in
    match mt with
    | MExact | MUnset => if existsb (Z.eqb tenant) ts then size else rest
    | MGlob => if glob_any gm then size else rest
    | MOther => rest
    end
  end.

Definition count_zone (disabled : bool) (eps : list (Z * list Z)) (nodes : list nat) (z : Z) : nat :=
  length (filter (fun e => (zone_of disabled (fst (nth e eps (0%Z, []))) =? z)%Z) nodes).

Definition opt_eqb (a b : option (list nat)) : bool := option_eqb (list_eqb Nat.eqb) a b.

(* the property on the implementation's observations:
   stable (first = repeated = uncached), sized (per zone / total), distinct, GetN answers inside the set *)
Definition pred_ok (c : case) : bool :=
  match c with
  | CShard eps rf dflt disabled ovs qs =>
      let zs := zones_of disabled [] eps in
      forallb (fun q => match q with Q t gm _ s1 s2 s3 answers =>
        opt_eqb s1 s2 && opt_eqb s1 s3 &&
        match s1 with
        | None => true
        | Some nodes =>
          let ss := shard_size_doc ovs gm t dflt in
          nodup_nat nodes && forallb (fun e => e <? length eps) nodes
          && (if disabled then (Z.of_nat (length nodes) =? ss)%Z
              else forallb (fun z => (Z.of_nat (count_zone disabled eps nodes z) =? per_zone ss (length zs))%Z) zs)
          && forallb (fun a => (length a =? rf) && nodup_nat a
                               && forallb (fun e => existsb (Nat.eqb e) nodes) a) answers
        end end) qs
  end.
