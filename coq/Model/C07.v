(* C07 — Label name/value APIs cover every label seen by Series.
   Model of TSDBStore.LabelNames / LabelValues (pkg/store/tsdb.go) next to the model of
   TSDBStore.Series of C08, and of ProxyStore.LabelNames / LabelValues / Series label sets
   (pkg/store/proxy.go: store pruning as in C05, strutil.MergeUnsortedSlices) in front of
   several TSDB stores that serve the same database under different external labels.
   The TSDB querier (Select / LabelNames / LabelValues with matchers) is modelled by its
   specification over the stored series; matcher semantics are truth tables (C05).
   Executable definitions only. *)
From Coq Require Import ZArith NArith List Bool.
Import ListNotations.
From Verif Require Export Model.C08.
From Verif Require Import Lib.Corr Lib.Proxy_Order Gen.C07.
Open Scope Z_scope.

Definition str := Model.C05.str.
Definition labels := Model.C05.labels.

(* sort.Strings *)
Fixpoint sinsert (x : str) (l : list str) : list str :=
  match l with
  | [] => [x]
  | y :: r => match str_cmp x y with Gt => y :: sinsert x r | _ => x :: l end
  end.
Definition ssort (l : list str) : list str := fold_right sinsert [] l.
(* sorted + distinct (what the TSDB index returns) *)
Fixpoint sdedup (l : list str) : list str :=
  match l with
  | [] => []
  | x :: r => match r with
              | y :: _ => if str_eqb x y then sdedup r else x :: sdedup r
              | [] => [x]
              end
  end.
Definition sset (l : list str) : list str := sdedup (ssort l).

(* the stored series the request's (stripped) matchers select *)
Definition sel_stored (kept : list matcher) (stored : list labels) : list labels :=
  filter (selected kept) stored.

(* TSDBStore.Series: label sets of the response (None = error) *)
Definition tsdb_series_labels (ext : labels) (drop : list str) (ms : list matcher) (stored : list labels)
  : option (list labels) :=
  match matches_external_labels mname mmatch ms ext with
  | None => Some []
  | Some [] => None
  | Some kept => Some (map (present ext drop) (sel_stored kept stored))
  end.

(* TSDBStore.LabelNames *)
Definition tsdb_label_names (ext : labels) (drop : list str) (ms : list matcher) (stored : list labels) : list str :=
  match matches_external_labels mname mmatch ms ext with
  | None => []
  | Some kept =>
      let res := sset (concat (map (map fst) (sel_stored kept stored))) in
      match res with
      | [] => []
      | _ => ssort (res ++ map fst (filter (fun p => negb (existsb (str_eqb (fst p)) drop)) ext))
      end
  end.

(* TSDBStore.LabelValues (label <> "") *)
Definition tsdb_label_values (ext : labels) (drop : list str) (ms : list matcher) (label : str) (stored : list labels)
  : list str :=
  if existsb (str_eqb label) drop then []
  else match matches_external_labels mname mmatch ms ext with
       | None => []
       | Some kept =>
           let v := lget ext label in
           if negb (is_empty_str v) then
             match kept with
             | [] => [v]
             | _ => match sel_stored kept stored with [] => [] | _ => [v] end
             end
           else sset (concat (map (fun l => match lfind l label with Some x => [x] | None => [] end) (sel_stored kept stored)))
       end.

(* strutil.mergeTwoStringSlices on sorted inputs (no limit) *)
Fixpoint merge2 (a : list str) : list str -> list str :=
  fix inner (b : list str) : list str :=
    match a, b with
    | [], _ => b
    | _, [] => a
    | x :: a', y :: b' =>
        match str_cmp x y with
        | Eq => x :: merge2 a' b'
        | Lt => x :: merge2 a' b
        | Gt => y :: inner b'
        end
    end.
(* MergeSlices: halving recursion, written for the store counts the harness uses (<= 3) *)
Definition merge_slices (ls : list (list str)) : list str :=
  match ls with
  | [] => []
  | [a] => a
  | [a; b] => merge2 a b
  | [a; b; c] => merge2 a (merge2 b c)
  | a :: b :: r => fold_left merge2 r (merge2 a b)
  end.

(* ProxyStore: stores not pruned for their external labels (time ranges always overlap here) *)
Definition queried (ms : list matcher) (exts : list labels) : list labels :=
  filter (fun e => label_sets_match mname mmatch ms [e]) exts.

Definition proxy_label_names (exts : list labels) (drop : list str) (ms : list matcher) (stored : list labels) : list str :=
  merge_slices (map (fun e => tsdb_label_names e drop ms stored) (queried ms exts)).
Definition proxy_label_values (exts : list labels) (drop : list str) (ms : list matcher) (label : str) (stored : list labels) : list str :=
  merge_slices (map (fun e => tsdb_label_values e drop ms label stored) (queried ms exts)).

(* label sets of ProxyStore.Series: sorted, each once (C03); [lsort_set] is defined in Model/C08.v *)
Definition proxy_series_labels (exts : list labels) (drop : list str) (ms : list matcher) (stored : list labels)
  : option (list labels) :=
  match ms with
  | [] => None          (* "no matchers specified" *)
  | _ => Some (lsort_set (concat (map (fun e => match tsdb_series_labels e drop ms stored with Some l => l | None => [] end)
                                      (queried ms exts))))
  end.

(* ---- the object-storage store gateway (BucketStore) over blocks = (external labels, stored series) ---- *)
Definition ext_names_kept (drop : list str) (ext : labels) : list str :=
  map fst (filter (fun p => negb (existsb (str_eqb (fst p)) drop)) ext).

(* BucketStore.LabelNames, one block: without series matchers the index-header names merged with
   the external names; otherwise the names on the (presented) series the matchers select *)
Definition block_names (drop : list str) (ms : list matcher) (b : labels * list labels) : list str :=
  match ext_loop mname mmatch ms (fst b) with
  | None => []
  | Some [] => merge2 (sset (concat (map (map fst) (snd b)))) (ext_names_kept drop (fst b))
  | Some kept => sset (concat (map (fun sl => map fst (present_bucket (fst b) drop sl)) (filter (selected kept) (snd b))))
  end.
Definition bucket_label_names (blocks : list (labels * list labels)) (drop : list str) (ms : list matcher) : list str :=
  merge_slices (map (block_names drop ms) blocks).

Definition stored_values (label : str) (stored : list labels) : list str :=
  concat (map (fun l => match lfind l label with Some x => [x] | None => [] end) stored).

(* BucketStore.LabelValues, one block. [has_name_eq]: the request has a __name__="..." matcher
   (then no `label != ""` matcher is added) *)
Definition block_values (has_name_eq : bool) (ms : list matcher) (label : str) (b : labels * list labels) : list str :=
  match ext_loop mname mmatch ms (fst b) with
  | None => []
  | Some [] =>
      let res := sset (stored_values label (snd b)) in
      if is_empty_str (lget (fst b) label) then res else merge2 res [lget (fst b) label]
  | Some kept =>
      let extra := negb has_name_eq && negb (lhas (fst b) label) in
      let sel := filter (fun sl => selected kept sl && (negb extra || negb (is_empty_str (lget sl label)))) (snd b) in
      sset (concat (map (fun sl => let v := lget (extend sl (fst b)) label in
                                   if is_empty_str v then [] else [v]) sel))
  end.
Definition bucket_label_values (has_name_eq : bool) (blocks : list (labels * list labels)) (drop : list str)
    (ms : list matcher) (label : str) : list str :=
  if existsb (str_eqb label) drop then []
  else merge_slices (map (block_values has_name_eq ms label) blocks).

(* the proxy in front of one bucket store: pruned when none of the announced label sets (the
   blocks' external labels) matches the selectors *)
Definition bucket_queried (blocks : list (labels * list labels)) (ms : list matcher) : bool :=
  label_sets_match mname mmatch ms (map fst blocks).

(* ---- observables ---- *)
Record obs := MkObs { o_series : option (list labels); o_names : list str; o_values : list str }.

Inductive case :=
| CLabels (stored : list labels) (inits : list labels) (exts : list labels) (drop : list str) (ms : list matcher) (label : str)
          (stores : list obs)   (* each TSDB store asked directly: Series label sets sorted+distinct *)
          (proxy : obs)         (* the proxy in front of them *)
| CBucket7 (blocks : list (labels * list labels)) (drop : list str) (ms : list matcher) (has_name_eq : bool)
           (label : str) (bstore : obs) (bproxy : obs)
| CNop7.

Definition labels_eqb : labels -> labels -> bool := list_eqb (pair_eqb str_eqb str_eqb).
Definition obs_eqb (a b : obs) : bool :=
  option_eqb (list_eqb labels_eqb) (o_series a) (o_series b)
  && list_eqb str_eqb (o_names a) (o_names b) && list_eqb str_eqb (o_values a) (o_values b).

Definition model_store (stored : list labels) (drop : list str) (ms : list matcher) (label : str) (e : labels) : obs :=
  MkObs (option_map lsort_set (tsdb_series_labels e drop ms stored))
        (tsdb_label_names e drop ms stored) (tsdb_label_values e drop ms label stored).
Definition model_proxy (stored : list labels) (exts : list labels) (drop : list str) (ms : list matcher) (label : str) : obs :=
  MkObs (proxy_series_labels exts drop ms stored)
        (proxy_label_names exts drop ms stored) (proxy_label_values exts drop ms label stored).

(* ---- a TSDB store with a history: built with [init] external labels, reloaded (SetExtLset) with
   [cur]. Series reads the current labels; which labels LabelNames / LabelValues read is a source
   fact (Gen/C07.v): the current ones, or not provably so (then the model uses the initial ones) ---- *)
Definition ext_for_names (h : labels * labels) : labels := if labelnames_reads_current_ext then snd h else fst h.
Definition ext_for_values (h : labels * labels) : labels := if labelvalues_reads_current_ext then snd h else fst h.

Definition model_store_h (stored : list labels) (drop : list str) (ms : list matcher) (label : str) (h : labels * labels) : obs :=
  MkObs (option_map lsort_set (tsdb_series_labels (snd h) drop ms stored))
        (tsdb_label_names (ext_for_names h) drop ms stored) (tsdb_label_values (ext_for_values h) drop ms label stored).
Definition queried_h (ms : list matcher) (hs : list (labels * labels)) : list (labels * labels) :=
  filter (fun h => label_sets_match mname mmatch ms [snd h]) hs.
Definition model_proxy_h (stored : list labels) (hs : list (labels * labels)) (drop : list str) (ms : list matcher) (label : str) : obs :=
  MkObs (proxy_series_labels (map snd hs) drop ms stored)
        (merge_slices (map (fun h => tsdb_label_names (ext_for_names h) drop ms stored) (queried_h ms hs)))
        (merge_slices (map (fun h => tsdb_label_values (ext_for_values h) drop ms label stored) (queried_h ms hs))).

Definition model_bucket (blocks : list (labels * list labels)) (drop : list str) (ms : list matcher) (hne : bool) (label : str) : obs :=
  MkObs (Some (lsort_set (bucket_series_labels blocks drop ms)))
        (bucket_label_names blocks drop ms) (bucket_label_values hne blocks drop ms label).
Definition model_bucket_proxy (blocks : list (labels * list labels)) (drop : list str) (ms : list matcher) (hne : bool) (label : str) : obs :=
  if bucket_queried blocks ms
  then MkObs (match ms with [] => None | _ => Some (lsort_set (bucket_series_labels blocks drop ms)) end)
             (bucket_label_names blocks drop ms) (bucket_label_values hne blocks drop ms label)
  else MkObs (match ms with [] => None | _ => Some [] end) [] [].

Definition corr_ok (c : case) : bool :=
  match c with
  | CLabels stored inits exts drop ms label stores proxy =>
      Nat.eqb (length inits) (length exts)
      && list_eqb obs_eqb (map (model_store_h stored drop ms label) (combine inits exts)) stores
      && obs_eqb (model_proxy_h stored (combine inits exts) drop ms label) proxy
  | CBucket7 blocks drop ms hne label bstore bproxy =>
      obs_eqb (model_bucket blocks drop ms hne label) bstore
      && obs_eqb (model_bucket_proxy blocks drop ms hne label) bproxy
  | CNop7 => true
  end.

(* the property on the implementation's own responses: every label name on a returned series is
   among the label names, and every value of the asked label is among the label values *)
Definition covers (label : str) (o : obs) : bool :=
  match o_series o with
  | None => true
  | Some ls =>
      forallb (fun l => forallb (fun p => existsb (str_eqb (fst p)) (o_names o)
                                          && (negb (str_eqb (fst p) label) || existsb (str_eqb (snd p)) (o_values o))) l) ls
  end.
Definition pred_ok (c : case) : bool :=
  match c with
  | CLabels stored inits exts drop ms label stores proxy => forallb (covers label) stores && covers label proxy
  | CBucket7 blocks drop ms hne label bstore bproxy => covers label bstore && covers label bproxy
  | CNop7 => true
  end.
