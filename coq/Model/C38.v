(* C38 — Re-downsampling aggregates conserves totals.
   The model of downsampleAggr / downsampleAggrLoop / downsampleFloatAggrBatch /
   genericAggregate / expandXorChunkIterator / ApplyCounterResetsSeriesIterator is
   Lib/Downsample_Aggr.v over Lib/Downsample_Core.v (downsampleBatch,
   floatAggregator), instantiated with [currentWindow] regenerated from the Go
   source (Gen/C38.v).  Executable definitions + specification vocabulary. *)
From Coq Require Import ZArith List Bool Lia Sorted.
Import ListNotations.
From Verif Require Import Lib.Corr Lib.Downsample_Core Lib.Downsample_Aggr Gen.C38.
Open Scope Z_scope.

Definition cw : Z -> Z -> Z := currentWindow.

Definition downsample_aggr_m (res : Z) (num_chunks : nat) (ins : list achunk) : option (list achunk) :=
  downsample_aggr cw res num_chunks ins.

(* ---- cases ---- *)

Inductive case :=
(* downsampleAggr(ins, ..., outRes = res) = out, with targetChunkCount(...) = num_chunks *)
| CAggr (res : Z) (num_chunks : nat) (ins : list achunk) (out : list achunk).

Definition sample_eqb (a b : sample) : bool := (fst a =? fst b) && (snd a =? snd b).
Definition samples_eqb : list sample -> list sample -> bool := list_eqb sample_eqb.

Definition achunk_eqb (a b : achunk) : bool :=
  (k_mint a =? k_mint b) && (k_maxt a =? k_maxt b)
  && option_eqb samples_eqb (k_count a) (k_count b)
  && option_eqb samples_eqb (k_sum a) (k_sum b)
  && option_eqb samples_eqb (k_min a) (k_min b)
  && option_eqb samples_eqb (k_max a) (k_max b)
  && option_eqb samples_eqb (k_counter a) (k_counter b).

Definition corr_model (c : case) : bool :=
  match c with
  | CAggr res nc ins out =>
      option_eqb (list_eqb achunk_eqb) (downsample_aggr_m res nc ins) (Some out)
  end.

(* ---- the property on the implementation's own output ---- *)

Definition olist (o : option (list sample)) : list sample :=
  match o with Some l => l | None => [] end.

(* all samples of one aggregate over a chunk list, in order *)
Definition series (f : achunk -> option (list sample)) (ks : list achunk) : list sample :=
  concat (map (fun k => olist (f k)) ks).

Fixpoint sorted_le (l : list Z) : bool :=
  match l with
  | a :: ((b :: _) as r) => (a <=? b) && sorted_le r
  | _ => true
  end.

(* an input aggregate series is well formed: timestamps int64, >= 0, non-decreasing
   over the whole chunk sequence *)
Definition wf_series (l : list sample) : bool :=
  forallb (fun s => (0 <=? fst s) && (fst s <=? max_int64)) l && sorted_le (map fst l).

Definition valid_input (res : Z) (nc : nat) (ins : list achunk) : bool :=
  (0 <? res)
  && wf_series (series k_count ins) && wf_series (series k_sum ins)
  && wf_series (series k_min ins) && wf_series (series k_max ins).

Definition within (lo hi : option Z) (l : list sample) : bool :=
  forallb (fun s => match lo, hi with
                    | Some a, Some b => (a <=? fst s) && (fst s <=? b)
                    | _, _ => false
                    end) l.

Definition first_t (l : list sample) : option Z := match l with [] => None | s :: _ => Some (fst s) end.
Definition last_ot (l : list sample) : option Z := match l with [] => None | _ => Some (fst (last l (0, 0))) end.

(* timestamps of one aggregate of the output: ordered, inside the input's span *)
Definition ts_ok (i o : list sample) : bool :=
  sorted_le (map fst o) && within (first_t i) (last_ot i) o.

(* The property's domain (5m chunks written by Thanos, re-downsampled to 1h): a chunk written by
   DownsampleRaw at 5m holds at most 720 rows (141 expected samples x 5 one-minute scrapes, plus slack) and
   targetChunkCount(5m -> 1h) is at most (count/12 + 2)/141 + 1: its float estimate of the
   expected number of samples is at most count*5m/1h + 2, and its loop returns the least x with
   expSamples/x <= 140.  Checked on the implementation's values when res = ResLevel2; the
   theorem C38_clamp_noop_in_domain shows that then numChunks <= len(chks). *)
Definition domain_ok (nc : nat) (ins : list achunk) : bool :=
  forallb (fun k => Nat.leb (length (olist (k_count k))) 720) ins
  && (Z.of_nat nc <=? (Z.of_nat (length (series k_count ins)) / 12 + 2) / 141 + 1).

(* correspondence: the model reproduces the implementation's output, and (for 5m -> 1h) the
   assumptions about the unmodelled float heuristic hold of the implementation's values *)
Definition corr_ok (c : case) : bool :=
  corr_model c &&
  match c with
  | CAggr res nc ins _ => if res =? ResLevel2 then domain_ok nc ins else true
  end.

Definition pred_ok (c : case) : bool :=
  match c with
  | CAggr res nc ins out =>
      if valid_input res nc ins then
        (* totals: count re-aggregated by sum, sum by sum, min by min, max by max *)
        (sumZ (map snd (series k_count out)) =? sumZ (map snd (series k_count ins)))
        && (sumZ (map snd (series k_sum out)) =? sumZ (map snd (series k_sum ins)))
        && option_eqb Z.eqb (min_list (map snd (series k_min out))) (min_list (map snd (series k_min ins)))
        && option_eqb Z.eqb (max_list (map snd (series k_max out))) (max_list (map snd (series k_max ins)))
        (* timestamps *)
        && ts_ok (series k_count ins) (series k_count out) && ts_ok (series k_sum ins) (series k_sum out)
        && ts_ok (series k_min ins) (series k_min out) && ts_ok (series k_max ins) (series k_max out)
      else true
  end.

(* ---- specification vocabulary (Prop level) ---- *)

Definition wf_series_p (l : list sample) : Prop :=
  StronglySorted Z.le (map fst l) /\ Forall (fun s => 0 <= fst s) l.

(* the aggregate chunks handed to downsampleAggr: per aggregate, timestamps >= 0 and
   non-decreasing over the whole chunk sequence (what DownsampleRaw produces) *)
Definition valid_ins (res : Z) (ins : list achunk) : Prop :=
  0 < res /\ wf_series_p (series k_count ins) /\ wf_series_p (series k_sum ins) /\
  wf_series_p (series k_min ins) /\ wf_series_p (series k_max ins).

Definition totals_spec (ins out : list achunk) : Prop :=
  sumZ (map snd (series k_count out)) = sumZ (map snd (series k_count ins)) /\
  sumZ (map snd (series k_sum out)) = sumZ (map snd (series k_sum ins)) /\
  min_list (map snd (series k_min out)) = min_list (map snd (series k_min ins)) /\
  max_list (map snd (series k_max out)) = max_list (map snd (series k_max ins)).

(* output timestamps of one aggregate: non-decreasing, each between two input timestamps *)
Definition ts_spec (i o : list sample) : Prop :=
  StronglySorted Z.le (map fst o) /\
  Forall (fun s => exists a b, In a i /\ In b i /\ fst a <= fst s <= fst b) o.

Definition timestamps_spec (ins out : list achunk) : Prop :=
  ts_spec (series k_count ins) (series k_count out) /\ ts_spec (series k_sum ins) (series k_sum out) /\
  ts_spec (series k_min ins) (series k_min out) /\ ts_spec (series k_max ins) (series k_max out).
