(* C47 — model of pkg/reloader/reloader.go: Reloader.apply with normalize and
   expandEnv, for a reloader configured with (optionally) one config file with
   an output file and one config directory with an output directory.
   Executable definitions only.

   sha256 is modelled as the identity on what is hashed (file names and
   contents in order); gzip input and watched-only directories are not
   modelled. The reload endpoint is a script per apply call: [fails] failing
   attempts followed by success, or by the context running out ([give_up]). *)
From Coq Require Import NArith ZArith List Bool.
Import ListNotations.
From Verif Require Import Lib.Corr Lib.Misc_Cmp Gen.C47.

Definition files := list (str * str).            (* (name, content), sorted by name *)

(* ---- expandEnv: regexp \$\(([a-zA-Z_0-9]+)\) with ReplaceAllFunc ---- *)
Definition is_var_char (c : N) : bool :=
  ((48 <=? c) && (c <=? 57) || (65 <=? c) && (c <=? 90) || (97 <=? c) && (c <=? 122) || (c =? 95))%N.

Fixpoint span_var (s : str) : str * str :=
  match s with
  | c :: r => if is_var_char c then let (v, rest) := span_var r in (c :: v, rest) else ([], s)
  | [] => ([], [])
  end.

Section Expand.
  Variable env : str -> option str.       (* os.LookupEnv *)
  Variable tolerate : bool.

  (* None = "found reference to unset environment variable" *)
  Fixpoint expand_f (fuel : nat) (s : str) : option str :=
    match fuel with
    | O => None
    | S f =>
      match s with
      | [] => Some []
      | 36%N :: 40%N :: r =>                              (* "$(" *)
        let (v, rest) := span_var r in
        match v, rest with
        | _ :: _, 41%N :: rest' =>                        (* NAME ")" *)
          match env v with
          | Some x => option_map (app x) (expand_f f rest')
          | None =>
            if tolerate then option_map (app (36%N :: 40%N :: v ++ [41%N])) (expand_f f rest')
            else None
          end
        | _, _ => option_map (cons 36%N) (expand_f f (40%N :: r))
        end
      | c :: r => option_map (cons c) (expand_f f r)
      end
    end.

  Definition expand (s : str) : option str := expand_f (S (length s)) s.
End Expand.

(* ---- output directory as a name-sorted association list ---- *)
Fixpoint upsert (n : str) (c : str) (l : files) : files :=
  match l with
  | [] => [(n, c)]
  | (n', c') :: r =>
    match str_cmp n n' with
    | Lt => (n, c) :: l
    | Eq => (n, c) :: r
    | Gt => (n', c') :: upsert n c r
    end
  end.

Fixpoint lookup (n : str) (l : files) : option str :=
  match l with
  | [] => None
  | (n', c) :: r => if str_eqb n n' then Some c else lookup n r
  end.

Record rst := Rst {
  last_cfg : option str;              (* lastCfgHash, None = nil *)
  last_dir : option files;            (* lastCfgDirsHash[0], None = not recorded yet *)
  last_names : option (list str);     (* lastCfgDirFiles[0], None = nil *)
  force : bool;                       (* forceReload *)
  out_cfg : option str;               (* cfgOutputFile contents, None = absent *)
  out_dir : files }.                  (* output directory *)

Definition init : rst := Rst None None None false None [].

(* what one apply call did *)
Record result := Result {
  r_err : bool;            (* apply returned an error *)
  r_tried : bool;          (* the reload endpoint was called *)
  r_succeeded : bool;      (* a reload succeeded *)
  r_attempts : nat }.      (* calls of the endpoint when it ends in success *)

Section Apply.
  Variable has_cfg : bool.
  Variable env : str -> option str.
  Variable tolerate : bool.

  (* the loop over the directory entries: normalize each file into the output
     directory; stops at the first expansion error, keeping what was written.
     Returns the output directory, whether every file went through, and the
     names written (in order). *)
  Fixpoint write_all (fs : files) (out : files) : files * bool * list str :=
    match fs with
    | [] => (out, true, [])
    | (n, c) :: r =>
      match expand env tolerate c with
      | Some e => let '(od, ok, w) := write_all r (upsert n e out) in (od, ok, n :: w)
      | None => (out, false, [])
      end
    end.

  Definition files_eqb (a b : files) : bool :=
    list_eqb (fun x y => str_eqb (fst x) (fst y) && str_eqb (snd x) (snd y)) a b.

  (* [fixed] = with repo_patches/C47-fix.patch: lastCfgDirFiles is created on
     first use and every output is recorded in it as soon as it is written *)
  Definition apply_gen (fixed : bool) (s : rst) (cfg : option str) (dir : files) (fails : nat) (give_up : bool) : rst * result :=
    let failed s' := (s', Result true false false 0) in
    (* config file *)
    let step1 : option (option str * option str) :=      (* (cfgHash, new out_cfg) *)
      if has_cfg then
        match cfg with
        | None => None                                       (* hash file: no such file *)
        | Some c =>
          match expand env tolerate c with
          | Some e => Some (Some c, Some e)
          | None => None
          end
        end
      else Some (None, out_cfg s) in
    match step1 with
    | None => failed s
    | Some (cfg_hash, oc) =>
      let '(od, ok, written) := write_all dir (out_dir s) in
      (* lastCfgDirFiles[0] as the removal step sees it *)
      let prev :=
        if fixed then Some (match last_names s with Some p => p | None => [] end ++ written)
        else last_names s in
      if negb ok then failed (Rst (last_cfg s) (last_dir s) prev (force s) oc od)
      else
        let names := map fst dir in
        (* outputs of inputs that disappeared *)
        let od :=
          match prev with
          | Some pv => filter (fun f => negb (mem_str (fst f) pv && negb (mem_str (fst f) names))) od
          | None => od
          end in
        let changed := match last_dir s with Some d => negb (files_eqb d dir) | None => true end in
        let same_cfg := option_eqb str_eqb (last_cfg s) cfg_hash in
        if negb (force s) && negb changed && same_cfg then
          (Rst (last_cfg s) (last_dir s) (Some names) (force s) oc od, Result false false false 0)
        else if give_up then
          (Rst (last_cfg s) (last_dir s) (Some names) true oc od, Result false true false 0)
        else
          (Rst cfg_hash (Some dir) (Some names) false oc od, Result false true true (S fails))
    end.

  Definition apply := apply_gen true.
  Definition apply_unfixed := apply_gen false.

  (* apply reads the config file twice: hashFile ([cfg_h]) and normalize
     ([cfg_n]); an edit may fall between the two reads. The directory part is as
     in [apply]. *)
  Definition apply2 (s : rst) (cfg_h cfg_n : option str) (dir : files) (fails : nat) (give_up : bool) : rst * result :=
    if has_cfg then
      match cfg_h, cfg_n with
      | Some ch, Some cn =>
        match expand env tolerate cn with
        | Some e =>
          (* the rest of the pass sees hash [ch] and has written output [e] *)
          let '(s', r) := apply s (Some ch) dir fails give_up in
          (Rst (last_cfg s') (last_dir s') (last_names s') (force s') (Some e) (out_dir s'), r)
        | None => (s, Result true false false 0)
        end
      | _, _ => (s, Result true false false 0)
      end
    else apply s cfg_h dir fails give_up.

  (* ---- the loop of Watch ----
     `for { select { case <-applyCtx.Done(): if ctx.Err() != nil { return } ; case <-r.watcher.notify: } ; ... r.apply(applyCtx) }`
     as a state machine over events: a debounced file-system notification, the
     watch interval running out, the parent context being cancelled. Each event
     carries the file-system snapshot apply reads and the endpoint script. *)
  Inductive event := ENotify | ETick | EDone.
  Definition wstep := (event * (option str * files) * (nat * bool))%type.

  Fixpoint watch (s : rst) (evs : list wstep) : rst * list result :=
    match evs with
    | [] => (s, [])
    | (EDone, _, _) :: _ => (s, [])
    | (_, (cfg, dir), (fails, give_up)) :: r =>
      let (s', res) := apply s cfg dir fails give_up in
      let (s'', rs) := watch s' r in
      (s'', res :: rs)
    end.
End Apply.

(* ---- cases ---- *)

Definition env_of (e : list (str * str)) (v : str) : option str := lookup v e.

(* observation after one apply: error?, output file, output directory, endpoint
   called?, reload succeeded?, number of calls (only when the script ends in success) *)
Definition obs := (bool * option str * files * bool * bool * option nat)%type.
Definition step := ((option str * files) * (nat * bool) * obs)%type.

Inductive case :=
| CReload (has_cfg tolerate : bool) (env : list (str * str)) (steps : list step)
(* the real Watch loop (fsnotify + timers) ran while files were edited; observed
   some watch intervals after the last edit: the outputs, whether a reload
   succeeded after the last edit, the endpoint calls during further intervals,
   and whether Watch returned after its context was cancelled *)
| CWatch (has_cfg tolerate : bool) (env : list (str * str)) (cfg : option str) (dir : files)
         (oc : option str) (od : files) (reloaded : bool) (extra_calls : nat) (returned : bool).

Definition ostr_eqb := option_eqb str_eqb.

Definition obs_ok (s : rst) (r : result) (o : obs) : bool :=
  match o with
  | (err, oc, od, tried, succ, att) =>
    Bool.eqb (r_err r) err && ostr_eqb (out_cfg s) oc && files_eqb (out_dir s) od
    && Bool.eqb (r_tried r) tried && Bool.eqb (r_succeeded r) succ
    && match att with Some a => Nat.eqb (r_attempts r) a || negb (r_succeeded r) && Nat.eqb a 0 | None => true end
  end.

Fixpoint run_ok (has_cfg tolerate : bool) (env : str -> option str) (s : rst) (steps : list step) : bool :=
  match steps with
  | [] => true
  | ((cfg, dir), (fails, give_up), o) :: r =>
    let (s', res) := apply has_cfg env tolerate s cfg dir fails give_up in
    obs_ok s' res o && run_ok has_cfg tolerate env s' r
  end.

Definition corr_ok (c : case) : bool :=
  match c with
  | CReload has_cfg tolerate env steps => run_ok has_cfg tolerate (env_of env) init steps
  | CWatch has_cfg tolerate env cfg dir oc od _ _ _ =>
      (* the outputs are those of one model apply on the final snapshot *)
      let '(s, r) := apply has_cfg (env_of env) tolerate init cfg dir 0 false in
      negb (r_err r) && ostr_eqb (out_cfg s) oc && files_eqb (out_dir s) od
  end.

(* ---- the property's predicate on the implementation's own observables ---- *)

(* the predicate keeps its own record of the last successfully reloaded content
   and of the outputs as they were at the last successful reload ([loaded]: what
   the reloaded process is running) *)
Definition outs_eqb (a b : option str * files) : bool :=
  ostr_eqb (fst a) (fst b) && files_eqb (snd a) (snd b).

Fixpoint pred_run (has_cfg tolerate : bool) (env : str -> option str)
         (last_ok : option (option str * files)) (loaded : option (option str * files))
         (pending : bool) (steps : list step) : bool :=
  match steps with
  | [] => true
  | ((cfg, dir), _, (err, oc, od, tried, succ, _)) :: r =>
    if err then
      (* an apply that fails must have a reason: missing config file or an unset variable *)
      ((has_cfg && match cfg with None => true | Some c => match expand env tolerate c with None => true | _ => false end end)
       || existsb (fun f => match expand env tolerate (snd f) with None => true | _ => false end) dir)
      && negb tried && pred_run has_cfg tolerate env last_ok loaded pending r
    else
      let cur := (if has_cfg then cfg else None, dir) in
      let same := match last_ok with
                  | Some (c0, d0) => ostr_eqb c0 (fst cur) && files_eqb d0 dir
                  | None => false
                  end in
      let loaded' := if succ then Some (oc, od) else loaded in
      let pending' := if tried then negb succ else pending in
      (* outputs equal the inputs with the environment substituted *)
      (if has_cfg then match cfg with Some c => ostr_eqb oc (expand env tolerate c) | None => false end else true)
      && forallb (fun f => ostr_eqb (lookup (fst f) od) (expand env tolerate (snd f))) dir
      (* outputs whose inputs disappeared are removed *)
      && forallb (fun f => mem_str (fst f) (map fst dir)) od
      (* reload exactly when the content changed since the last successful reload, or a failed reload is pending *)
      && Bool.eqb tried (pending || negb same)
      && (negb succ || tried)
      (* unless a reload is pending, the outputs are those the last successful reload loaded *)
      && (pending' || match loaded' with Some l => outs_eqb l (oc, od) | None => false end)
      && pred_run has_cfg tolerate env (if succ then Some cur else last_ok) loaded' pending' r
  end.

Definition pred_ok (c : case) : bool :=
  match c with
  | CReload has_cfg tolerate env steps => pred_run has_cfg tolerate (env_of env) None None false steps
  | CWatch has_cfg tolerate env cfg dir oc od reloaded extra_calls returned =>
      let e := env_of env in
      (if has_cfg then match cfg with Some c => ostr_eqb oc (expand e tolerate c) | None => false end else true)
      && forallb (fun f => ostr_eqb (lookup (fst f) od) (expand e tolerate (snd f))) dir
      && forallb (fun f => mem_str (fst f) (map fst dir)) od
      && reloaded && Nat.eqb extra_calls 0 && returned
  end.
