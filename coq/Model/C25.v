(* C25 — model of the Cap'n Proto replication encoding of a write request:
   pkg/symboltable/builder.go (AddEntry), pkg/receive/writecapnp/marshal.go
   (BuildInto, marshalSymbols, marshalLabels/Samples/Histograms/Exemplars),
   the multi-tenant assembly in writecapnp/client.go, and the decoding side
   pkg/receive/writecapnp/write_request.go (NewRequest, Request.At,
   readHistogram, readExemplar). Cap'n Proto itself (segments, lists, unions)
   is trusted: the wire is modelled as the structured message it carries.
   Executable definitions only. *)
From Coq Require Import ZArith NArith List Bool.
Import ListNotations.
From Verif Require Import Lib.Corr Gen.C25.
Open Scope Z_scope.

Definition str := list N.
Definition label := (str * str)%type.
Definition cnt := option (bool * N).           (* protobuf oneof: None = unset, (true, uint64) | (false, float bits) *)
Definition span := (Z * N)%type.
Definition sample := (Z * N)%type.
(* prompb.Histogram: count, sum, schema, zero_threshold, zero_count, negative
   spans/deltas/counts, positive spans/deltas/counts, reset hint, timestamp, custom values *)
Definition in_hist := (cnt * N * Z * N * cnt * list span * list Z * list N * list span * list Z * list N * Z * Z * list N)%type.
Definition in_exemplar := (list label * N * Z)%type.
Definition in_series := (list label * list sample * list in_hist * list in_exemplar)%type.
Definition request := list (str * list in_series).     (* tenant, series *)

(* decoded writecapnp.Series: histogram = (is_int, reset, count, sum, schema,
   zero_threshold, zero_count, positive spans, negative spans, positive/negative
   int buckets, positive/negative float buckets, timestamp, custom values) *)
Definition out_hist := (bool * Z * N * N * Z * N * N * list span * list span * list Z * list Z * list N * list N * Z * list N)%type.
Definition out_series := (list label * list sample * list out_hist * list in_exemplar)%type.

(* ---- symboltable.Builder ---- *)
Definition str_eqb : str -> str -> bool := list_eqb N.eqb.

Fixpoint index_of (s : str) (tbl : list str) : option nat :=
  match tbl with
  | [] => None
  | x :: r => if str_eqb x s then Some O else option_map S (index_of s r)
  end.

(* AddEntry: the table is the list of distinct items in order of first
   insertion; Index = position, Start = bytes before it *)
Definition add_entry (tbl : list str) (s : str) : list str * N :=
  match index_of s tbl with
  | Some i => (tbl, N.of_nat i)
  | None => (tbl ++ [s], N.of_nat (List.length tbl))
  end.

(* ---- the message ---- *)
Definition ref := (N * N)%type.                 (* name index, value index *)
Definition wcnt := (bool * N)%type.             (* Cap'n Proto union: which (default: the int arm, 0), value *)
Definition wire_hist := (wcnt * N * Z * N * wcnt * list span * list Z * list N * list span * list Z * list N * Z * Z)%type.
Definition wire_exemplar := (list ref * N * Z)%type.
Definition wire_series := (list ref * list sample * list wire_hist * list wire_exemplar)%type.
Definition wire := (list N * list N * list (str * list wire_series))%type.   (* offsets, data, tenants *)

Fixpoint enc_labels (tbl : list str) (ls : list label) : list str * list ref :=
  match ls with
  | [] => (tbl, [])
  | (n, v) :: r =>
      let '(t1, a) := add_entry tbl n in
      let '(t2, b) := add_entry t1 v in
      let '(t3, rs) := enc_labels t2 r in
      (t3, (a, b) :: rs)
  end.

Definition enc_cnt (c : cnt) : wcnt := match c with Some x => x | None => (true, 0%N) end.

(* the zero count goes on the arm that matches the count, read as the protobuf
   path reads it: GetZeroCountFloat / GetZeroCountInt are 0 when the oneof is
   unset or holds the other type *)
Definition enc_zero_count (c zc : cnt) : wcnt :=
  match c with
  | Some (false, _) => (false, match zc with Some (false, v) => v | _ => 0%N end)
  | _ => (true, match zc with Some (true, v) => v | _ => 0%N end)
  end.

(* marshalHistogram: custom values are not part of the schema *)
Definition enc_hist (h : in_hist) : wire_hist :=
  match h with
  | (c, s, sc, zt, zc, ns, nd, nc, ps, pd, pc, r, t, _custom) =>
      (enc_cnt c, s, sc, zt, enc_zero_count c zc, ns, nd, nc, ps, pd, pc, r, t)
  end.

Fixpoint enc_exemplars (tbl : list str) (es : list in_exemplar) : list str * list wire_exemplar :=
  match es with
  | [] => (tbl, [])
  | (ls, v, t) :: r =>
      let '(t1, rs) := enc_labels tbl ls in
      let '(t2, out) := enc_exemplars t1 r in
      (t2, (rs, v, t) :: out)
  end.

(* BuildInto, one series: labels, samples, histograms, then exemplars *)
Definition enc_series (tbl : list str) (s : in_series) : list str * wire_series :=
  match s with
  | (ls, samples, hists, exemplars) =>
      let '(t1, rs) := enc_labels tbl ls in
      let '(t2, es) := enc_exemplars t1 exemplars in
      (t2, (rs, samples, map enc_hist hists, es))
  end.

Fixpoint enc_series_list (tbl : list str) (ss : list in_series) : list str * list wire_series :=
  match ss with
  | [] => (tbl, [])
  | s :: r =>
      let '(t1, w) := enc_series tbl s in
      let '(t2, ws) := enc_series_list t1 r in
      (t2, w :: ws)
  end.

(* one builder shared by all tenants of the message *)
Fixpoint enc_tenants (tbl : list str) (req : request) : list str * list (str * list wire_series) :=
  match req with
  | [] => (tbl, [])
  | (tn, ss) :: r =>
      let '(t1, ws) := enc_series_list tbl ss in
      let '(t2, out) := enc_tenants t1 r in
      (t2, (tn, ws) :: out)
  end.

(* marshalSymbols: offsets[Index] = Start + len, data = the strings laid out by Start *)
Fixpoint ends_from (start : N) (tbl : list str) : list N :=
  match tbl with
  | [] => []
  | s :: r => let e := (start + N.of_nat (List.length s))%N in e :: ends_from e r
  end.
Definition marshal_symbols (tbl : list str) : list N * list N := (ends_from 0%N tbl, concat tbl).

Definition encode (req : request) : wire :=
  let '(tbl, ts) := enc_tenants [] req in
  let '(offs, data) := marshal_symbols tbl in
  (offs, data, ts).

(* ---- NewRequest: cumulative ends -> strings ---- *)
Definition slice (data : list N) (s e : N) : str := firstn (N.to_nat (e - s)) (skipn (N.to_nat s) data).
Fixpoint dec_symbols_from (start : N) (offs : list N) (data : list N) : list str :=
  match offs with
  | [] => []
  | e :: r => (if (start =? e)%N then [] else slice data start e) :: dec_symbols_from e r data
  end.
Definition decode_symbols (offs data : list N) : list str := dec_symbols_from 0%N offs data.

Definition sym (syms : list str) (i : N) : str := nth (N.to_nat i) syms [].
Definition dec_labels (syms : list str) (rs : list ref) : list label :=
  map (fun r => (sym syms (fst r), sym syms (snd r))) rs.

(* readHistogram with zeroCountInt / zeroCountFloat: a zero count on the other
   arm of the union reads as 0 (the generated accessor is never called on the
   wrong arm). The result type stays an option (None = panic) so that the
   totality of decoding is a theorem, not a typing accident. *)
Definition dec_hist (w : wire_hist) : option out_hist :=
  match w with
  | (c, s, sc, zt, zc, ns, nd, nc, ps, pd, pc, r, t) =>
      if fst c then
        Some (true, r, snd c, s, sc, zt, (if fst zc then snd zc else 0%N), ps, ns, pd, nd, [], [], t, [])
      else
        Some (false, r, snd c, s, sc, zt, (if fst zc then 0%N else snd zc), ps, ns, [], [], pc, nc, t, [])
  end.

Fixpoint opt_map {A B} (f : A -> option B) (l : list A) : option (list B) :=
  match l with
  | [] => Some []
  | x :: r => match f x, opt_map f r with
              | Some y, Some ys => Some (y :: ys)
              | _, _ => None
              end
  end.

Definition dec_series (syms : list str) (w : wire_series) : option out_series :=
  match w with
  | (rs, samples, hists, exemplars) =>
      match opt_map dec_hist hists with
      | None => None
      | Some hs => Some (dec_labels syms rs, samples, hs,
                         map (fun e => match e with (r, v, t) => (dec_labels syms r, v, t) end) exemplars)
      end
  end.

Definition decode (w : wire) : option (list (str * list out_series)) :=
  match w with
  | (offs, data, ts) =>
      let syms := decode_symbols offs data in
      opt_map (fun tn => match opt_map (dec_series syms) (snd tn) with
                         | Some ss => Some (fst tn, ss)
                         | None => None
                         end) ts
  end.

(* ---- specification: what "the same series" means ---- *)
(* the reading of a prompb.Histogram that the protobuf path uses
   (IsFloatHistogram, HistogramProtoToHistogram, FloatHistogramProtoToFloatHistogram):
   float iff the count is a float; count / zero count are the value of the
   matching oneof arm, 0 otherwise; integer histograms keep the deltas, float
   histograms the counts; custom bucket boundaries are kept. *)
Definition spec_hist (h : in_hist) : option out_hist :=
  match h with
  | (c, s, sc, zt, zc, ns, nd, nc, ps, pd, pc, r, t, custom) =>
      match c with
      | Some (false, cv) =>
          Some (false, r, cv, s, sc, zt, match zc with Some (false, zv) => zv | _ => 0%N end, ps, ns, [], [], pc, nc, t, custom)
      | _ =>
          Some (true, r, match c with Some (true, cv) => cv | _ => 0%N end, s, sc, zt,
                match zc with Some (true, zv) => zv | _ => 0%N end, ps, ns, pd, nd, [], [], t, custom)
      end
  end.

Definition spec_series (s : in_series) : option out_series :=
  match s with
  | (ls, samples, hists, exemplars) =>
      match opt_map spec_hist hists with
      | Some hs => Some (ls, samples, hs, exemplars)
      | None => None
      end
  end.

Definition spec_request (req : request) : option (list (str * list out_series)) :=
  opt_map (fun tn => match opt_map spec_series (snd tn) with
                     | Some ss => Some (fst tn, ss)
                     | None => None
                     end) req.

Definition hist_custom (h : in_hist) : list N :=
  match h with (_, _, _, _, _, _, _, _, _, _, _, _, _, custom) => custom end.
Definition series_hists (s : in_series) : list in_hist := match s with (_, _, hs, _) => hs end.
Definition no_custom_values (req : request) : bool :=
  forallb (fun tn => forallb (fun s => forallb (fun h => match hist_custom h with [] => true | _ => false end) (series_hists s)) (snd tn)) req.

(* ---- deciders ---- *)
Definition label_eqb (a b : label) : bool := str_eqb (fst a) (fst b) && str_eqb (snd a) (snd b).
Definition span_eqb (a b : span) : bool := Z.eqb (fst a) (fst b) && N.eqb (snd a) (snd b).
Definition sample_eqb (a b : sample) : bool := Z.eqb (fst a) (fst b) && N.eqb (snd a) (snd b).
Definition out_hist_eqb (a b : out_hist) : bool :=
  match a, b with
  | (i1, r1, c1, s1, sc1, zt1, zc1, ps1, ns1, pd1, nd1, pc1, nc1, t1, cu1),
    (i2, r2, c2, s2, sc2, zt2, zc2, ps2, ns2, pd2, nd2, pc2, nc2, t2, cu2) =>
      Bool.eqb i1 i2 && Z.eqb r1 r2 && N.eqb c1 c2 && N.eqb s1 s2 && Z.eqb sc1 sc2 && N.eqb zt1 zt2 && N.eqb zc1 zc2
      && list_eqb span_eqb ps1 ps2 && list_eqb span_eqb ns1 ns2 && list_eqb Z.eqb pd1 pd2 && list_eqb Z.eqb nd1 nd2
      && list_eqb N.eqb pc1 pc2 && list_eqb N.eqb nc1 nc2 && Z.eqb t1 t2 && list_eqb N.eqb cu1 cu2
  end.
Definition exemplar_eqb (a b : in_exemplar) : bool :=
  match a, b with (l1, v1, t1), (l2, v2, t2) => list_eqb label_eqb l1 l2 && N.eqb v1 v2 && Z.eqb t1 t2 end.
Definition out_series_eqb (a b : out_series) : bool :=
  match a, b with
  | (l1, s1, h1, e1), (l2, s2, h2, e2) =>
      list_eqb label_eqb l1 l2 && list_eqb sample_eqb s1 s2 && list_eqb out_hist_eqb h1 h2 && list_eqb exemplar_eqb e1 e2
  end.
Definition tenant_eqb (a b : str * list out_series) : bool :=
  str_eqb (fst a) (fst b) && list_eqb out_series_eqb (snd a) (snd b).

(* ---- correspondence and predicate ---- *)
Inductive case :=
| CCapnp (single : bool) (req : request) (panicked : bool)
         (offsets : list N) (data : list N) (decoded : list (str * list out_series)).

Definition corr_ok (c : case) : bool :=
  match c with
  | CCapnp _ req panicked offs data decoded =>
      match encode req with
      | (moffs, mdata, _) =>
          list_eqb N.eqb moffs offs && list_eqb N.eqb mdata data
          && match decode (encode req) with
             | Some out => negb panicked && list_eqb tenant_eqb out decoded
             | None => panicked
             end
      end
  end.

(* lossless: no panic, and the decoded request is the request *)
Definition pred_ok (c : case) : bool :=
  match c with
  | CCapnp _ req panicked _ _ decoded =>
      negb panicked &&
      match spec_request req with
      | Some want => list_eqb tenant_eqb decoded want
      | None => false
      end
  end.
