(* C45 — model of pkg/rules/rules.go: matches / filterRulesByMatchers /
   dedupGroups / dedupRules as composed by GRPCClient.Rules, and of the
   comparison functions of pkg/rules/rulespb/custom.go they rely on.
   Executable definitions only.

   External functions are parameters: [re pat v] is the anchored regular
   expression match of Prometheus' labels.Matcher (FastRegexMatcher), [templ v]
   says whether text/template parses the label value [v] to anything but one
   text node. The harness supplies their values as tables inside each case. *)
From Coq Require Import NArith ZArith List Bool.
Import ListNotations.
From Verif Require Import Lib.Corr Lib.Misc_Cmp Gen.C45.

Definition label := (str * str)%type.
Definition labels := list label.

(* labels.Matcher: type 0 "=", 1 "!=", 2 "=~", 3 "!~" *)
Record matcher := Matcher { m_type : N; m_name : str; m_value : str }.

Inductive kind := Alerting | Recording.

(* the fields of rulespb.Rule that rules.go and the Compare methods read.
   [r_dur] = DurationSeconds (alerting only; an integer number of seconds here),
   [r_state] = AlertState (0 inactive, 1 pending, 2 firing),
   [r_eval] = LastEvaluation in seconds. *)
Record rule := Rule {
  r_kind : kind; r_name : str; r_labels : labels; r_query : str;
  r_dur : Z; r_state : Z; r_eval : Z }.

(* a rule group: Key() = File + ";" + Name, and its rules *)
Record group := Group { g_key : str; g_rules : list rule }.

Section Model.
  Variable re : str -> str -> bool.
  Variable templ : str -> bool.

  (* labels.Labels.Get: value of the first label with that name, "" if none *)
  Fixpoint lget (ls : labels) (n : str) : str :=
    match ls with
    | [] => []
    | (k, v) :: ls' => if str_eqb k n then v else lget ls' n
    end.

  (* labels.Matcher.Matches *)
  Definition matcher_ok (m : matcher) (v : str) : bool :=
    match m_type m with
    | 0%N => str_eqb v (m_value m)
    | 1%N => negb (str_eqb v (m_value m))
    | 2%N => re (m_value m) v
    | _ => negb (re (m_value m) v)
    end.

  (* the Builder loop at the top of matches: only labels whose value is one
     text node are Set; Set with an empty value deletes *)
  Definition non_templated (ls : labels) : labels :=
    filter (fun l => negb (templ (snd l)) && negb (str_eqb (snd l) [])) ls.

  (* matchesAll: `for _, m := range matchers { if !m.Matches(Get(m.Name)) { return false } }; return true` *)
  Fixpoint matches_all (ms : list matcher) (ls : labels) : bool :=
    match ms with
    | [] => true
    | m :: ms' => if negb (matcher_ok m (lget ls (m_name m))) then false else matches_all ms' ls
    end.

  (* the loop over the selector sets (after the repair):
     `for _, matchers := range matcherSets { if matchesAll(..) { return true } }; return false` *)
  Fixpoint matches_sets (sets : list (list matcher)) (ls : labels) : bool :=
    match sets with
    | [] => false
    | s :: sets' => if matches_all s ls then true else matches_sets sets' ls
    end.

  Definition matches (sets : list (list matcher)) (ls : labels) : bool :=
    match sets with
    | [] => true
    | _ => matches_sets sets (non_templated ls)
    end.

  (* the loop as it was before the repair: `return false` on the first failing
     matcher of ANY set *)
  Fixpoint matches_sets_unfixed (sets : list (list matcher)) (ls : labels) : bool :=
    match sets with
    | [] => true
    | s :: sets' => if negb (matches_all s ls) then false else matches_sets_unfixed sets' ls
    end.

  Definition matches_unfixed (sets : list (list matcher)) (ls : labels) : bool :=
    match sets with
    | [] => true
    | _ => matches_sets_unfixed sets (non_templated ls)
    end.

  (* the specification: OR over the sets of AND over the selectors *)
  Definition spec_match (sets : list (list matcher)) (ls : labels) : bool :=
    match sets with
    | [] => true
    | _ => existsb (fun s => forallb (fun m => matcher_ok m (lget (non_templated ls) (m_name m))) s) sets
    end.

  (* filterRulesByMatchers: the two in-place compaction loops *)
  Definition is_nil {A} (l : list A) : bool := match l with [] => true | _ => false end.

  Definition filter_group (sets : list (list matcher)) (g : group) : group :=
    Group (g_key g) (filter (fun r => matches sets (r_labels r)) (g_rules g)).

  Definition filter_rules (sets : list (list matcher)) (gs : list group) : list group :=
    match sets with
    | [] => gs
    | _ => filter (fun g => negb (is_nil (g_rules g))) (map (filter_group sets) gs)
    end.
End Model.

(* ---- rulespb comparisons ---- *)

Definition kind_cmp (a b : kind) : comparison :=
  match a, b with
  | Alerting, Recording => Lt
  | Recording, Alerting => Gt
  | _, _ => Eq
  end.

Definition label_cmp : label -> label -> comparison :=
  lex_cmp (on_cmp fst str_cmp) (on_cmp snd str_cmp).

(* labels.Compare (slicelabels) *)
Definition labels_cmp : labels -> labels -> comparison := list_cmp label_cmp.

Definition is_alert (r : rule) : bool := match r_kind r with Alerting => true | _ => false end.

(* Rule.Compare, in the order of its tests *)
Definition rule_cmp (r1 r2 : rule) : comparison :=
  match r_kind r1, r_kind r2 with
  | Alerting, Recording => Lt
  | Recording, Alerting => Gt
  | _, _ =>
    match str_cmp (r_name r1) (r_name r2) with
    | Eq =>
      match labels_cmp (r_labels r1) (r_labels r2) with
      | Eq =>
        match str_cmp (r_query r1) (r_query r2) with
        | Eq => if is_alert r1 && is_alert r2 then Z.compare (r_dur r1) (r_dur r2) else Eq
        | d => d
        end
      | d => d
      end
    | d => d
    end
  end.

(* Alert.Compare: AlertState.Compare is int(y) - int(x); then
   Before -> 1, After -> -1. RecordingRule.Compare: only the evaluation time. *)
Definition eval_cmp (r1 r2 : rule) : comparison := Z.compare (r_eval r2) (r_eval r1).

Definition alert_cmp (r1 r2 : rule) : comparison :=
  match Z.compare (r_state r2) (r_state r1) with
  | Eq => eval_cmp r1 r2
  | d => d
  end.

(* the switch inside the dedup loop: true = "swap" (rules[i] = rules[j]) *)
Definition younger (cur r : rule) : bool :=
  match r_kind cur, r_kind r with
  | Recording, Recording => is_gt (eval_cmp cur r)
  | Alerting, Alerting => is_gt (alert_cmp cur r)
  | _, _ => false
  end.

(* removeReplicaLabels: Builder over the rule's labels (Reset marks labels with
   an empty value as deleted), Del for every replica label, Labels() *)
Definition remove_replica (replica : list str) (ls : labels) : labels :=
  filter (fun l => negb (mem_str (fst l) replica) && negb (str_eqb (snd l) [])) ls.

Definition strip (replica : list str) (r : rule) : rule :=
  Rule (r_kind r) (r_name r) (remove_replica replica (r_labels r)) (r_query r)
       (r_dur r) (r_state r) (r_eval r).

(* the `for j := 1; j < len(rules); j++` loop with rules[i] = [cur] *)
Fixpoint dedup_loop (cur : rule) (rest : list rule) : list rule :=
  match rest with
  | [] => [cur]
  | r :: rest' =>
    if negb (is_eq (rule_cmp cur r)) then cur :: dedup_loop r rest'
    else if younger cur r then dedup_loop r rest'
    else dedup_loop cur rest'
  end.

Definition dedup_rules (replica : list str) (rs : list rule) : list rule :=
  match isort rule_cmp (map (strip replica) rs) with
  | [] => []
  | r :: rest => dedup_loop r rest
  end.

(* dedupGroups: sort by key, append the rules of equal neighbours *)
Definition group_cmp (a b : group) : comparison := str_cmp (g_key a) (g_key b).

Fixpoint merge_loop (cur : group) (rest : list group) : list group :=
  match rest with
  | [] => [cur]
  | g :: rest' =>
    if is_eq (group_cmp g cur) then merge_loop (Group (g_key cur) (g_rules cur ++ g_rules g)) rest'
    else cur :: merge_loop g rest'
  end.

Definition dedup_groups (gs : list group) : list group :=
  match isort group_cmp gs with
  | [] => []
  | g :: rest => merge_loop g rest
  end.

(* GRPCClient.Rules with no name/group/file filter *)
Definition rules_api (re : str -> str -> bool) (templ : str -> bool)
           (sets : list (list matcher)) (replica : list str) (gs : list group) : list group :=
  map (fun g => Group (g_key g) (dedup_rules replica (g_rules g)))
      (dedup_groups (filter_rules re templ sets gs)).

(* ---- cases ---- *)

Definition re_tab := list ((str * str) * bool).
Definition templ_tab := list (str * bool).

Fixpoint re_of (t : re_tab) (p v : str) : bool :=
  match t with
  | [] => false
  | ((p', v'), b) :: t' => if str_eqb p p' && str_eqb v v' then b else re_of t' p v
  end.

(* values missing from the table are treated as templated, so that a hole in the
   table shows up as a disagreement rather than being papered over *)
Fixpoint templ_of (t : templ_tab) (v : str) : bool :=
  match t with
  | [] => true
  | (v', b) :: t' => if str_eqb v v' then b else templ_of t' v
  end.

Inductive case :=
| CMatch (sets : list (list matcher)) (rt : re_tab) (tpl : templ_tab) (ls : labels) (out : bool)
| CRules (sets : list (list matcher)) (rt : re_tab) (tpl : templ_tab) (replica : list str)
         (gs : list group) (out : list group)
| CSkip.

Definition label_eqb (a b : label) : bool := str_eqb (fst a) (fst b) && str_eqb (snd a) (snd b).
Definition kind_eqb (a b : kind) : bool := is_eq (kind_cmp a b).
Definition rule_eqb (a b : rule) : bool :=
  kind_eqb (r_kind a) (r_kind b) && str_eqb (r_name a) (r_name b)
  && list_eqb label_eqb (r_labels a) (r_labels b) && str_eqb (r_query a) (r_query b)
  && Z.eqb (r_dur a) (r_dur b) && Z.eqb (r_state a) (r_state b) && Z.eqb (r_eval a) (r_eval b).
Definition group_eqb (a b : group) : bool :=
  str_eqb (g_key a) (g_key b) && list_eqb rule_eqb (g_rules a) (g_rules b).

Definition corr_ok (c : case) : bool :=
  match c with
  | CMatch sets rt tpl ls out => Bool.eqb (matches (re_of rt) (templ_of tpl) sets ls) out
  | CRules sets rt tpl replica gs out =>
      list_eqb group_eqb (rules_api (re_of rt) (templ_of tpl) sets replica gs) out
  | CSkip => true
  end.

(* ---- the property's predicate on the implementation's own observables ---- *)

(* no two elements of the list compare equal *)
Fixpoint no_dup_by {A} (c : A -> A -> comparison) (l : list A) : bool :=
  match l with
  | [] => true
  | x :: l' => forallb (fun y => negb (is_eq (c x y))) l' && no_dup_by c l'
  end.

(* rules of all input groups with the given key *)
Definition rules_of_key (k : str) (gs : list group) : list rule :=
  concat (map g_rules (filter (fun g => str_eqb (g_key g) k) gs)).

Definition api_pred (re : str -> str -> bool) (templ : str -> bool)
           (sets : list (list matcher)) (replica : list str) (gs out : list group) : bool :=
  (* one group per key, one rule per class of equal rules *)
  no_dup_by group_cmp out
  && forallb (fun g => no_dup_by rule_cmp (g_rules g)) out
  (* every returned rule is a selected input rule of that group, replica labels removed *)
  && forallb (fun g => forallb (fun r' =>
        existsb (fun r => spec_match re templ sets (r_labels r) && rule_eqb (strip replica r) r')
                (rules_of_key (g_key g) gs)) (g_rules g)) out
  (* every selected input rule is represented in the group with its key *)
  && forallb (fun g => forallb (fun r =>
        negb (spec_match re templ sets (r_labels r))
        || existsb (fun g' => str_eqb (g_key g') (g_key g)
                              && existsb (fun r' => is_eq (rule_cmp (strip replica r) r')) (g_rules g')) out)
        (g_rules g)) gs.

Definition pred_ok (c : case) : bool :=
  match c with
  | CMatch sets rt tpl ls out => Bool.eqb out (spec_match (re_of rt) (templ_of tpl) sets ls)
  | CRules sets rt tpl replica gs out => api_pred (re_of rt) (templ_of tpl) sets replica gs out
  | CSkip => true
  end.
