(* C08 — Stores present external labels consistently. Model of TSDBStore.Series
   (pkg/store/tsdb.go): matchesExternalLabels (model shared with C05), rmLabels,
   labelpb.ExtendSortedLabels (labels.Builder.Set per external label on a name-sorted
   label list), selection by the stripped matchers (matcher semantics = oracle truth
   tables, as in C05), and the splitting of a series into frames by maxBytesPerFrame.
   Chunk sizes (AggrChunk.Size) are data supplied by the harness. Executable definitions only. *)
From Coq Require Import ZArith NArith List Bool.
Import ListNotations.
From Verif Require Export Model.C05.
From Verif Require Import Lib.Corr Lib.Proxy_Order Gen.C08.
Open Scope Z_scope.

Definition str := Model.C05.str.
Definition labels := Model.C05.labels.

(* rmLabels *)
Definition rm (drop : list str) (l : labels) : labels :=
  filter (fun p => negb (existsb (str_eqb (fst p)) drop)) l.

(* labels.Builder.Set(n, v) followed by Labels() on a label list sorted by name:
   an empty value deletes the label *)
Fixpoint lset (n v : str) (l : labels) : labels :=
  match l with
  | [] => if is_empty_str v then [] else [(n, v)]
  | (k, w) :: r =>
      match str_cmp n k with
      | Lt => if is_empty_str v then l else (n, v) :: l
      | Eq => if is_empty_str v then r else (n, v) :: r
      | Gt => (k, w) :: lset n v r
      end
  end.
(* labelpb.ExtendSortedLabels(lset, extend) *)
Definition extend (l ext : labels) : labels :=
  match ext with [] => l | _ => fold_left (fun acc p => lset (fst p) (snd p) acc) ext l end.

(* the label set TSDBStore.Series sends for a stored series:
   ExtendSortedLabels(rmLabels(series.Labels(), drop), rmLabels(extLset, drop)) *)
Definition present (ext : labels) (drop : list str) (stored : labels) : labels :=
  extend (rm drop stored) (rm drop ext).
(* the other order (BucketStore, newBlockSeriesClient + blockSeriesClient.nextBatch): the block's
   external labels lose the replica labels first, the series is extended with them, and the
   replica labels are then removed from the result; nothing is removed when the request has no
   replica labels *)
Definition present_bucket (ext : labels) (drop : list str) (stored : labels) : labels :=
  match drop with
  | [] => extend stored ext
  | _ => rm drop (extend stored (rm drop ext))
  end.

(* a chunk of a stored series: (MinTime, MaxTime, AggrChunk.Size()) *)
Definition chunk := (Z * Z * Z)%type.
Definition csize (c : chunk) : Z := snd c.

(* ZLabel.Size(): protobuf size of {name, value} for strings shorter than 128 bytes *)
Definition pb_str_size (s : str) : Z := match s with [] => 0 | _ => 2 + Z.of_nat (length s) end.
Definition label_size (p : str * str) : Z := pb_str_size (fst p) + pb_str_size (snd p).

(* the inner loop of TSDBStore.Series: one frame per "frameBytesLeft > 0 && isNext" run *)
Fixpoint split (base left : Z) (acc : list chunk) (cs : list chunk) : list (list chunk) :=
  match cs with
  | [] => []
  | c :: r =>
      let left' := left - csize c in
      let acc' := acc ++ [c] in
      match r with
      | [] => [acc']
      | _ => if frame_continue left' true then split base left' acc' r
             else acc' :: split base base [] r
      end
  end.

Definition frames_of (maxBytes : Z) (skip : bool) (lbls : labels) (cs : list chunk) : list (labels * list chunk) :=
  if skip then [(lbls, [])]
  else let base := maxBytes - fold_right Z.add 0 (map label_size lbls) in
       map (fun f => (lbls, f)) (split base base [] cs).

Definition selected (ms : list matcher) (l : labels) : bool :=
  forallb (fun m => mmatch m (lget l (mname m))) ms.

Inductive result := RErr | ROkFrames (fs : list (labels * list chunk)).

(* TSDBStore.Series *)
Definition tsdb_series (ext : labels) (drop : list str) (ms : list matcher) (maxBytes : Z) (skip : bool)
    (stored : list (labels * list chunk)) : result :=
  match matches_external_labels mname mmatch ms ext with
  | None => ROkFrames []
  | Some [] => RErr           (* "no matchers specified (excluding external labels)" *)
  | Some kept =>
      ROkFrames (concat (map (fun s => if selected kept (fst s)
                                       then frames_of maxBytes skip (present ext drop (fst s)) (snd s)
                                       else []) stored))
  end.

(* BucketStore.Series over blocks (external labels, stored series): per block the matchers on its
   external labels are checked and stripped (bucketBlockSet.labelMatchers — the same loop as
   matchesExternalLabels), the rest select the stored series *)
Definition block_series_labels (drop : list str) (ms : list matcher) (b : labels * list labels) : list labels :=
  match ext_loop mname mmatch ms (fst b) with
  | None => []
  | Some [] => []          (* ExpandedPostings: no matcher left after stripping => no postings *)
  | Some kept => map (present_bucket (fst b) drop) (filter (selected kept) (snd b))
  end.
Definition bucket_series_labels (blocks : list (labels * list labels)) (drop : list str) (ms : list matcher) : list labels :=
  concat (map (block_series_labels drop ms) blocks).

(* sorted, distinct label sets (observable of a Series response when only labels are compared) *)
Fixpoint linsert (x : labels) (l : list labels) : list labels :=
  match l with
  | [] => [x]
  | y :: r => match lbl_cmp x y with Gt => y :: linsert x r | Eq => l | Lt => x :: l end
  end.
Definition lsort_set (l : list labels) : list labels := fold_right linsert [] l.

(* ---- observables: frames as a canonically sorted list ---- *)
Definition chunk_eqb (a b : chunk) : bool :=
  let '(a1, a2, a3) := a in let '(b1, b2, b3) := b in (a1 =? b1) && (a2 =? b2) && (a3 =? b3).
Definition labels_eqb : labels -> labels -> bool := list_eqb (pair_eqb str_eqb str_eqb).
Definition frame_eqb (a b : labels * list chunk) : bool :=
  labels_eqb (fst a) (fst b) && list_eqb chunk_eqb (snd a) (snd b).
(* a total order on frames (labels, then the chunk lists lexicographically) so that the
   canonical form does not depend on the order in which equal-label frames arrive *)
Definition chunk_cmp (a b : chunk) : comparison :=
  let '(a1, a2, a3) := a in let '(b1, b2, b3) := b in
  match Z.compare a1 b1 with
  | Eq => match Z.compare a2 b2 with Eq => Z.compare a3 b3 | c => c end
  | c => c
  end.
Definition frame_le (a b : labels * list chunk) : bool :=
  match lbl_cmp (fst a) (fst b) with
  | Lt => true | Gt => false
  | Eq => match lex_cmp chunk_cmp (snd a) (snd b) with Gt => false | _ => true end
  end.
Fixpoint finsert (x : labels * list chunk) (l : list (labels * list chunk)) :=
  match l with [] => [x] | y :: r => if frame_le x y then x :: l else y :: finsert x r end.
Definition fsort (l : list (labels * list chunk)) := fold_right finsert [] l.

Inductive case :=
| CTsdb (ext : labels) (drop : list str) (ms : list matcher) (maxBytes : Z) (skip : bool)
        (stored : list (labels * list chunk))
        (o : option (list (labels * list chunk)))   (* None = error; frames sorted by (labels, first chunk) *)
| CBkt (blocks : list (labels * list labels)) (drop : list str) (ms : list matcher)
       (o : option (list labels))                  (* BucketStore.Series: label sets, sorted and distinct *)
| CNop.

Definition corr_ok (c : case) : bool :=
  match c with
  | CTsdb ext drop ms maxBytes skip stored o =>
      match tsdb_series ext drop ms maxBytes skip stored, o with
      | RErr, None => true
      | ROkFrames fs, Some ofs => list_eqb frame_eqb (fsort fs) ofs
      | _, _ => false
      end
  | CBkt blocks drop ms o =>
      match o with
      | Some ols => list_eqb labels_eqb (lsort_set (bucket_series_labels blocks drop ms)) ols
      | None => false
      end
  | CNop => true
  end.

Fixpoint names_sorted (l : labels) : bool :=
  match l with
  | [] => true
  | (n, _) :: r => match r with [] => true | (m, _) :: _ => (match str_cmp n m with Lt => true | _ => false end) && names_sorted r end
  end.

(* the property on the implementation's frames: every frame carries every external label that
   was not dropped (external value wins), none of the dropped labels, sorted unique names; a
   request contradicting the external labels returns nothing; the frames of a label set carry
   the chunks of the stored series it stands for, each frame at least one chunk *)
Definition pred_ok (c : case) : bool :=
  match c with
  | CTsdb ext drop ms maxBytes skip stored o =>
      match o with
      | None => match matches_external_labels mname mmatch ms ext with Some [] => true | _ => false end
      | Some ofs =>
          forallb (fun f =>
              forallb (fun p => existsb (str_eqb (fst p)) drop || is_empty_str (snd p)
                                || str_eqb (lget (fst f) (fst p)) (snd p)) ext
              && forallb (fun d => negb (lhas (fst f) d)) drop
              && names_sorted (fst f)
              && (skip || negb (match snd f with [] => true | _ => false end))) ofs
          && (match matches_external_labels mname mmatch ms ext with None => match ofs with [] => true | _ => false end | _ => true end)
          (* all chunks of every selected stored series are delivered under its presented labels, nothing else *)
          && (skip ||
              list_eqb Z.eqb
                (fold_right Z.add 0 (map (fun f => Z.of_nat (length (snd f))) ofs) :: nil)
                (match matches_external_labels mname mmatch ms ext with
                 | Some kept => fold_right Z.add 0 (map (fun s => if selected kept (fst s) then Z.of_nat (length (snd s)) else 0) stored) :: nil
                 | None => 0 :: nil end))
      end
  | CBkt blocks drop ms o =>
      match o with
      | None => false
      | Some ols =>
          (* every returned series carries the external labels of some block of the store that were not
             dropped, none of the dropped labels, sorted unique names *)
          forallb (fun l =>
              forallb (fun d => negb (lhas l d)) drop && names_sorted l
              (* ... of a block whose external labels the selectors do not contradict *)
              && existsb (fun b => forallb (fun p => existsb (str_eqb (fst p)) drop || is_empty_str (snd p)
                                                     || str_eqb (lget l (fst p)) (snd p)) (fst b)
                                   && match ext_loop mname mmatch ms (fst b) with Some _ => true | None => false end) blocks) ols
      end
  | CNop => true
  end.
