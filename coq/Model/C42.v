(* C42 — model of internal/cortex/querier/queryrange/results_cache.go
   (resultsCache.Do, handleMiss, handleHit, partition, extract, the extent merge loop),
   query_range.go (prometheusCodec.MergeResponse: byFirstTime sort + matrixMerge, SliceSamples)
   and of the chain step-align -> split-by-interval -> results cache used by
   pkg/queryfrontend (keys: step and split window, plus the lower-step alternatives of
   pkg/queryfrontend/cache.go). [isTimestampAtStep], [min_cache_extent] and
   [common_query_steps] come from Gen/C42.v (regenerated from the source on every run);
   step alignment and interval splitting are C41's model. Executable definitions only. *)
From Coq Require Import ZArith List Bool.
Import ListNotations.
From Verif Require Import Lib.Corr Gen.C41 Model.C41 Gen.C42.
Open Scope Z_scope.

Definition samples := list (Z * Z).            (* (timestamp ms, value) *)
Definition matrix := list (Z * samples).       (* (series id, samples), sorted by id; ids order like label strings *)
Definition extent := (Z * Z * matrix)%type.    (* start, end, cached response *)
Definition ckey := (Z * Z)%type.               (* step, start / split interval *)
Definition cache := list (ckey * list extent).

(* ---- the downstream (deterministic): value of series s at time t, or absent ---- *)
Definition downstream := Z -> Z -> option Z.

Definition samples_of (f : downstream) (s a b st : Z) : samples :=
  flat_map (fun t => match f s t with Some v => [(t, v)] | None => [] end) (steps a b st).

Definition nonempty_stream (s : Z) (l : samples) : matrix :=
  match l with [] => [] | _ => [(s, l)] end.

(* direct evaluation of a range query: what next.Do returns *)
Definition eval (f : downstream) (sids : list Z) (a b st : Z) : matrix :=
  flat_map (fun s => nonempty_stream s (samples_of f s a b st)) sids.

(* ---- extractMatrix / extractSampleStream ---- *)
Definition extract_stream (a b st : Z) (l : samples) : samples :=
  filter (fun p => isTimestampAtStep a b st (fst p)) l.

Definition extract (a b st : Z) (m : matrix) : matrix :=
  flat_map (fun sl => nonempty_stream (fst sl) (extract_stream a b st (snd sl))) m.

(* ---- MergeResponse ---- *)
(* minTime: smallest first timestamp over ALL series, -1 when there is none
   (as repaired by repo_patches/C42-fix.patch; streams without samples are skipped) *)
Definition min_time (m : matrix) : Z :=
  fold_left (fun acc sl =>
               match snd sl with
               | [] => acc
               | (t, _) :: _ => if (acc =? -1) || (t <? acc) then t else acc
               end) m (-1).

(* minTime as it was before the repair: the first series only *)
Definition min_time_first (m : matrix) : Z :=
  match m with
  | [] => -1
  | (_, []) :: _ => -1
  | (_, (t, _) :: _) :: _ => t
  end.

(* sort.Sort / sort.Slice on at most 12 elements is insertion sort (stable) *)
Fixpoint ins_by {A} (lt : A -> A -> bool) (x : A) (l : list A) : list A :=
  match l with
  | [] => [x]
  | y :: l' => if lt x y then x :: l else y :: ins_by lt x l'
  end.

Definition sort_by {A} (lt : A -> A -> bool) (l : list A) : list A :=
  fold_left (fun acc x => ins_by lt x acc) l [].

Fixpoint last_ts (l : samples) (d : Z) : Z :=
  match l with [] => d | (t, _) :: l' => last_ts l' t end.

(* SliceSamples and SliceHistogram are one function here: a model stream holds either the float
   samples or the native-histogram samples of a series (harness: ids 2s and 2s+1). Both search for
   the first timestamp `> minTs`; the comparison operators are read from the source (Gen/C42.v) and
   the model follows them: if either became `>=`, the sample at minTs would be kept *)
Definition slice_keeps_equal : bool := SliceSamples_keeps_equal || SliceHistogram_keeps_equal.

Fixpoint drop_le (l : samples) (m : Z) : samples :=
  match l with
  | [] => []
  | (t, v) :: l' => if (if slice_keeps_equal then t <? m else t <=? m) then drop_le l' m else l
  end.

(* SliceSamples / SliceHistogram (sort.Search on ascending timestamps = drop the prefix <= minTs) *)
Definition slice_samples (l : samples) (m : Z) : samples :=
  match l with
  | [] => l
  | (t0, _) :: _ => if m <? t0 then l else if m >? last_ts l t0 then [] else drop_le l m
  end.

Definition merge_stream (ex new : samples) : samples :=
  match ex, new with
  | (te, _) :: _, (t0, _) :: new' =>
      let e := last_ts ex te in
      if e =? t0 then ex ++ new' else if e >? t0 then ex ++ slice_samples new e else ex ++ new
  | _, _ => ex ++ new
  end.

(* the output map keyed by the metric string, emitted in key order *)
Fixpoint upsert (s : Z) (l : samples) (out : matrix) : matrix :=
  match out with
  | [] => [(s, merge_stream [] l)]
  | (s', l') :: out' =>
      if s =? s' then (s', merge_stream l' l) :: out'
      else if s <? s' then (s, merge_stream [] l) :: out
      else (s', l') :: upsert s l out'
  end.

Definition matrix_merge (ms : list matrix) : matrix :=
  fold_left (fun out m => fold_left (fun out sl => upsert (fst sl) (snd sl) out) m out) ms [].

Definition merge_response (ms : list matrix) : matrix :=
  matrix_merge (sort_by (fun a b => min_time a <? min_time b) ms).

(* ---- partition ---- *)
Fixpoint part_loop (rs re mstep start : Z) (exts : list extent) : list (Z * Z) * list matrix * Z :=
  match exts with
  | [] => ([], [], start)
  | (es, ee, em) :: rest =>
      if (ee <? start) || (es >? re) then part_loop rs re mstep start rest
      else if negb (rs =? re) && (re - rs >? min_cache_extent) && (ee - es <? min_cache_extent)
      then part_loop rs re mstep start rest
      else
        let pre := if start <? es then [(start, es)] else [] in
        let c := extract start re mstep em in
        (* matching-step mode: continue from the last point of the request's grid inside the extent *)
        let nstart := if (mstep >? 0) then ee - Z.rem (ee - rs) mstep else ee in
        let '(rq, rp, fin) := part_loop rs re mstep nstart rest in
        (pre ++ rq, c :: rp, fin)
  end.

Definition partition (rs re mstep : Z) (exts : list extent) : list (Z * Z) * list matrix :=
  let '(rq, rp, fin) := part_loop rs re mstep rs exts in
  let rq := if fin <? re then rq ++ [(fin, re)] else rq in
  let rq := if (rs =? re) && (Nat.eqb (length rp) 0) then rq ++ [(rs, re)] else rq in
  (rq, rp).

(* partition as it was before the repair (the running start is the extent's end even when the
   extent comes from a lower-step entry), and MergeResponse with the first-series minTime:
   kept only for the refutation theorems *)
Fixpoint part_loop_unaligned (rs re mstep start : Z) (exts : list extent) : list (Z * Z) * list matrix * Z :=
  match exts with
  | [] => ([], [], start)
  | (es, ee, em) :: rest =>
      if (ee <? start) || (es >? re) then part_loop_unaligned rs re mstep start rest
      else if negb (rs =? re) && (re - rs >? min_cache_extent) && (ee - es <? min_cache_extent)
      then part_loop_unaligned rs re mstep start rest
      else
        let pre := if start <? es then [(start, es)] else [] in
        let c := extract start re mstep em in
        let '(rq, rp, fin) := part_loop_unaligned rs re mstep ee rest in
        (pre ++ rq, c :: rp, fin)
  end.

Definition partition_unaligned (rs re mstep : Z) (exts : list extent) : list (Z * Z) * list matrix :=
  let '(rq, rp, fin) := part_loop_unaligned rs re mstep rs exts in
  let rq := if fin <? re then rq ++ [(fin, re)] else rq in
  let rq := if (rs =? re) && (Nat.eqb (length rp) 0) then rq ++ [(rs, re)] else rq in
  (rq, rp).

Definition merge_response_first (ms : list matrix) : matrix :=
  matrix_merge (sort_by (fun a b => min_time_first a <? min_time_first b) ms).

(* ---- handleHit ---- *)
Definition ext_lt (a b : extent) : bool :=
  let '(as_, ae, _) := a in let '(bs, be, _) := b in
  if as_ =? bs then ae >? be else as_ <? bs.

Fixpoint merge_exts (st : Z) (acc : extent) (l : list extent) : list extent :=
  match l with
  | [] => [acc]
  | e :: l' =>
      let '(as_, ae, am) := acc in
      let '(es, ee, em) := e in
      if ae + st <? es then acc :: merge_exts st e l'
      else if ae >=? ee then merge_exts st acc l'
      else merge_exts st (as_, ee, merge_response [am; em]) l'
  end.

(* [stor a b]: may the response fetched for the sub-request [a, b] be stored (shouldCacheResponse:
   no Cache-Control: no-store header, no @ modifier beyond the request's end)? Every fetched response
   goes into the ANSWER; only the storable ones become extents. The order of the two statements in
   the loop is read from the source (Gen/C42.v [answer_appended_before_store_test]) and followed. *)
Definition handle_hit (f : downstream) (sids : list Z) (stor : Z -> Z -> bool) (rs re st : Z)
  (exts : list extent) (matching : bool) : matrix * option (list extent) :=
  let '(reqs, cached) := partition rs re (if matching then st else 0) exts in
  match reqs with
  | [] => (merge_response cached, None)
  | _ =>
      let rr := map (fun ab => (fst ab, snd ab, eval f sids (fst ab) (snd ab) st)) reqs in
      let storable := filter (fun x : extent => stor (fst (fst x)) (snd (fst x))) rr in
      let answered := if answer_appended_before_store_test then rr else storable in
      let responses := cached ++ map snd answered in
      match sort_by ext_lt (exts ++ storable) with
      | [] => (merge_response responses, None)
      | e0 :: es => (merge_response responses, Some (merge_exts st e0 es))
      end
  end.

(* ---- the cache ---- *)
Definition ckey_eqb (a b : ckey) : bool := (fst a =? fst b) && (snd a =? snd b).

Fixpoint lookup (k : ckey) (c : cache) : option (list extent) :=
  match c with
  | [] => None
  | (k', v) :: c' => if ckey_eqb k k' then Some v else lookup k c'
  end.

Definition ckey_lt (a b : ckey) : bool := (fst a <? fst b) || ((fst a =? fst b) && (snd a <? snd b)).

Fixpoint store (k : ckey) (v : list extent) (c : cache) : cache :=
  match c with
  | [] => [(k, v)]
  | (k', v') :: c' =>
      if ckey_eqb k k' then (k, v) :: c'
      else if ckey_lt k k' then (k, v) :: c
      else (k', v') :: store k v c'
  end.

(* lowerStepCacheCandidates + the Start%step test of GenerateCacheKeyAlternatives *)
Definition alt_steps (rs st : Z) : list Z :=
  if existsb (Z.eqb st) common_query_steps
  then filter (fun c => (c <? st) && (Z.rem st c =? 0) && (Z.rem rs c =? 0)) common_query_steps
  else [].

Fixpoint first_found (ks : list ckey) (c : cache) : option (list extent) :=
  match ks with
  | [] => None
  | k :: ks' => match lookup k c with Some v => Some v | None => first_found ks' c end
  end.

(* resultsCache.Do for a cacheable request that is old enough (no freshness cut).
   [sto re a b]: is the response to the downstream request [a, b], fetched while serving a request
   that ends at [re], storable? *)
Definition do_cache (f : downstream) (sids : list Z) (sto : Z -> Z -> Z -> bool) (split : Z) (c : cache) (rs re st : Z)
  : matrix * cache :=
  let w := Z.quot rs split in
  let key := (st, w) in
  match lookup key c with
  | Some exts =>
      let '(resp, wb) := handle_hit f sids (sto re) rs re st exts false in
      (resp, match wb with Some e => store key e c | None => c end)
  | None =>
      match first_found (map (fun a => (a, w)) (alt_steps rs st)) c with
      | Some exts => (fst (handle_hit f sids (sto re) rs re st exts true), c)
      | None =>
          (* handleMiss: the response is returned; it becomes an extent only if storable *)
          let r := eval f sids rs re st in
          (r, if sto re rs re then store key [(rs, re, r)] c else c)
      end
  end.

(* the sub-requests of the split middleware, one after the other (parallelism 1) *)
Fixpoint do_subs (f : downstream) (sids : list Z) (sto : Z -> Z -> Z -> bool) (split : Z) (c : cache) (subs : list (Z * Z)) (st : Z)
  : list matrix * cache :=
  match subs with
  | [] => ([], c)
  | (a, b) :: subs' =>
      let '(r, c1) := do_cache f sids sto split c a b st in
      let '(rs, c2) := do_subs f sids sto split c1 subs' st in
      (r :: rs, c2)
  end.

(* step-align -> [split-by-interval ->] results cache *)
Definition do_query (f : downstream) (sids : list Z) (sto : Z -> Z -> Z -> bool) (split : Z) (use_split : bool) (c : cache) (q : Z * Z * Z)
  : option (matrix * cache) :=
  let '(s0, e0, st) := q in
  let '(s, e) := step_align s0 e0 st in
  if use_split then
    match split_query s e st (split * ns_per_ms) with
    | None => None
    | Some subs => let '(rs, c') := do_subs f sids sto split c subs st in Some (merge_response rs, c')
    end
  else Some (do_cache f sids sto split c s e st).

Fixpoint history (f : downstream) (sids : list Z) (sto : Z -> Z -> Z -> bool) (split : Z) (use_split : bool) (c : cache) (qs : list (Z * Z * Z))
  : option (list matrix * cache) :=
  match qs with
  | [] => Some ([], c)
  | q :: qs' =>
      match do_query f sids sto split use_split c q with
      | None => None
      | Some (r, c1) =>
          match history f sids sto split use_split c1 qs' with
          | None => None
          | Some (rs, c2) => Some (r :: rs, c2)
          end
      end
  end.

(* ---- concrete downstreams used in cases: per series a list of presence intervals ---- *)
Definition series_desc := (Z * list (Z * Z))%type.

Definition val (s t : Z) : Z := t * 16 + s.

Fixpoint find_series (s : Z) (d : list series_desc) : list (Z * Z) :=
  match d with
  | [] => []
  | (s', iv) :: d' => if s =? s' then iv else find_series s d'
  end.

Definition f_of (d : list series_desc) : downstream :=
  fun s t => if existsb (fun iv => (fst iv <=? t) && (t <=? snd iv)) (find_series s d) then Some (val s t) else None.

(* ---- equality deciders ---- *)
Definition zz_eqb' (p q : Z * Z) : bool := (fst p =? fst q) && (snd p =? snd q).
Definition samples_eqb : samples -> samples -> bool := list_eqb zz_eqb'.
Definition matrix_eqb : matrix -> matrix -> bool :=
  list_eqb (fun a b => (fst a =? fst b) && samples_eqb (snd a) (snd b)).
Definition extent_eqb (a b : extent) : bool :=
  let '(as_, ae, am) := a in let '(bs, be, bm) := b in (as_ =? bs) && (ae =? be) && matrix_eqb am bm.
Definition cache_eqb : cache -> cache -> bool :=
  list_eqb (fun a b => ckey_eqb (fst a) (fst b) && list_eqb extent_eqb (snd a) (snd b)).

(* ---- cases: a history of queries on the real middleware chain ---- *)
Inductive case :=
| CHist (split_ms : Z) (use_split : bool) (series : list series_desc)
        (nostore : list (Z * Z))   (* the downstream answers Cache-Control: no-store when the request starts in one of these intervals *)
        (at_ts : option Z)         (* the query is `m @ <ts>` *)
        (queries : list (Z * Z * Z))
        (responses : list matrix) (final_cache : cache).

(* shouldCacheResponse for the scripted downstream *)
Definition sto_of (nostore : list (Z * Z)) (at_ts : option Z) : Z -> Z -> Z -> bool :=
  fun re a _ =>
    (match at_ts with Some t => t <=? re | None => true end)
    && negb (existsb (fun iv => (fst iv <=? a) && (a <=? snd iv)) nostore).

Definition corr_ok (c : case) : bool :=
  match c with
  | CHist split us d ns atm qs resps fc =>
      match history (f_of d) (map fst d) (sto_of ns atm) split us [] qs with
      | Some (rs, c') => list_eqb matrix_eqb rs resps && cache_eqb c' fc
      | None => false
      end
  end.

(* the property on the implementation's own answers: every answer equals direct evaluation
   of the (step-aligned) query *)
Definition direct (f : downstream) (sids : list Z) (q : Z * Z * Z) : matrix :=
  let '(s0, e0, st) := q in
  let '(s, e) := step_align s0 e0 st in eval f sids s e st.

Definition pred_ok (c : case) : bool :=
  match c with
  | CHist split us d _ _ qs resps _ =>
      list_eqb matrix_eqb resps (map (direct (f_of d) (map fst d)) qs)
  end.
