(* C33 — the compactor does nothing destructive on an incomplete view.
   Two parts, executable definitions only:
   (1) a model of one compactor iteration as far as the property needs it: the
       reads a sync performs, which read outcomes make the sync fail
       (BaseFetcher.fetchMetadata / loadMeta, IgnoreDeletionMarkFilter,
       GatherNoCompactionMarkFilter, Syncer.SyncMetas), and "no work on a failed sync";
   (2) a checker over the source-order event lists of BucketCompactor.Compact,
       Syncer.SyncMetas and cmd/thanos compactMainFn (Gen/C33.v, regenerated from
       the sources): every mutating step is dominated by a SyncMetas whose error
       returns. *)
From Coq Require Import ZArith List Bool String Lia.
Import ListNotations.
From Verif Require Import Lib.Corr Gen.C33.
Open Scope Z_scope.

(* ---- (1) reads of a sync ---------------------------------------------------- *)
Inductive kind := KList | KMeta | KDelMark | KNoCompact | KOther.
Inductive outcome :=
| Found        (* object read and well-formed *)
| NotFound     (* object missing: partial block / no marker *)
| Corrupt      (* not JSON: meta -> partial block (corrupted), marker -> ignored with a warning *)
| BadVersion   (* JSON with an unexpected version: an error *)
| Transient.   (* the read itself failed (listing error, Get error other than not-found) *)

Definition read := (kind * outcome)%type.

(* does this read make the sync return an error? *)
Definition read_fails (r : read) : bool :=
  match snd r with
  | Transient => true
  | BadVersion => true
  | Found | NotFound | Corrupt => false
  end.

Definition sync_error (reads : list read) : bool := existsb read_fails reads.

(* one iteration: [work] is whatever the compactor would do (delete marked
   blocks, garbage-collect, compact groups, ...) on the synced view *)
Definition iteration {op} (reads : list read) (work : list op) : list op :=
  if sync_error reads then [] else work.

Definition is_transient (r : read) : bool := match snd r with Transient => true | _ => false end.

(* ---- (2) statement-order facts ------------------------------------------------ *)
Open Scope string_scope.

Definition ev := (string * string)%type.
Definition ev_is (k t : string) (e : ev) : bool := (fst e =? k) && (snd e =? t).
Definition mem_str (s : string) (l : list string) : bool := existsb (String.eqb s) l.

(* scanner state *)
Record st := mk_st {
  depth : nat;            (* nesting inside function literals / deferred literals: not scanned *)
  lvl : nat;              (* if-nesting level *)
  synced : option nat;    (* Some l: a sync with checked error was completed at if-level l *)
  pend : nat;             (* 0 none; 1 saw the sync call; 2 inside its `if err != nil`; 3 saw the return *)
  pend_lvl : nat;
  loops : list bool }.    (* enclosing loops, innermost first; true = plain `for`, false = `for range` *)

Definition st0 : st := mk_st 0 0 None 0 0 [].

Definition opens_lit (e : ev) : bool :=
  ev_is "funclit" "" e || ev_is "defer" "funclit" e || ev_is "go" "funclit" e.
Definition closes_lit (e : ev) : bool :=
  ev_is "endfunclit" "" e || ev_is "enddefer" "funclit" e || ev_is "endgo" "funclit" e.

Definition drop_above (s : option nat) (l : nat) : option nat :=
  match s with Some k => if Nat.ltb l k then None else Some k | None => None end.

(* None = a mutating call that is not dominated by a checked sync *)
Definition step (syncs muts : list string) (s : st) (e : ev) : option st :=
  if opens_lit e then Some (mk_st (S (depth s)) (lvl s) (synced s) (pend s) (pend_lvl s) (loops s))
  else if closes_lit e then Some (mk_st (pred (depth s)) (lvl s) (synced s) (pend s) (pend_lvl s) (loops s))
  else if negb (Nat.eqb (depth s) 0) then Some s
  else if fst e =? "call" then
    if mem_str (snd e) syncs then Some (mk_st 0 (lvl s) None 1 (lvl s) (loops s))
    else if mem_str (snd e) muts then
      match synced s with Some _ => Some s | None => None end
    else Some s
  else if fst e =? "if" then
    let p := if Nat.eqb (pend s) 1 then (if snd e =? "err != nil" then 2%nat else 0%nat) else pend s in
    Some (mk_st 0 (S (lvl s)) (synced s) p (pend_lvl s) (loops s))
  else if fst e =? "return" then
    let p := if Nat.eqb (pend s) 2 && Nat.eqb (lvl s) (S (pend_lvl s)) then 3%nat else pend s in
    Some (mk_st 0 (lvl s) (synced s) p (pend_lvl s) (loops s))
  else if fst e =? "else" then
    (* what was established inside the then-branch does not hold in the else-branch *)
    let p := if Nat.eqb (lvl s) (S (pend_lvl s)) then 0%nat else pend s in
    Some (mk_st 0 (lvl s) (drop_above (synced s) (pred (lvl s))) p (pend_lvl s) (loops s))
  else if fst e =? "endif" then
    let l := pred (lvl s) in
    if Nat.eqb (lvl s) (S (pend_lvl s)) && negb (Nat.eqb (pend s) 0) then
      (* closing the error check of the pending sync *)
      if Nat.eqb (pend s) 3 then Some (mk_st 0 l (Some l) 0 0 (loops s)) else Some (mk_st 0 l None 0 0 (loops s))
    else Some (mk_st 0 l (drop_above (synced s) l) (pend s) (pend_lvl s) (loops s))
  else if fst e =? "for" then
    (* a (re-)entered plain loop body must sync again; range loops over data keep the view *)
    if snd e =? "" then Some (mk_st 0 (lvl s) None 0 0 (true :: loops s))
    else Some (mk_st 0 (lvl s) (synced s) (pend s) (pend_lvl s) (false :: loops s))
  else if fst e =? "endfor" then
    match loops s with
    | true :: r => Some (mk_st 0 (lvl s) None 0 0 r)
    | false :: r => Some (mk_st 0 (lvl s) (synced s) (pend s) (pend_lvl s) r)
    | [] => Some s
    end
  else Some s.

Fixpoint scan (syncs muts : list string) (s : st) (evs : list ev) : option st :=
  match evs with
  | [] => Some s
  | e :: r => match step syncs muts s e with Some s' => scan syncs muts s' r | None => None end
  end.

Definition dominated (syncs muts : list string) (evs : list ev) : bool :=
  match scan syncs muts st0 evs with Some _ => true | None => false end.

Fixpoint index_of (f : ev -> bool) (l : list ev) : option nat :=
  match l with
  | [] => None
  | e :: r => if f e then Some 0%nat else option_map S (index_of f r)
  end.

(* Syncer.SyncMetas hands the fetcher's error back before it stores the view *)
Definition sync_propagates (evs : list ev) : bool :=
  match index_of (ev_is "call" "s.fetcher.Fetch") evs,
        index_of (ev_is "return" "retry(err)") evs,
        index_of (ev_is "call" "s.mtx.Lock") evs with
  | Some a, Some b, Some c => Nat.ltb a b && Nat.ltb b c
  | _, _, _ => false
  end.

Definition Compact_syncs : list string := ["c.sy.SyncMetas"].
Definition Compact_muts : list string := ["c.blocksCleaner.DeleteMarkedBlocks"; "c.sy.GarbageCollect"; "g.Compact"; "RepairIssue347"; "block.MarkForNoCompact"].
Definition main_syncs : list string := ["sy.SyncMetas"].
Definition main_muts : list string := ["downsampleBucket"; "compact.ApplyRetentionPolicyByResolution"; "cleanPartialMarked"; "compact.BestEffortCleanAbortedPartialUploads"].

Definition order_facts_ok : bool :=
  dominated Compact_syncs Compact_muts Compact_events
  && Compact_workers_fed_by_groupChan && Compact_groupChan_fed_after_sync
  && dominated main_syncs main_muts compactMainFn_events
  && sync_propagates SyncMetas_events.

Close Scope string_scope.

(* ---- cases ------------------------------------------------------------------------ *)
(* base: reads of a stand-alone SyncMetas on the intact bucket, whether it failed,
   mutating ops it issued; full_mut: mutating ops of a fault-free Compact;
   runs: Compact with one read of the first sync failing: reads of the run,
   whether Compact returned an error, mutating ops issued after the fault *)
Inductive case :=
| CSync (base : list read) (sync_failed : bool) (base_mut full_mut : nat)
        (runs : list (list read * bool * nat)).

Definition corr_ok (c : case) : bool :=
  match c with
  | CSync base sync_failed base_mut full_mut runs =>
      Bool.eqb (sync_error base) sync_failed
      && Nat.eqb base_mut 0
      && (if sync_error base then Nat.eqb full_mut 0 else true)
      && forallb (fun r => let '(tr, cerr, after) := r in
           Bool.eqb (sync_error tr) cerr
           && Nat.eqb (List.length (iteration tr (repeat tt after))) (if sync_error tr then 0%nat else after)
           && (if sync_error tr then Nat.eqb after 0 else true)) runs
  end.

Definition pred_ok (c : case) : bool :=
  match c with
  | CSync base sync_failed base_mut full_mut runs =>
      (if sync_failed then Nat.eqb full_mut 0 else true)
      && forallb (fun r => let '(tr, _, after) := r in
           if existsb is_transient tr then Nat.eqb after 0 else true) runs
      && order_facts_ok
  end.
