(* C33 — the compactor does nothing destructive on an incomplete view.
   Two parts, executable definitions only:
   (1) a model of one compactor iteration as far as the property needs it: the
       reads a sync performs, which read outcomes make the sync fail
       (BaseFetcher.fetchMetadata / loadMeta, IgnoreDeletionMarkFilter,
       GatherNoCompactionMarkFilter, Syncer.SyncMetas), and "no work on a failed sync";
   (2) a checker over the source-order event lists of BucketCompactor.Compact,
       Syncer.SyncMetas and cmd/thanos compactMainFn (Gen/C33.v, regenerated from
       the sources): every mutating step is dominated by a SyncMetas whose error
       returns. *)
From Coq Require Import ZArith List Bool String Lia.
Import ListNotations.
From Verif Require Import Lib.Corr Gen.C33 Model.C31.
Open Scope Z_scope.

(* ---- (1) reads of a sync ---------------------------------------------------- *)
Inductive kind := KList | KMeta | KDelMark | KNoCompact | KOther.
Inductive outcome :=
| Found        (* object read and well-formed *)
| NotFound     (* object missing: partial block / no marker *)
| Corrupt      (* not JSON: meta -> partial block (corrupted), marker -> ignored with a warning *)
| BadVersion   (* JSON with an unexpected version: an error *)
| Transient.   (* the read itself failed (listing error, Get error other than not-found) *)

Definition read := (kind * outcome)%type.

(* does this read make the sync return an error? *)
Definition read_fails (r : read) : bool :=
  match snd r with
  | Transient => true
  | BadVersion => true
  | Found | NotFound | Corrupt => false
  end.

Definition sync_error (reads : list read) : bool := existsb read_fails reads.

(* one iteration: [work] is whatever the compactor would do (delete marked
   blocks, garbage-collect, compact groups, ...) on the synced view *)
Definition iteration {op} (reads : list read) (work : list op) : list op :=
  if sync_error reads then [] else work.

Definition is_transient (r : read) : bool := match snd r with Transient => true | _ => false end.

(* ---- (1b) the sync as a function of the bucket contents and the set of failing
   reads: BaseFetcher.fetchMetadata / loadMeta classification, the filters that
   read markers, Syncer.SyncMetas, and the iteration on top --------------------- *)

(* what is stored under <block>/meta.json *)
Inductive mstate := MOk | MMissing | MCorrupt | MBadVersion.
(* what is stored under <block>/deletion-mark.json: none, a well-formed mark (older
   than the fetcher's ignore delay? older than the cleaner's delete delay?), garbage,
   or an unexpected version *)
Inductive dstate := DNone | DOk (hide clean : bool) | DCorrupt | DBadVersion.
(* <block>/no-compact-mark.json *)
Inductive nstate := NNone | NOk | NCorrupt | NBadVersion.

Record bstate := mk_bstate { sblk : blk; smeta : mstate; sdel : dstate; snoc : nstate }.
Definition sid (x : bstate) : Z := bid (sblk x).

(* a read of the sync, identified by what it reads: the listing, an Exists probe, or the
   Get of an object — which can fail when it is opened (RMeta/RDel/RNoc) or in the middle
   of the body, after Get returned a reader (R...Body) *)
Inductive rid := RList | RExists (i : Z)
  | RMeta (i : Z) | RMetaBody (i : Z)
  | RDel (i : Z) | RDelBody (i : Z)
  | RNoc (i : Z) | RNocBody (i : Z).
Definition faults := rid -> bool.

Definition has_meta (x : bstate) : bool := match smeta x with MMissing => false | _ => true end.
Definition has_del (x : bstate) : bool := match sdel x with DNone => false | _ => true end.
Definition has_noc (x : bstate) : bool := match snoc x with NNone => false | _ => true end.

(* ---- classification of read errors ---------------------------------------------------
   what reading one object yields: its content, or an error of one of three kinds *)
Inductive rerr :=
| ENotFound         (* the object does not exist *)
| ECorruptContent   (* read completely, but not JSON *)
| EOther.           (* any other error: Get failed, the body read failed, unexpected version *)

(* loadMeta + the switch in fetchMetadata *)
Inductive mclass := MLoaded | MPartialNoMeta | MPartialCorrupted | MIncompleteView.
Definition classify_meta (r : option rerr) : mclass :=
  match r with
  | None => MLoaded
  | Some ENotFound => MPartialNoMeta
  | Some ECorruptContent => MPartialCorrupted
  | Some EOther => MIncompleteView
  end.

(* ReadMarker + the marker filters *)
Inductive kclass := KMarked | KNoMarker | KIgnoredCorrupted | KFilterError.
Definition classify_marker (r : option rerr) : kclass :=
  match r with
  | None => KMarked
  | Some ENotFound => KNoMarker
  | Some ECorruptContent => KIgnoredCorrupted
  | Some EOther => KFilterError
  end.

Definition meta_faulted (f : faults) (x : bstate) : bool := f (RMeta (sid x)) || f (RMetaBody (sid x)).
Definition del_faulted (f : faults) (x : bstate) : bool := f (RDel (sid x)) || f (RDelBody (sid x)).
Definition noc_faulted (f : faults) (x : bstate) : bool := f (RNoc (sid x)) || f (RNocBody (sid x)).

(* result of reading <block>/meta.json under fault set f *)
Definition meta_result (f : faults) (x : bstate) : option rerr :=
  match smeta x with
  | MMissing => Some ENotFound
  | MOk => if meta_faulted f x then Some EOther else None
  | MCorrupt => if meta_faulted f x then Some EOther else Some ECorruptContent
  | MBadVersion => Some EOther
  end.
Definition del_result (f : faults) (x : bstate) : option rerr :=
  match sdel x with
  | DNone => if f (RDel (sid x)) then Some EOther else Some ENotFound
  | DOk _ _ => if del_faulted f x then Some EOther else None
  | DCorrupt => if del_faulted f x then Some EOther else Some ECorruptContent
  | DBadVersion => Some EOther
  end.
Definition noc_result (f : faults) (x : bstate) : option rerr :=
  match snoc x with
  | NNone => if f (RNoc (sid x)) then Some EOther else Some ENotFound
  | NOk => if noc_faulted f x then Some EOther else None
  | NCorrupt => if noc_faulted f x then Some EOther else Some ECorruptContent
  | NBadVersion => Some EOther
  end.

Definition is_other (r : option rerr) : bool := match r with Some EOther => true | _ => false end.

(* loadMeta succeeded *)
Definition loaded (f : faults) (x : bstate) : bool :=
  match classify_meta (meta_result f x) with MLoaded => true | _ => false end.

(* fetchMetadata: `default:` arm of the switch — metaErrs (incomplete view); a missing
   meta.json is found by the listing, not by a failing read *)
Definition meta_err (f : faults) (x : bstate) : bool :=
  has_meta x && match classify_meta (meta_result f x) with MIncompleteView => true | _ => false end.

(* partial blocks: no meta.json, or not JSON *)
Definition is_partial (f : faults) (x : bstate) : bool :=
  match classify_meta (meta_result f x) with MPartialNoMeta | MPartialCorrupted => true | _ => false end.

(* IgnoreDeletionMarkFilter / GatherNoCompactionMarkFilter on one block: error? *)
Definition del_err (f : faults) (x : bstate) : bool :=
  match classify_marker (del_result f x) with KFilterError => true | _ => false end.
Definition noc_err (f : faults) (x : bstate) : bool :=
  match classify_marker (noc_result f x) with KFilterError => true | _ => false end.

Definition del_hidden (x : bstate) : bool := match sdel x with DOk true _ => true | _ => false end.
Definition del_marked (x : bstate) : bool := match sdel x with DOk _ _ => true | _ => false end.
Definition del_cleanable (x : bstate) : bool := match sdel x with DOk _ true => true | _ => false end.

Definition in_ids (l : list Z) (x : bstate) : bool := mem (sid x) l.

(* blocks that reach the duplicate filter / the no-compact filter *)
Definition after_del (f : faults) (b : list bstate) : list bstate :=
  filter (fun x => loaded f x && negb (del_hidden x)) b.
Definition after_dedup (f : faults) (b : list bstate) : list bstate :=
  let a := after_del f b in filter (in_ids (map bid (kept (map sblk a)))) a.

(* the blocks whose no-compact marker is read: none when the deletion-mark filter
   failed (fetch returns "filter metas" at the first failing filter) *)
Definition noc_read (f : faults) (b : list bstate) : list bstate :=
  if existsb (del_err f) (filter (loaded f) b) then [] else after_dedup f b.

Record sview := mk_sview {
  v_metas : list Z;       (* Syncer.Metas() *)
  v_partial : list Z;     (* Syncer.Partial() *)
  v_marks : list bstate;  (* IgnoreDeletionMarkFilter.DeletionMarkBlocks() *)
  v_dups : list Z;        (* DuplicateIDs() *)
  v_nocompact : list Z }.

(* Syncer.SyncMetas; None = it returns an error and the previous view is kept *)
Definition sync (concurrent : bool) (f : faults) (b : list bstate) : option sview :=
  if f RList then None
  else if concurrent && existsb (fun x => f (RExists (sid x))) b then None
  else
    let ld := filter (loaded f) b in
    if existsb (del_err f) ld then None
    else
      let ad := after_del f b in
      let dd := after_dedup f b in
      if existsb (noc_err f) dd then None
      else if existsb (meta_err f) b then None   (* "incomplete view" *)
      else Some (mk_sview (map sid dd)
                          (map sid (filter (is_partial f) b))
                          (filter del_marked ld)
                          (map sid (filter (fun x => negb (in_ids (map sid dd) x)) ad))
                          (map sid (filter (fun x => match snoc x with NOk => true | _ => false end) dd))).

(* reads the sync can perform under fault set f (an over-approximation when an
   earlier stage already failed: later stages still run on what was loaded) *)
Definition performed (concurrent : bool) (f : faults) (b : list bstate) (r : rid) : bool :=
  match r with
  | RList => true
  | RExists i => concurrent && existsb (fun x => sid x =? i) b
  | RMeta i | RMetaBody i => existsb (fun x => (sid x =? i) && has_meta x) b
  | RDel i => existsb (fun x => (sid x =? i) && loaded f x) b
  | RDelBody i => existsb (fun x => (sid x =? i) && loaded f x && has_del x) b
  | RNoc i => existsb (fun x => sid x =? i) (noc_read f b)
  | RNocBody i => existsb (fun x => (sid x =? i) && has_noc x) (noc_read f b)
  end.

(* the reads of a fault-free sync, in one sequential order *)
Definition read_order (concurrent : bool) (b : list bstate) : list rid :=
  let f := fun _ => false in
  RList :: (if concurrent then map (fun x => RExists (sid x)) b else [])
  ++ map (fun x => RMeta (sid x)) (filter has_meta b)
  ++ map (fun x => RMetaBody (sid x)) (filter has_meta b)
  ++ map (fun x => RDel (sid x)) (filter (loaded f) b)
  ++ map (fun x => RDelBody (sid x)) (filter has_del (filter (loaded f) b))
  ++ map (fun x => RNoc (sid x)) (noc_read f b)
  ++ map (fun x => RNocBody (sid x)) (filter has_noc (noc_read f b)).

Definition rid_eqb (a b : rid) : bool :=
  match a, b with
  | RList, RList => true
  | RExists i, RExists j | RMeta i, RMeta j | RDel i, RDel j | RNoc i, RNoc j
  | RMetaBody i, RMetaBody j | RDelBody i, RDelBody j | RNocBody i, RNocBody j => i =? j
  | _, _ => false
  end.

(* exactly read r fails *)
Definition only (r : rid) : faults := rid_eqb r.

(* the trace view of the same sync: reads with outcomes (links to part (1)) *)
Definition outcome_of (r : option rerr) (bad_version : bool) : outcome :=
  match r with
  | None => Found
  | Some ENotFound => NotFound
  | Some ECorruptContent => Corrupt
  | Some EOther => if bad_version then BadVersion else Transient
  end.
Definition meta_outcome (f : faults) (x : bstate) : outcome :=
  outcome_of (meta_result f x) (match smeta x with MBadVersion => negb (meta_faulted f x) | _ => false end).
Definition del_outcome (f : faults) (x : bstate) : outcome :=
  outcome_of (del_result f x) (match sdel x with DBadVersion => negb (del_faulted f x) | _ => false end).
Definition noc_outcome (f : faults) (x : bstate) : outcome :=
  outcome_of (noc_result f x) (match snoc x with NBadVersion => negb (noc_faulted f x) | _ => false end).

Definition trace (concurrent : bool) (f : faults) (b : list bstate) : list read :=
  (KList, if f RList then Transient else Found)
  :: (if concurrent then map (fun x => (KList, if f (RExists (sid x)) then Transient else if has_meta x then Found else NotFound)) b else [])
  ++ map (fun x => (KMeta, meta_outcome f x)) (filter has_meta b)
  ++ map (fun x => (KDelMark, del_outcome f x)) (filter (loaded f) b)
  ++ map (fun x => (KNoCompact, noc_outcome f x)) (noc_read f b).

(* one compactor iteration: cleaner (if configured), garbage collection, then
   whatever group compaction does on the view ([compact_work], abstract) *)
Inductive cop := CDelete (i : Z) | CMarkDeletion (i : Z) | COther (n : nat).

Definition cleaner_ops (cleaner : bool) (v : sview) : list cop :=
  if cleaner then map (fun x => CDelete (sid x)) (filter del_cleanable (v_marks v)) else [].

Definition gc_ops (cleaner : bool) (v : sview) : list cop :=
  let marked := map sid (v_marks v) in
  map CMarkDeletion (filter (fun i => negb (mem i marked)) (v_dups v)).

(* cmd/thanos compactMainFn: after the compaction the partial uploads that have been
   untouched for PartialUploadThresholdAge are removed ([old]: this bucket's objects are) *)
Definition partial_ops (old : bool) (v : sview) : list cop :=
  if old then map CDelete (v_partial v) else [].

Definition iteration2 (concurrent cleaner old : bool) (f : faults) (b : list bstate)
    (compact_work : sview -> list cop) : list cop :=
  match sync concurrent f b with
  | None => []
  | Some v => cleaner_ops cleaner v ++ gc_ops cleaner v ++ compact_work v ++ partial_ops old v
  end.

(* ---- (2) statement-order facts ------------------------------------------------ *)
Open Scope string_scope.

Definition ev := (string * string)%type.
Definition ev_is (k t : string) (e : ev) : bool := (fst e =? k) && (snd e =? t).
Definition mem_str (s : string) (l : list string) : bool := existsb (String.eqb s) l.

(* scanner state *)
Record st := mk_st {
  depth : nat;            (* nesting inside function literals / deferred literals: not scanned *)
  lvl : nat;              (* if-nesting level *)
  synced : option nat;    (* Some l: a sync with checked error was completed at if-level l *)
  pend : nat;             (* 0 none; 1 saw the sync call; 2 inside its `if err != nil`; 3 saw the return *)
  pend_lvl : nat;
  loops : list bool }.    (* enclosing loops, innermost first; true = plain `for`, false = `for range` *)

Definition st0 : st := mk_st 0 0 None 0 0 [].

Definition opens_lit (e : ev) : bool :=
  ev_is "funclit" "" e || ev_is "defer" "funclit" e || ev_is "go" "funclit" e.
Definition closes_lit (e : ev) : bool :=
  ev_is "endfunclit" "" e || ev_is "enddefer" "funclit" e || ev_is "endgo" "funclit" e.

Definition drop_above (s : option nat) (l : nat) : option nat :=
  match s with Some k => if Nat.ltb l k then None else Some k | None => None end.

(* None = a mutating call that is not dominated by a checked sync *)
Definition step (syncs muts : list string) (s : st) (e : ev) : option st :=
  if opens_lit e then Some (mk_st (S (depth s)) (lvl s) (synced s) (pend s) (pend_lvl s) (loops s))
  else if closes_lit e then Some (mk_st (pred (depth s)) (lvl s) (synced s) (pend s) (pend_lvl s) (loops s))
  else if negb (Nat.eqb (depth s) 0) then Some s
  else if fst e =? "call" then
    if mem_str (snd e) syncs then Some (mk_st 0 (lvl s) None 1 (lvl s) (loops s))
    else if mem_str (snd e) muts then
      match synced s with Some _ => Some s | None => None end
    else Some s
  else if fst e =? "if" then
    let p := if Nat.eqb (pend s) 1 then (if snd e =? "err != nil" then 2%nat else 0%nat) else pend s in
    Some (mk_st 0 (S (lvl s)) (synced s) p (pend_lvl s) (loops s))
  else if fst e =? "return" then
    let p := if Nat.eqb (pend s) 2 && Nat.eqb (lvl s) (S (pend_lvl s)) then 3%nat else pend s in
    Some (mk_st 0 (lvl s) (synced s) p (pend_lvl s) (loops s))
  else if fst e =? "else" then
    (* what was established inside the then-branch does not hold in the else-branch *)
    let p := if Nat.eqb (lvl s) (S (pend_lvl s)) then 0%nat else pend s in
    Some (mk_st 0 (lvl s) (drop_above (synced s) (pred (lvl s))) p (pend_lvl s) (loops s))
  else if fst e =? "endif" then
    let l := pred (lvl s) in
    if Nat.eqb (lvl s) (S (pend_lvl s)) && negb (Nat.eqb (pend s) 0) then
      (* closing the error check of the pending sync *)
      if Nat.eqb (pend s) 3 then Some (mk_st 0 l (Some l) 0 0 (loops s)) else Some (mk_st 0 l None 0 0 (loops s))
    else Some (mk_st 0 l (drop_above (synced s) l) (pend s) (pend_lvl s) (loops s))
  else if fst e =? "for" then
    (* a (re-)entered plain loop body must sync again; range loops over data keep the view *)
    if snd e =? "" then Some (mk_st 0 (lvl s) None 0 0 (true :: loops s))
    else Some (mk_st 0 (lvl s) (synced s) (pend s) (pend_lvl s) (false :: loops s))
  else if fst e =? "endfor" then
    match loops s with
    | true :: r => Some (mk_st 0 (lvl s) None 0 0 r)
    | false :: r => Some (mk_st 0 (lvl s) (synced s) (pend s) (pend_lvl s) r)
    | [] => Some s
    end
  else Some s.

Fixpoint scan (syncs muts : list string) (s : st) (evs : list ev) : option st :=
  match evs with
  | [] => Some s
  | e :: r => match step syncs muts s e with Some s' => scan syncs muts s' r | None => None end
  end.

Definition dominated (syncs muts : list string) (evs : list ev) : bool :=
  match scan syncs muts st0 evs with Some _ => true | None => false end.

Fixpoint index_of (f : ev -> bool) (l : list ev) : option nat :=
  match l with
  | [] => None
  | e :: r => if f e then Some 0%nat else option_map S (index_of f r)
  end.

(* Syncer.SyncMetas hands the fetcher's error back before it stores the view *)
Definition sync_propagates (evs : list ev) : bool :=
  match index_of (ev_is "call" "s.fetcher.Fetch") evs,
        index_of (ev_is "return" "retry(err)") evs,
        index_of (ev_is "call" "s.mtx.Lock") evs with
  | Some a, Some b, Some c => Nat.ltb a b && Nat.ltb b c
  | _, _, _ => false
  end.

Definition Compact_syncs : list string := ["c.sy.SyncMetas"].
Definition Compact_muts : list string := ["c.blocksCleaner.DeleteMarkedBlocks"; "c.sy.GarbageCollect"; "g.Compact"; "RepairIssue347"; "block.MarkForNoCompact"].
Definition main_syncs : list string := ["sy.SyncMetas"].
Definition main_muts : list string := ["downsampleBucket"; "compact.ApplyRetentionPolicyByResolution"; "cleanPartialMarked"; "compact.BestEffortCleanAbortedPartialUploads"].

(* ---- the error-return lines between a failing read and SyncMetas ----------------- *)
Definition ends_nil (s : string) : bool :=
  let n := String.length s in
  Nat.leb 3 n && (String.substring (n - 3) 3 s =? "nil").

(* is there, before the enclosing `if` closes, a return of something other than nil? *)
Fixpoint find_err_return (depth : nat) (evs : list ev) : bool :=
  match evs with
  | [] => false
  | e :: r =>
    if fst e =? "return" then (if ends_nil (snd e) then find_err_return depth r else true)
    else if fst e =? "if" then find_err_return (S depth) r
    else if fst e =? "endif" then match depth with O => false | S d => find_err_return d r end
    else find_err_return depth r
  end.

Fixpoint after_ev (k t : string) (evs : list ev) : option (list ev) :=
  match evs with
  | [] => None
  | e :: r => if ev_is k t e then Some r else after_ev k t r
  end.

(* after the call [anchor], the next `if err != nil` returns an error *)
Definition error_returned_after (anchor : string) (evs : list ev) : bool :=
  match after_ev "call" anchor evs with
  | Some r => match after_ev "if" "err != nil" r with Some r2 => find_err_return 0 r2 | None => false end
  | None => false
  end.

Definition if_returns_error (cond : string) (evs : list ev) : bool :=
  match after_ev "if" cond evs with Some r => find_err_return 0 r | None => false end.

Definition error_lines_ok : bool :=
  (* ReadMarker / loadMeta: a failed Get is returned *)
  error_returned_after "bkt.ReaderWithExpectedErrs().Get" ReadMarker_events
  && error_returned_after "f.bkt.ReaderWithExpectedErrs().Get" loadMeta_events
  (* ... and so is a failed read of the body, before the content is parsed *)
  && error_returned_after "io.ReadAll" ReadMarker_events
  && error_returned_after "io.ReadAll" loadMeta_events
  (* fetchMetadata: lister / worker errors returned; other loadMeta errors => metaErrs *)
  && error_returned_after "eg.Wait" fetchMetadata_events
  && existsb (ev_is "call" "resp.metaErrs.Add") fetchMetadata_events
  && fetchMetadata_other_errors_incomplete
  (* the marker filters: error remembered, returned by the worker, returned by Filter *)
  && delmark_filter_remembers_error && nocompact_filter_remembers_error
  && existsb (ev_is "return" "lastErr") delmark_filter_events
  && existsb (ev_is "return" "lastErr") nocompact_filter_events
  && error_returned_after "eg.Wait" delmark_filter_events
  && error_returned_after "eg.Wait" nocompact_filter_events
  (* fetch: fetchMetadata error, filter error, incomplete view all returned *)
  && error_returned_after "f.g.Do" fetch_events
  && error_returned_after "filter.Filter" fetch_events
  && if_returns_error "len(resp.metaErrs) > 0" fetch_events.

Definition order_facts_ok : bool :=
  dominated Compact_syncs Compact_muts Compact_events
  && Compact_workers_fed_by_groupChan && Compact_groupChan_fed_after_sync
  && dominated main_syncs main_muts compactMainFn_events
  && sync_propagates SyncMetas_events
  && error_lines_ok.

Close Scope string_scope.

(* ---- cases ------------------------------------------------------------------------ *)
Definition mk_bs (i g : Z) (srcs : list Z) (m : mstate) (d : dstate) (n : nstate) : bstate :=
  mk_bstate (mk_blk i g srcs 1) m d n.

Definition no_faults : faults := fun _ => false.

(* b: the bucket as generated; base: reads (kind, outcome) of a stand-alone SyncMetas
   on it; metas / partial: Syncer.Metas() / Partial() afterwards; sync_failed;
   base_mut: mutating ops of the sync; deleted / gc_marked: meta-only blocks removed /
   newly marked for deletion by a fault-free iteration (Compact, then sync and partial-upload
   cleanup as in compactMainFn); old: the objects are older than PartialUploadThresholdAge; full_mut: its mutating ops;
   runs: Compact with exactly one read of the first sync failing: which read,
   whether Compact returned an error, mutating ops issued after the fault *)
Inductive case :=
| CSync2 (concurrent cleaner old : bool) (b : list bstate) (base : list read)
         (metas partial : list Z) (sync_failed : bool) (base_mut : nat)
         (deleted gc_marked : list Z) (full_mut : nat)
         (runs : list (rid * bool * nat)).

Definition kind_eqb (a b : kind) : bool :=
  match a, b with
  | KList, KList | KMeta, KMeta | KDelMark, KDelMark | KNoCompact, KNoCompact | KOther, KOther => true
  | _, _ => false
  end.
Definition outcome_eqb (a b : outcome) : bool :=
  match a, b with
  | Found, Found | NotFound, NotFound | Corrupt, Corrupt | BadVersion, BadVersion | Transient, Transient => true
  | _, _ => false
  end.
Definition count_read (k : kind) (o : outcome) (l : list read) : nat :=
  List.length (filter (fun r => kind_eqb (fst r) k && outcome_eqb (snd r) o) l).
Definition all_kinds := [KList; KMeta; KDelMark; KNoCompact; KOther].
Definition all_outcomes := [Found; NotFound; Corrupt; BadVersion; Transient].
(* same reads with the same outcomes, up to order (the real sync is concurrent) *)
Definition same_reads (a b : list read) : bool :=
  forallb (fun k => forallb (fun o => Nat.eqb (count_read k o a) (count_read k o b)) all_outcomes) all_kinds.

Definition cop_ids (l : list cop) : list Z :=
  flat_map (fun o => match o with CDelete i | CMarkDeletion i => [i] | COther _ => [] end) l.

Definition is_none {A} (o : option A) : bool := match o with None => true | Some _ => false end.

Definition corr_ok (c : case) : bool :=
  match c with
  | CSync2 conc cleaner old b base metas partial sync_failed base_mut deleted gc_marked full_mut runs =>
      Nat.eqb base_mut 0
      && same_reads base (trace conc no_faults b)
      && Bool.eqb (sync_error base) sync_failed
      && match sync conc no_faults b with
         | None => sync_failed && Nat.eqb full_mut 0
         | Some v =>
             negb sync_failed && set_eqb metas (v_metas v) && set_eqb partial (v_partial v)
             && set_eqb deleted (cop_ids (cleaner_ops cleaner v ++ partial_ops old v))
             && set_eqb gc_marked (cop_ids (gc_ops cleaner v))
         end
      && forallb (fun r => let '(x, cerr, after) := r in
           Bool.eqb (is_none (sync conc (only x) b)) cerr
           && Nat.eqb (List.length (iteration2 conc cleaner old (only x) b (fun _ => repeat (COther 0) after)))
                      (if is_none (sync conc (only x) b) then 0%nat
                       else List.length (iteration2 conc cleaner old (only x) b (fun _ => repeat (COther 0) after)))
           && (if is_none (sync conc (only x) b) then Nat.eqb after 0 else true)) runs
  end.

Definition pred_ok (c : case) : bool :=
  match c with
  | CSync2 conc cleaner old b base metas partial sync_failed base_mut deleted gc_marked full_mut runs =>
      (if sync_failed then Nat.eqb full_mut 0 else true)
      && forallb (fun r => let '(x, cerr, after) := r in
           if performed conc (only x) b x then cerr && Nat.eqb after 0 else true) runs
      && order_facts_ok
  end.
