(* C27 — Tenants are routed to the hashring their configuration selects.
   Model of multiHashring.GetN / tenantSet.match (pkg/receive/hashring.go).
   filepath.Match results are data supplied by the harness (Some b, or None for
   ErrBadPattern). The iteration order over a tenant set (a Go map) is a
   parameter: the order of the list. *)
From Coq Require Import ZArith List Bool Arith String.
Import ListNotations.
From Verif Require Import Lib.Corr Gen.C27.
Close Scope Z_scope.
Close Scope string_scope.

(* ---- tie T: facts read from the source on this run ---- *)
(* inside the block of `if err != nil` of tenantSet.match: is there a return
   (the pattern error aborts the loop, so the answer depends on the map order)? *)
Fixpoint scan_ret (depth : nat) (evs : list (string * string)) : bool :=
  match evs with
  | [] => false
  | (k, _) :: r =>
    if String.eqb k "return" then true
    else if String.eqb k "if" then scan_ret (S depth) r
    else if String.eqb k "endif" then match depth with O => false | S d => scan_ret d r end
    else scan_ret depth r
  end.
Fixpoint err_aborts_in (evs : list (string * string)) : bool :=
  match evs with
  | [] => false
  | (k, t) :: r => if String.eqb k "if" && String.eqb t "err != nil" then scan_ret 0 r else err_aborts_in r
  end.
Definition err_aborts : bool := err_aborts_in match_events.

(* multiHashring.GetN: the read lock is taken before the loop, the write lock (cache store) only inside `if found` *)
Fixpoint index_of (k t : string) (evs : list (string * string)) (i : nat) : option nat :=
  match evs with
  | [] => None
  | (k', t') :: r => if String.eqb k k' && String.eqb t t' then Some i else index_of k t r (S i)
  end.
Definition store_guarded : bool :=
  match index_of "call" "m.mu.RLock" getn_events 0, index_of "if" "found" getn_events 0, index_of "call" "m.mu.Lock" getn_events 0 with
  | Some a, Some b, Some c => (a <? b) && (b <? c)
  | _, _, _ => false
  end.

(* the tenant set of one hashring config, seen from one tenant:
   TDefault: no tenants configured (matches everything);
   TExact ids: matcher type "exact" or unset; TGlob rs: matcher type "glob", rs = the
   filepath.Match(pattern, tenant) results in the order the map is iterated;
   TOther: any other matcher type (never matches) *)
Inductive tset :=
| TDefault
| TExact (ids : list Z)
| TGlob (rs : list (option bool))
| TOther.

Inductive mres := MTrue | MFalse | MErr.

(* the `for tenantPattern, matcherType := range t` loop over a glob set.
   [abort = true]: a pattern error returns at once (the code before the repair);
   [abort = false]: the error is remembered in [err] and reported only if nothing matches. *)
Fixpoint glob_loop (abort : bool) (err : bool) (rs : list (option bool)) : mres :=
  match rs with
  | [] => if err then MErr else MFalse
  | None :: r => if abort then MErr else glob_loop abort true r
  | Some true :: _ => MTrue
  | Some false :: r => glob_loop abort err r
  end.
Definition glob_match (rs : list (option bool)) : mres := glob_loop err_aborts false rs.

Definition tmatch (tenant : Z) (t : tset) : mres :=
  match t with
  | TDefault => MTrue
  | TExact ids => if existsb (Z.eqb tenant) ids then MTrue else MFalse
  | TGlob rs => glob_match rs
  | TOther => MFalse
  end.

Inductive rres := RIdx (i : nat) | RErr.

(* the `for i, t := range m.tenantSets` loop: first match wins, a pattern error aborts *)
Fixpoint route (i : nat) (cfgs : list tset) (tenant : Z) : rres :=
  match cfgs with
  | [] => RErr                       (* "no matching hashring to handle tenant" *)
  | t :: r =>
    match tmatch tenant t with
    | MTrue => RIdx i
    | MErr => RErr
    | MFalse => route (S i) r tenant
    end
  end.

Definition rres_eqb (a b : rres) : bool :=
  match a, b with
  | RIdx i, RIdx j => i =? j
  | RErr, RErr => true
  | _, _ => false
  end.

(* all results that SOME iteration order of the glob sets can produce *)
Definition is_none (o : option bool) := match o with None => true | _ => false end.
Definition is_true (o : option bool) := match o with Some true => true | _ => false end.

Definition tmatch_poss (tenant : Z) (t : tset) : list mres :=
  match t with
  | TGlob rs =>
    if err_aborts && existsb is_none rs
    then (if existsb is_true rs then [MTrue; MErr] else [MErr])
    else [glob_match rs]
  | _ => [tmatch tenant t]
  end.

Definition has (m : mres) (l : list mres) : bool :=
  existsb (fun x => match x, m with MTrue, MTrue | MFalse, MFalse | MErr, MErr => true | _, _ => false end) l.

Fixpoint route_poss (i : nat) (cfgs : list tset) (tenant : Z) : list rres :=
  match cfgs with
  | [] => [RErr]
  | t :: r =>
    let ms := tmatch_poss tenant t in
    (if has MTrue ms then [RIdx i] else []) ++ (if has MErr ms then [RErr] else [])
    ++ (if has MFalse ms then route_poss (S i) r tenant else [])
  end.

(* ---- the cache under arbitrary interleavings of atomic steps ----
   A GetN call is: Lookup (under RLock) and, on a miss, compute [route] and later
   Store (under Lock). Any interleaving of such steps of any number of callers is
   a list of events. *)
Inductive ev := Lookup (t : Z) | Store (t : Z).

Section Cache.
  Variable compute : Z -> rres.
  (* [keyed = true]: the cache is a map keyed by the full tenant name (m.cache[tenant]).
     [keyed = false]: entries are found through a slot function of the tenant (e.g. a
     hash modulo a table size) without comparing the names. *)
  Variable keyed : bool.
  Variable slot : Z -> Z.
  Definition same_key (a b : Z) : bool := if keyed then (a =? b)%Z else (slot a =? slot b)%Z.
  Definition cget_gen (cache : list (Z * rres)) (t : Z) : option rres :=
    match find (fun p => same_key (fst p) t) cache with Some p => Some (snd p) | None => None end.
  (* responses of the lookups, in order; any number of tenants *)
  Fixpoint exec_gen (cache : list (Z * rres)) (evs : list ev) : list (Z * rres) :=
    match evs with
    | [] => []
    | Lookup t :: r =>
      (t, match cget_gen cache t with Some x => x | None => compute t end) :: exec_gen cache r
    | Store t :: r =>
      match compute t with
      | RIdx i => exec_gen ((t, RIdx i) :: cache) r     (* only successful routes are cached *)
      | RErr => exec_gen cache r
      end
    end.
End Cache.

(* the cache as the source has it (Gen.C27.cache_key_is_tenant) *)
Definition exec (compute : Z -> rres) := exec_gen compute cache_key_is_tenant (fun t => t).

(* ---- cases ---- *)
Inductive query :=
| Q (tenant : Z) (cfgs : list tset)
    (firsts : list rres)     (* first answer of several freshly built multi-hashrings *)
    (repeats : list rres).   (* further answers of the first ring: sequential and concurrent callers *)

Inductive case :=
| CRoute (qs : list query)
(* many tenants looked up on ONE multi-hashring instance: number of lookups, number of
   lookups whose observed ring differs from the first-match route (counted by the harness
   over all of them), and a sample of the lookups (the first disagreeing one first) *)
| CHistory (lookups disagreements : nat) (sample : list query).

Definition corr_ok (c : case) : bool :=
  match c with
  | CRoute qs | CHistory _ _ qs => forallb (fun q => match q with Q t cfgs firsts repeats =>
      forallb (fun o => existsb (rres_eqb o) (route_poss 0 cfgs t)) (firsts ++ repeats) end) qs
  end.

(* the property on the implementation's observations: the choice is the first
   matching config (or an error when none matches / a pattern is malformed) and it
   never changes across fresh rings, repeated or concurrent requests *)
Definition pred_qs (qs : list query) : bool := forallb (fun q => match q with Q t cfgs firsts repeats =>
      match firsts with
      | [] => true
      | o :: _ => forallb (rres_eqb o) (firsts ++ repeats) && existsb (rres_eqb o) (route_poss 0 cfgs t)
      end end) qs.

Definition pred_ok (c : case) : bool :=
  match c with
  | CRoute qs => pred_qs qs
  | CHistory _ bad qs => (bad =? 0) && pred_qs qs
  end.
