(* C26 — model of translateV2ToV1 / v2Labels / handleV2HTTP (pkg/receive/handler.go):
   a remote-write 2.0 request (symbol table + series that reference it) becomes
   the v1 series that are ingested, or is rejected when a reference is outside
   the table. The status written on rejection, the for/if/return skeleton of the
   reference check in v2Labels and the absence of direct symbol indexing in
   translateV2ToV1 are regenerated from the source on every run (Gen/C26.v).
   Executable definitions only. *)
From Coq Require Import ZArith NArith List Bool String.
Import ListNotations.
From Verif Require Import Lib.Corr Gen.C26.
Open Scope Z_scope.

Definition str := list N.                      (* bytes *)
Definition cnt := option (bool * N).           (* histogram count oneof: (is_int, uint64 or float bits) *)
Definition span := (Z * N)%type.
(* count, sum, schema, zero_threshold, zero_count, negative spans/deltas/counts,
   positive spans/deltas/counts, reset hint, timestamp, custom values *)
Definition hist := (cnt * N * Z * N * cnt * list span * list Z * list N * list span * list Z * list N * Z * Z * list N)%type.
Definition sample := (Z * N)%type.             (* timestamp, float bits *)

Definition v2exemplar := (list N * N * Z)%type.                 (* label refs, value bits, timestamp *)
Definition v2series := (list N * list sample * list v2exemplar * list hist)%type.
Definition label := (str * str)%type.
Definition v1exemplar := (list label * N * Z)%type.
Definition v1series := (list label * list sample * list v1exemplar * list hist)%type.

(* ---- tie T ---- *)
Definition string_pair_eqb (a b : string * string) : bool :=
  String.eqb (fst a) (fst b) && String.eqb (snd a) (snd b).
Definition expected_v2Labels_skeleton : list (string * string) :=
  [("for", "range"); ("if", "int(ref) >= len(symbols)"); ("return", "nil, errors.Errorf(""symbol reference %d is out of range of the symbols table (%d entries)"", ref, len(symbols))");
   ("endfor", ""); ("for", ""); ("endfor", ""); ("return", "lbls, nil")]%string.
Definition refs_checked : bool :=
  list_eqb string_pair_eqb
    (map (fun e => (fst e, if String.eqb (fst e) "return" then ""%string else snd e)) v2Labels_skeleton)
    (map (fun e => (fst e, if String.eqb (fst e) "return" then ""%string else snd e)) expected_v2Labels_skeleton)
  && (translate_direct_symbol_indexing =? 0) && (translate_v2Labels_calls =? 2).

(* ---- v2Labels ---- *)
Definition in_range (symbols : list str) (r : N) : bool := (r <? N.of_nat (List.length symbols))%N.

Fixpoint pair_up (symbols : list str) (refs : list N) : list label :=
  match refs with
  | a :: b :: r => (nth (N.to_nat a) symbols [], nth (N.to_nat b) symbols []) :: pair_up symbols r
  | _ => []                                   (* an odd trailing reference is ignored *)
  end.

(* None = error (some reference is outside the table); the check runs first, so
   the lookups below only ever see references inside the table. That the source
   still checks this way is the theorem C26_source_checks_refs (the model is not
   switched off when the shape changes, so the correspondence keeps localising). *)
Definition v2_labels (symbols : list str) (refs : list N) : option (list label) :=
  if forallb (in_range symbols) refs then Some (pair_up symbols refs) else None.

Fixpoint tr_exemplars (symbols : list str) (es : list v2exemplar) : option (list v1exemplar) :=
  match es with
  | [] => Some []
  | (refs, v, t) :: r =>
      match v2_labels symbols refs with
      | None => None
      | Some ls => match tr_exemplars symbols r with
                   | None => None
                   | Some out => Some ((ls, v, t) :: out)
                   end
      end
  end.

Definition tr_series (symbols : list str) (s : v2series) : option v1series :=
  match s with
  | (refs, samples, exemplars, hists) =>
      match v2_labels symbols refs with
      | None => None
      | Some ls => match tr_exemplars symbols exemplars with
                   | None => None
                   | Some es => Some (ls, samples, es, hists)
                   end
      end
  end.

(* translateV2ToV1: series in order, first error aborts *)
Fixpoint translate (symbols : list str) (ss : list v2series) : option (list v1series) :=
  match ss with
  | [] => Some []
  | s :: r =>
      match tr_series symbols s with
      | None => None
      | Some o => match translate symbols r with
                  | None => None
                  | Some out => Some (o :: out)
                  end
      end
  end.

(* handleV2HTTP + handleV1HTTP on a single ingesting node: status and the series ingested *)
Definition handle_v2 (symbols : list str) (ss : list v2series) : Z * list v1series :=
  match translate symbols ss with
  | None => (v2_bad_ref_status, [])
  | Some out => (200, out)
  end.

(* ---- specification vocabulary (independent of the loop above) ---- *)
Definition sym (symbols : list str) (r : N) : str := nth (N.to_nat r) symbols [].

(* the j-th label is (symbols[refs[2j]], symbols[refs[2j+1]]) *)
Definition spec_labels (symbols : list str) (refs : list N) : list label :=
  map (fun j => (sym symbols (nth (2 * j) refs 0%N), sym symbols (nth (2 * j + 1) refs 0%N)))
      (seq 0 (Nat.div2 (List.length refs))).

Definition spec_series (symbols : list str) (s : v2series) : v1series :=
  match s with
  | (refs, samples, exemplars, hists) =>
      (spec_labels symbols refs, samples,
       map (fun e => match e with (r, v, t) => (spec_labels symbols r, v, t) end) exemplars, hists)
  end.

Definition series_refs (s : v2series) : list N :=
  match s with (refs, _, exemplars, _) => refs ++ flat_map (fun e => fst (fst e)) exemplars end.
Definition all_refs (ss : list v2series) : list N := flat_map series_refs ss.

(* ---- deciders ---- *)
Definition str_eqb : str -> str -> bool := list_eqb N.eqb.
Definition label_eqb (a b : label) : bool := str_eqb (fst a) (fst b) && str_eqb (snd a) (snd b).
Definition cnt_eqb : cnt -> cnt -> bool := option_eqb (fun a b => Bool.eqb (fst a) (fst b) && N.eqb (snd a) (snd b)).
Definition span_eqb (a b : span) : bool := Z.eqb (fst a) (fst b) && N.eqb (snd a) (snd b).
Definition sample_eqb (a b : sample) : bool := Z.eqb (fst a) (fst b) && N.eqb (snd a) (snd b).
Definition hist_eqb (a b : hist) : bool :=
  match a, b with
  | (c1, s1, sc1, zt1, zc1, ns1, nd1, nc1, ps1, pd1, pc1, r1, t1, cu1),
    (c2, s2, sc2, zt2, zc2, ns2, nd2, nc2, ps2, pd2, pc2, r2, t2, cu2) =>
      cnt_eqb c1 c2 && N.eqb s1 s2 && Z.eqb sc1 sc2 && N.eqb zt1 zt2 && cnt_eqb zc1 zc2
      && list_eqb span_eqb ns1 ns2 && list_eqb Z.eqb nd1 nd2 && list_eqb N.eqb nc1 nc2
      && list_eqb span_eqb ps1 ps2 && list_eqb Z.eqb pd1 pd2 && list_eqb N.eqb pc1 pc2
      && Z.eqb r1 r2 && Z.eqb t1 t2 && list_eqb N.eqb cu1 cu2
  end.
Definition v1exemplar_eqb (a b : v1exemplar) : bool :=
  match a, b with (l1, v1, t1), (l2, v2, t2) => list_eqb label_eqb l1 l2 && N.eqb v1 v2 && Z.eqb t1 t2 end.
Definition v1series_eqb (a b : v1series) : bool :=
  match a, b with
  | (l1, s1, e1, h1), (l2, s2, e2, h2) =>
      list_eqb label_eqb l1 l2 && list_eqb sample_eqb s1 s2 && list_eqb v1exemplar_eqb e1 e2 && list_eqb hist_eqb h1 h2
  end.

(* ---- correspondence and predicate ---- *)
(* one request as observed: what was sent, and what the handler did with it *)
Inductive reqobs :=
| CV2 (symbols : list str) (ss : list v2series) (panicked : bool) (status : Z) (ingested : list v1series).

Definition req_corr_ok (c : reqobs) : bool :=
  match c with
  | CV2 symbols ss panicked status ingested =>
      negb panicked && Z.eqb (fst (handle_v2 symbols ss)) status
      && list_eqb v1series_eqb (snd (handle_v2 symbols ss)) ingested
  end.

Definition req_pred_ok (c : reqobs) : bool :=
  match c with
  | CV2 symbols ss panicked status ingested =>
      negb panicked &&
      (if forallb (in_range symbols) (all_refs ss)
       then Z.eqb status 200 && list_eqb v1series_eqb ingested (map (spec_series symbols) ss)
       else (400 <=? status) && (status <? 500) && match ingested with [] => true | _ => false end)
  end.

(* a case is a HISTORY of requests served one after the other by the same
   handler; the handler is stateless across v2 requests, so the model of a
   history is the model of each request, and each request is judged on its own
   (its status and what it ingested follow from its own content only) *)
Definition handle_history (reqs : list (list str * list v2series)) : list (Z * list v1series) :=
  map (fun r => handle_v2 (fst r) (snd r)) reqs.

Inductive case := CHist (reqs : list reqobs).

Definition corr_ok (c : case) : bool := match c with CHist reqs => forallb req_corr_ok reqs end.
Definition pred_ok (c : case) : bool := match c with CHist reqs => forallb req_pred_ok reqs end.

(* tie T: handleV2HTTP, translateV2ToV1, v2Labels and translateV2SpansToV1 read
   no field of the Handler and no package-level variable (no pool, no cache):
   everything they use comes from the request *)
Definition v2_path_stateless : bool :=
  match v2_handler_fields_read, v2_package_vars_read with [], [] => true | _, _ => false end.
