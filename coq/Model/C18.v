(* C18 — Hashring places each series on distinct, deterministic, zone-balanced nodes.
   Ketama: shared model Lib/Hashring_Ketama.v (newKetamaHashring, calculateSectionReplicas,
   ketamaHashring.GetN). Hashmod: newSimpleHashring / simpleHashring.GetN, whose index
   expression is regenerated from the source (Gen/C18.v, [simple_index]).
   labelpb.HashWithPrefix: which bytes reach xxhash on the buffer path and on the
   streaming path. Hash VALUES are data supplied by the harness. *)
From Coq Require Import ZArith NArith List Bool Arith Sorting.Mergesort Orders.
Import ListNotations.
From Verif Require Import Lib.Corr Lib.Hashring_Ketama Gen.C18.
From Verif Require Export Lib.Hashring_Answers.
Close Scope Z_scope.

(* ---------------- labelpb.HashWithPrefix ---------------- *)
Definition sepb : N := 255%N.
Definition label_bytes (l : list N * list N) : list N := fst l ++ [sepb] ++ snd l ++ [sepb].
(* the canonical hash input: prefix 0xff (name 0xff value 0xff)* *)
Definition hash_input (prefix : list N) (lbls : list (list N * list N)) : list N :=
  prefix ++ [sepb] ++ concat (map label_bytes lbls).

Section HWP.
  Variable H : list N -> Z.      (* xxhash.Sum64; a Digest fed piecewise hashes the concatenation *)
  Variable cap : nat.            (* cap(b): 1024, or more when the prefix alone is longer *)
  Fixpoint hwp_loop (b : list N) (lbls : list (list N * list N)) : Z :=
    match lbls with
    | [] => H b
    | l :: r =>
      if cap <=? length b + length (fst l) + length (snd l) + 2
      then H (b ++ concat (map label_bytes lbls))      (* h.Write(b); then every remaining label *)
      else hwp_loop (b ++ fst l ++ [sepb] ++ snd l ++ [sepb]) r
    end.
  Definition hash_with_prefix (prefix : list N) (lbls : list (list N * list N)) : Z :=
    hwp_loop (prefix ++ [sepb]) lbls.
End HWP.

(* ---------------- hashmod ---------------- *)
Module ZOrder <: TotalLeBool.
  Definition t := Z.
  Definition leb (a b : Z) : bool := (a <=? b)%Z.
  Theorem leb_total : forall a b, leb a b = true \/ leb b a = true.
  Proof. intros a b. unfold leb. destruct (Z.leb_spec a b); [now left|right]. apply Z.leb_le. apply Z.lt_le_incl. assumption. Qed.
End ZOrder.
Module ZSort := Sort ZOrder.

(* newSimpleHashring: endpoints sorted by address (addresses are order-preserving integer ids) *)
Definition simple_ring (addrs : list Z) : list Z := ZSort.sort addrs.

(* simpleHashring.GetN; the index is Gen.C18.simple_index, i.e. the source's
   (HashWithPrefix(tenant, labels) + n) % uint64(len(s)) over Z (no uint64 wrap) *)
Definition simple_idx (len : nat) (h : Z) (n : nat) : Z :=
  simple_index (fun _ _ => h) (fun _ => Z.of_nat len) 0%Z 0%Z (Z.of_nat n) 0%Z.

Definition simple_getn (ring : list Z) (h : Z) (n : nat) : option Z :=
  if simple_insufficient (fun _ => Z.of_nat (length ring)) (Z.of_nat n) 0%Z then None
  else Some (nth (Z.to_nat (simple_idx (length ring) h n)) ring 0%Z).

(* the same index with the uint64 wrap-around of h+n made explicit (hand-written) *)
Definition simple_idx_wrap (len : nat) (h : Z) (n : nat) : Z :=
  Z.rem (Z.modulo (h + Z.of_nat n) (2 ^ 64)) (Z.of_nat len).

(* ---------------- cases ---------------- *)
Inductive case :=
| CKet (eps : list (Z * list Z))    (* per endpoint: zone id, ranks of its section hashes; its identity = its position *)
       (perm : list nat)            (* a second ring is built from [permute eps perm] *)
       (rf : nat)
       (built built_p : bool)       (* constructor succeeded: original / permuted *)
       (qs : list (Z * list nat * list nat))
         (* per series: rank of HashWithPrefix(tenant, labels); GetN answers for n = 0..rf-1 as
            positions in [eps], from the original ring and from the permuted ring *)
| CMod (addrs : list Z) (perm : list nat)
       (qs : list (Z * list Z * list Z))
         (* per series: HashWithPrefix value (raw); answers (address ids) for n = 0..len-1, original / permuted *)
| CHash (tenant : list N) (labels : list (list N * list N))
        (fed : list N) (oracle : Z)  (* bytes the harness fed to xxhash.Sum64 and the value it returned *)
        (impl : Z).                  (* labelpb.HashWithPrefix(tenant, labels) *)

Definition q_eqb (a b : list nat) := list_eqb Nat.eqb a b.

Definition corr_ok (c : case) : bool :=
  match c with
  | CKet eps perm rf built built_p qs =>
      let eps_p := permute (0%Z, []) eps perm in
      forallb (fun q =>
        match q with (v, a, ap) =>
          option_eqb q_eqb (ketama_answers eps rf v) (if built then Some a else None)
          && option_eqb q_eqb (option_map (map (fun i => nth i perm 0)) (ketama_answers eps_p rf v))
                              (if built_p then Some ap else None)
        end) qs
      && Bool.eqb built (match ketama_new eps rf with KOk _ _ => true | _ => false end)
      && Bool.eqb built_p (match ketama_new eps_p rf with KOk _ _ => true | _ => false end)
  | CMod addrs perm qs =>
      let r := simple_ring addrs in
      let rp := simple_ring (permute 0%Z addrs perm) in
      forallb (fun q =>
        match q with (h, a, ap) =>
          list_eqb Z.eqb (map (fun n => match simple_getn r h n with Some x => x | None => (-1)%Z end) (seq 0 (length addrs))) a
          && list_eqb Z.eqb (map (fun n => match simple_getn rp h n with Some x => x | None => (-1)%Z end) (seq 0 (length addrs))) ap
        end) qs
  | CHash tenant labels fed oracle impl =>
      list_eqb N.eqb (hash_input tenant labels) fed && (impl =? oracle)%Z
  end.

Fixpoint nodup_z (l : list Z) : bool :=
  match l with
  | [] => true
  | x :: r => negb (existsb (Z.eqb x) r) && nodup_z r
  end.

(* the property on the implementation's own answers *)
Definition pred_ok (c : case) : bool :=
  match c with
  | CKet eps perm rf built built_p qs =>
      Bool.eqb built built_p
      && (negb built ||
          forallb (fun q =>
            match q with (_, a, ap) =>
              (length a =? rf) && nodup_nat a && forallb (fun e => e <? length eps) a   (* distinct nodes *)
              && q_eqb a ap                                    (* independent of the endpoint order *)
              && balanced eps a                                (* zone balance *)
            end) qs)
  | CMod addrs perm qs =>
      forallb (fun q =>
        match q with (_, a, ap) =>
          (length a =? length addrs) && nodup_z a && list_eqb Z.eqb a ap
        end) qs
  | CHash _ _ _ oracle impl => (impl =? oracle)%Z
  end.
