(* C10 — model of the selection logic of the store gateway (pkg/store/bucket.go):
     toPostingGroup, postingGroup.mergeKeys, matchersToPostingGroups,
     bucketIndexReader.ExpandedPostings + mergeFetchedPostings (which series are selected),
     decodeSeriesForTime (which chunks of a selected series are returned),
     blockSeriesClient.nextBatch (series without chunks dropped, external labels attached).
   The block index is data: the list of series (labels, chunk metas) in index order.
   A matcher carries its own truth function [m_fun] (the harness supplies the values of
   labels.Matcher.Matches on the label's values and on ""; regular expressions are not
   re-implemented) and the result of SetMatches().
   Byte-level index / postings / chunk decoding, caches, lazy posting selection and batching
   do not change which series come back and are not modelled; the check runs the real code
   under those configurations and compares every answer with this model.
   The model describes the code WITH repo_patches/C10-fix.patch (set matches are
   de-duplicated after sorting).
   Executable definitions only. *)
From Coq Require Import ZArith NArith List Bool Lia.
Import ListNotations.
From Verif Require Import Lib.Corr Lib.Storegw_Str Gen.C10.
Open Scope Z_scope.

Definition lset := list (str * str).
Definition chunk := (Z * Z * Z)%type.            (* MinTime, MaxTime, hash of the chunk data *)
Definition series := (lset * list chunk)%type.

Fixpoint smem (x : str) (l : list str) : bool :=
  match l with [] => false | y :: r => str_eqb x y || smem x r end.

Fixpoint sinsert (x : str) (l : list str) : list str :=
  match l with
  | [] => [x]
  | y :: r => if str_leb x y then x :: l else y :: sinsert x r
  end.
Definition ssort (l : list str) : list str := fold_right sinsert [] l.
(* slices.Compact *)
Fixpoint scompact (l : list str) : list str :=
  match l with
  | [] => []
  | x :: r => match r with
              | [] => [x]
              | y :: _ => if str_eqb x y then scompact r else x :: scompact r
              end
  end.

(* labels.Labels.Get: "" when the label is absent *)
Fixpoint label_get (ls : lset) (n : str) : str :=
  match ls with
  | [] => []
  | (k, v) :: r => if str_eqb k n then v else label_get r n
  end.

Definition is_nil {A} (l : list A) : bool := match l with [] => true | _ => false end.

(* indexheader LabelValues(name): the values of the label in the block, sorted *)
Definition label_values (idx : list series) (n : str) : list str :=
  scompact (ssort (filter (fun v => negb (is_nil v)) (map (fun s : series => label_get (fst s) n) idx))).

Inductive mtype := MEq | MNeq | MRe | MNre.
Record matcher := { m_type : mtype; m_name : str; m_value : str; m_sets : list str; m_fun : str -> bool }.
Definition mk_matcher (t : mtype) (n v : str) (sets matched : list str) : matcher :=
  {| m_type := t; m_name := n; m_value := v; m_sets := sets; m_fun := fun x => smem x matched |}.

Definition mtype_eqb (a b : mtype) : bool :=
  match a, b with MEq, MEq | MNeq, MNeq | MRe, MRe | MNre, MNre => true | _, _ => false end.

Record group := { g_name : str; g_all : bool; g_add : list str; g_rem : list str }.

Definition dot_star : str := [46; 42]%N.
Definition dot_plus : str := [46; 43]%N.

(* toPostingGroup; [vals] = lvalsFn(m.Name) *)
Definition to_group (m : matcher) (vals : list str) : group :=
  let n := m_name m in
  let mk a add rem := {| g_name := n; g_all := a; g_add := add; g_rem := rem |} in
  if mtype_eqb (m_type m) MRe && str_eqb (m_value m) dot_star then mk true [] []
  else if mtype_eqb (m_type m) MNre && str_eqb (m_value m) dot_star then mk false [] []
  else if m_fun m [] then
    if mtype_eqb (m_type m) MNre && negb (is_nil (m_sets m)) then mk true [] (scompact (ssort (m_sets m)))
    else if mtype_eqb (m_type m) MNeq then mk true [] [m_value m]
    else if is_nil (m_value m) && (mtype_eqb (m_type m) MEq || mtype_eqb (m_type m) MRe) then mk true [] vals
    else if mtype_eqb (m_type m) MNre && str_eqb (m_value m) dot_plus then mk true [] vals
    else mk true [] (filter (fun v => negb (m_fun m v)) vals)
  else
    if mtype_eqb (m_type m) MRe && negb (is_nil (m_sets m)) then mk false (scompact (ssort (m_sets m))) []
    else if mtype_eqb (m_type m) MEq then mk false [m_value m] []
    else if is_nil (m_value m) && (mtype_eqb (m_type m) MNeq || mtype_eqb (m_type m) MNre) then mk false vals []
    else if mtype_eqb (m_type m) MRe && str_eqb (m_value m) dot_plus then mk false vals []
    else mk false (filter (m_fun m) vals) [].

(* the three sorted-list loops of mergeKeys *)
Fixpoint s_union (fuel : nat) (a b : list str) : list str :=
  match fuel with
  | O => []
  | S f =>
      match a, b with
      | [], _ => b
      | _, [] => a
      | x :: a', y :: b' =>
          if str_ltb x y then x :: s_union f a' b
          else if str_ltb y x then y :: s_union f a b'
          else x :: s_union f a' b'
      end
  end.
Fixpoint s_minus (fuel : nat) (a b : list str) : list str :=
  match fuel with
  | O => []
  | S f =>
      match a, b with
      | [], _ => []
      | _, [] => a
      | x :: a', y :: b' =>
          if str_ltb x y then x :: s_minus f a' b
          else if str_ltb y x then s_minus f a b'
          else s_minus f a' b'
      end
  end.
Fixpoint s_inter (fuel : nat) (a b : list str) : list str :=
  match fuel with
  | O => []
  | S f =>
      match a, b with
      | [], _ | _, [] => []
      | x :: a', y :: b' =>
          if str_eqb x y then x :: s_inter f a' b'
          else if str_ltb x y then s_inter f a' b
          else s_inter f a b'
      end
  end.
Definition fuel2 (a b : list str) : nat := S (length a + length b).

Definition merge_keys (pg other : group) : group :=
  if g_all pg && g_all other then
    if is_nil (g_rem pg) then {| g_name := g_name pg; g_all := true; g_add := g_add pg; g_rem := g_rem other |}
    else if is_nil (g_rem other) then pg
    else {| g_name := g_name pg; g_all := true; g_add := g_add pg;
            g_rem := s_union (fuel2 (g_rem pg) (g_rem other)) (g_rem pg) (g_rem other) |}
  else if g_all pg || g_all other then
    let toAdd := if g_all pg then other else pg in
    let toRemove := if g_all pg then pg else other in
    {| g_name := g_name pg; g_all := false;
       g_add := s_minus (fuel2 (g_add toAdd) (g_rem toRemove)) (g_add toAdd) (g_rem toRemove); g_rem := [] |}
  else
    {| g_name := g_name pg; g_all := false;
       g_add := s_inter (fuel2 (g_add pg) (g_add other)) (g_add pg) (g_add other); g_rem := g_rem pg |}.

(* matchersToPostingGroups: one merged group per label name; None = some group can match nothing.
   [ms] are the matchers of ONE name, in the order they are merged. *)
Fixpoint merge_name (lv : list str) (ms : list matcher) (acc : option group) : option (option group) :=
  match ms with
  | [] => Some acc
  | m :: r =>
      let pg := to_group m lv in
      if negb (g_all pg) && is_nil (g_add pg) then None
      else
        let merged := match acc with None => pg | Some a => merge_keys a pg end in
        if negb (g_all merged) && is_nil (g_add merged) then None
        else merge_name lv r (Some merged)
  end.

Definition matcher_same (a b : matcher) : bool :=
  mtype_eqb (m_type a) (m_type b) && str_eqb (m_name a) (m_name b) && str_eqb (m_value a) (m_value b).

(* the map keyed by name, then by m.String(): duplicates of the same matcher collapse *)
Fixpoint dedup_matchers (ms : list matcher) : list matcher :=
  match ms with
  | [] => []
  | m :: r => if existsb (matcher_same m) r then dedup_matchers r else m :: dedup_matchers r
  end.

Fixpoint names_of (ms : list matcher) (seen : list str) : list str :=
  match ms with
  | [] => []
  | m :: r => if smem (m_name m) seen then names_of r seen else m_name m :: names_of r (m_name m :: seen)
  end.

Fixpoint groups_for (idx : list series) (ms : list matcher) (names : list str) : option (list group) :=
  match names with
  | [] => Some []
  | n :: r =>
      match merge_name (label_values idx n) (filter (fun m => str_eqb (m_name m) n) ms) None with
      | None => None
      | Some None => groups_for idx ms r
      | Some (Some g) =>
          match groups_for idx ms r with
          | None => None
          | Some gs => Some (g :: gs)
          end
      end
  end.

Definition matchers_to_groups (idx : list series) (ms : list matcher) : option (list group) :=
  let ms' := dedup_matchers ms in
  groups_for idx ms' (ssort (names_of ms' [])).

Definition all_group : group := {| g_name := []; g_all := true; g_add := [[]]; g_rem := [] |}.

(* ExpandedPostings + mergeFetchedPostings: Without(Intersect(adds...), Merge(removals...)) *)
Definition select (idx : list series) (ms : list matcher) : list series :=
  match ms with
  | [] => []
  | _ =>
    match matchers_to_groups idx ms with
    | None => []
    | Some gs =>
        let kept := filter (fun g => negb (is_nil (g_add g) && is_nil (g_rem g))) gs in
        let allRequested := existsb g_all gs in
        let hasAdds := existsb (fun g => negb (is_nil (g_add g))) gs in
        let gs' := if allRequested && negb hasAdds then kept ++ [all_group] else kept in
        let adds := filter (fun g => negb (is_nil (g_add g))) gs' in
        if is_nil adds then []        (* index.Intersect() of nothing is empty *)
        else filter (fun s : series =>
                       forallb (fun g => smem (label_get (fst s) (g_name g)) (g_add g)) adds
                       && forallb (fun g => negb (smem (label_get (fst s) (g_name g)) (g_rem g))) gs') idx
    end
  end.

(* Lazy expanded postings (fetchLazyExpandedPostings + keysToFetchFromPostingGroups +
   mergeFetchedPostings + the lazy matcher loop of nextBatch) for an ARBITRARY marking [lazy]
   of label names: the postings of lazy groups are not fetched, all matchers of those names are
   re-checked on every candidate series. optimizePostingsFetchByDownloadedBytes only decides
   WHICH names are marked (never the first group with add keys); no group is marked when the
   special all-postings group is needed. Not used by corr_ok (the check runs the real code with
   lazy postings on and compares it with [answer]); the theorem C10_lazy_select_eq shows that
   every marking selects the same series. *)
Definition select_with (idx : list series) (ms : list matcher) (lazy : str -> bool) : list series :=
  match ms with
  | [] => []
  | _ =>
    match matchers_to_groups idx ms with
    | None => []
    | Some gs =>
        let kept := filter (fun g => negb (is_nil (g_add g) && is_nil (g_rem g))) gs in
        let allRequested := existsb g_all gs in
        let hasAdds := existsb (fun g => negb (is_nil (g_add g))) gs in
        if allRequested && negb hasAdds then select idx ms
        else
          let eager := filter (fun g => negb (lazy (g_name g))) kept in
          let lazy_ms := filter (fun m => lazy (m_name m) && existsb (fun g => str_eqb (g_name g) (m_name m)) kept)
                                (dedup_matchers ms) in
          let adds := filter (fun g => negb (is_nil (g_add g))) eager in
          if is_nil adds then []
          else filter (fun s : series =>
                         forallb (fun g => smem (label_get (fst s) (g_name g)) (g_add g)) adds
                         && forallb (fun g => negb (smem (label_get (fst s) (g_name g)) (g_rem g))) eager
                         && forallb (fun m => m_fun m (label_get (fst s) (m_name m))) lazy_ms) idx
    end
  end.

(* decodeSeriesForTime: chunks are scanned in index order *)
Fixpoint chunks_for (cs : list chunk) (selMint selMaxt : Z) : list chunk :=
  match cs with
  | [] => []
  | (cmin, cmax, h) :: r =>
      if chunk_break_cond cmin selMaxt then []
      else if chunk_keep_cond cmax selMint then (cmin, cmax, h) :: chunks_for r selMint selMaxt
      else chunks_for r selMint selMaxt
  end.

(* labelpb.ExtendSortedLabels: external labels win *)
Fixpoint set_label (ls : lset) (k v : str) : lset :=
  match ls with
  | [] => [(k, v)]
  | (k', v') :: r =>
      if str_eqb k k' then (k, v) :: r
      else if str_ltb k k' then (k, v) :: ls
      else (k', v') :: set_label r k v
  end.
Definition extend (ls ext : lset) : lset := fold_left (fun acc kv => set_label acc (fst kv) (snd kv)) ext ls.

Definition answer (idx : list series) (ext : lset) (ext_ok : bool) (ms : list matcher) (mint maxt : Z) : list series :=
  if negb ext_ok then []
  else
    flat_map (fun s : series =>
                match chunks_for (snd s) mint maxt with
                | [] => []
                | cs => [(extend (fst s) ext, cs)]
                end) (select idx ms).

(* ---- optimizePostingsFetchByDownloadedBytes: which groups are marked lazy ----------- *)
(* number of postings of (name, value): (rng.End - rng.Start - 4) / 4 of the index-header range *)
Definition card_key (idx : list series) (n v : str) : Z :=
  Z.of_nat (length (filter (fun s : series => str_eqb (label_get (fst s) n) v) idx)).
(* vals := pg.addKeys; if len(pg.removeKeys) > 0 { vals = pg.removeKeys } *)
Definition g_vals (g : group) : list str := if is_nil (g_rem g) then g_add g else g_rem g.
Definition g_card (idx : list series) (g : group) : Z :=
  fold_right Z.add 0 (map (card_key idx (g_name g)) (g_vals g)).
Definition g_existent (idx : list series) (g : group) : Z :=
  Z.of_nat (length (filter (fun v => 0 <? card_key idx (g_name g) v) (g_vals g))).

(* ratios are rationals num/den with den > 0; the Go code uses float64, which is exact for the
   dyadic ratios and small counts the check uses *)
Definition ceil_mul (x num den : Z) : Z := (x * num + den - 1) / den.      (* math.Ceil(float64(x) * ratio) *)

Definition cg := (group * Z * Z)%type.     (* group, cardinality, existentKeys *)
Definition cg_name (x : cg) : str := g_name (fst (fst x)).

(* slices.SortFunc by (cardinality, name) *)
Definition cg_leb (a b : cg) : bool :=
  let ca := snd (fst a) in let cb := snd (fst b) in
  if ca =? cb then str_leb (cg_name a) (cg_name b) else ca <? cb.
Fixpoint cg_insert (x : cg) (l : list cg) : list cg :=
  match l with
  | [] => [x]
  | y :: r => if cg_leb x y then x :: l else y :: cg_insert x r
  end.
Definition cg_sort (l : list cg) : list cg := fold_right cg_insert [] l.

(* the loop `for i < len(postingGroups)` after the first group with add keys; returns the
   names of the groups marked lazy *)
Fixpoint lazy_loop (sz mn md kn kd maxSM sm : Z) (gs : list cg) : list str :=
  match gs with
  | [] => []
  | (g, c, e) :: r =>
      if sm <=? 0 then map cg_name gs                                    (* break: the rest is lazy *)
      else if (0 <? kn) && (0 <? maxSM) && (kn * maxSM <? e * kd)        (* existentKeys/maxSeriesMatched > ratio *)
      then g_name g :: lazy_loop sz mn md kn kd maxSM sm r                (* keys_limit *)
      else
        let under := if sm <? c then ceil_mul sm mn md else ceil_mul c mn md in
        let sm' := if g_all g then sm - under else ceil_mul sm mn md in
        let usize := if g_all g then under * sz else sz * ceil_mul sm (md - mn) md in
        if usize <? c * 4 then map cg_name gs                            (* break: the rest is lazy *)
        else lazy_loop sz mn md kn kd maxSM sm' r
  end.

Fixpoint span_all (l : list cg) : list cg * list cg :=
  match l with
  | x :: r => if g_all (fst (fst x)) then let (a, b) := span_all r in (x :: a, b) else ([], l)
  | [] => ([], [])
  end.

(* None = "emptyPostingGroup": some group with add keys has no existing key, nothing can match *)
Definition lazy_marking (idx : list series) (sz mn md kn kd : Z) (gs : list group) : option (list str) :=
  if (length gs <=? 1)%nat then Some []
  else if existsb (fun g => negb (is_nil (g_add g)) && (g_existent idx g =? 0)) gs then None
  else
    let sorted := cg_sort (map (fun g => (g, g_card idx g, g_existent idx g)) gs) in
    let (negs, rest) := span_all sorted in
    match rest with
    | (g, c, e) :: x2 :: r2 =>
        let neg := fold_right Z.add 0 (map (fun x : cg => snd (fst x)) negs) in
        let sm := c - ceil_mul neg mn md in
        Some (lazy_loop sz mn md kn kd sm sm (x2 :: r2))
    | _ => Some []
    end.

(* the groups handed to fetchLazyExpandedPostings by ExpandedPostings, and whether the special
   all-postings group is needed *)
Definition kept_groups (gs : list group) : list group :=
  filter (fun g => negb (is_nil (g_add g) && is_nil (g_rem g))) gs.
Definition add_all_postings (gs : list group) : bool :=
  existsb g_all gs && negb (existsb (fun g => negb (is_nil (g_add g))) gs).

(* the marking the real code makes for a query: lazy enabled, S = estimated max series size *)
Definition real_marking (idx : list series) (sz mn md kn kd : Z) (gs : list group) : option (list str) :=
  if add_all_postings gs || negb (0 <? sz) then Some []
  else lazy_marking idx sz mn md kn kd (kept_groups gs).

(* series whose postings are actually fetched and intersected (the eager groups only) *)
Definition eager_candidates (idx : list series) (gs : list group) (lazy : list str) : list series :=
  let gs' := if add_all_postings gs then kept_groups gs ++ [all_group] else kept_groups gs in
  let eager := filter (fun g => negb (smem (g_name g) lazy)) gs' in
  let adds := filter (fun g => negb (is_nil (g_add g))) eager in
  if is_nil adds then []
  else filter (fun s : series =>
                 forallb (fun g => smem (label_get (fst s) (g_name g)) (g_add g)) adds
                 && forallb (fun g => negb (smem (label_get (fst s) (g_name g)) (g_rem g))) eager) idx.

(* ---- the expanded-postings cache over a history of queries ----------------------- *)
(* The index cache keeps, per block, the expanded postings of a matcher list
   (storeExpandedPostingsToCache / fetchExpandedPostingsFromCache): the key is made of the
   matchers only, NOT of the time range. [cold ms] is what a cold store computes for ms
   (eager: [select]; lazy: [select_with] for the heuristic's marking - the entry is written at
   the end of nextBatch from the series that passed the lazy matchers, whether or not they
   have chunks in the queried range). *)
Definition finish (ext : lset) (sel : list series) (mint maxt : Z) : list series :=
  flat_map (fun s : series =>
              match chunks_for (snd s) mint maxt with
              | [] => []
              | cs => [(extend (fst s) ext, cs)]
              end) sel.

Definition pcache := list (list matcher * list series).
Definition key_eqb (a b : list matcher) : bool := list_eqb matcher_same a b.
Fixpoint pc_lookup (c : pcache) (ms : list matcher) : option (list series) :=
  match c with
  | [] => None
  | (k, v) :: r => if key_eqb ms k then Some v else pc_lookup r ms
  end.

Definition query := (list matcher * Z * Z)%type.

Definition query_step (cold : list matcher -> list series) (ext : lset) (c : pcache) (q : query)
  : list series * pcache :=
  let '(ms, mint, maxt) := q in
  match pc_lookup c ms with
  | Some sel => (finish ext sel mint maxt, c)
  | None => let sel := cold ms in (finish ext sel mint maxt, (ms, sel) :: c)
  end.

Fixpoint run_hist (cold : list matcher -> list series) (ext : lset) (c : pcache) (h : list query)
  : list (list series) :=
  match h with
  | [] => []
  | q :: r => let '(a, c') := query_step cold ext c q in a :: run_hist cold ext c' r
  end.

(* ---- gapBasedPartitioner.Partition --------------------------------------------- *)
(* ranges (start, end) sorted by start; a part = (Start, End, ElemRng[0], ElemRng[1]) *)
Definition part := (Z * Z * nat * nat)%type.

(* the inner `for ; k < length; k++` loop: grow the part until a large gap *)
Fixpoint grow (maxGap pend : Z) (rs : list (Z * Z)) (k : nat) : Z * list (Z * Z) * nat :=
  match rs with
  | [] => (pend, [], k)
  | (s, e) :: r =>
      if pend + maxGap <? s then (pend, rs, k)
      else grow maxGap (if pend <=? e then e else pend) r (S k)
  end.

Fixpoint partition (fuel : nat) (maxGap : Z) (rs : list (Z * Z)) (j : nat) : option (list part) :=
  match rs with
  | [] => Some []
  | (s, e) :: r =>
      match fuel with
      | O => None
      | S f =>
          let '(pend, rest, k) := grow maxGap e r (S j) in
          match partition f maxGap rest k with
          | Some ps => Some ((s, pend, j, k) :: ps)
          | None => None
          end
      end
  end.

(* ---- cases ------------------------------------------------------------------- *)
(* one observed step of a history: queried range and the answer *)
Definition step_obs := (Z * Z * list series)%type.

Inductive case :=
| CSel (idx : list series) (ext : lset) (ext_ok : bool) (ms : list matcher)
       (impls : list (list step_obs))    (* per store configuration: the history of (range, answer), canonically sorted answers *)
       (oracles : list step_obs)         (* per distinct range: the TSDB read of that range *)
| CPart (maxGap : Z) (rs : list (Z * Z)) (impl : list part)
(* lazy marking: real matchersToPostingGroups result, names marked lazy by ExpandedPostings,
   number of postings fetched *)
| CLazy (idx : list series) (ms : list matcher) (sz mn md kn kd : Z)
        (groups : option (list group)) (lazy : list str) (postings : Z).

Definition kv_eqb (a b : str * str) : bool := str_eqb (fst a) (fst b) && str_eqb (snd a) (snd b).
Definition chunk_eqb (a b : chunk) : bool :=
  let '(a1, a2, a3) := a in let '(b1, b2, b3) := b in (a1 =? b1) && (a2 =? b2) && (a3 =? b3).
Definition series_eqb (a b : series) : bool :=
  list_eqb kv_eqb (fst a) (fst b) && list_eqb chunk_eqb (snd a) (snd b).
Definition set_eqb (a b : list series) : bool :=
  Nat.eqb (length a) (length b)
  && forallb (fun x => existsb (series_eqb x) b) a && forallb (fun x => existsb (series_eqb x) a) b.

Definition part_eqb (a b : part) : bool :=
  let '(a1, a2, a3, a4) := a in let '(b1, b2, b3, b4) := b in
  (a1 =? b1) && (a2 =? b2) && Nat.eqb a3 b3 && Nat.eqb a4 b4.

(* the property of a partition, on the implementation's own output: element ranges are
   contiguous from 0 to the number of ranges, every part is non-empty, and every range
   lies inside the [Start, End] of the part that holds it *)
Fixpoint parts_cover_from (rs : list (Z * Z)) (ps : list part) (j : nat) : bool :=
  match ps with
  | [] => Nat.eqb j (length rs)
  | (st, en, pj, pk) :: r =>
      Nat.eqb pj j && Nat.ltb pj pk
      && forallb (fun x : Z * Z => (st <=? fst x) && (snd x <=? en)) (firstn (pk - pj) (skipn pj rs))
      && parts_cover_from rs r pk
  end.
Definition parts_cover (rs : list (Z * Z)) (ps : list part) : bool := parts_cover_from rs ps 0.

Definition group_eqb (a b : group) : bool :=
  str_eqb (g_name a) (g_name b) && Bool.eqb (g_all a) (g_all b)
  && list_eqb str_eqb (g_add a) (g_add b) && list_eqb str_eqb (g_rem a) (g_rem b).

Fixpoint all2 {A B} (f : A -> B -> bool) (l1 : list A) (l2 : list B) : bool :=
  match l1, l2 with
  | [], [] => true
  | x :: r1, y :: r2 => f x y && all2 f r1 r2
  | _, _ => false
  end.

Definition corr_ok (c : case) : bool :=
  match c with
  | CSel idx ext ext_ok ms impls _ =>
      forallb (fun hist : list step_obs =>
                 (* every store starts cold; a block whose external labels do not match is skipped *)
                 let model :=
                   if ext_ok then run_hist (select idx) ext [] (map (fun st : step_obs => (ms, fst (fst st), snd (fst st))) hist)
                   else map (fun _ => []) hist in
                 all2 (fun m (st : step_obs) => set_eqb m (snd st)) model hist) impls
  | CPart g rs impl =>
      option_eqb (list_eqb part_eqb) (partition (length rs) g rs 0%nat) (Some impl)
  | CLazy idx ms sz mn md kn kd groups lazy postings =>
      option_eqb (list_eqb group_eqb) (matchers_to_groups idx ms) groups
      && match matchers_to_groups idx ms with
         | None => is_nil lazy && (postings =? 0)
         | Some gs =>
             match real_marking idx sz mn md kn kd gs with
             | None => is_nil lazy && (postings =? 0)
             | Some names =>
                 (* when the fetched postings intersect to nothing, ExpandedPostings returns the
                    empty lazy postings without matchers: the marking is not observable then *)
                 let cand := Z.of_nat (length (eager_candidates idx gs names)) in
                 (postings =? cand)
                 && (if cand =? 0 then is_nil lazy else list_eqb str_eqb (ssort names) lazy)
             end
         end
  end.

Fixpoint oracle_for (oracles : list step_obs) (mint maxt : Z) : option (list series) :=
  match oracles with
  | [] => None
  | (a, b, o) :: r => if (a =? mint) && (b =? maxt) then Some o else oracle_for r mint maxt
  end.

(* every answer of every history equals the direct TSDB read of ITS OWN range *)
Definition pred_ok (c : case) : bool :=
  match c with
  | CSel _ _ _ _ impls oracles =>
      forallb (fun hist : list step_obs =>
                 forallb (fun st : step_obs =>
                            match oracle_for oracles (fst (fst st)) (snd (fst st)) with
                            | Some o => list_eqb series_eqb (snd st) o
                            | None => false
                            end) hist) impls
  | CPart g rs impl => parts_cover rs impl
  (* on the implementation's own marking: some group with add keys is still fetched *)
  | CLazy _ _ _ _ _ _ _ groups lazy _ =>
      match groups with
      | None => true
      | Some gs =>
          negb (existsb (fun g => negb (is_nil (g_add g))) gs)
          || existsb (fun g => negb (is_nil (g_add g)) && negb (smem (g_name g) lazy)) gs
      end
  end.
