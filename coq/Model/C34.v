(* C34 — protocol model (timed transition system): a compactor that replaces
   blocks (upload the result, then mark the sources, delete marked blocks after
   deleteDelay) and store gateways that sync at most L apart and hide blocks
   whose deletion mark is older than ignoreDelay, then apply the duplicate
   filter.  Executable definitions only.  Time in seconds (Z).
   The gateway's filter chain is the model of C31 (Model/C31.v: kept) behind the
   deletion-mark test; both are tied to the real IgnoreDeletionMarkFilter +
   DefaultDeduplicateFilter by the C34 correspondence check.  The constants
   (flag defaults, the compactor's own deleteDelay/2) come from Gen/C34.v. *)
From Coq Require Import String ZArith List Bool Lia.
Import ListNotations.
From Verif Require Import Lib.Corr Gen.C34 Model.C31.
Open Scope Z_scope.

(* a block in the bucket: the C31 block (ULID, group, sources) and its deletion mark time *)
Record mblk := mk_mblk { blk_of : blk; mark : option Z }.

Definition mk_b (i g : Z) (s : list Z) (l : Z) : blk := mk_blk i g s l.

Record gateway := mk_gw { view : list Z; last_sync : Z }.

Record state := mk_state { now : Z; bucket : list mblk; gws : list gateway }.

Record params := mk_params { ignoreDelay : Z; syncLag : Z; deleteDelay : Z }.

Definition unmarked (x : mblk) : bool := match mark x with None => true | Some _ => false end.

(* IgnoreDeletionMarkFilter: hidden iff now - DeletionTime > delay *)
Definition mark_visible (t delay : Z) (x : mblk) : bool :=
  match mark x with None => true | Some m => negb (delay <? t - m) end.

(* one gateway sync at time t: ids the gateway serves afterwards *)
Definition sync_view (t delay : Z) (b : list mblk) : list Z :=
  map bid (kept (map blk_of (filter (mark_visible t delay) b))).

Definition ids (b : list mblk) : list Z := map (fun x => bid (blk_of x)) b.

Definition find_m (b : list mblk) (i : Z) : option mblk := find (fun x => bid (blk_of x) =? i) b.

(* every source of block i is also a source of another unmarked block *)
Definition replaced (b : list mblk) (x : mblk) : bool :=
  forallb (fun s => existsb (fun y => unmarked y && negb (bid (blk_of y) =? bid (blk_of x)) && mem s (srcs (blk_of y))) b)
          (srcs (blk_of x)).

Inductive label :=
| Tick (dt : Z)            (* time passes *)
| Upload (nb : blk)        (* compactor uploads a (compacted) block *)
| Mark (i : Z)             (* compactor marks a replaced block for deletion *)
| Clean (i : Z)            (* compactor deletes a block whose mark is older than deleteDelay *)
| Sync (k : nat).          (* store gateway k syncs *)

Fixpoint set_nth {A} (k : nat) (v : A) (l : list A) : list A :=
  match l, k with
  | [], _ => []
  | _ :: r, O => v :: r
  | a :: r, S k' => a :: set_nth k' v r
  end.

(* None = the step is not enabled *)
Definition step (p : params) (u : list Z) (st : state) (l : label) : option state :=
  match l with
  | Tick dt =>
      if (0 <=? dt) && forallb (fun g => now st + dt <=? last_sync g + syncLag p) (gws st)
      then Some (mk_state (now st + dt) (bucket st) (gws st)) else None
  | Upload nb =>
      if negb (mem (bid nb) (ids (bucket st))) && subset (srcs nb) u && (grp nb =? 0)
      then Some (mk_state (now st) (mk_mblk nb None :: bucket st) (gws st)) else None
  | Mark i =>
      match find_m (bucket st) i with
      | Some x =>
          if unmarked x && replaced (bucket st) x
          then Some (mk_state (now st)
                 (map (fun y => if bid (blk_of y) =? i then mk_mblk (blk_of y) (Some (now st)) else y) (bucket st))
                 (gws st))
          else None
      | None => None
      end
  | Clean i =>
      match find_m (bucket st) i with
      | Some x =>
          match mark x with
          | Some m => if deleteDelay p <? now st - m
                      then Some (mk_state (now st) (filter (fun y => negb (bid (blk_of y) =? i)) (bucket st)) (gws st))
                      else None
          | None => None
          end
      | None => None
      end
  | Sync k =>
      if (k <? length (gws st))%nat
      then Some (mk_state (now st) (bucket st)
                  (set_nth k (mk_gw (sync_view (now st) (ignoreDelay p) (bucket st)) (now st)) (gws st)))
      else None
  end.

Fixpoint run (p : params) (u : list Z) (st : state) (ls : list label) : option state :=
  match ls with
  | [] => Some st
  | l :: r => match step p u st l with Some st' => run p u st' r | None => None end
  end.

(* initial state: n gateways that have just synced *)
Definition init (p : params) (b : list mblk) (n : nat) : state :=
  mk_state 0 b (repeat (mk_gw (sync_view 0 (ignoreDelay p) b) 0) n).

(* source s is served by gateway g: a block in g's view that still exists covers it *)
Definition served_by (b : list mblk) (g : gateway) (s : Z) : bool :=
  existsb (fun x => mem (bid (blk_of x)) (view g) && mem s (srcs (blk_of x))) b.

Definition all_served (u : list Z) (st : state) : bool :=
  forallb (fun g => forallb (served_by (bucket st) g) u) (gws st).

(* initial bucket: distinct ULIDs, one group, all unmarked, covers the universe *)
Definition covers (u : list Z) (b : list mblk) : bool :=
  forallb (fun s => existsb (fun x => unmarked x && mem s (srcs (blk_of x))) b) u.

(* ---- defaults from the sources (Gen/C34.v), in seconds ----------------------- *)
Definition default_params : params :=
  mk_params store_ignore_deletion_marks_delay_default store_sync_block_duration_default compact_delete_delay_default.

(* the compactor's own fetcher ignores marks older than deleteDelay / divisor *)
Definition compactor_ignore_delay (d : Z) : Z := compact_ignore_delay_expr d.

(* ---- the compactor's steps as the code takes them ------------------------------------
   Garbage collection (Syncer.GarbageCollect): a block is marked when the duplicate
   filter hid it in the compactor's OWN view — marks younger than
   compact_ignore_delay_expr(deleteDelay) are still visible there — and it is not
   marked yet.  This is the code's rule; it is NOT the guard [replaced] of [Mark]. *)
Definition compactor_view (p : params) (st : state) : list Z :=
  sync_view (now st) (compactor_ignore_delay (deleteDelay p)) (bucket st).

Definition gc_enabled (p : params) (st : state) (i : Z) : bool :=
  match find_m (bucket st) i with
  | Some x => unmarked x
              && mark_visible (now st) (compactor_ignore_delay (deleteDelay p)) x
              && negb (mem i (compactor_view p st))
  | None => false
  end.

Inductive clabel := L (l : label) | GC (i : Z).

Definition mark_block (t i : Z) (b : list mblk) : list mblk :=
  map (fun y => if bid (blk_of y) =? i then mk_mblk (blk_of y) (Some t) else y) b.

Definition step_code (p : params) (u : list Z) (st : state) (l : clabel) : option state :=
  match l with
  | L l' => step p u st l'
  | GC i => if gc_enabled p st i
            then Some (mk_state (now st) (mark_block (now st) i (bucket st)) (gws st)) else None
  end.

Fixpoint run_code (p : params) (u : list Z) (st : state) (ls : list clabel) : option state :=
  match ls with
  | [] => Some st
  | l :: r => match step_code p u st l with Some st' => run_code p u st' r | None => None end
  end.

(* ---- the real compactor's bucket operations, replayed against the guards ------------ *)
Inductive lop := OUpload (nb : blk) | OMark (i : Z) | ODelete (i : Z).

(* with the guards of [step]: None = the real compactor took a step the protocol does not allow *)
Definition apply_op (b : list mblk) (o : lop) : option (list mblk) :=
  match o with
  | OUpload nb => if mem (bid nb) (ids b) then None else Some (mk_mblk nb None :: b)
  | OMark i => match find_m b i with
               | Some x => if unmarked x && replaced b x then Some (mark_block 0 i b) else None
               | None => None
               end
  | ODelete i => match find_m b i with
                 | Some x => if unmarked x then None else Some (filter (fun y => negb (bid (blk_of y) =? i)) b)
                 | None => None
                 end
  end.

Fixpoint apply_log (b : list mblk) (ops : list lop) : option (list mblk) :=
  match ops with
  | [] => Some b
  | o :: r => match apply_op b o with Some b' => apply_log b' r | None => None end
  end.

(* without the guards: what the bucket looks like afterwards *)
Definition apply_op_raw (b : list mblk) (o : lop) : list mblk :=
  match o with
  | OUpload nb => mk_mblk nb None :: b
  | OMark i => map (fun y => if (bid (blk_of y) =? i) && unmarked y then mk_mblk (blk_of y) (Some 0) else y) b
  | ODelete i => filter (fun y => negb (bid (blk_of y) =? i)) b
  end.

Definition apply_log_raw (b : list mblk) (ops : list lop) : list mblk := fold_left apply_op_raw ops b.

(* first operation the guards reject *)
Fixpoint first_rejected (b : list mblk) (ops : list lop) (k : nat) : option nat :=
  match ops with
  | [] => None
  | o :: r => match apply_op b o with Some b' => first_rejected b' r (S k) | None => Some k end
  end.

(* ---- statement order in the compactor (events from Gen/C34.v) ------------------------
   Group.compact: every call of cg.deleteBlock (= block.MarkForDeletion of a source)
   comes after the loop that uploads the result blocks and returns on an upload
   error, or sits under `if meta.Stats.NumSamples == 0` (sources without samples when
   the compaction produced nothing). *)
Definition sev := (string * string)%type.
Definition sev_is (k t : string) (e : sev) : bool := String.eqb (fst e) k && String.eqb (snd e) t.

Definition ends_nil (s : string) : bool :=
  let n := String.length s in
  Nat.leb 3 n && String.eqb (String.substring (n - 3) 3 s) "nil".

Record ost := mk_ost {
  o_ifs : list string;      (* conditions of the enclosing ifs, innermost first *)
  o_loops : list nat;       (* enclosing loops: 0 nothing, 1 Upload seen, 2 in its error check, 3 checked *)
  o_chk : nat;              (* if-depth of the error check *)
  o_uploaded : bool;        (* a loop with a checked Upload has completed *)
  o_marks : nat }.          (* deleteBlock calls seen after that *)

Definition set_top (v : nat) (l : list nat) : list nat := match l with [] => [] | _ :: r => v :: r end.
Definition top (l : list nat) : nat := match l with [] => 0%nat | v :: _ => v end.

Definition ostep (s : ost) (e : sev) : option ost :=
  let k := fst e in let t := snd e in
  if String.eqb k "for" then Some (mk_ost (o_ifs s) (0%nat :: o_loops s) (o_chk s) (o_uploaded s) (o_marks s))
  else if String.eqb k "endfor" then
    Some (mk_ost (o_ifs s) (tl (o_loops s)) (o_chk s) (o_uploaded s || Nat.eqb (top (o_loops s)) 3) (o_marks s))
  else if sev_is "call" "block.Upload" e then
    Some (mk_ost (o_ifs s) (set_top 1 (o_loops s)) (o_chk s) (o_uploaded s) (o_marks s))
  else if String.eqb k "if" then
    if Nat.eqb (top (o_loops s)) 1 && String.eqb t "err != nil"
    then Some (mk_ost (t :: o_ifs s) (set_top 2 (o_loops s)) (S (List.length (o_ifs s))) (o_uploaded s) (o_marks s))
    else Some (mk_ost (t :: o_ifs s) (o_loops s) (o_chk s) (o_uploaded s) (o_marks s))
  else if String.eqb k "return" then
    if Nat.eqb (top (o_loops s)) 2 && negb (ends_nil t)
    then Some (mk_ost (o_ifs s) (set_top 3 (o_loops s)) (o_chk s) (o_uploaded s) (o_marks s))
    else Some s
  else if String.eqb k "endif" then
    let loops := if Nat.eqb (top (o_loops s)) 2 && Nat.eqb (List.length (o_ifs s)) (o_chk s)
                 then set_top 0 (o_loops s) else o_loops s in
    Some (mk_ost (tl (o_ifs s)) loops (o_chk s) (o_uploaded s) (o_marks s))
  else if sev_is "call" "cg.deleteBlock" e then
    if o_uploaded s then Some (mk_ost (o_ifs s) (o_loops s) (o_chk s) true (S (o_marks s)))
    else if existsb (String.eqb "meta.Stats.NumSamples == 0") (o_ifs s) then Some s
    else None
  else Some s.

Fixpoint oscan (s : ost) (evs : list sev) : option ost :=
  match evs with
  | [] => Some s
  | e :: r => match ostep s e with Some s' => oscan s' r | None => None end
  end.

Definition upload_before_mark (evs : list sev) : bool :=
  match oscan (mk_ost [] [] 0 false 0) evs with
  | Some s => Nat.ltb 0 (o_marks s)
  | None => false
  end.

Fixpoint sindex (f : sev -> bool) (l : list sev) : option nat :=
  match l with
  | [] => None
  | e :: r => if f e then Some 0%nat else option_map S (sindex f r)
  end.

(* Syncer.GarbageCollect reads the deletion marks and the duplicate ids before it marks anything *)
Definition gc_order_ok (evs : list sev) : bool :=
  match sindex (sev_is "call" "s.ignoreDeletionMarkFilter.DeletionMarkBlocks") evs,
        sindex (sev_is "call" "s.duplicateBlocksFilter.DuplicateIDs") evs,
        sindex (sev_is "call" "block.MarkForDeletion") evs with
  | Some a, Some b, Some c => Nat.ltb a c && Nat.ltb b c
  | _, _, _ => false
  end.

Definition compactor_order_ok : bool :=
  upload_before_mark group_compact_events
  && existsb (sev_is "call" "block.MarkForDeletion") deleteBlock_events
  && gc_order_ok GarbageCollect_events.

(* ---- cases: one gateway sync of the real filter chain on a generated bucket ---- *)
Inductive case :=
| CSyncView (t delay : Z) (b : list mblk) (kept_ids : list Z)
(* a run of the real BucketCompactor.Compact: initial bucket, its bucket operations in
   order, and the block ids / marked ids in the bucket afterwards *)
| CMarkLog (b : list mblk) (ops : list lop) (final_ids final_marked : list Z).

Definition corr_ok (c : case) : bool :=
  match c with
  | CSyncView t delay b k => set_eqb k (sync_view t delay b) && (length k =? length (sync_view t delay b))%nat
  | CMarkLog b ops fi fm =>
      let fin := apply_log_raw b ops in
      set_eqb fi (ids fin) && set_eqb fm (ids (filter (fun x => negb (unmarked x)) fin))
  end.

(* what a sync must establish for the protocol: every block of the view passes the
   mark test, and every source that some unmarked block covers is covered by a
   block of the view *)
Definition view_pred (t delay : Z) (b : list mblk) (k : list Z) : bool :=
  forallb (fun i => match find_m b i with Some x => mark_visible t delay x | None => false end) k
  && forallb (fun x => if unmarked x then
       forallb (fun s => existsb (fun y => mem (bid (blk_of y)) k && mem s (srcs (blk_of y))) b) (srcs (blk_of x))
     else true) b.

Definition pred_ok (c : case) : bool :=
  match c with
  | CSyncView t delay b k => view_pred t delay b k
  | CMarkLog b ops _ _ =>
      compactor_order_ok &&
      (* every step the real compactor took is a step of the protocol: in particular
         a block is marked only while all its sources are in other unmarked blocks *)
      match apply_log b ops with Some _ => true | None => false end
  end.
