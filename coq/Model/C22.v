(* C22 — model of the acknowledgement decision of a replicated remote write:
   pkg/receive/handler.go  handleRequest / forward (replica header),
   distributeTimeseriesToReplicas (series -> (node, replica) writes with series
   ids), fanoutForward's response loop with early return, canReturnEarly.
   writeQuorum, the failureThreshold expression, the skeleton of canReturnEarly
   and the decisions of the response loop (in source order) are regenerated from
   the Go source on every run (Gen/C22.v); the hand model is claimed for that
   shape only (undefined otherwise). Executable definitions only. *)
From Coq Require Import ZArith List Bool Lia String.
Import ListNotations.
From Verif Require Import Lib.Corr Gen.C22.
Open Scope Z_scope.

Inductive okind := KOk | KConflict | KUnavailGrpc | KUnavailSent | KNotReady | KOther.
Definition is_ok (k : okind) := match k with KOk => true | _ => false end.
Definition is_conflict (k : okind) := match k with KConflict => true | _ => false end.
Definition b2z (b : bool) : Z := if b then 1 else 0.

(* successes[i], failures[i], conflictFailures[i] *)
Record sst := mk_sst { succ : Z; fail : Z; confl : Z }.
Definition sst0 : sst := mk_sst 0 0 0.

Definition bump (k : okind) (s : sst) : sst :=
  if is_ok k then mk_sst (succ s + 1) (fail s) (confl s)
  else mk_sst (succ s) (fail s + 1) (confl s + b2z (is_conflict k)).

Definition resp := (list nat * okind)%type.

Fixpoint upd_nth {A} (n : nat) (f : A -> A) (l : list A) : list A :=
  match l, n with
  | [], _ => []
  | x :: r, O => f x :: r
  | x :: r, S m => x :: upd_nth m f r
  end.

Definition apply_resp (st : list sst) (r : resp) : list sst :=
  fold_left (fun st id => upd_nth id (bump (snd r)) st) (fst r) st.

(* ---- tie T: shape of the decisions ---- *)
Definition string_pair_eqb (a b : string * string) : bool :=
  String.eqb (fst a) (fst b) && String.eqb (snd a) (snd b).
Definition expected_canReturnEarly_skeleton : list (string * string) :=
  [("if", "successes[i] < successThreshold && conflictFailures[i] < failureThreshold");
   ("return", "false"); ("return", "true")]%string.
Definition expected_fanout_decisions : list (string * string) :=
  [("if", "resp.err != nil"); ("if", "params.alreadyReplicated"); ("if", "!hasMore");
   ("if", "failures[i] >= failureThreshold"); ("return", "stats, writeErrors.ErrOrNil()");
   ("if", "resp.err != nil");
   ("if", "canReturnEarly(successes, conflictFailures, successThreshold, failureThreshold)");
   ("if", "failures[i] >= failureThreshold"); ("return", "stats, writeErrors.ErrOrNil()")]%string.
Definition shape_ok : bool :=
  list_eqb string_pair_eqb canReturnEarly_skeleton expected_canReturnEarly_skeleton
  && list_eqb string_pair_eqb fanout_decisions expected_fanout_decisions.

(* ---- the response loop ---- *)
Definition determined (q ft : Z) (s : sst) : bool := negb ((succ s <? q) && (confl s <? ft)).
Definition can_return_early (q ft : Z) (st : list sst) : bool := forallb (determined q ft) st.

Inductive fo_result := Ack | Fail.

(* writeErrors gets an entry for every series with failures >= failureThreshold; nil iff none *)
Definition finish (ft : Z) (st : list sst) : fo_result :=
  if existsb (fun s => fail s >=? ft) st then Fail else Ack.

Fixpoint loop (q ft : Z) (st : list sst) (rs : list resp) : fo_result :=
  match rs with
  | [] => finish ft st                                  (* response channel closed *)
  | r :: rs' =>
      let st' := apply_resp st r in
      if can_return_early q ft st' then finish ft st' else loop q ft st' rs'
  end.

Definition fanout (n : nat) (q ft : Z) (rs : list resp) : option fo_result :=
  if shape_ok then Some (loop q ft (repeat sst0 n) rs) else None.

(* ---- whole request ---- *)
Definition placed (place : list (list nat)) (s r : nat) : nat := nth r (nth s place []) 0%nat.
Definition ids_of (place : list (list nat)) (node r : nat) : list nat :=
  filter (fun s => Nat.eqb (placed place s r) node) (seq 0 (List.length place)).
Definition write := (nat * nat * okind)%type.
Definition resps_of (place : list (list nat)) (ws : list write) : list resp :=
  map (fun w => (ids_of place (fst (fst w)) (snd (fst w)), snd w)) ws.

Definition success_threshold (rf rep : Z) : Z := if rep =? 0 then writeQuorum rf else 1.
Definition n_replicas (rf rep : Z) : Z := if rep =? 0 then rf else 1.

Inductive outcome := OAck | OFail | OBadReplica.

Definition handle (rf rep : Z) (place : list (list nat)) (ws : list write) : option outcome :=
  if Nat.eqb (List.length place) 0 then Some OAck
  else if rep >? rf then Some OBadReplica
  else
    let q := success_threshold rf rep in
    let ft := failureThreshold_expr (n_replicas rf rep) q in
    match fanout (List.length place) q ft (resps_of place ws) with
    | Some Ack => Some OAck
    | Some Fail => Some OFail
    | None => None
    end.

(* ---- specification vocabulary ---- *)
(* outcomes series s received, in arrival order *)
Definition kinds_for (s : nat) (rs : list resp) : list okind :=
  flat_map (fun r => repeat (snd r) (count_occ Nat.eq_dec (fst r) s)) rs.
Definition responses_of (s : nat) (rs : list resp) : Z := Z.of_nat (List.length (kinds_for s rs)).
(* replicas that stored series s *)
Definition successes_of (s : nat) (rs : list resp) : Z :=
  Z.of_nat (List.length (filter is_ok (kinds_for s rs))).

(* the write quorum, stated independently of the source: a majority of the
   replicas, except that replication factor 2 is satisfied by one copy *)
Definition spec_quorum (rf : Z) : Z := if rf =? 2 then 1 else rf / 2 + 1.
(* an already replicated request (replica header set) addresses one replica *)
Definition spec_threshold (rf rep : Z) : Z := if rep =? 0 then spec_quorum rf else 1.

Definition quorum_everywhere (n : nat) (q : Z) (rs : list resp) : bool :=
  forallb (fun s => successes_of s rs >=? q) (seq 0 n).

(* ---- correspondence and predicate ---- *)
Inductive case :=
| CAck (rf rep : Z) (place : list (list nat)) (ws : list write)
       (obs_ids : list (list nat)) (status : Z) (delivered : nat).

Definition outcome_of_status (st : Z) : outcome :=
  if st =? 200 then OAck else if st =? 400 then OBadReplica else OFail.
Definition outcome_eqb (a b : outcome) : bool :=
  match a, b with OAck, OAck | OFail, OFail | OBadReplica, OBadReplica => true | _, _ => false end.

Definition corr_ok (c : case) : bool :=
  match c with
  | CAck rf rep place ws obs_ids status delivered =>
      option_eqb outcome_eqb (handle rf rep place ws) (Some (outcome_of_status status))
      && ((rep >? rf) || list_eqb (list_eqb Nat.eqb) (map fst (resps_of place ws)) obs_ids)
  end.

(* acknowledged => every series was stored by >= quorum replicas among the
   responses that had been delivered when the handler returned *)
Definition pred_ok (c : case) : bool :=
  match c with
  | CAck rf rep place ws obs_ids status delivered =>
      if (status =? 200) && negb (rep >? rf) then
        quorum_everywhere (List.length place) (spec_threshold rf rep) (firstn delivered (resps_of place ws))
      else true
  end.
