(* C22 — model of the acknowledgement decision of a replicated remote write:
   pkg/receive/handler.go  handleRequest / forward (replica header),
   distributeTimeseriesToReplicas (series -> (node, replica) writes with series
   ids), fanoutForward's response loop with early return, canReturnEarly.
   writeQuorum, the failureThreshold expression, the skeleton of canReturnEarly
   and the decisions of the response loop (in source order) are regenerated from
   the Go source on every run (Gen/C22.v); that the source still has the
   modelled shape is the theorem C22_source_shape. Executable definitions only. *)
From Coq Require Import ZArith List Bool Lia String.
Import ListNotations.
From Verif Require Import Lib.Corr Gen.C22.
Open Scope Z_scope.

Inductive okind := KOk | KConflict | KUnavailGrpc | KUnavailSent | KNotReady | KOther.
Definition is_ok (k : okind) := match k with KOk => true | _ => false end.
Definition is_conflict (k : okind) := match k with KConflict => true | _ => false end.
Definition b2z (b : bool) : Z := if b then 1 else 0.

(* successes[i], failures[i], conflictFailures[i] *)
Record sst := mk_sst { succ : Z; fail : Z; confl : Z }.
Definition sst0 : sst := mk_sst 0 0 0.

Definition bump (k : okind) (s : sst) : sst :=
  if is_ok k then mk_sst (succ s + 1) (fail s) (confl s)
  else mk_sst (succ s) (fail s + 1) (confl s + b2z (is_conflict k)).

Definition resp := (list nat * okind)%type.

Fixpoint upd_nth {A} (n : nat) (f : A -> A) (l : list A) : list A :=
  match l, n with
  | [], _ => []
  | x :: r, O => f x :: r
  | x :: r, S m => x :: upd_nth m f r
  end.

Definition apply_resp (st : list sst) (r : resp) : list sst :=
  fold_left (fun st id => upd_nth id (bump (snd r)) st) (fst r) st.

(* ---- tie T: shape of the decisions ---- *)
Definition string_pair_eqb (a b : string * string) : bool :=
  String.eqb (fst a) (fst b) && String.eqb (snd a) (snd b).
Definition expected_canReturnEarly_skeleton : list (string * string) :=
  [("if", "successes[i] < successThreshold && conflictFailures[i] < failureThreshold");
   ("return", "false"); ("return", "true")]%string.
Definition expected_fanout_decisions : list (string * string) :=
  [("if", "resp.err != nil"); ("if", "params.alreadyReplicated"); ("return", "stats, ctx.Err()"); ("if", "!hasMore");
   ("if", "failures[i] >= failureThreshold"); ("return", "stats, writeErrors.ErrOrNil()");
   ("if", "resp.err != nil");
   ("if", "canReturnEarly(successes, conflictFailures, successThreshold, failureThreshold)");
   ("if", "failures[i] >= failureThreshold"); ("return", "stats, writeErrors.ErrOrNil()")]%string.
Definition shape_ok : bool :=
  list_eqb string_pair_eqb canReturnEarly_skeleton expected_canReturnEarly_skeleton
  && list_eqb string_pair_eqb fanout_decisions expected_fanout_decisions.

(* ---- the response loop ---- *)
Definition determined (q ft : Z) (s : sst) : bool := negb ((succ s <? q) && (confl s <? ft)).
Definition can_return_early (q ft : Z) (st : list sst) : bool := forallb (determined q ft) st.

Inductive fo_result := Ack | Fail.

(* writeErrors gets an entry for every series with failures >= failureThreshold; nil iff none *)
Definition finish (ft : Z) (st : list sst) : fo_result :=
  if existsb (fun s => fail s >=? ft) st then Fail else Ack.

Fixpoint loop (q ft : Z) (st : list sst) (rs : list resp) : fo_result :=
  match rs with
  | [] => finish ft st                                  (* response channel closed *)
  | r :: rs' =>
      let st' := apply_resp st r in
      if can_return_early q ft st' then finish ft st' else loop q ft st' rs'
  end.

(* (the model is not switched off when the source's shape changes, so that the
   correspondence check keeps localising a behavioural difference;
   [shape_ok = true] is the theorem C22_source_shape) *)
Definition fanout (n : nat) (q ft : Z) (rs : list resp) : option fo_result :=
  Some (loop q ft (repeat sst0 n) rs).

(* ---- the same loop with the forward timeout ----
   `select { case <-ctx.Done(): return stats, ctx.Err(); case resp, hasMore := <-responses: ... }`:
   the inputs of the loop are responses and, at any position, the ctx.Done
   event (forward timeout / cancellation); running out of events = the channel
   was closed. A peer that never answers simply contributes no response, so
   with hung peers the channel is never closed and the events end with ECtxDone. *)
Inductive event := EResp (r : resp) | ECtxDone.
Inductive ev_result := EvAck | EvFail | EvTimedOut.   (* EvTimedOut: the error is ctx.Err() *)

Definition ev_of (r : fo_result) : ev_result := match r with Ack => EvAck | Fail => EvFail end.

Fixpoint loop_ev (q ft : Z) (st : list sst) (evs : list event) : ev_result :=
  match evs with
  | [] => ev_of (finish ft st)
  | ECtxDone :: _ => EvTimedOut
  | EResp r :: evs' =>
      let st' := apply_resp st r in
      if can_return_early q ft st' then ev_of (finish ft st') else loop_ev q ft st' evs'
  end.

(* responses of the peers that answer, then the timeout if some peer hangs *)
Definition events_of (rs : list resp) (hang : bool) : list event :=
  map EResp rs ++ (if hang then [ECtxDone] else []).

(* ---- whole request ---- *)
Definition placed (place : list (list nat)) (s r : nat) : nat := nth r (nth s place []) 0%nat.
Definition ids_of (place : list (list nat)) (node r : nat) : list nat :=
  filter (fun s => Nat.eqb (placed place s r) node) (seq 0 (List.length place)).
Definition write := (nat * nat * okind)%type.
Definition resps_of (place : list (list nat)) (ws : list write) : list resp :=
  map (fun w => (ids_of place (fst (fst w)) (snd (fst w)), snd w)) ws.

Definition success_threshold (rf rep : Z) : Z := if rep =? 0 then writeQuorum rf else 1.
Definition n_replicas (rf rep : Z) : Z := if rep =? 0 then rf else 1.

Inductive outcome := OAck | OFail | OBadReplica.

Definition handle (rf rep : Z) (place : list (list nat)) (ws : list write) : option outcome :=
  if Nat.eqb (List.length place) 0 then Some OAck
  else if rep >? rf then Some OBadReplica
  else
    let q := success_threshold rf rep in
    let ft := failureThreshold_expr (n_replicas rf rep) q in
    match fanout (List.length place) q ft (resps_of place ws) with
    | Some Ack => Some OAck
    | Some Fail => Some OFail
    | None => None
    end.

(* the request when some forwarded writes never answer (hang = true) *)
Definition handle_ev (rf rep : Z) (place : list (list nat)) (ws : list write) (hang : bool) : option outcome :=
  if Nat.eqb (List.length place) 0 then Some OAck
  else if rep >? rf then Some OBadReplica
  else
    let q := success_threshold rf rep in
    let ft := failureThreshold_expr (n_replicas rf rep) q in
    match loop_ev q ft (repeat sst0 (List.length place)) (events_of (resps_of place ws) hang) with
    | EvAck => Some OAck
    | EvFail | EvTimedOut => Some OFail      (* ctx.Err() is answered with the default arm: a failure *)
    end.

(* ---- distributeTimeseriesToReplicas ----
   for every series (in request order) and every replica number of the request
   the series id is appended to the group of (hashring node, replica); the Go
   map of groups is modelled by an association list in order of first use *)
Definition dest := (nat * nat)%type.             (* node, replica *)
Definition dest_eqb (a b : dest) : bool := Nat.eqb (fst a) (fst b) && Nat.eqb (snd a) (snd b).

Fixpoint add_to_group (d : dest) (s : nat) (gs : list (dest * list nat)) : list (dest * list nat) :=
  match gs with
  | [] => [(d, [s])]
  | (d', ids) :: r => if dest_eqb d' d then (d', ids ++ [s]) :: r else (d', ids) :: add_to_group d s r
  end.

(* forward: replicas = [r.n] for an already replicated request, else 0 .. rf-1 *)
Definition replicas_of (rf rep : Z) : list nat :=
  if rep =? 0 then seq 0 (Z.to_nat rf) else [Z.to_nat (rep - 1)].

(* the (destination, series id) insertions of the two nested loops, in order *)
Definition insertions (place : list (list nat)) (replicas : list nat) : list (dest * nat) :=
  flat_map (fun s => map (fun r => ((placed place s r, r), s)) replicas) (seq 0 (List.length place)).

Definition distribute (place : list (list nat)) (replicas : list nat) : list (dest * list nat) :=
  fold_left (fun gs x => add_to_group (fst x) (snd x) gs) (insertions place replicas) [].

Fixpoint group_ids (gs : list (dest * list nat)) (d : dest) : option (list nat) :=
  match gs with
  | [] => None
  | (d', ids) :: r => if dest_eqb d' d then Some ids else group_ids r d
  end.

(* ---- sendWrites and the response channel ----
   LTS of the goroutine `sendWrites; wg.Wait; close(responses)` and of the
   peers' pool workers, over the destinations of one request. First pass per
   destination: wg.Add(1); tryWrite: connection error => response + wg.Done |
   pool accepts => a worker will later send the response, then run cb =>
   wg.Done | pool full => wg.Done, deferred. Second pass per deferred
   destination: wg.Add(1); sendWrite: connection error | submission fails
   (context done) => response + wg.Done | accepted. Then wg.Wait and close.
   The order of these bookkeeping calls in the source is checked by
   [send_shape_ok] (Gen/C22.v). *)
Inductive sphase := P1 (todo : list dest) | P2 (todo : list dest) | PWait | PClosed.

Record sstate := mk_sstate {
  sph : sphase;
  sdeferred : list dest;   (* rejected by the first pass *)
  swg : Z;                 (* WaitGroup counter *)
  srunning : list dest;    (* accepted by a pool, response not yet sent *)
  ssent : list dest;       (* response sent by a worker, cb (wg.Done) not yet run *)
  schan : list dest;       (* responses put on the channel, in order *)
  sbad : bool }.           (* send on closed channel / negative WaitGroup counter *)

Definition sinit (ds : list dest) : sstate := mk_sstate (P1 ds) [] 0 [] [] [] false.

Inductive slabel :=
| S1ConnFail | S1Accept | S1Reject | S1End
| S2ConnFail | S2GoErr | S2Accept | S2End
| SWorkSend (d : dest) | SWorkDone (d : dest)
| SClose.

Fixpoint remove_one (d : dest) (l : list dest) : option (list dest) :=
  match l with
  | [] => None
  | x :: r => if dest_eqb x d then Some r
              else match remove_one d r with Some r' => Some (x :: r') | None => None end
  end.

Definition is_closed (p : sphase) : bool := match p with PClosed => true | _ => false end.

Definition sstep (s : sstate) (l : slabel) : option sstate :=
  match l, sph s with
  | S1ConnFail, P1 (d :: t) =>   (* wg.Add(1); response sent by prepareRemoteWrite; wg.Done *)
      Some (mk_sstate (P1 t) (sdeferred s) (swg s) (srunning s) (ssent s) (schan s ++ [d]) (sbad s))
  | S1Accept, P1 (d :: t) =>
      Some (mk_sstate (P1 t) (sdeferred s) (swg s + 1) (d :: srunning s) (ssent s) (schan s) (sbad s))
  | S1Reject, P1 (d :: t) =>     (* wg.Add(1); TryGo = false; wg.Done; deferred *)
      Some (mk_sstate (P1 t) (sdeferred s ++ [d]) (swg s) (srunning s) (ssent s) (schan s) (sbad s))
  | S1End, P1 [] =>
      Some (mk_sstate (P2 (sdeferred s)) [] (swg s) (srunning s) (ssent s) (schan s) (sbad s))
  | S2ConnFail, P2 (d :: t) | S2GoErr, P2 (d :: t) =>
      Some (mk_sstate (P2 t) (sdeferred s) (swg s) (srunning s) (ssent s) (schan s ++ [d]) (sbad s))
  | S2Accept, P2 (d :: t) =>
      Some (mk_sstate (P2 t) (sdeferred s) (swg s + 1) (d :: srunning s) (ssent s) (schan s) (sbad s))
  | S2End, P2 [] =>
      Some (mk_sstate PWait (sdeferred s) (swg s) (srunning s) (ssent s) (schan s) (sbad s))
  | SWorkSend d, ph =>
      match remove_one d (srunning s) with
      | Some r' => Some (mk_sstate ph (sdeferred s) (swg s) r' (d :: ssent s) (schan s ++ [d]) (sbad s || is_closed ph))
      | None => None
      end
  | SWorkDone d, ph =>
      match remove_one d (ssent s) with
      | Some t' => Some (mk_sstate ph (sdeferred s) (swg s - 1) (srunning s) t' (schan s) (sbad s || (swg s - 1 <? 0)))
      | None => None
      end
  | SClose, PWait =>
      if swg s =? 0 then Some (mk_sstate PClosed (sdeferred s) (swg s) (srunning s) (ssent s) (schan s) (sbad s)) else None
  | _, _ => None
  end.

Fixpoint srun (s : sstate) (ls : list slabel) : option sstate :=
  match ls with
  | [] => Some s
  | l :: r => match sstep s l with Some s' => srun s' r | None => None end
  end.

Definition expected_sendWrites : list (string * string) :=
  [("for", ""); ("call", "wg.Add"); ("call", "h.tryWrite");
   ("if", "!h.tryWrite(ctx, writes[writeDestination], writeDestination, params.alreadyReplicated, responses, wg)");
   ("call", "wg.Done"); ("endif", ""); ("endfor", "");
   ("for", ""); ("call", "wg.Add"); ("call", "h.sendWrite"); ("endfor", "")]%string.
Definition expected_tryWrite : list (string * string) :=
  [("for", ""); ("endfor", ""); ("for", ""); ("endfor", ""); ("call", "h.prepareRemoteWrite");
   ("if", "cl == nil"); ("return", "true"); ("endif", ""); ("call", "cl.TryRemoteWriteAsync"); ("return", "<try result>")]%string.
Definition expected_sendWrite : list (string * string) :=
  [("for", ""); ("endfor", ""); ("for", ""); ("endfor", ""); ("call", "h.prepareRemoteWrite");
   ("if", "cl == nil"); ("return", ""); ("endif", ""); ("call", "cl.RemoteWriteAsync")]%string.
(* prepareRemoteWrite: only the connection-error branch and the callback's final wg.Done matter *)
Definition expected_prepare_prefix : list (string * string) :=
  [("call", "h.peers.getConnection"); ("if", "err != nil"); ("if", "<other>"); ("endif", "");
   ("call", "newWriteResponse"); ("call", "wg.Done"); ("return", "nil, nil, nil"); ("endif", "")]%string.
Definition expected_prepare_suffix : list (string * string) :=
  [("call", "wg.Done"); ("endfunclit", ""); ("return", "<value>")]%string.
Definition expected_buildWork_core : list (string * string) :=
  [("call", "p.client.RemoteWrite"); ("call", "newWriteResponse"); ("if", "err != nil"); ("endif", ""); ("call", "cb")]%string.
Definition expected_remoteWriteAsync : list (string * string) :=
  [("call", "p.buildWork"); ("call", "p.wp.Go"); ("if", "err != nil"); ("funclit", "");
   ("call", "newWriteResponse"); ("call", "cb"); ("endfunclit", ""); ("endif", "")]%string.
Definition expected_tryRemoteWriteAsync : list (string * string) :=
  [("call", "p.buildWork"); ("call", "p.wp.TryGo"); ("return", "<try result>")]%string.
Definition expected_fanout_sender : list (string * string) :=
  [("call", "h.sendWrites"); ("call", "wg.Wait"); ("call", "close")]%string.

Definition evl_eqb := list_eqb string_pair_eqb.
Fixpoint is_prefix (p l : list (string * string)) : bool :=
  match p, l with
  | [], _ => true
  | x :: p', y :: l' => string_pair_eqb x y && is_prefix p' l'
  | _, [] => false
  end.
Fixpoint is_infix (p l : list (string * string)) : bool :=
  is_prefix p l || match l with [] => false | _ :: l' => is_infix p l' end.
Definition count_calls (name : string) (l : list (string * string)) : nat :=
  List.length (filter (fun e => String.eqb (snd e) name) l).

Definition send_shape_ok : bool :=
  evl_eqb sendWrites_protocol expected_sendWrites
  && evl_eqb tryWrite_protocol expected_tryWrite
  && evl_eqb sendWrite_protocol expected_sendWrite
  && is_prefix expected_prepare_prefix prepareRemoteWrite_protocol
  && is_prefix (rev expected_prepare_suffix) (rev prepareRemoteWrite_protocol)
  && Nat.eqb (count_calls "wg.Done" prepareRemoteWrite_protocol) 2
  && Nat.eqb (count_calls "newWriteResponse" prepareRemoteWrite_protocol) 1
  && is_infix expected_buildWork_core buildWork_protocol
  && Nat.eqb (count_calls "cb" buildWork_protocol) 1
  && Nat.eqb (count_calls "newWriteResponse" buildWork_protocol) 1
  && evl_eqb remoteWriteAsync_protocol expected_remoteWriteAsync
  && evl_eqb tryRemoteWriteAsync_protocol expected_tryRemoteWriteAsync
  && evl_eqb fanout_sender_protocol expected_fanout_sender.

(* ---- specification vocabulary ---- *)
(* outcomes series s received, in arrival order *)
Definition kinds_for (s : nat) (rs : list resp) : list okind :=
  flat_map (fun r => repeat (snd r) (count_occ Nat.eq_dec (fst r) s)) rs.
Definition responses_of (s : nat) (rs : list resp) : Z := Z.of_nat (List.length (kinds_for s rs)).
(* replicas that stored series s *)
Definition successes_of (s : nat) (rs : list resp) : Z :=
  Z.of_nat (List.length (filter is_ok (kinds_for s rs))).

(* the write quorum, stated independently of the source: a majority of the
   replicas, except that replication factor 2 is satisfied by one copy *)
Definition spec_quorum (rf : Z) : Z := if rf =? 2 then 1 else rf / 2 + 1.
(* an already replicated request (replica header set) addresses one replica *)
Definition spec_threshold (rf rep : Z) : Z := if rep =? 0 then spec_quorum rf else 1.

Definition quorum_everywhere (n : nat) (q : Z) (rs : list resp) : bool :=
  forallb (fun s => successes_of s rs >=? q) (seq 0 n).

(* ---- correspondence and predicate ---- *)
Inductive case :=
| CAck (rf rep : Z) (place : list (list nat)) (ws : list write) (hung : list (nat * nat))
       (obs_ids : list (list nat)) (obs_responses : list nat) (status : Z) (delivered : nat).
(* ws: the writes that were answered, in arrival order; hung: the (node, replica)
   writes whose peer never answered *)

Definition outcome_of_status (st : Z) : outcome :=
  if st =? 200 then OAck else if st =? 400 then OBadReplica else OFail.
Definition outcome_eqb (a b : outcome) : bool :=
  match a, b with OAck, OAck | OFail, OFail | OBadReplica, OBadReplica => true | _, _ => false end.

Definition write_dest (w : write) : dest := fst w.

(* the writes that produced responses are exactly the model's groups (as a set:
   the Go map has no order), each carries the group's series ids, and each
   produced exactly one response *)
Definition dests_match_list (gs : list (dest * list nat)) (ds : list dest) : bool :=
  Nat.eqb (List.length gs) (List.length ds)
  && forallb (fun g => existsb (fun d => dest_eqb d (fst g)) ds) gs
  && forallb (fun d => existsb (fun g => dest_eqb d (fst g)) gs) ds.
Definition dests_match (gs : list (dest * list nat)) (ws : list write) : bool :=
  dests_match_list gs (map write_dest ws).

Definition corr_ok (c : case) : bool :=
  match c with
  | CAck rf rep place ws hung obs_ids obs_responses status delivered =>
      option_eqb outcome_eqb (handle_ev rf rep place ws (match hung with [] => false | _ => true end))
                 (Some (outcome_of_status status))
      && ((rep >? rf) ||
          (let gs := distribute place (replicas_of rf rep) in
           dests_match_list gs (map write_dest ws ++ hung)
           && list_eqb (option_eqb (list_eqb Nat.eqb)) (map (fun w => group_ids gs (write_dest w)) ws) (map Some obs_ids)
           && list_eqb (list_eqb Nat.eqb) (map fst (resps_of place ws)) obs_ids
           && forallb (Nat.eqb 1) obs_responses))
  end.

(* acknowledged => every series was stored by >= quorum replicas among the
   responses that had been delivered when the handler returned *)
Definition pred_ok (c : case) : bool :=
  match c with
  | CAck rf rep place ws hung obs_ids obs_responses status delivered =>
      if (status =? 200) && negb (rep >? rf) then
        quorum_everywhere (List.length place) (spec_threshold rf rep) (firstn delivered (resps_of place ws))
      else true
  end.
