(* C17 — models of
   A. pkg/pool/pool.go BucketedPool.Get/Put/UsedBytes (usedTotal accounting), with
      [fixed = true] = C17-fix.patch (the limit is tested against the size that is
      charged), [fixed = false] = the code before (tested against the requested size);
   B. pkg/store/storepb/shard_info.go ShardInfo.Matcher / ShardMatcher.Close over a
      sync.Pool of buffers, with [fixed = true] = C17-fix.patch (Close returns the
      buffer once), [fixed = false] = every Close puts the buffer again. sync.Pool is
      modelled as a multiset from which Get may take any element or make a new one.
   Executable definitions only. Sizes are [N] (uint64 wrap-around is not modelled). *)
From Coq Require Import NArith List Bool Lia.
Import ListNotations.
From Verif Require Import Lib.Corr Gen.C17.
Open Scope N_scope.

(* ---- A. BucketedPool ---------------------------------------------------------- *)

(* for i, bktSize := range p.sizes { if sz > bktSize { continue } ... } *)
Fixpoint bucket_for (sizes : list N) (sz : N) : option N :=
  match sizes with
  | [] => None
  | b :: r => if b <? sz then bucket_for r sz else Some b
  end.

(* what is added to usedTotal: cap of the slice = the bucket size, or sz beyond the largest bucket *)
Definition charge (sizes : list N) (sz : N) : N :=
  match bucket_for sizes sz with Some b => b | None => sz end.

Record pstate := mkP { used : N; out : list N }.   (* usedTotal; capacities of the slices handed out and not yet returned *)

Definition pget (fixed : bool) (sizes : list N) (maxt : N) (st : pstate) (sz : N) : option pstate :=
  let c := charge sizes sz in
  let tested := if fixed then c else sz in
  if (0 <? maxt) && (maxt <? used st + tested) then None      (* ErrPoolExhausted *)
  else Some (mkP (used st + c) (out st ++ [c])).

Fixpoint remove_nth {A} (k : nat) (l : list A) : list A :=
  match l, k with
  | [], _ => []
  | _ :: r, O => r
  | x :: r, S k' => x :: remove_nth k' r
  end.

(* Put of the k-th outstanding slice (capacity unchanged): clamped subtraction *)
Definition pput (st : pstate) (k : nat) : pstate :=
  match nth_error (out st) k with
  | None => st
  | Some c => mkP (if used st <=? c then 0 else used st - c) (remove_nth k (out st))
  end.

Inductive pop := PGet (sz : N) | PPut (k : nat).

(* observable after each call: Get succeeded? (Put: true); capacity handed out (0 if none); UsedBytes() *)
Definition pobs := (bool * N * N)%type.

Fixpoint prun (fixed : bool) (sizes : list N) (maxt : N) (st : pstate) (ops : list pop) : list pobs :=
  match ops with
  | [] => []
  | PGet sz :: r =>
    match pget fixed sizes maxt st sz with
    | Some st' => (true, charge sizes sz, used st') :: prun fixed sizes maxt st' r
    | None => (false, 0, used st) :: prun fixed sizes maxt st r
    end
  | PPut k :: r => let st' := pput st k in (true, 0, used st') :: prun fixed sizes maxt st' r
  end.

(* final state, for the theorems *)
Fixpoint pfinal (fixed : bool) (sizes : list N) (maxt : N) (st : pstate) (ops : list pop) : pstate :=
  match ops with
  | [] => st
  | PGet sz :: r =>
    match pget fixed sizes maxt st sz with
    | Some st' => pfinal fixed sizes maxt st' r
    | None => pfinal fixed sizes maxt st r
    end
  | PPut k :: r => pfinal fixed sizes maxt (pput st k) r
  end.

Definition pinit : pstate := mkP 0 [].
Fixpoint sum_n (l : list N) : N := match l with [] => 0 | x :: r => x + sum_n r end.

(* ---- B. ShardMatcher buffers ----------------------------------------------------- *)

Record mstate := mkM { mpool : list N;           (* buffers in the sync.Pool (ids) *)
                       held : list (option N);   (* per matcher, in creation order: buffer it would Put on Close *)
                       fresh : N }.              (* next id handed out by the pool's New *)

Inductive mop :=
| MNew (sharded : bool) (got : N)   (* ShardInfo.Matcher(&pool); the id of the buffer it holds (ignored when unsharded) *)
| MClose (m : nat).                 (* matcher m .Close() *)

Fixpoint remove_one (x : N) (l : list N) : option (list N) :=
  match l with
  | [] => None
  | y :: r => if y =? x then Some r
              else match remove_one x r with Some r' => Some (y :: r') | None => None end
  end.

Fixpoint set_nth {A} (k : nat) (v : A) (l : list A) : list A :=
  match l, k with
  | [], _ => []
  | _ :: r, O => v :: r
  | x :: r, S k' => x :: set_nth k' v r
  end.

(* None = the observed step is impossible for the model *)
Definition mstep (fixed : bool) (st : mstate) (o : mop) : option mstate :=
  match o with
  | MNew false _ => Some (mkM (mpool st) (held st ++ [None]) (fresh st))
  | MNew true id =>
    match remove_one id (mpool st) with
    | Some p' => Some (mkM p' (held st ++ [Some id]) (fresh st))                       (* taken from the pool *)
    | None => if id =? fresh st then Some (mkM (mpool st) (held st ++ [Some id]) (fresh st + 1))  (* New *)
              else None
    end
  | MClose m =>
    match nth_error (held st) m with
    | Some (Some id) =>
      Some (mkM (id :: mpool st) (if fixed then set_nth m None (held st) else held st) (fresh st))
    | Some None => Some st
    | None => None
    end
  end.

Fixpoint mrun (fixed : bool) (st : mstate) (ops : list mop) : option mstate :=
  match ops with
  | [] => Some st
  | o :: r => match mstep fixed st o with Some st' => mrun fixed st' r | None => None end
  end.

Definition minit : mstate := mkM [] [] 0.

(* ---- D. concurrent Get/Put on one BucketedPool ------------------------------------------- *)

(* Get holds the pool's mutex from the budget test to the accounting (source fact: mtx.Lock
   first, Unlock deferred, test and usedTotal += inline in between), Put takes it for the
   subtraction: a concurrent execution is an interleaving of atomic Get / Put steps. Threads
   are sequences of operations; a schedule names the thread that makes the next step. *)
Inductive top := TGet (sz : N) | TPut (k : nat).   (* Put: the k-th slice this thread still holds *)

Record tstate := mkT { t_used : N; t_outs : list (list N); t_progs : list (list top) }.

Definition tinit (threads : list (list top)) : tstate := mkT 0 (map (fun _ => []) threads) threads.

(* one atomic step of thread i; the observation (ok, capacity handed out, UsedBytes afterwards).
   A thread without remaining operations (or an unknown thread) makes an empty step. *)
Definition tstep (fixed : bool) (sizes : list N) (maxt : N) (st : tstate) (i : nat) : tstate * pobs :=
  match nth_error (t_progs st) i, nth_error (t_outs st) i with
  | Some (o :: rest), Some outs =>
    let progs' := set_nth i rest (t_progs st) in
    match o with
    | TGet sz =>
      match pget fixed sizes maxt (mkP (t_used st) outs) sz with
      | Some p' => (mkT (used p') (set_nth i (out p') (t_outs st)) progs', (true, charge sizes sz, used p'))
      | None => (mkT (t_used st) (t_outs st) progs', (false, 0, t_used st))
      end
    | TPut k =>
      let p' := pput (mkP (t_used st) outs) k in
      (mkT (used p') (set_nth i (out p') (t_outs st)) progs', (true, 0, used p'))
    end
  | _, _ => (st, (true, 0, t_used st))
  end.

Fixpoint trun (fixed : bool) (sizes : list N) (maxt : N) (st : tstate) (sched : list nat) : list pobs :=
  match sched with
  | [] => []
  | i :: r => let '(st', o) := tstep fixed sizes maxt st i in o :: trun fixed sizes maxt st' r
  end.

Fixpoint tfinal (fixed : bool) (sizes : list N) (maxt : N) (st : tstate) (sched : list nat) : tstate :=
  match sched with
  | [] => st
  | i :: r => tfinal fixed sizes maxt (fst (tstep fixed sizes maxt st i)) r
  end.

Definition total_out (outs : list (list N)) : N := sum_n (map sum_n outs).

(* the same replayed on observations: what each thread holds, from the capacities it was given *)
Fixpoint sched_pred (maxt : N) (outs : list (list N)) (progs : list (list top)) (sched : list nat) (obs : list pobs) : bool :=
  match sched, obs with
  | [], [] => true
  | i :: r, (ok, c, u) :: obr =>
    match nth_error progs i, nth_error outs i with
    | Some (o :: rest), Some oi =>
      let oi' := match o with
                 | TGet _ => if ok then oi ++ [c] else oi
                 | TPut k => remove_nth k oi
                 end in
      let outs' := set_nth i oi' outs in
      ((maxt =? 0) || (u <=? maxt)) && (u =? total_out outs') && sched_pred maxt outs' (set_nth i rest progs) r obr
    | _, _ => ((maxt =? 0) || (u <=? maxt)) && (u =? total_out outs) && sched_pred maxt outs progs r obr
    end
  | _, _ => false
  end.

(* ---- E. when a response set gives its buffer back ---------------------------------------- *)

(* respSet.Close runs in the request's goroutine while the response set's receive goroutine may
   still be handling a message (MatchesZLabels writes into the matcher's buffer). The closer is
   a program of actions; the receiver writes some number of times and then stops. Actions of
   Close in source order (source fact closeStmts): cancel the stream, WAIT for the receive
   goroutine (<-l.donec / l.wg.Wait()), shardMatcher.Close() = Put, CloseSend. *)
Inductive cact := CCancel | CWait | CPut | CCloseSend.
Inductive tev := TWrite | TStop | TAct (a : cact).      (* trace events *)

Definition close_fixed : list cact := [CCancel; CWait; CPut; CCloseSend].
Definition close_early_put : list cact := [CCancel; CPut; CCloseSend; CWait].

(* interleave by a schedule: true = the closer moves, false = the receiver moves. The closer's
   CWait is enabled only when the receiver has stopped; a thread that cannot move passes. *)
Fixpoint trun_close (fuel : nat) (sched : nat -> bool) (step : nat) (closer : list cact) (writes : nat) (stopped : bool) : list tev :=
  match fuel with
  | O => []
  | S f =>
    let recv_move :=
      if stopped then None
      else match writes with
           | O => Some (TStop, O, true)
           | S w => Some (TWrite, w, false)
           end in
    let close_move :=
      match closer with
      | [] => None
      | CWait :: r => if stopped then Some (TAct CWait, r) else None
      | a :: r => Some (TAct a, r)
      end in
    match (if sched step then close_move else None), recv_move with
    | Some (e, r), _ => e :: trun_close f sched (S step) r writes stopped
    | None, Some (e, w, st) => e :: trun_close f sched (S step) closer w st
    | None, None =>
      match close_move with
      | Some (e, r) => e :: trun_close f sched (S step) r writes stopped
      | None => []
      end
    end
  end.

(* the buffer is written after it went back to the pool *)
Fixpoint write_after_put (seen_put : bool) (t : list tev) : bool :=
  match t with
  | [] => false
  | TAct CPut :: r => write_after_put true r
  | TWrite :: r => seen_put || write_after_put seen_put r
  | _ :: r => write_after_put seen_put r
  end.

(* ---- cases ------------------------------------------------------------------------- *)

Inductive case :=
(* bucket sizes of the real pool, maxTotal, a history, and after each call (ok, cap, UsedBytes) *)
| CPool (sizes : list N) (maxt : N) (ops : list pop) (obs : list pobs)
(* a history of Matcher()/Close() calls on one sync.Pool with the buffer ids seen, and the
   ids drained from the pool at the end (sorted) *)
| CShard (ops : list mop) (drained : list N)
(* [reqs] concurrent Series requests through one real ProxyStore over [nstores] stores, the first
   [nfail] of which refuse the stream; whether afterwards some buffer comes out of the proxy's pool twice *)
| CProxy (reqs nstores nfail : nat) (sharded : bool) (dup : bool)
(* threads of Get/Put on one real pool, executed in the order of the schedule; one Get is parked
   inside the pool's allocation while the following steps of the other threads are attempted
   (they run during the parked Get iff the pool's lock is free then): observations per step *)
| CSched (sizes : list N) (maxt : N) (threads : list (list top)) (sched : list nat) (obs : list pobs)
(* the same threads released together through a barrier on a fresh pool, many times: did the
   capacities checked out at one moment (or UsedBytes) ever exceed maxTotal; UsedBytes after
   every thread returned what it held, maximum over the repetitions *)
| CStress (sizes : list N) (maxt : N) (threads : list (list top)) (exceeded : bool) (final_used : N)
(* a sharded request through the real ProxyStore, torn down early while the store's stream has
   a message in flight; at the moment the stream sees CloseSend "the next request" takes a buffer
   out of the proxy's pool: was CloseSend seen before the receive goroutine ended, and did
   anything write into the taken buffer *)
| CTeardown (lazy : bool) (immediate : nat) (closed_early written : bool).

Definition pobs_eqb (a b : pobs) : bool :=
  Bool.eqb (fst (fst a)) (fst (fst b)) && (snd (fst a) =? snd (fst b)) && (snd a =? snd b).

Fixpoint insert_sorted (x : N) (l : list N) : list N :=
  match l with
  | [] => [x]
  | y :: r => if x <=? y then x :: l else y :: insert_sorted x r
  end.
Definition sort_n (l : list N) : list N := fold_right insert_sorted [] l.

Fixpoint nodup_n (l : list N) : bool :=
  match l with
  | [] => true
  | a :: r => negb (existsb (N.eqb a) r) && nodup_n r
  end.

(* ---- C. requests over response sets ---------------------------------------------------- *)

(* Where a response set (and with it its ShardMatcher) is closed; the call sites are pinned by
   source facts (Proofs: close_sites_in_source):
     loser tree, a sequence is exhausted   losertree.Tree.moveNext: t.close(n.items)
     loser tree Close(), still open ones    losertree.Tree.Close: t.close(e.items)   (BucketStore.Series: defer lt.Close())
     deferred Close of the proxy            ProxyStore.Series: defer respSet.Close()
     error path of the store gateway        BucketStore.Series: resp.Close() for all response sets when a block fails
   and a response set whose store refuses the stream is dropped with its matcher never closed
   (newAsyncRespSet returns before any Close). Both retrieval strategies (lazyRespSet.Close,
   eagerRespSet.Close) end in shardMatcher.Close(). *)
Inductive close_site := CSExhausted | CSTreeClose | CSDeferred | CSErrorPath.

(* events of any number of concurrent requests on one store (one buffer pool); pool operations
   are atomic, so a concurrent execution is an interleaving of these events *)
Inductive ev :=
| EvOpen (req : nat) (sharded : bool) (got : N)       (* a response set of request req is created: Matcher(buffers) *)
| EvOpenFail (req : nat) (sharded : bool) (got : N)   (* created, but the stream could not be opened: dropped unclosed *)
| EvClose (req : nat) (k : nat) (site : close_site).  (* the k-th response set of request req is closed from that site *)

Record pxstate := mkPx { px_m : mstate; px_sets : list (nat * list nat) }.  (* per request: matcher indices of its response sets *)

Fixpoint sets_of (req : nat) (l : list (nat * list nat)) : list nat :=
  match l with
  | [] => []
  | (r, ms) :: rest => if Nat.eqb r req then ms else sets_of req rest
  end.

Fixpoint add_set (req : nat) (m : nat) (l : list (nat * list nat)) : list (nat * list nat) :=
  match l with
  | [] => [(req, [m])]
  | (r, ms) :: rest => if Nat.eqb r req then (r, ms ++ [m]) :: rest else (r, ms) :: add_set req m rest
  end.

(* None = the event is impossible (unknown response set, impossible buffer) *)
Definition pxstep (fixed : bool) (st : pxstate) (e : ev) : option pxstate :=
  match e with
  | EvOpen req sharded got =>
    match mstep fixed (px_m st) (MNew sharded got) with
    | Some m' => Some (mkPx m' (add_set req (length (held (px_m st))) (px_sets st)))
    | None => None
    end
  | EvOpenFail req sharded got =>
    match mstep fixed (px_m st) (MNew sharded got) with
    | Some m' => Some (mkPx m' (px_sets st))
    | None => None
    end
  | EvClose req k _ =>
    match nth_error (sets_of req (px_sets st)) k with
    | Some m => match mstep fixed (px_m st) (MClose m) with
                | Some m' => Some (mkPx m' (px_sets st))
                | None => None
                end
    | None => None
    end
  end.

Fixpoint pxrun (fixed : bool) (st : pxstate) (es : list ev) : option pxstate :=
  match es with
  | [] => Some st
  | e :: r => match pxstep fixed st e with Some st' => pxrun fixed st' r | None => None end
  end.

Definition pxinit : pxstate := mkPx minit [].

(* the canonical history of [reqs] proxy requests run one after the other over [nstores] stores
   of which the first [nfail] refuse the stream: every opened response set is closed twice
   (exhausted in the loser tree, then the deferred Close) *)
Fixpoint px_opens (req : nat) (sharded : bool) (nfail k : nat) (id : N) : list ev :=
  match k with
  | O => []
  | S k' => (if Nat.ltb 0 nfail then EvOpenFail req sharded id else EvOpen req sharded id)
            :: px_opens req sharded (Nat.pred nfail) k' (id + 1)
  end.
Fixpoint px_closes (req : nat) (k : nat) (i : nat) : list ev :=
  match k with
  | O => []
  | S k' => EvClose req i CSExhausted :: EvClose req i CSDeferred :: px_closes req k' (S i)
  end.
(* with the fix a later request finds the buffers of the earlier one in the pool; the canonical
   history lets every request take fresh ones instead (sync.Pool may always do that) — the pool
   content differs, whether a buffer is pooled twice does not *)
Fixpoint px_requests (reqs : nat) (nstores nfail : nat) (sharded : bool) (req : nat) (id : N) : list ev :=
  match reqs with
  | O => []
  | S r' => px_opens req sharded nfail nstores id ++ px_closes req (nstores - nfail) 0
            ++ px_requests r' nstores nfail sharded (S req) (id + N.of_nat nstores)
  end.

Definition corr_ok (c : case) : bool :=
  match c with
  | CPool sizes maxt ops obs => list_eqb pobs_eqb (prun true sizes maxt pinit ops) obs
  | CShard ops drained =>
    match mrun true minit ops with
    | Some st => list_eqb N.eqb (sort_n (mpool st)) drained
    | None => false
    end
  | CSched sizes maxt threads sched obs =>
    list_eqb pobs_eqb (trun true sizes maxt (tinit threads) sched) obs
  | CStress _ maxt _ exceeded fin =>
    (* every interleaving of atomic steps keeps the budget (theorem C17_concurrent_budget) *)
    ((maxt =? 0) || negb exceeded) && (fin =? 0)
  | CTeardown _ _ early written =>
    (* Close waits for the receive goroutine before Put and CloseSend (theorem C17_put_after_receiver) *)
    negb early && negb written
  | CProxy reqs k nfail sharded dup =>
    match pxrun true pxinit (px_requests reqs k nfail sharded 0 0) with
    | Some st => Bool.eqb dup (negb (nodup_n (mpool (px_m st))))
    | None => false
    end
  end.

(* outstanding = gets that succeeded minus puts, replayed on the observations *)
Fixpoint pool_pred (maxt : N) (outc : list N) (ops : list pop) (obs : list pobs) : bool :=
  match ops, obs with
  | [], [] => true
  | PGet _ :: r, (ok, c, u) :: obr =>
    let outc' := if ok then outc ++ [c] else outc in
    ((maxt =? 0) || (u <=? maxt)) && (u =? sum_n outc') && pool_pred maxt outc' r obr
  | PPut k :: r, (_, _, u) :: obr =>
    let outc' := remove_nth k outc in
    ((maxt =? 0) || (u <=? maxt)) && (u =? sum_n outc') && pool_pred maxt outc' r obr
  | _, _ => false
  end.

(* ids held by matchers that were never closed, from the history alone *)
Fixpoint held_open (ops : list mop) (acc : list (option N)) : list (option N) :=
  match ops with
  | [] => acc
  | MNew true id :: r => held_open r (acc ++ [Some id])
  | MNew false _ :: r => held_open r (acc ++ [None])
  | MClose m :: r => held_open r (set_nth m None acc)
  end.

Fixpoint somes (l : list (option N)) : list N :=
  match l with [] => [] | Some x :: r => x :: somes r | None :: r => somes r end.

Definition pred_ok (c : case) : bool :=
  match c with
  | CPool _ maxt ops obs => pool_pred maxt [] ops obs
    (* UsedBytes never exceeds maxTotal, always equals the capacities handed out and not
       returned — hence is 0 once everything is returned *)
  | CShard ops drained => nodup_n (drained ++ somes (held_open ops []))
    (* no buffer sits in the pool twice, and none is both in the pool and held by an open matcher *)
  | CProxy _ _ _ _ dup => negb dup
  | CSched _ maxt threads sched obs => sched_pred maxt (map (fun _ => []) threads) threads sched obs
  | CStress _ maxt _ exceeded fin => ((maxt =? 0) || negb exceeded) && (fin =? 0)
  | CTeardown _ _ _ written => negb written
  end.
