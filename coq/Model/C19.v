(* C19 — Building a hashring from any configuration terminates.
   Model of newKetamaHashring / calculateSectionReplicas (pkg/receive/hashring.go);
   the executable definitions are shared with C18/C20 in Lib/Hashring_Ketama.v.
   Whether the loop carries the lap-without-progress test is NOT assumed: it is
   read from the source on every run (Gen/C19.v, [calc_events]). *)
From Coq Require Import ZArith List Bool String Arith.
Import ListNotations.
From Verif Require Import Lib.Corr Lib.Hashring_Ketama Gen.C19.
Close Scope Z_scope. (* Gen/C19.v opens it *)

(* tie T: calculateSectionReplicas can leave its loops through a `return <non-nil>`.
   Before the repair the function had no return statement at all. *)
Definition lap_check : bool :=
  existsb (fun e => String.eqb (fst e) "return" && negb (String.eqb (snd e) "nil")) calc_events.

(* the constructor as the source has it now *)
Definition ketama_new_src (eps : list (Z * list Z)) (rf : nat) : ketama_result :=
  ketama_new_fuel lap_check (walk_fuel (sections_of 0 eps) rf) eps rf.

(* implementation observables: error, or the ring sections in ring order as
   (hash, endpointIndex, replicas) *)
Inductive obs :=
| OOk (secs : list (Z * nat * list nat))
| OErr.

(* [full] = built through NewMultiHashring (every endpoint must then carry
   SectionsPerNode hashes), otherwise through the export shim *)
Inductive case :=
| CKetama (full : bool) (eps : list (Z * list Z)) (rf : nat) (o : obs)
(* a whole configuration file (several hashrings, hashmod / ketama / unknown algorithm,
   shuffle sharding, tenants) loaded with ParseConfig + NewMultiHashring: only the
   fact that loading returned (ring or error) is observed; a hang is reported by the harness *)
| CConfig (returned_ring : bool).

Definition obs_of (r : ketama_result) : option obs :=
  match r with
  | KOk ring reps => Some (OOk (combine (map (fun s => (s_hash s, s_ep s)) ring) reps))
  | KErr => Some OErr
  | KFuel => None
  end.

Definition sec_eqb (a b : Z * nat * list nat) : bool :=
  (fst (fst a) =? fst (fst b))%Z && (snd (fst a) =? snd (fst b)) && list_eqb Nat.eqb (snd a) (snd b).

Definition obs_eqb (a b : obs) : bool :=
  match a, b with
  | OOk x, OOk y => list_eqb sec_eqb x y
  | OErr, OErr => true
  | _, _ => false
  end.

Definition corr_ok (c : case) : bool :=
  match c with
  | CKetama full eps rf o =>
      option_eqb obs_eqb (obs_of (ketama_new_src eps rf)) (Some o)
      && (negb full || forallb (fun e => Z.of_nat (List.length (snd e)) =? SectionsPerNode)%Z eps)
  | CConfig _ => true
  end.

Fixpoint sorted_z (l : list Z) : bool :=
  match l with
  | a :: ((b :: _) as r) => (a <=? b)%Z && sorted_z r
  | _ => true
  end.

(* "a usable hashring": one entry per section, ordered by hash, and every
   section holds exactly rf pairwise distinct valid endpoint indexes, so that
   GetN(n) is answerable for every n < rf. An error is an allowed outcome;
   a hang is reported by the harness (no case is produced). *)
Definition usable (eps : list (Z * list Z)) (rf : nat) (secs : list (Z * nat * list nat)) : bool :=
  (List.length secs =? List.length (sections_of 0 eps))
  && sorted_z (map (fun x => fst (fst x)) secs)
  && forallb (fun x => (List.length (snd x) =? rf) && nodup_nat (snd x)
                       && forallb (fun e => e <? List.length eps) (snd x)) secs.

Definition pred_ok (c : case) : bool :=
  match c with
  | CKetama _ eps rf (OOk secs) => usable eps rf secs
  | CKetama _ _ _ OErr => true
  | CConfig _ => true
  end.
