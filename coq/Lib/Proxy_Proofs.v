(* Proofs about the shared proxy model Lib/Proxy_Model.v (C03, C06):
   A. chunk de-duplication and ordering (chainSeriesAndRemIdenticalChunks)
   B. responseDeduplicator on a label-sorted stream
   C. "minimal head" k-way merges: sortedness and permutation
   E. batchableServer is transparent
   F. sortWithoutLabels re-establishes the precondition of the merge *)
From Coq Require Import ZArith NArith List Bool Lia Permutation Sorted.
Import ListNotations.
From Verif Require Import Lib.Proxy_Order Lib.Proxy_Model.

Section Proofs.
Context {L C K W : Type}
  (lcmp : L -> L -> comparison) (Hl : OrdSpec lcmp)
  (ckey : C -> K) (keqb : K -> K -> bool) (Hk : forall a b, keqb a b = true <-> a = b)
  (cleb : C -> C -> bool) (R : C -> C -> Prop)
  (HR1 : forall c d, cleb c d = true -> R c d) (HR2 : forall c d, cleb c d = false -> R d c)
  (wlen : W -> N).

Notation resp := (@resp L C W).
Notation frame := (@frame L C W).

Definition ser1 (r : resp) : list (L * list C) := match r with RSeries l cs => [(l, cs)] | RWarn _ => [] end.
Definition sers (l : list resp) : list (L * list C) := concat (map ser1 l).
Definition warn1 (r : resp) : list W := match r with RSeries _ _ => [] | RWarn w => [w] end.
Definition warns (l : list resp) : list W := concat (map warn1 l).
Definition lle (a b : L) : Prop := lcmp a b <> Gt.
Definition llt (a b : L) : Prop := lcmp a b = Lt.

Lemma sers_app a b : sers (a ++ b) = sers a ++ sers b.
Proof. unfold sers. rewrite map_app, concat_app. reflexivity. Qed.
Lemma warns_app a b : warns (a ++ b) = warns a ++ warns b.
Proof. unfold warns. rewrite map_app, concat_app. reflexivity. Qed.

(* ---------- A. chunks ---------- *)
Lemma existsb_keqb k seen : existsb (keqb k) seen = true <-> In k seen.
Proof.
  rewrite existsb_exists. split.
  - intros [x [Hin Hx]]. apply Hk in Hx. subst. exact Hin.
  - intros H. exists k. split; [exact H | apply Hk; reflexivity].
Qed.

Lemma dedup_keys_spec cs : forall seen,
  NoDup (map ckey (dedup_keys ckey keqb seen cs))
  /\ (forall k, In k (map ckey (dedup_keys ckey keqb seen cs)) <-> In k (map ckey cs) /\ ~ In k seen)
  /\ incl (dedup_keys ckey keqb seen cs) cs.
Proof.
  induction cs as [|c r IH]; intros seen; cbn [dedup_keys map].
  - split; [constructor|]. split; [|apply incl_refl]. intros k. cbn. tauto.
  - destruct (existsb (keqb (ckey c)) seen) eqn:E.
    + apply existsb_keqb in E. destruct (IH seen) as [N [I S]]. split; [exact N|]. split.
      * intros k. rewrite I. cbn [In]. split; [tauto|]. intros [[H|H] H2]; [subst; contradiction | tauto].
      * apply incl_tl. exact S.
    + assert (Hn : ~ In (ckey c) seen) by (rewrite <- existsb_keqb, E; discriminate).
      destruct (IH (ckey c :: seen)) as [N [I S]]. split; [|split].
      * cbn [map]. constructor; [|exact N]. rewrite I. cbn [In]. tauto.
      * intros k. cbn [map In]. rewrite I. cbn [In]. split.
        -- intros [H|[H1 H2]]; [subst; tauto | tauto].
        -- intros [[H|H] H2]; [left; exact H|].
           destruct (keqb (ckey c) k) eqn:Ek; [apply Hk in Ek; left; exact Ek|].
           right. split; [exact H|]. intros [H3|H3]; [|contradiction].
           assert (keqb (ckey c) k = true) by (apply Hk; exact H3). congruence.
      * intros x [Hx|Hx]; [left; exact Hx | right; apply S; exact Hx].
Qed.

Lemma cinsert_perm c l : Permutation (cinsert cleb c l) (c :: l).
Proof.
  induction l as [|d r IH]; cbn [cinsert]; [apply Permutation_refl|].
  destruct (cleb c d); [apply Permutation_refl|].
  eapply perm_trans; [apply perm_skip; exact IH | apply perm_swap].
Qed.
Lemma csort_perm l : Permutation (csort cleb l) l.
Proof.
  induction l as [|c r IH]; cbn; [constructor|].
  eapply perm_trans; [apply cinsert_perm | apply perm_skip; exact IH].
Qed.
Lemma cinsert_sorted c l : Sorted R l -> Sorted R (cinsert cleb c l).
Proof.
  induction l as [|d r IH]; intros Hs; cbn [cinsert].
  - constructor; constructor.
  - destruct (cleb c d) eqn:E.
    + constructor; [exact Hs|]. constructor. apply HR1. exact E.
    + inversion Hs as [|? ? Hs' Hd]; subst. constructor; [apply IH; exact Hs'|].
      destruct r as [|e r']; cbn [cinsert].
      * constructor. apply HR2. exact E.
      * destruct (cleb c e); constructor; [apply HR2; exact E|].
        inversion Hd; subst. assumption.
Qed.
Lemma csort_sorted l : Sorted R (csort cleb l).
Proof. induction l as [|c r IH]; cbn; [constructor|]. apply cinsert_sorted. exact IH. Qed.

(* the chunk list that chain produces from all chunks of a label set *)
Definition chained (cs : list C) : list C := csort cleb (dedup_keys ckey keqb [] cs).

Lemma chained_spec cs :
  Sorted R (chained cs) /\ NoDup (map ckey (chained cs))
  /\ (forall k, In k (map ckey (chained cs)) <-> In k (map ckey cs))
  /\ incl (chained cs) cs.
Proof.
  unfold chained. destruct (dedup_keys_spec cs []) as [N [I S]].
  pose proof (csort_perm (dedup_keys ckey keqb [] cs)) as P.
  split; [apply csort_sorted|]. split; [|split].
  - eapply Permutation_NoDup; [apply Permutation_sym, Permutation_map, P | exact N].
  - intros k. split.
    + intros H. apply (Permutation_in _ (Permutation_map ckey P)) in H. apply I in H. tauto.
    + intros H. apply (Permutation_in _ (Permutation_sym (Permutation_map ckey P))). apply I. cbn. tauto.
  - intros x Hx. apply S. eapply Permutation_in; [exact P | exact Hx].
Qed.

(* ---------- B. responseDeduplicator ---------- *)
Definition leqb (a b : L) : bool := match lcmp a b with Eq => true | _ => false end.
Lemma leqb_eq a b : leqb a b = true <-> a = b.
Proof. unfold leqb. rewrite <- (cmp_eq _ Hl). destruct (lcmp a b); split; congruence. Qed.
Lemma leqb_refl a : leqb a a = true.
Proof. apply leqb_eq. reflexivity. Qed.

(* all chunks that the series labelled X carry in s, in order *)
Definition chunks_of (X : L) (s : list (L * list C)) : list C :=
  concat (map (fun p => if leqb (fst p) X then snd p else []) s).

(* adjacent grouping as responseDeduplicator.Next does it (before chaining) *)
Fixpoint group (pending : option (L * list C)) (s : list (L * list C)) : list (L * list C) :=
  match s with
  | [] => match pending with Some g => [g] | None => [] end
  | (lb, cs) :: r =>
      match pending with
      | None => group (Some (lb, cs)) r
      | Some (pl, pcs) =>
          match lcmp pl lb with
          | Eq => group (Some (pl, pcs ++ cs)) r
          | _ => (pl, pcs) :: group (Some (lb, cs)) r
          end
      end
  end.
Definition chainS (g : L * list C) : L * list C := (fst g, chained (snd g)).
Definition olist (p : option (L * list C)) : list (L * list C) := match p with Some g => [g] | None => [] end.

Lemma dedup_sers l : forall p, sers (dedup lcmp ckey keqb cleb p l) = map chainS (group p (sers l)).
Proof.
  induction l as [|x r IH]; intros p.
  - cbn. destruct p as [g|]; reflexivity.
  - destruct x as [lb cs|w].
    + change (sers (RSeries lb cs :: r)) with ((lb, cs) :: sers r). cbn [dedup group].
      destruct p as [[pl pcs]|]; [|apply IH].
      destruct (lcmp pl lb); try apply IH;
      (change (sers (chain ckey keqb cleb (pl, pcs) :: dedup lcmp ckey keqb cleb (Some (lb, cs)) r))
         with (chainS (pl, pcs) :: sers (dedup lcmp ckey keqb cleb (Some (lb, cs)) r));
       cbn [map]; f_equal; apply IH).
    + change (sers (RWarn w :: r)) with (sers r). cbn [dedup].
      change (sers (RWarn w :: dedup lcmp ckey keqb cleb p r)) with (sers (dedup lcmp ckey keqb cleb p r)). apply IH.
Qed.

Lemma dedup_warns l : forall p, warns (dedup lcmp ckey keqb cleb p l) = warns l.
Proof.
  induction l as [|x r IH]; intros p.
  - cbn. destruct p; reflexivity.
  - destruct x as [lb cs|w]; cbn [dedup].
    + change (warns (RSeries lb cs :: r)) with (warns r).
      destruct p as [[pl pcs]|]; [|apply IH]. destruct (lcmp pl lb); try apply IH;
      (change (warns (chain ckey keqb cleb (pl, pcs) :: dedup lcmp ckey keqb cleb (Some (lb, cs)) r))
         with (warns (dedup lcmp ckey keqb cleb (Some (lb, cs)) r)); apply IH).
    + change (warns (RWarn w :: r)) with (w :: warns r).
      change (warns (RWarn w :: dedup lcmp ckey keqb cleb p r)) with (w :: warns (dedup lcmp ckey keqb cleb p r)).
      f_equal. apply IH.
Qed.

Lemma chunks_of_nil X s : (forall Y, In Y (map fst s) -> leqb Y X = false) -> chunks_of X s = [].
Proof.
  induction s as [|[Y cs] r IH]; intros H; [reflexivity|].
  unfold chunks_of. cbn [map concat fst snd]. rewrite (H Y) by (left; reflexivity). cbn [app].
  apply IH. intros Z HZ. apply H. right. exact HZ.
Qed.

Lemma chunks_of_cons X Y cs s : chunks_of X ((Y, cs) :: s) = (if leqb Y X then cs else []) ++ chunks_of X s.
Proof. reflexivity. Qed.

Lemma llt_leqb_false a b : llt a b -> leqb a b = false /\ leqb b a = false.
Proof.
  unfold llt. intros H. split.
  - unfold leqb. rewrite H. reflexivity.
  - unfold leqb. rewrite (cmp_opp _ Hl a b), H. reflexivity.
Qed.

Lemma group_spec s : forall p,
  StronglySorted lle (map fst (olist p ++ s)) ->
  StronglySorted llt (map fst (group p s))
  /\ (forall X cs, In (X, cs) (group p s) -> cs = chunks_of X (olist p ++ s))
  /\ (forall X, In X (map fst (group p s)) <-> In X (map fst (olist p ++ s))).
Proof.
  induction s as [|[lb cs] r IH]; intros p Hs.
  - destruct p as [[pl pcs]|]; cbn [group olist app map fst].
    + split; [repeat constructor|]. split; [|intros X; tauto].
      intros X cs' [H|[]]. inversion H; subst. rewrite chunks_of_cons, leqb_refl. cbn. rewrite app_nil_r. reflexivity.
    + split; [constructor|]. split; [intros X cs' []|intros X; tauto].
  - destruct p as [[pl pcs]|].
    2:{ cbn [group]. exact (IH (Some (lb, cs)) Hs). }
    cbn [group olist app map fst] in *.
    inversion Hs as [|? ? Hs' Hf]; subst.
    inversion Hf as [|? ? Hle Hf']; subst.
    destruct (lcmp pl lb) eqn:E.
    + apply (cmp_eq _ Hl) in E. subst lb.
      destruct (IH (Some (pl, pcs ++ cs))) as [I1 [I2 I3]].
      { cbn [olist app map fst]. constructor; [|exact Hf']. inversion Hs'; subst; assumption. }
      split; [exact I1|]. split.
      * intros X cs' Hin. rewrite (I2 X cs' Hin). cbn [olist app].
        rewrite !chunks_of_cons. destruct (leqb pl X); cbn [app]; [rewrite app_assoc|]; reflexivity.
      * intros X. rewrite I3. cbn [olist app map fst In]. tauto.
    + destruct (IH (Some (lb, cs))) as [I1 [I2 I3]]; [exact Hs'|].
      cbn [olist app map fst] in I2, I3.
      assert (Hgt : forall X, In X (map fst (group (Some (lb, cs)) r)) -> llt pl X).
      { intros X HX. apply I3 in HX. eapply (lt_le_trans _ Hl); [exact E|].
        destruct HX as [HX|HX]; [subst; apply (cle_refl _ Hl)|].
        inversion Hs' as [|? ? _ Hf2]; subst. rewrite Forall_forall in Hf2. apply Hf2. exact HX. }
      split; [|split].
      * cbn [map fst]. constructor; [exact I1|]. apply Forall_forall. exact Hgt.
      * intros X cs' [H|H].
        -- inversion H; subst. rewrite chunks_of_cons, leqb_refl.
           rewrite (chunks_of_nil X ((lb, cs) :: r)); [rewrite app_nil_r; reflexivity|].
           intros Y HY. cbn [map fst] in HY.
           assert (llt X Y) as HXY.
           { eapply (lt_le_trans _ Hl); [exact E|]. destruct HY as [HY|HY]; [subst; apply (cle_refl _ Hl)|].
             inversion Hs' as [|? ? _ Hf2]; subst. rewrite Forall_forall in Hf2. apply Hf2. exact HY. }
           apply llt_leqb_false in HXY. tauto.
        -- rewrite (I2 X cs' H). rewrite (chunks_of_cons X pl).
           assert (llt pl X) as HX by (apply Hgt; apply in_map_iff; exists (X, cs'); split; [reflexivity|exact H]).
           apply llt_leqb_false in HX. destruct HX as [HX _]. rewrite HX. reflexivity.
      * intros X. cbn [map fst In]. rewrite I3. cbn [In]. tauto.
    + exfalso. apply Hle. exact E.
Qed.

(* ---------- C. k-way merges that always emit a minimal head ---------- *)
(* the abstract k-way merge: at every step some stream whose head is not greater
   (w.r.t. the loser tree's less) than any other head is advanced *)
Inductive min_run : list (list resp) -> list resp -> Prop :=
| mr_done ss : (forall s, In s ss -> s = []) -> min_run ss []
| mr_step ss i x rest out :
    nth_error ss i = Some (x :: rest) ->
    (forall j y r, nth_error ss j = Some (y :: r) -> rless lcmp wlen y x = false) ->
    min_run (upd i rest ss) out -> min_run ss (x :: out).

Lemma in_upd {A} (v : A) l : forall i x, In x (upd i v l) -> x = v \/ In x l.
Proof.
  induction l as [|y r IH]; intros i x H; [destruct i; contradiction|].
  destruct i; cbn in H.
  - destruct H as [H|H]; [left; symmetry; exact H | right; right; exact H].
  - destruct H as [H|H]; [right; left; exact H|]. destruct (IH _ _ H); [left|right; right]; assumption.
Qed.

Lemma concat_upd_perm (ss : list (list resp)) : forall i x rest,
  nth_error ss i = Some (x :: rest) -> Permutation (concat ss) (x :: concat (upd i rest ss)).
Proof.
  induction ss as [|s r IH]; intros i x rest H; [destruct i; discriminate|].
  destruct i; cbn in H.
  - inversion H; subst. cbn. apply Permutation_refl.
  - cbn [upd concat]. eapply perm_trans; [apply Permutation_app_head; apply IH; exact H|].
    apply Permutation_sym. apply Permutation_middle.
Qed.

Lemma min_run_perm ss out : min_run ss out -> Permutation out (concat ss).
Proof.
  induction 1 as [ss Hall | ss i x rest out Hn Hmin Hr IH].
  - assert (concat ss = []) as ->; [|constructor].
    induction ss as [|s r IHs]; [reflexivity|]. cbn. rewrite (Hall s) by (left; reflexivity).
    apply IHs. intros s' Hs'. apply Hall. right. exact Hs'.
  - eapply perm_trans; [apply perm_skip; exact IH|]. apply Permutation_sym. apply concat_upd_perm. exact Hn.
Qed.

Lemma in_sers Y cs l : In (Y, cs) (sers l) <-> In (RSeries Y cs) l.
Proof.
  unfold sers. rewrite in_concat. split.
  - intros [x [Hx Hin]]. apply in_map_iff in Hx as [r [Hr Hr2]]. subst x.
    destruct r as [l0 c0|w]; cbn in Hin; [|contradiction]. destruct Hin as [E|[]]. inversion E; subst. exact Hr2.
  - intros H. exists [(Y, cs)]. split; [|left; reflexivity]. apply in_map_iff. exists (RSeries Y cs). split; [reflexivity|exact H].
Qed.

Lemma ssorted_app_r {A} (Rr : A -> A -> Prop) (a b : list A) : StronglySorted Rr (a ++ b) -> StronglySorted Rr b.
Proof. induction a as [|x a IH]; cbn; intros H; [exact H|]. inversion H; subst. apply IH. assumption. Qed.

Definition streams_sorted (ss : list (list resp)) : Prop :=
  forall s, In s ss -> StronglySorted lle (map fst (sers s)).

Lemma min_run_sorted ss out : min_run ss out -> streams_sorted ss -> StronglySorted lle (map fst (sers out)).
Proof.
  induction 1 as [ss Hall | ss i x rest out Hn Hmin Hr IH]; intros Hs; [constructor|].
  assert (Hrest : StronglySorted lle (map fst (sers rest))).
  { apply nth_error_In in Hn. specialize (Hs _ Hn). change (x :: rest) with ([x] ++ rest) in Hs.
    rewrite sers_app, map_app in Hs. eapply ssorted_app_r. exact Hs. }
  assert (Hs' : streams_sorted (upd i rest ss)).
  { intros s Hin. apply in_upd in Hin as [->|Hin]; [exact Hrest | apply Hs; exact Hin]. }
  specialize (IH Hs').
  destruct x as [lx cx|w]; [|exact IH].
  change (sers (RSeries lx cx :: out)) with ((lx, cx) :: sers out). cbn [map fst].
  constructor; [exact IH|]. apply Forall_forall. intros Y HY.
  apply in_map_iff in HY as [[Y' cs] [E HY]]. cbn in E. subst Y'.
  apply in_sers in HY. apply (Permutation_in _ (min_run_perm _ _ Hr)) in HY.
  apply in_concat in HY as [s' [Hs'in HY]].
  apply in_upd in Hs'in as [->|Hs'in].
  - (* later in the same stream *)
    apply nth_error_In in Hn. specialize (Hs _ Hn).
    change (sers (RSeries lx cx :: rest)) with ((lx, cx) :: sers rest) in Hs. cbn [map fst] in Hs.
    inversion Hs as [|? ? _ Hf]; subst. rewrite Forall_forall in Hf. apply Hf.
    apply in_map_iff. exists (Y, cs). split; [reflexivity|]. apply in_sers. exact HY.
  - (* in another stream: its head is not less than x *)
    destruct (In_nth_error _ _ Hs'in) as [j Hj].
    destruct s' as [|y0 r0]; [contradiction|].
    specialize (Hmin _ _ _ Hj). specialize (Hs _ Hs'in).
    destruct y0 as [l0 c0|w0]; [|cbn in Hmin; discriminate].
    cbn in Hmin.
    assert (lle lx l0) as H0.
    { apply (not_lt_cle _ Hl). intros E. rewrite E in Hmin. discriminate. }
    change (sers (RSeries l0 c0 :: r0)) with ((l0, c0) :: sers r0) in Hs. cbn [map fst] in Hs.
    destruct HY as [HY|HY].
    + inversion HY; subst. exact H0.
    + inversion Hs as [|? ? _ Hf]; subst. rewrite Forall_forall in Hf.
      eapply (cle_trans _ Hl); [exact H0|]. apply Hf.
      apply in_map_iff. exists (Y, cs). split; [reflexivity|]. apply in_sers. exact HY.
Qed.

(* ---------- E. batchableServer is transparent ---------- *)
Lemma flatten_frames_app (a b : list frame) : flatten_frames (a ++ b) = flatten_frames a ++ flatten_frames b.
Proof. unfold flatten_frames. rewrite map_app, concat_app. reflexivity. Qed.

Definition pend_resps (p : list (L * list C)) : list resp := map (fun q => RSeries (fst q) (snd q)) p.

Lemma batch_send_spec n l : forall pending fs p,
  batch_send n pending l = (fs, p) ->
  flatten_frames fs ++ pend_resps p = pend_resps pending ++ l.
Proof.
  induction l as [|x r IH]; intros pending fs p H; cbn [batch_send] in H.
  - inversion H; subst. cbn. rewrite app_nil_r. reflexivity.
  - destruct x as [lb cs|w].
    + destruct (n <=? length (pending ++ [(lb, cs)]))%nat.
      * destruct (batch_send n [] r) as [fs' p'] eqn:E. inversion H; subst.
        specialize (IH _ _ _ E). cbn [pend_resps map app] in IH.
        change (flatten_frames (FBatch (pending ++ [(lb, cs)]) :: fs'))
          with (pend_resps (pending ++ [(lb, cs)]) ++ flatten_frames fs').
        rewrite <- app_assoc, IH. unfold pend_resps. rewrite map_app, <- app_assoc. reflexivity.
      * specialize (IH _ _ _ H). rewrite IH. unfold pend_resps. rewrite map_app, <- app_assoc. reflexivity.
    + destruct (batch_send n [] r) as [fs' p'] eqn:E. inversion H; subst.
      specialize (IH _ _ _ E). cbn [pend_resps map app] in IH.
      rewrite flatten_frames_app.
      change (flatten_frames (FWarn w :: fs')) with (RWarn w :: flatten_frames fs').
      rewrite <- app_assoc. cbn [app]. rewrite IH.
      destruct pending as [|q pending']; [reflexivity|].
      change (flatten_frames [FBatch (q :: pending')]) with (pend_resps (q :: pending') ++ []).
      rewrite app_nil_r. reflexivity.
Qed.

Lemma unbatch_send_all n (l : list resp) : unbatch (send_all n true l) = l.
Proof.
  unfold unbatch, send_all. destruct (n <=? 1)%nat.
  - induction l as [|x r IH]; [reflexivity|]. cbn [map].
    change (flatten_frames (passthrough x :: map passthrough r)) with (flatten_frame (passthrough x) ++ flatten_frames (map passthrough r)).
    rewrite IH. destruct x; reflexivity.
  - destruct (batch_send n [] l) as [fs p] eqn:E. pose proof (batch_send_spec _ _ _ _ _ E) as H.
    cbn [pend_resps map app] in H. rewrite flatten_frames_app, <- H. f_equal.
    destruct p as [|q p']; [reflexivity|].
    change (flatten_frames [FBatch (q :: p')]) with (pend_resps (q :: p') ++ []). apply app_nil_r.
Qed.

(* ---------- F. sortWithoutLabels ---------- *)
Definition rleP (a b : resp) : Prop := rle lcmp a b = true.

Lemma rle_total (a b : resp) : rle lcmp a b = false -> rle lcmp b a = true.
Proof.
  destruct a as [la ca|wa], b as [lb cb|wb]; cbn; try congruence.
  rewrite (cmp_opp _ Hl la lb). destruct (lcmp la lb); cbn; congruence.
Qed.

Lemma rinsert_perm (x : resp) l : Permutation (rinsert lcmp x l) (x :: l).
Proof.
  induction l as [|y r IH]; cbn [rinsert]; [apply Permutation_refl|].
  destruct (rle lcmp x y); [apply Permutation_refl|].
  eapply perm_trans; [apply perm_skip; exact IH | apply perm_swap].
Qed.
Lemma rsort_perm (l : list resp) : Permutation (rsort lcmp l) l.
Proof.
  induction l as [|c r IH]; cbn; [constructor|].
  eapply perm_trans; [apply rinsert_perm | apply perm_skip; exact IH].
Qed.
Lemma rinsert_sorted x l : Sorted rleP l -> Sorted rleP (rinsert lcmp x l).
Proof.
  induction l as [|d r IH]; intros Hs; cbn [rinsert].
  - constructor; constructor.
  - destruct (rle lcmp x d) eqn:E.
    + constructor; [exact Hs|]. constructor. exact E.
    + inversion Hs as [|? ? Hs' Hd]; subst. constructor; [apply IH; exact Hs'|].
      destruct r as [|e r']; cbn [rinsert].
      * constructor. apply rle_total. exact E.
      * destruct (rle lcmp x e); constructor; [apply rle_total; exact E|].
        inversion Hd; subst. assumption.
Qed.
Lemma rsort_sorted l : Sorted rleP (rsort lcmp l).
Proof. induction l as [|c r IH]; cbn; [constructor|]. apply rinsert_sorted. exact IH. Qed.

Lemma rleP_trans a b c : rleP a b -> rleP b c -> rleP a c.
Proof.
  unfold rleP. destruct a as [la ca|wa], b as [lb cb|wb], c as [lc cc|wc]; cbn; try congruence.
  intros H1 H2.
  assert (lle la lb) by (intros G; rewrite G in H1; discriminate).
  assert (lle lb lc) by (intros G; rewrite G in H2; discriminate).
  pose proof (cle_trans _ Hl _ _ _ H H0) as T. unfold cle in T. destruct (lcmp la lc); congruence.
Qed.

Lemma ssorted_rle_sers l : StronglySorted rleP l -> StronglySorted lle (map fst (sers l)).
Proof.
  induction 1 as [|x r Hs IH Hf]; [constructor|].
  destruct x as [lx cx|w]; [|exact IH].
  change (sers (RSeries lx cx :: r)) with ((lx, cx) :: sers r). cbn [map fst].
  constructor; [exact IH|]. apply Forall_forall. intros Y HY.
  apply in_map_iff in HY as [[Y' cs] [E HY]]. cbn in E. subst Y'. apply in_sers in HY.
  rewrite Forall_forall in Hf. specialize (Hf _ HY). unfold rleP in Hf. cbn in Hf.
  intros G. rewrite G in Hf. discriminate.
Qed.

Lemma sort_without_labels_sorted rm l : StronglySorted lle (map fst (sers (sort_without_labels lcmp rm l))).
Proof.
  unfold sort_without_labels. apply ssorted_rle_sers.
  apply Sorted_StronglySorted; [intros a b c; apply rleP_trans | apply rsort_sorted].
Qed.

Definition rm_resp (rm : L -> L) (r : resp) : resp := match r with RSeries lb cs => RSeries (rm lb) cs | _ => r end.
Lemma sort_without_labels_perm rm l : Permutation (sort_without_labels lcmp rm l) (map (rm_resp rm) l).
Proof. unfold sort_without_labels. apply rsort_perm. Qed.

(* ---------- G. the whole pipeline, given that the merge emits minimal heads ---------- *)
Notation script := (@script L C W).

Lemma sers_perm (l l' : list resp) : Permutation l l' -> Permutation (sers l) (sers l').
Proof.
  induction 1 as [|x l l' _ IH|x y l|l l' l'' _ IH1 _ IH2].
  - constructor.
  - change (sers (x :: l)) with (ser1 x ++ sers l). change (sers (x :: l')) with (ser1 x ++ sers l').
    apply Permutation_app_head. exact IH.
  - change (sers (y :: x :: l)) with (ser1 y ++ ser1 x ++ sers l).
    change (sers (x :: y :: l)) with (ser1 x ++ ser1 y ++ sers l).
    rewrite !app_assoc. apply Permutation_app_tail. apply Permutation_app_comm.
  - eapply perm_trans; eassumption.
Qed.
Lemma warns_perm (l l' : list resp) : Permutation l l' -> Permutation (warns l) (warns l').
Proof.
  induction 1 as [|x l l' _ IH|x y l|l l' l'' _ IH1 _ IH2].
  - constructor.
  - change (warns (x :: l)) with (warn1 x ++ warns l). change (warns (x :: l')) with (warn1 x ++ warns l').
    apply Permutation_app_head. exact IH.
  - change (warns (y :: x :: l)) with (warn1 y ++ warn1 x ++ warns l).
    change (warns (x :: y :: l)) with (warn1 x ++ warn1 y ++ warns l).
    rewrite !app_assoc. apply Permutation_app_tail. apply Permutation_app_comm.
  - eapply perm_trans; eassumption.
Qed.
Lemma sers_concat (ss : list (list resp)) : sers (concat ss) = concat (map sers ss).
Proof. induction ss as [|s r IH]; [reflexivity|]. cbn [concat map]. rewrite sers_app, IH. reflexivity. Qed.
Lemma warns_concat (ss : list (list resp)) : warns (concat ss) = concat (map warns ss).
Proof. induction ss as [|s r IH]; [reflexivity|]. cbn [concat map]. rewrite warns_app, IH. reflexivity. Qed.

Lemma concat_map_perm {A B} (f g : A -> list B) l :
  (forall x, In x l -> Permutation (f x) (g x)) -> Permutation (concat (map f l)) (concat (map g l)).
Proof.
  induction l as [|x r IH]; intros H; [constructor|]. cbn [map concat].
  apply Permutation_app; [apply H; left; reflexivity | apply IH; intros y Hy; apply H; right; exact Hy].
Qed.

Lemma sers_map_rm rm (l : list resp) : sers (map (rm_resp rm) l) = map (fun p => (rm (fst p), snd p)) (sers l).
Proof.
  induction l as [|x r IH]; [reflexivity|]. cbn [map].
  change (sers (rm_resp rm x :: map (rm_resp rm) r)) with (ser1 (rm_resp rm x) ++ sers (map (rm_resp rm) r)).
  change (sers (x :: r)) with (ser1 x ++ sers r). rewrite map_app, IH. destruct x; reflexivity.
Qed.
Lemma warns_map_rm rm (l : list resp) : warns (map (rm_resp rm) l) = warns l.
Proof.
  induction l as [|x r IH]; [reflexivity|]. cbn [map].
  change (warns (rm_resp rm x :: map (rm_resp rm) r)) with (warn1 (rm_resp rm x) ++ warns (map (rm_resp rm) r)).
  change (warns (x :: r)) with (warn1 x ++ warns r). rewrite IH. destruct x; reflexivity.
Qed.

(* the series a store sent, with the labels the proxy presents them under *)
Definition presented (wrl : bool) (rm : L -> L) (s : script) : list (L * list C) :=
  map (fun p => (if negb (ssupports s) && wrl then rm (fst p) else fst p, snd p)) (sers (flatten_frames (sframes s))).

Lemma resp_set_sers lazy wrl rm (s : script) :
  send s = EEof -> Permutation (sers (resp_set lcmp lazy wrl rm s)) (presented wrl rm s).
Proof.
  intros He. unfold resp_set, presented. rewrite He, app_nil_r.
  destruct (negb (ssupports s) && wrl).
  - eapply perm_trans; [apply sers_perm, sort_without_labels_perm|]. rewrite sers_map_rm. apply Permutation_refl.
  - assert (map (fun p : L * list C => (fst p, snd p)) (sers (flatten_frames (sframes s))) = sers (flatten_frames (sframes s))) as ->.
    { rewrite <- (map_id (sers _)) at 2. apply map_ext. intros [a b]. reflexivity. }
    destruct lazy; [apply Permutation_refl|].
    eapply perm_trans; [apply sers_perm, sort_without_labels_perm|]. rewrite sers_map_rm.
    rewrite <- (map_id (sers _)) at 2. apply Permutation_refl' . apply map_ext. intros [a b]. reflexivity.
Qed.

Lemma resp_set_warns lazy wrl rm (s : script) :
  send s = EEof -> Permutation (warns (resp_set lcmp lazy wrl rm s)) (warns (flatten_frames (sframes s))).
Proof.
  intros He. unfold resp_set. rewrite He, app_nil_r.
  destruct (negb (ssupports s) && wrl); [|destruct lazy; [apply Permutation_refl|]];
    (eapply perm_trans; [apply warns_perm, sort_without_labels_perm|]; rewrite warns_map_rm; apply Permutation_refl).
Qed.

(* which streams meet the merge's precondition: re-sorted ones always, lazily forwarded
   ones when the store sent its series sorted by labels *)
Lemma resp_set_sorted lazy wrl rm (s : script) :
  (lazy = true -> negb (ssupports s) && wrl = false ->
     StronglySorted lle (map fst (sers (flatten_frames (sframes s) ++ match send s with EEof => [] | ERecvErr w => [RWarn w] end)))) ->
  StronglySorted lle (map fst (sers (resp_set lcmp lazy wrl rm s))).
Proof.
  intros H. unfold resp_set. destruct (negb (ssupports s) && wrl); [apply sort_without_labels_sorted|].
  destruct lazy; [apply H; reflexivity | apply sort_without_labels_sorted].
Qed.

Lemma open_all_none (ss : list script) :
  (forall s, In s ss -> sopen_err s = None) -> open_all false ss = Some ([], ss).
Proof.
  induction ss as [|s r IH]; intros H; [reflexivity|]. cbn [open_all].
  rewrite (H s) by (left; reflexivity). rewrite IH by (intros x Hx; apply H; right; exact Hx). reflexivity.
Qed.

Lemma series_loop_all lbreak limit (l : list resp) : forall i,
  (forall j, lbreak limit j = false) -> series_loop lbreak false limit i l = (l, false).
Proof.
  induction l as [|x r IH]; intros i H; [reflexivity|]. cbn [series_loop]. rewrite H.
  destruct x; rewrite IH by exact H; reflexivity.
Qed.

Lemma chunks_of_in X s c : In c (chunks_of X s) <-> exists cs, In (X, cs) s /\ In c cs.
Proof.
  unfold chunks_of. rewrite in_concat. split.
  - intros [l [Hl' Hc]]. apply in_map_iff in Hl' as [[Y cs] [E Hin]]. cbn [fst snd] in E.
    destruct (leqb Y X) eqn:Q; subst l; [|contradiction]. apply leqb_eq in Q. subst Y. exists cs. tauto.
  - intros [cs [Hin Hc]]. exists cs. split; [|exact Hc]. apply in_map_iff. exists (X, cs).
    cbn [fst snd]. rewrite leqb_refl. tauto.
Qed.

Theorem pipeline_spec lbreak lazy wrl rm limit batch (scripts : list script) :
  (forall i, lbreak limit i = false) ->
  (forall s, In s scripts -> sopen_err s = None /\ send s = EEof) ->
  let streams := map (resp_set lcmp lazy wrl rm) scripts in
  streams_sorted streams ->
  min_run streams (lt_merge lcmp wlen streams) ->
  exists frames,
    proxy_series lcmp ckey keqb cleb wlen lbreak lazy wrl false false rm limit batch scripts = Some frames
    /\ let outs := sers (unbatch frames) in
       let ins := concat (map (presented wrl rm) scripts) in
       StronglySorted llt (map fst outs)
       /\ (forall X cs, In (X, cs) outs ->
             Sorted R cs /\ NoDup (map ckey cs)
             /\ forall k, In k (map ckey cs) <-> exists cs', In (X, cs') ins /\ In k (map ckey cs'))
       /\ (forall X, In X (map fst outs) <-> In X (map fst ins))
       /\ Permutation (warns (unbatch frames)) (concat (map (fun s => warns (flatten_frames (sframes s))) scripts)).
Proof.
  intros Hlim Hok streams Hsorted Hrun.
  unfold proxy_series. rewrite open_all_none by (intros s Hs; apply Hok; exact Hs).
  fold streams. set (merged := lt_merge lcmp wlen streams) in *.
  rewrite series_loop_all by exact Hlim. cbn [map app].
  eexists. split; [reflexivity|]. cbv zeta. rewrite unbatch_send_all.
  pose proof (min_run_sorted _ _ Hrun Hsorted) as Hms.
  pose proof (min_run_perm _ _ Hrun) as Hperm.
  rewrite dedup_sers. destruct (group_spec (sers merged) None Hms) as [G1 [G2 G3]]. cbn [olist app] in G2, G3.
  (* membership in the merged stream = membership in some store's presented series *)
  assert (Hin : forall x, In x (sers merged) <-> In x (concat (map (presented wrl rm) scripts))).
  { intros x. split; intros H.
    - apply (Permutation_in _ (sers_perm _ _ Hperm)) in H. rewrite sers_concat in H.
      apply in_concat in H as [l [Hl' Hx]]. apply in_map_iff in Hl' as [st [E Hst]]. subst l.
      unfold streams in Hst. apply in_map_iff in Hst as [s [E Hs]]. subst st.
      apply in_concat. exists (presented wrl rm s). split; [apply in_map; exact Hs|].
      eapply Permutation_in; [apply resp_set_sers; apply Hok; exact Hs | exact Hx].
    - apply in_concat in H as [l [Hl' Hx]]. apply in_map_iff in Hl' as [s [E Hs]]. subst l.
      apply (Permutation_in _ (Permutation_sym (sers_perm _ _ Hperm))). rewrite sers_concat.
      apply in_concat. exists (sers (resp_set lcmp lazy wrl rm s)). split.
      + apply in_map. unfold streams. apply in_map. exact Hs.
      + eapply Permutation_in; [apply Permutation_sym, resp_set_sers; apply Hok; exact Hs | exact Hx]. }
  assert (Hfst : map fst (map chainS (group None (sers merged))) = map fst (group None (sers merged))).
  { rewrite map_map. apply map_ext. intros [a b]. reflexivity. }
  split; [rewrite Hfst; exact G1|]. split; [|split].
  - intros X cs HX. apply in_map_iff in HX as [[X' cs0] [E HX]]. unfold chainS in E. cbn [fst snd] in E.
    inversion E; subst X' cs. clear E. pose proof (G2 _ _ HX) as E0.
    destruct (chained_spec cs0) as [S1 [S2 [S3 _]]]. split; [exact S1|]. split; [exact S2|].
    intros k. rewrite S3, E0. rewrite in_map_iff. split.
    + intros [c [Ek Hc]]. apply chunks_of_in in Hc as [cs' [Hcs' Hc]]. exists cs'. split; [apply Hin; exact Hcs'|].
      subst k. apply in_map. exact Hc.
    + intros [cs' [Hcs' Hk']]. apply in_map_iff in Hk' as [c [Ek Hc]]. exists c. split; [exact Ek|].
      apply chunks_of_in. exists cs'. split; [apply Hin; exact Hcs' | exact Hc].
  - intros X. rewrite Hfst, G3. rewrite !in_map_iff. split; intros [[Y cs] [E H]]; exists (Y, cs); (split; [exact E|]); apply Hin; exact H.
  - rewrite dedup_warns. eapply perm_trans; [apply warns_perm; exact Hperm|]. rewrite warns_concat.
    unfold streams. rewrite map_map. apply concat_map_perm. intros s Hs. apply resp_set_warns. apply Hok. exact Hs.
Qed.

End Proofs.
