(* Crash group (C28, C35): the modelled functions issue only guarded operations
   (so the invariant of Crash_BlockFacts holds at every crash point), and what
   they have achieved when they return. All lemmas are stated for the phase
   orders [std_*]; the property files prove that the orders computed from the
   source (Gen) are these. *)
From Coq Require Import ZArith NArith List Bool Lia Arith.
Import ListNotations.
From Verif Require Import Lib.Corr Lib.Crash_Store Lib.Crash_Block Lib.Crash_BlockFacts.

Definition std_upload : list uphase := [PChunks; PIndex; PMeta].
Definition std_delete : list dphase := [DMeta; DRest; DMark; DDirs].
Definition std_replicate : list rphase := [RChunks; RIndex; RMeta].

Lemma firstn_In_local {A} (l : list A) k x : In x (firstn k l) -> In x l.
Proof.
  revert k. induction l as [|y r IH]; intros k H; destruct k; simpl in *; try contradiction.
  destruct H as [H|H]; [left; exact H|right; eapply IH; exact H].
Qed.

Notation bguarded U := (guarded key obj key_eqb key_ltb (op_guard U)).

Lemma bapply_ops_app b l1 l2 : bapply_ops b (l1 ++ l2) = bapply_ops (bapply_ops b l1) l2.
Proof. apply apply_ops_app. Qed.

(* ---------------- block.upload ---------------- *)
Definition data_keys (id : N) (order : list N) : list key :=
  map (fun n => (id, FChunk n)) order ++ [(id, FIndex)].

Lemma upload_ops_std U id order cid lbl bl :
  ublock U id = Some bl -> perm_b order (map fst (b_chunks bl)) = true ->
  upload_ops std_upload U id order cid lbl =
    Some (map (fun k => Up k (data_val bl (snd k))) (data_keys id order)
          ++ [Up (id, FMeta) (MetaO cid (files_of bl) lbl)]).
Proof.
  intros Hu Hp. unfold upload_ops. rewrite Hu, Hp. f_equal. simpl. rewrite ?app_nil_r.
  unfold data_keys. rewrite map_app, map_map. simpl. rewrite <- ?app_assoc. simpl. reflexivity.
Qed.

Lemma upload_data_present U id order bl b :
  wf_univ U -> ublock U id = Some bl -> perm_b order (map fst (b_chunks bl)) = true ->
  all_data_present (bapply_ops b (map (fun k => Up k (data_val bl (snd k))) (data_keys id order))) id bl.
Proof.
  intros Hwf Hu Hp f sz Hin Hd.
  destruct (files_of_data _ _ _ (Hwf _ _ Hu) Hin Hd) as [Hv Hf].
  unfold bapply_ops, bget.
  rewrite (get_after_ups_map key obj key_eqb key_ltb key_eqb_spec (fun k => data_val bl (snd k))).
  - simpl. rewrite Hv. reflexivity.
  - unfold data_keys. apply in_or_app. destruct Hf as [[n [Hf Hn]]|Hf]; subst f.
    + left. apply in_map_iff. exists n. split; [reflexivity|]. apply (perm_b_spec _ _ Hp). exact Hn.
    + right. left. reflexivity.
Qed.

Lemma upload_guarded U b id order cid lbl l :
  wf_univ U -> upload_ops std_upload U id order cid lbl = Some l -> bguarded U b l.
Proof.
  intros Hwf Hl.
  destruct (ublock U id) as [bl|] eqn:Hu.
  2:{ unfold upload_ops in Hl. rewrite Hu in Hl. inversion Hl. exact I. }
  destruct (perm_b order (map fst (b_chunks bl))) eqn:Hp.
  2:{ unfold upload_ops in Hl. rewrite Hu, Hp in Hl. discriminate. }
  rewrite (upload_ops_std U id order cid lbl bl Hu Hp) in Hl. inversion Hl; subst l. clear Hl.
  apply guarded_app. split.
  - apply guarded_stateless. intros o Ho s.
    apply in_map_iff in Ho as [[i f] [Ho Hk]]. subst o. simpl.
    unfold data_keys in Hk. apply in_app_or in Hk as [Hk|[Hk|[]]].
    + apply in_map_iff in Hk as [n [Hk Hn]]. inversion Hk; subst. simpl.
      exists bl, (chunk_size bl n). split; [exact Hu|]. split; [|reflexivity].
      apply files_of_chunk. apply (perm_b_spec _ _ Hp). exact Hn.
    + inversion Hk; subst. simpl. exists bl, (b_index bl). split; [exact Hu|]. split; [apply files_of_index|reflexivity].
  - simpl. split; [|exact I]. exists bl, cid, lbl. split; [exact Hu|]. split; [reflexivity|].
    apply (upload_data_present U); assumption.
Qed.

(* a completed upload of a known block leaves its meta.json in the bucket *)
Lemma upload_final U b id order cid lbl l bl :
  ublock U id = Some bl -> upload_ops std_upload U id order cid lbl = Some l ->
  bget (bapply_ops b l) (id, FMeta) = Some (MetaO cid (files_of bl) lbl).
Proof.
  intros Hu Hl.
  destruct (perm_b order (map fst (b_chunks bl))) eqn:Hp.
  2:{ unfold upload_ops in Hl. rewrite Hu, Hp in Hl. discriminate. }
  rewrite (upload_ops_std U id order cid lbl bl Hu Hp) in Hl. inversion Hl; subst l.
  rewrite bapply_ops_app. simpl. apply bget_put_same.
Qed.

(* ---------------- block.Delete ---------------- *)
Lemma guarded_dels_nometa U id l : forall s,
  forallb (is_del key obj) l = true -> (forall o, In o l -> fst (op_key key obj o) = id) ->
  bget s (id, FMeta) = None -> bguarded U s l.
Proof.
  induction l as [|o r IH]; intros s Hd Hk Hm; simpl; [exact I|].
  simpl in Hd. apply andb_true_iff in Hd as [Ho Hr].
  destruct o as [k v|[i f]]; [discriminate|].
  assert (Hi : i = id) by (apply (Hk (Del (i, f))); left; reflexivity). subst i.
  split.
  - simpl. intros _. exact Hm.
  - apply IH; [exact Hr| intros o' Ho'; apply Hk; right; exact Ho' |].
    simpl. destruct (key_dec (id, FMeta) (id, f)) as [E|E].
    + rewrite <- E. apply bget_del_same.
    + fold bdel. rewrite bget_del_other by exact E. exact Hm.
Qed.

Definition delete_meta_part (b : bucket) (id : N) : list bop :=
  if bhas b (id, FMeta) then [Del (id, FMeta)] else [].
Definition delete_mark_part (b : bucket) (id : N) : list bop :=
  if bhas b (id, FDelMark) then [Del (id, FDelMark)] else [].

Lemma delete_ops_std b id order l :
  delete_ops std_delete b id order = Some l ->
  perm_files order (rest_files b id) = true /\
  l = delete_meta_part b id ++ map (fun f => Del (id, f)) order ++ delete_mark_part b id
      ++ [Del (id, FDirChunks); Del (id, FDirBlock)].
Proof.
  unfold delete_ops. destruct (perm_files order (rest_files b id)) eqn:Hp; [|discriminate].
  intros H. inversion H. split; [reflexivity|]. reflexivity.
Qed.

Lemma delete_all_dels b id order l :
  delete_ops std_delete b id order = Some l ->
  forallb (is_del key obj) l = true /\ (forall o, In o l -> fst (op_key key obj o) = id).
Proof.
  intros H. apply delete_ops_std in H as [_ H]. subst l.
  unfold delete_meta_part, delete_mark_part. split.
  - rewrite !forallb_app. destruct (bhas b (id, FMeta)), (bhas b (id, FDelMark)); simpl;
      rewrite ?andb_true_r; try (apply forallb_forall; intros o Ho; apply in_map_iff in Ho as [f [Ho _]]; subst; reflexivity).
  - intros o Ho. repeat (apply in_app_or in Ho as [Ho|Ho]).
    + destruct (bhas b (id, FMeta)); [|contradiction]. destruct Ho as [Ho|[]]; subst; reflexivity.
    + apply in_map_iff in Ho as [f [Ho _]]; subst; reflexivity.
    + destruct (bhas b (id, FDelMark)); [|contradiction]. destruct Ho as [Ho|[]]; subst; reflexivity.
    + destruct Ho as [Ho|[Ho|[]]]; subst; reflexivity.
Qed.

Lemma delete_guarded U b id order l :
  delete_ops std_delete b id order = Some l -> bguarded U b l.
Proof.
  intros H. pose proof (delete_all_dels _ _ _ _ H) as [Hd Hk].
  apply delete_ops_std in H as [_ H]. subst l.
  apply guarded_app. split.
  - unfold delete_meta_part. destruct (bhas b (id, FMeta)); simpl; [|exact I].
    split; [intros Hx; discriminate|exact I].
  - rewrite forallb_app in Hd. apply andb_true_iff in Hd as [_ Hd].
    apply (guarded_dels_nometa U id); [exact Hd| |].
    + intros o Ho. apply Hk. apply in_or_app. right. exact Ho.
    + unfold delete_meta_part. destruct (bhas b (id, FMeta)) eqn:Hh; simpl.
      * apply bget_del_same.
      * apply bhas_false. exact Hh.
Qed.

Lemma rest_files_spec b id f :
  In f (rest_files b id) <-> In (id, f) (map fst b) /\ kept_by_rest f = false.
Proof.
  unfold rest_files, block_keys. rewrite filter_In, in_map_iff. split.
  - intros [[[i g] [Hg Hin]] Hk]. simpl in Hg. subst g. apply filter_In in Hin as [Hin Hi].
    simpl in Hi. apply N.eqb_eq in Hi. subst i. split; [exact Hin|]. destruct (kept_by_rest f); [discriminate|reflexivity].
  - intros [Hin Hk]. split.
    + exists (id, f). split; [reflexivity|]. apply filter_In. split; [exact Hin|]. simpl. apply N.eqb_refl.
    + rewrite Hk. reflexivity.
Qed.

Lemma gone_spec s id :
  (forall f, is_dirmarker f = false -> bget s (id, f) = None) -> block_gone_b s id = true.
Proof.
  intros H. unfold block_gone_b. apply forallb_forall. intros [i f] Hk. simpl.
  destruct (N.eqb i id) eqn:E; [|reflexivity]. apply N.eqb_eq in E. subst i. simpl.
  destruct (is_dirmarker f) eqn:Hd; [reflexivity|].
  apply (keys_get key obj key_eqb key_ltb key_eqb_spec) in Hk as [v Hv].
  specialize (H f Hd). unfold bget in H. congruence.
Qed.

(* state after the meta, rest and mark phases: nothing but directory markers is left *)
Lemma delete_gone_after_mark b id order :
  perm_files order (rest_files b id) = true ->
  forall f, is_dirmarker f = false ->
  bget (bapply_ops b (delete_meta_part b id ++ map (fun f => Del (id, f)) order ++ delete_mark_part b id)) (id, f) = None.
Proof.
  intros Hp f Hd.
  set (l := delete_meta_part b id ++ map (fun f => Del (id, f)) order ++ delete_mark_part b id).
  assert (Hall : forallb (is_del key obj) l = true).
  { unfold l, delete_meta_part, delete_mark_part. rewrite !forallb_app.
    destruct (bhas b (id, FMeta)), (bhas b (id, FDelMark)); simpl; rewrite ?andb_true_r;
      apply forallb_forall; intros o Ho; apply in_map_iff in Ho as [g [Ho _]]; subst; reflexivity. }
  destruct (bget b (id, f)) as [v|] eqn:Hg.
  2:{ apply (get_none_after_dels key obj key_eqb key_ltb key_eqb_spec); assumption. }
  apply (get_none_after_del_in key obj key_eqb key_ltb key_eqb_spec); [exact Hall|].
  unfold l. destruct (kept_by_rest f) eqn:Hk.
  - destruct f; try discriminate.
    + apply in_or_app. left. unfold delete_meta_part.
      replace (bhas b (id, FMeta)) with true; [left; reflexivity|]. symmetry. apply bhas_true. congruence.
    + apply in_or_app. right. apply in_or_app. right. unfold delete_mark_part.
      replace (bhas b (id, FDelMark)) with true; [left; reflexivity|]. symmetry. apply bhas_true. congruence.
  - apply in_or_app. right. apply in_or_app. left. apply in_map_iff. exists f. split; [reflexivity|].
    apply (perm_files_spec _ _ Hp). apply rest_files_spec. split; [|exact Hk].
    apply (get_some_keys key obj key_eqb key_eqb_spec) with (v := v). exact Hg.
Qed.

(* a completed Delete leaves nothing of the block but directory markers *)
Lemma delete_final b id order l :
  delete_ops std_delete b id order = Some l -> block_gone_b (bapply_ops b l) id = true.
Proof.
  intros H. apply delete_ops_std in H as [Hp H]. subst l.
  apply gone_spec. intros f Hd.
  rewrite !app_assoc. rewrite bapply_ops_app. rewrite <- !app_assoc.
  apply (get_none_after_dels key obj key_eqb key_ltb key_eqb_spec); [reflexivity|].
  apply delete_gone_after_mark; assumption.
Qed.

(* at every crash point of a Delete of a block that carried a deletion mark: the mark
   is still there, or nothing else is *)
Lemma delete_mark_kept b id order l :
  delete_ops std_delete b id order = Some l ->
  bhas b (id, FDelMark) = true ->
  forall b', In b' (bstates b l) -> mark_or_gone_b b' id = true.
Proof.
  intros H Hm b' Hin. apply delete_ops_std in H as [Hp H]. subst l.
  unfold mark_or_gone_b.
  set (A := delete_meta_part b id ++ map (fun f => Del (id, f)) order).
  assert (HA : forall o, In o A -> (id, FDelMark) <> op_key key obj o).
  { intros o Ho. unfold A in Ho. apply in_app_or in Ho as [Ho|Ho].
    - unfold delete_meta_part in Ho. destruct (bhas b (id, FMeta)); [|contradiction].
      destruct Ho as [Ho|[]]; subst; simpl; congruence.
    - apply in_map_iff in Ho as [f [Ho Hf]]. subst o. simpl. intros E. inversion E; subst f.
      apply (perm_files_spec _ _ Hp) in Hf. apply rest_files_spec in Hf as [_ Hf]. discriminate. }
  replace (delete_meta_part b id ++ map (fun f => Del (id, f)) order ++ delete_mark_part b id
           ++ [Del (id, FDirChunks); Del (id, FDirBlock)])
    with (A ++ (delete_mark_part b id ++ [Del (id, FDirChunks); Del (id, FDirBlock)])) in Hin
    by (unfold A; rewrite <- !app_assoc; reflexivity).
  apply (states_app key obj key_eqb key_ltb) in Hin as [Hin|Hin].
  - (* inside the meta/rest phases the mark is untouched *)
    apply (states_firstn key obj key_eqb key_ltb) in Hin as [k [_ Hk]]. subst b'.
    apply orb_true_iff. left. apply bhas_true.
    unfold bget. rewrite (get_apply_ops_other key obj key_eqb key_ltb key_eqb_spec).
    + apply bhas_true. exact Hm.
    + intros o Ho. apply HA. eapply firstn_In_local; exact Ho.
  - unfold delete_mark_part in Hin. rewrite Hm in Hin. simpl in Hin.
    assert (Hgone : forall f, is_dirmarker f = false ->
              bget (bdel (bapply_ops b A) (id, FDelMark)) (id, f) = None).
    { intros f Hd.
      pose proof (delete_gone_after_mark b id order Hp f Hd) as G.
      unfold delete_mark_part in G. rewrite Hm in G.
      rewrite app_assoc in G. fold A in G. rewrite bapply_ops_app in G. exact G. }
    destruct Hin as [Hin|[Hin|[Hin|[Hin|[]]]]]; subst b'.
    + apply orb_true_iff. left. apply bhas_true. unfold bget, bapply_ops.
      rewrite (get_apply_ops_other key obj key_eqb key_ltb key_eqb_spec); [apply bhas_true; exact Hm|exact HA].
    + apply orb_true_iff. right. apply gone_spec. exact Hgone.
    + apply orb_true_iff. right. apply gone_spec. intros f Hd.
      apply (get_none_after_dels key obj key_eqb key_ltb key_eqb_spec [Del (id, FDirChunks)]); [reflexivity|].
      apply Hgone; exact Hd.
    + apply orb_true_iff. right. apply gone_spec. intros f Hd.
      apply (get_none_after_dels key obj key_eqb key_ltb key_eqb_spec [Del (id, FDirChunks); Del (id, FDirBlock)]); [reflexivity|].
      apply Hgone; exact Hd.
Qed.

(* ---------------- block.MarkForDeletion ---------------- *)
Lemma mark_guarded U b id sz : bguarded U b (mark_ops b id sz).
Proof.
  unfold mark_ops. destruct (bhas b (id, FDelMark)); simpl; [exact I|]. split; exact I.
Qed.

Lemma mark_final b id sz : bhas (bapply_ops b (mark_ops b id sz)) (id, FDelMark) = true.
Proof.
  unfold mark_ops. destruct (bhas b (id, FDelMark)) eqn:E; simpl; [exact E|].
  apply bhas_true. fold bput. rewrite bget_put_same. discriminate.
Qed.

(* ---------------- ensureBlockIsReplicated ---------------- *)
Definition chunk_keys (src : bucket) (id : N) : list key :=
  filter (fun k => is_chunk (snd k)) (block_keys src id).

Definition src_val (src : bucket) (k : key) : obj :=
  match bget src k with Some o => o | None => Blob 0 end.

Definition copy_keys (src dst : bucket) (id : N) : list key :=
  filter (fun k => negb (bhas dst k)) (chunk_keys src id ++ [(id, FIndex)]).

Lemma seq_opt_copy src dst ks :
  (forall k, In k ks -> bget src k <> None) ->
  seq_opt (map (copy_ops src dst) ks)
  = Some (map (fun k => Up k (src_val src k)) (filter (fun k => negb (bhas dst k)) ks)).
Proof.
  induction ks as [|k r IH]; intros H; simpl; [reflexivity|].
  rewrite IH by (intros k' Hk'; apply H; right; exact Hk').
  unfold copy_ops at 1. destruct (bhas dst k) eqn:Hh; simpl; [reflexivity|].
  destruct (bget src k) as [o|] eqn:Hg.
  - replace (src_val src k) with o by (unfold src_val; rewrite Hg; reflexivity). reflexivity.
  - exfalso. apply (H k); [left; reflexivity|exact Hg].
Qed.

Lemma chunk_keys_spec src id k :
  In k (chunk_keys src id) <-> In k (map fst src) /\ fst k = id /\ is_chunk (snd k) = true.
Proof.
  unfold chunk_keys, block_keys. rewrite !filter_In, N.eqb_eq. tauto.
Qed.

(* the op log of a replication that finds the origin block complete *)
Lemma replicate_ops_std U src dst id om :
  binv U src -> bget src (id, FMeta) = Some om ->
  same_content om (bget dst (id, FMeta)) = false ->
  replicate_ops std_replicate src dst id
  = map (fun k => Up k (src_val src k)) (copy_keys src dst id) ++ [Up (id, FMeta) om]
  /\ all_some (A := list bop) (map (replicate_phase src dst id om) std_replicate) <> None.
Proof.
  intros [_ Hco] Hm Hs. destruct (Hco _ _ Hm) as [bl [cid [lbl [Hu [Ho Hall]]]]].
  assert (Hidx : bget src (id, FIndex) <> None).
  { rewrite (Hall FIndex (b_index bl) (files_of_index bl) eq_refl). discriminate. }
  assert (Hck : forall k, In k (chunk_keys src id) -> bget src k <> None).
  { intros k Hk. apply chunk_keys_spec in Hk as [Hk _].
    apply (keys_get key obj key_eqb key_ltb key_eqb_spec) in Hk as [v Hv]. unfold bget. congruence. }
  unfold replicate_ops. rewrite Hm, Hs. unfold std_replicate. simpl.
  fold (chunk_keys src id).
  rewrite (seq_opt_copy src dst (chunk_keys src id) Hck).
  pose proof (seq_opt_copy src dst [(id, FIndex)]) as Hi. simpl in Hi.
  assert (Hi' : copy_ops src dst (id, FIndex)
                = Some (map (fun k => Up k (src_val src k)) (filter (fun k => negb (bhas dst k)) [(id, FIndex)]))).
  { specialize (Hi ltac:(intros k [Hk|[]]; subst; exact Hidx)).
    destruct (copy_ops src dst (id, FIndex)) as [x|]; [|discriminate].
    rewrite app_nil_r in Hi. exact Hi. }
  rewrite Hi'. split.
  - unfold copy_keys. rewrite filter_app, map_app. rewrite <- app_assoc. reflexivity.
  - simpl. discriminate.
Qed.

Lemma copy_keys_data src dst id k :
  In k (copy_keys src dst id) -> fst k = id /\ is_data (snd k) = true /\ bhas dst k = false.
Proof.
  unfold copy_keys. rewrite filter_In. intros [Hk Hh].
  split; [|split; [|destruct (bhas dst k); [discriminate|reflexivity]]].
  - apply in_app_or in Hk as [Hk|[Hk|[]]]; [apply chunk_keys_spec in Hk; tauto|subst; reflexivity].
  - apply in_app_or in Hk as [Hk|[Hk|[]]].
    + apply chunk_keys_spec in Hk as [_ [_ Hc]]. destruct k as [i f]. simpl in *. destruct f; try discriminate; reflexivity.
    + subst; reflexivity.
Qed.

Lemma replicate_guarded U src dst id :
  wf_univ U -> binv U src -> binv U dst ->
  bguarded U dst (replicate_ops std_replicate src dst id).
Proof.
  intros Hwf Hsrc Hdst.
  destruct (bget src (id, FMeta)) as [om|] eqn:Hm.
  2:{ unfold replicate_ops. rewrite Hm. exact I. }
  destruct (same_content om (bget dst (id, FMeta))) eqn:Hs.
  1:{ unfold replicate_ops. rewrite Hm, Hs. exact I. }
  destruct (replicate_ops_std U src dst id om Hsrc Hm Hs) as [Hops _]. rewrite Hops.
  destruct Hsrc as [Hag Hco]. destruct (Hco _ _ Hm) as [bl [cid [lbl [Hu [Ho Hall]]]]].
  apply guarded_app. split.
  - apply guarded_stateless. intros o Ho' s. apply in_map_iff in Ho' as [k [Ho' Hk]]. subst o.
    pose proof (copy_keys_data _ _ _ _ Hk) as [Hi [Hd _]]. destruct k as [i f]. simpl in *. subst i.
    rewrite Hd.
    assert (Hg : bget src (id, f) <> None).
    { unfold copy_keys in Hk. apply filter_In in Hk as [Hk _]. apply in_app_or in Hk as [Hk|[Hk|[]]].
      - apply chunk_keys_spec in Hk as [Hk _].
        apply (keys_get key obj key_eqb key_ltb key_eqb_spec) in Hk as [v Hv]. unfold bget. congruence.
      - inversion Hk; subst. rewrite (Hall FIndex (b_index bl) (files_of_index bl) eq_refl). discriminate. }
    unfold src_val. destruct (bget src (id, f)) as [o|] eqn:Hgo; [|congruence].
    destruct (Hag _ _ _ Hd Hgo) as [bl' [sz [Hu' [Hin Hv]]]]. exists bl', sz. auto.
  - simpl. split; [|exact I]. exists bl, cid, lbl. split; [exact Hu|]. split; [exact Ho|].
    intros f sz Hin Hd. specialize (Hall f sz Hin Hd).
    destruct (bhas dst (id, f)) eqn:Hh.
    + (* already in the target: same size by agreement with the universe *)
      unfold bapply_ops, bget.
      rewrite (get_after_ups_map_other key obj key_eqb key_ltb key_eqb_spec).
      2:{ intros Hk. apply copy_keys_data in Hk as [_ [_ Hk]]. congruence. }
      apply bhas_true in Hh. destruct (bget dst (id, f)) as [o|] eqn:Hgo; [|congruence].
      destruct Hdst as [Hagd _]. destruct (Hagd _ _ _ Hd Hgo) as [bl' [sz' [Hu' [Hin' Hv]]]].
      rewrite Hu in Hu'. inversion Hu'; subst bl'. subst o. fold (bget dst (id, f)). rewrite Hgo.
      destruct (files_of_data _ _ _ (Hwf _ _ Hu) Hin Hd) as [E1 _].
      destruct (files_of_data _ _ _ (Hwf _ _ Hu) Hin' Hd) as [E2 _].
      rewrite E1, E2. reflexivity.
    + unfold bapply_ops, bget.
      rewrite (get_after_ups_map key obj key_eqb key_ltb key_eqb_spec (src_val src)).
      * unfold src_val. rewrite Hall. reflexivity.
      * unfold copy_keys. apply filter_In. split; [|rewrite Hh; reflexivity].
        apply in_or_app. destruct (files_of_data _ _ _ (Hwf _ _ Hu) Hin Hd) as [_ [[n [Hf _]]|Hf]]; subst f.
        -- left. apply chunk_keys_spec. split; [|split; reflexivity].
           apply (get_some_keys key obj key_eqb key_eqb_spec) with (v := Blob sz). exact Hall.
        -- right. left. reflexivity.
Qed.

(* a replication that returns nil left the origin's meta.json in the target *)
Lemma replicate_final U src dst id om :
  binv U src -> bget src (id, FMeta) = Some om ->
  same_content om (bget (bapply_ops dst (replicate_ops std_replicate src dst id)) (id, FMeta)) = true.
Proof.
  intros Hsrc Hm.
  destruct (same_content om (bget dst (id, FMeta))) eqn:Hs.
  - unfold replicate_ops. rewrite Hm, Hs. exact Hs.
  - destruct (replicate_ops_std U src dst id om Hsrc Hm Hs) as [Hops _]. rewrite Hops.
    rewrite bapply_ops_app. simpl. fold bput. rewrite bget_put_same.
    destruct Hsrc as [_ Hco]. destruct (Hco _ _ Hm) as [bl [cid [lbl [_ [Ho _]]]]]. subst om.
    simpl. apply N.eqb_refl.
Qed.
