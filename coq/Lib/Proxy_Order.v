(* Shared by the proxy properties (C03, C06, ...): Go string order on byte
   strings, labels.Compare on label lists, and the proof that both are total
   orders. [lex_cmp] is the generic lexicographic comparison ("shorter prefix
   first"), [pair_cmp] the name-then-value comparison of one label. *)
From Coq Require Import NArith List Bool Lia.
Import ListNotations.

Definition str := list N.

Record OrdSpec {A} (cmp : A -> A -> comparison) : Prop := {
  cmp_eq : forall a b, cmp a b = Eq <-> a = b;
  cmp_opp : forall a b, cmp b a = CompOpp (cmp a b);
  cmp_lt_trans : forall a b c, cmp a b = Lt -> cmp b c = Lt -> cmp a c = Lt
}.

Fixpoint lex_cmp {A} (cmp : A -> A -> comparison) (a b : list A) : comparison :=
  match a, b with
  | [], [] => Eq
  | [], _ :: _ => Lt
  | _ :: _, [] => Gt
  | x :: a', y :: b' => match cmp x y with Eq => lex_cmp cmp a' b' | c => c end
  end.

Definition pair_cmp {A B} (ca : A -> A -> comparison) (cb : B -> B -> comparison) (p q : A * B) : comparison :=
  match ca (fst p) (fst q) with Eq => cb (snd p) (snd q) | c => c end.

(* Go's string comparison: bytewise lexicographic *)
Definition str_cmp : str -> str -> comparison := lex_cmp N.compare.
(* labels.Compare (slicelabels): per label name, then value; fewer labels first *)
Definition labels := list (str * str).
Definition lbl_cmp : labels -> labels -> comparison := lex_cmp (pair_cmp str_cmp str_cmp).

Lemma N_ord : OrdSpec N.compare.
Proof.
  split.
  - intros a b. apply N.compare_eq_iff.
  - intros a b. apply N.compare_antisym.
  - intros a b c H1 H2. rewrite N.compare_lt_iff in *. lia.
Qed.

Section Lex.
Context {A} (cmp : A -> A -> comparison) (H : OrdSpec cmp).

Lemma ord_refl a : cmp a a = Eq.
Proof. apply (cmp_eq _ H). reflexivity. Qed.

Lemma lex_ord : OrdSpec (lex_cmp cmp).
Proof.
  split.
  - induction a as [|x a IH]; intros [|y b]; cbn; split; intro E; try reflexivity; try discriminate.
    + destruct (cmp x y) eqn:C; try discriminate. apply (cmp_eq _ H) in C. apply IH in E. subst. reflexivity.
    + inversion E; subst. rewrite ord_refl. apply IH. reflexivity.
  - induction a as [|x a IH]; intros [|y b]; cbn; try reflexivity.
    rewrite (cmp_opp _ H x y). destruct (cmp x y); cbn; try reflexivity. apply IH.
  - induction a as [|x a IH]; intros [|y b] [|z c]; cbn; intros H1 H2; try discriminate; try reflexivity.
    destruct (cmp x y) eqn:C1; try discriminate.
    + apply (cmp_eq _ H) in C1. subst y.
      destruct (cmp x z) eqn:C2; try discriminate; try reflexivity. eapply IH; eauto.
    + destruct (cmp y z) eqn:C2; try discriminate.
      * apply (cmp_eq _ H) in C2. subst z. rewrite C1. reflexivity.
      * rewrite (cmp_lt_trans _ H _ _ _ C1 C2). reflexivity.
Qed.
End Lex.

Lemma pair_ord {A B} (ca : A -> A -> comparison) (cb : B -> B -> comparison) :
  OrdSpec ca -> OrdSpec cb -> OrdSpec (pair_cmp ca cb).
Proof.
  intros Ha Hb. split.
  - intros [a1 b1] [a2 b2]. unfold pair_cmp. cbn. split; intro E.
    + destruct (ca a1 a2) eqn:C; try discriminate. apply (cmp_eq _ Ha) in C. apply (cmp_eq _ Hb) in E. subst. reflexivity.
    + inversion E; subst. rewrite (ord_refl _ Ha). apply (ord_refl _ Hb).
  - intros [a1 b1] [a2 b2]. unfold pair_cmp. cbn. rewrite (cmp_opp _ Ha a1 a2).
    destruct (ca a1 a2); cbn; try reflexivity. apply (cmp_opp _ Hb).
  - intros [a1 b1] [a2 b2] [a3 b3]. unfold pair_cmp. cbn. intros H1 H2.
    destruct (ca a1 a2) eqn:C1; try discriminate.
    + apply (cmp_eq _ Ha) in C1. subst a2. destruct (ca a1 a3) eqn:C2; try discriminate; try reflexivity.
      eapply (cmp_lt_trans _ Hb); eauto.
    + destruct (ca a2 a3) eqn:C2; try discriminate.
      * apply (cmp_eq _ Ha) in C2. subst a3. rewrite C1. reflexivity.
      * rewrite (cmp_lt_trans _ Ha _ _ _ C1 C2). reflexivity.
Qed.

Lemma str_ord : OrdSpec str_cmp.
Proof. apply lex_ord. apply N_ord. Qed.

Lemma lbl_ord : OrdSpec lbl_cmp.
Proof. apply lex_ord. apply pair_ord; apply str_ord. Qed.

(* consequences used by the merge / dedup proofs *)
Section Facts.
Context {A} (cmp : A -> A -> comparison) (H : OrdSpec cmp).

Definition cle (a b : A) : Prop := cmp a b <> Gt.

Lemma cmp_gt_lt a b : cmp a b = Gt <-> cmp b a = Lt.
Proof. rewrite (cmp_opp _ H a b). destruct (cmp a b); cbn; split; congruence. Qed.

Lemma cle_refl a : cle a a.
Proof. unfold cle. rewrite (ord_refl _ H). discriminate. Qed.

Lemma cle_trans a b c : cle a b -> cle b c -> cle a c.
Proof.
  unfold cle. intros H1 H2 G.
  destruct (cmp a b) eqn:C1; try congruence.
  - apply (cmp_eq _ H) in C1. subst. congruence.
  - destruct (cmp b c) eqn:C2; try congruence.
    + apply (cmp_eq _ H) in C2. subst. congruence.
    + rewrite (cmp_lt_trans _ H _ _ _ C1 C2) in G. discriminate.
Qed.

Lemma cle_total a b : cle a b \/ cle b a.
Proof.
  unfold cle. destruct (cmp a b) eqn:C; [left|left|right]; try congruence.
  apply cmp_gt_lt in C. congruence.
Qed.

Lemma not_lt_cle a b : cmp a b <> Lt -> cle b a.
Proof. unfold cle. intros N G. apply cmp_gt_lt in G. congruence. Qed.

Lemma lt_le_trans a b c : cmp a b = Lt -> cle b c -> cmp a c = Lt.
Proof.
  unfold cle. intros H1 H2. destruct (cmp b c) eqn:C; try congruence.
  - apply (cmp_eq _ H) in C. subst. exact H1.
  - eapply (cmp_lt_trans _ H); eauto.
Qed.

Lemma le_lt_trans a b c : cle a b -> cmp b c = Lt -> cmp a c = Lt.
Proof.
  unfold cle. intros H1 H2. destruct (cmp a b) eqn:C; try congruence.
  - apply (cmp_eq _ H) in C. subst. exact H2.
  - eapply (cmp_lt_trans _ H); eauto.
Qed.

Lemma cle_antisym a b : cle a b -> cle b a -> a = b.
Proof.
  unfold cle. intros H1 H2. apply (cmp_eq _ H).
  destruct (cmp a b) eqn:C; try congruence.
  exfalso. apply H2. apply cmp_gt_lt. exact C.
Qed.
End Facts.
