(* Lookups on the shared ketama model (group "hashring"): the answers of GetN for
   n = 0..rf-1, permuted endpoint lists, per-zone replica counts. Definitions only;
   lemmas in Lib/Hashring_AnswersFacts.v. Independent of any generated source facts. *)
From Coq Require Import ZArith NArith List Bool Arith.
Import ListNotations.
From Verif Require Import Lib.Hashring_Ketama.

(* ---------------- ketama lookups ---------------- *)
Definition ketama_answers (eps : list (Z * list Z)) (rf : nat) (v : Z) : option (list nat) :=
  match ketama_new eps rf with
  | KOk ring reps =>
      Some (map (fun n => match ketama_getn (length eps) ring reps v n with Some e => e | None => length eps end) (seq 0 rf))
  | _ => None
  end.

Definition permute {A} (d : A) (l : list A) (perm : list nat) : list A := map (fun i => nth i l d) perm.

(* per-zone replica counts differ by at most one *)
Definition az_of (eps : list (Z * list Z)) (e : nat) : Z := fst (nth e eps (0%Z, [])).
Definition zone_count (eps : list (Z * list Z)) (ans : list nat) (az : Z) : nat :=
  length (filter (fun e => (az_of eps e =? az)%Z) ans).
Definition balanced (eps : list (Z * list Z)) (ans : list nat) : bool :=
  let azs := az_set [] eps in
  forallb (fun a => forallb (fun b => zone_count eps ans a <=? zone_count eps ans b + 1) azs) azs.

