(* Counter side of the downsampling model (C37): the reset-adjusted counter [adj],
   what floatAggregator.counter holds in every snapshot, and the format of the
   counter sub-chunk written by downsampleFloatBatch. *)
From Coq Require Import ZArith List Bool Lia Sorted.
Import ListNotations.
From Verif Require Import Lib.Downsample_Core Lib.Downsample_Batch Lib.Downsample_Windows.
Open Scope Z_scope.

(* ---- the specification function ---- *)

Definition step (lastv v : Z) : Z := if v >=? lastv then v - lastv else v.

Fixpoint adj_from (lastv total : Z) (vs : list Z) : Z :=
  match vs with
  | [] => total
  | v :: r => adj_from v (total + step lastv v) r
  end.

(* value of the reset-adjusted cumulative counter after the given raw values *)
Definition adj (vs : list Z) : Z :=
  match vs with
  | [] => 0
  | v :: r => adj_from v v r
  end.

Lemma last_default {A} (l : list A) d d' : l <> [] -> last l d = last l d'.
Proof.
  induction l as [|x l IH]; [congruence|]. intros _. destruct l as [|y l']; [reflexivity|].
  change (last (x :: y :: l') d) with (last (y :: l') d). change (last (x :: y :: l') d') with (last (y :: l') d').
  apply IH. discriminate.
Qed.

Lemma adj_from_snoc : forall vs lastv total v,
  adj_from lastv total (vs ++ [v]) = adj_from lastv total vs + step (last vs lastv) v.
Proof.
  induction vs as [|x vs IH]; intros lastv total v; cbn [app adj_from]; [reflexivity|].
  rewrite IH. destruct vs as [|z vs']; [reflexivity|].
  change (last (x :: z :: vs') lastv) with (last (z :: vs') lastv).
  rewrite (last_default (z :: vs') x lastv) by discriminate. reflexivity.
Qed.

Lemma adj_snoc vs v : vs <> [] -> adj (vs ++ [v]) = adj vs + step (last vs 0) v.
Proof.
  destruct vs as [|x vs]; [congruence|]. intros _. cbn [app adj]. rewrite adj_from_snoc.
  destruct vs as [|z vs']; [reflexivity|].
  change (last (x :: z :: vs') 0) with (last (z :: vs') 0).
  rewrite (last_default (z :: vs') x 0) by discriminate. reflexivity.
Qed.

Lemma adj_from_total : forall vs lastv total, adj_from lastv total vs = total + adj_from lastv 0 vs.
Proof.
  induction vs as [|x vs IH]; intros lastv total; cbn [adj_from]; [lia|].
  rewrite IH, (IH x (0 + step lastv x)). lia.
Qed.

(* continuing after a prefix only depends on the prefix's adjusted value and last raw value *)
Lemma adj_app pre vs : pre <> [] ->
  adj (pre ++ vs) = adj pre + adj_from (last pre 0) 0 vs.
Proof.
  revert pre. induction vs as [|v vs IH]; intros pre Hne.
  - rewrite app_nil_r. cbn. lia.
  - replace (pre ++ v :: vs) with ((pre ++ [v]) ++ vs) by (rewrite <- app_assoc; reflexivity).
    rewrite IH by (destruct pre; discriminate). rewrite adj_snoc by exact Hne.
    rewrite last_last. cbn [adj_from]. rewrite (adj_from_total vs v (0 + step (last pre 0) v)). lia.
Qed.

Lemma step_nonneg lastv v : 0 <= v -> 0 <= step lastv v.
Proof. unfold step. destruct (v >=? lastv) eqn:E; [apply Z.geb_le in E|]; lia. Qed.

Lemma adj_from_nonneg : forall vs lastv, Forall (fun v => 0 <= v) vs -> 0 <= adj_from lastv 0 vs.
Proof.
  induction vs as [|v vs IH]; intros lastv H; cbn [adj_from]; [lia|].
  apply Forall_cons_iff in H as [Hv H]. rewrite adj_from_total.
  pose proof (step_nonneg lastv v Hv). pose proof (IH v H). lia.
Qed.

(* ---- the running part of the aggregator ---- *)

Definition run_ok (a : fagg) (pre : list Z) : Prop :=
  a_total a = Z.of_nat (length pre) /\
  (pre <> [] -> a_counter a = adj pre /\ a_last a = last pre 0).

Lemma run_ok_reset a pre : run_ok a pre -> run_ok (a_reset a) pre.
Proof. intros H. exact H. Qed.

Lemma run_ok_add a pre v : run_ok a pre -> run_ok (a_add a v) (pre ++ [v]).
Proof.
  intros [Ht Hc]. split.
  - cbn [a_add a_total]. rewrite app_length. cbn [length]. lia.
  - intros _. cbn [a_add a_counter a_last]. rewrite last_last. split; [|reflexivity].
    destruct pre as [|x pre'].
    + cbn in Ht. rewrite Ht. reflexivity.
    + destruct (Hc ltac:(discriminate)) as [Ec El].
      replace (a_total a >? 0) with true by (symmetry; apply Z.gtb_lt; rewrite Ht; cbn [length]; lia).
      rewrite adj_snoc by discriminate. rewrite Ec, El. unfold step.
      destruct (v <? last (x :: pre') 0) eqn:E1; destruct (v >=? last (x :: pre') 0) eqn:E2;
        try reflexivity; [apply Z.ltb_lt in E1; apply Z.geb_le in E2; lia|
                          apply Z.ltb_ge in E1; rewrite Z.geb_leb in E2; apply Z.leb_gt in E2; lia].
Qed.

(* snapshots against ghost windows, with the prefix consumed before each window *)
Fixpoint run_list (pre : list Z) (out : list (Z * fagg)) (gout : list (Z * list (Z * Z))) : Prop :=
  match out, gout with
  | [], [] => True
  | o :: out', g :: gout' =>
      run_ok (snd o) (pre ++ map snd (snd g)) /\ run_list (pre ++ map snd (snd g)) out' gout'
  | _, _ => False
  end.

Lemma run_list_app pre o1 g1 o2 g2 :
  run_list pre o1 g1 -> run_list (pre ++ map snd (concat (map snd g1))) o2 g2 ->
  run_list pre (o1 ++ o2) (g1 ++ g2).
Proof.
  revert pre g1. induction o1 as [|o o1 IH]; intros pre g1 H1 H2; destruct g1 as [|g g1]; cbn in H1; try contradiction.
  - cbn in H2. rewrite app_nil_r in H2. exact H2.
  - destruct H1 as [Ho H1]. cbn [app run_list]. split; [exact Ho|]. apply IH; [exact H1|].
    cbn [map concat] in H2. rewrite map_app, app_assoc in H2. exact H2.
Qed.

Section Loop.
Variable cw : Z -> Z -> Z.

Lemma db_run_lockstep res lastT : forall data nextT a cur pre,
  run_ok a (pre ++ map snd cur) -> (nextT = -1 -> cur = []) ->
  Forall (fun s : Z * Z => 0 <= fst s) data -> 0 <= lastT -> (forall t, 0 <= t -> 0 <= cw t res) ->
  let '(out, (nT, a')) := db_loop cw res lastT data nextT a in
  let '(gout, (gT, cur')) := gh_loop cw res lastT data nextT cur in
  run_list pre out gout /\
  run_ok a' (pre ++ map snd (concat (map snd gout)) ++ map snd cur').
Proof.
  induction data as [|[t v] r IH]; intros nextT a cur pre Hr Hm1 Hnn HL Hcw; cbn [db_loop gh_loop].
  - cbn. split; [exact I|exact Hr].
  - apply Forall_cons_iff in Hnn as [Ht Hnn]. cbn [fst] in Ht.
    destruct (t >? nextT) eqn:E.
    + assert (Hn' : Z.min (cw t res) lastT = -1 -> [(t, v)] = []).
      { intros Habs. pose proof (Hcw t Ht). lia. }
      destruct (nextT =? -1) eqn:En.
      * apply Z.eqb_eq in En. rewrite (Hm1 En) in *. cbn [map app] in Hr. rewrite app_nil_r in Hr.
        assert (R : run_ok (a_add (a_reset a) v) (pre ++ map snd [(t, v)])) by (apply run_ok_add; exact Hr).
        specialize (IH (Z.min (cw t res) lastT) (a_add (a_reset a) v) [(t, v)] pre R Hn' Hnn HL Hcw).
        destruct (db_loop cw res lastT r (Z.min (cw t res) lastT) (a_add (a_reset a) v)) as [out [nT a']].
        destruct (gh_loop cw res lastT r (Z.min (cw t res) lastT) [(t, v)]) as [gout [gT cur']].
        cbn [app]. exact IH.
      * assert (R : run_ok (a_add (a_reset a) v) ((pre ++ map snd cur) ++ map snd [(t, v)]))
          by (apply run_ok_add; exact Hr).
        specialize (IH (Z.min (cw t res) lastT) (a_add (a_reset a) v) [(t, v)] (pre ++ map snd cur) R Hn' Hnn HL Hcw).
        destruct (db_loop cw res lastT r (Z.min (cw t res) lastT) (a_add (a_reset a) v)) as [out [nT a']].
        destruct (gh_loop cw res lastT r (Z.min (cw t res) lastT) [(t, v)]) as [gout [gT cur']].
        destruct IH as [IH1 IH2]. cbn [app run_list snd map concat]. split; [split; [exact Hr|exact IH1]|].
        rewrite map_app, <- !app_assoc in *. exact IH2.
    + assert (R : run_ok (a_add a v) (pre ++ map snd (cur ++ [(t, v)]))).
      { rewrite map_app, app_assoc. apply run_ok_add. exact Hr. }
      assert (Hn' : nextT = -1 -> cur ++ [(t, v)] = []).
      { intros ->. rewrite Z.gtb_ltb in E. apply Z.ltb_ge in E. lia. }
      exact (IH nextT (a_add a v) (cur ++ [(t, v)]) pre R Hn' Hnn HL Hcw).
Qed.

End Loop.
