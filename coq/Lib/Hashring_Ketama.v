(* Shared executable model of the ketama hashring of pkg/receive/hashring.go
   (group "hashring": properties C18, C19, C20, C21). Definitions only; the
   lemmas are in Lib/Hashring_KetamaFacts.v.

   Hash values (xxhash of "<address>:<i>", xxhash of tenant+labels) are NOT
   computed here: every definition takes them as data. *)
From Coq Require Import ZArith List Bool Lia Arith PeanoNat Sorting.Mergesort Orders.
Import ListNotations.

(* type section struct { az string; endpointIndex uint64; hash uint64; replicas []uint64 }
   az strings are represented by integer ids (only equality is used). *)
Record section := mkS { s_hash : Z; s_ep : nat; s_az : Z }.

Definition dummy_section : section := mkS 0 0 0.

(* sort.Sort(ringSections) with Less = hash <. The Go sort is not stable; for
   collision-free hashes the sorted list is unique (lemma sort_unique). *)
Module SecOrder <: TotalLeBool.
  Definition t := section.
  Definition leb (a b : section) : bool := (s_hash a <=? s_hash b)%Z.
  Theorem leb_total : forall a b, leb a b = true \/ leb b a = true.
  Proof. intros a b. unfold leb. destruct (Z.leb_spec (s_hash a) (s_hash b)); [now left|right]. apply Z.leb_le. lia. Qed.
End SecOrder.
Module SecSort := Sort SecOrder.

Definition sort_sections (l : list section) : list section := SecSort.sort l.

(* the double loop of newKetamaHashring: endpoint [idx] with zone [az] gets one
   section per supplied hash (the harness supplies xxhash(addr ":" i), i = 1..sectionsPerNode) *)
Fixpoint sections_of (idx : nat) (eps : list (Z * list Z)) : list section :=
  match eps with
  | [] => []
  | (az, hs) :: r => map (fun h => mkS h idx az) hs ++ sections_of (S idx) r
  end.

(* availabilityZones: the set of zones of the endpoints (first occurrences, in order) *)
Fixpoint az_set (seen : list Z) (eps : list (Z * list Z)) : list Z :=
  match eps with
  | [] => rev seen
  | (az, _) :: r => if existsb (Z.eqb az) seen then az_set seen r else az_set (az :: seen) r
  end.

(* azSpread map[string]int64 *)
Definition spread := list (Z * Z).

Fixpoint sget (sp : spread) (az : Z) : Z :=
  match sp with
  | [] => 0%Z
  | (a, c) :: r => if (a =? az)%Z then c else sget r az
  end.

Fixpoint sincr (sp : spread) (az : Z) : spread :=
  match sp with
  | [] => [(az, 1%Z)]
  | (a, c) :: r => if (a =? az)%Z then (a, (c + 1)%Z) :: r else (a, c) :: sincr r az
  end.

Definition MaxInt64 : Z := 9223372036854775807%Z.

(* sizeOfLeastOccupiedAZ *)
Definition smin (sp : spread) : Z := fold_right (fun p m => Z.min (snd p) m) MaxInt64 sp.

Definition spread_init (azs : list Z) : spread := map (fun a => (a, 0%Z)) azs.

(* the two `continue` tests of the inner loop of calculateSectionReplicas *)
Definition rejects (reps : list nat) (sp : spread) (rep : section) : bool :=
  existsb (Nat.eqb (s_ep rep)) reps
  || ((1 <? length sp) && (0 <? sget sp (s_az rep))%Z && (smin sp <? sget sp (s_az rep))%Z).

Inductive outcome :=
| Done (reps : list nat)
| Stuck          (* the repaired code returns an error: a full lap without a new replica *)
| OutOfFuel.     (* the model's iteration budget ran out *)

(* inner loop `for uint64(len(replicas)) < replicationFactor { ... }`.
   [jn] is Go's j+1 (so that it is a natural number: j starts at i-1),
   [since] is the `visited` counter of the repaired code; [check = false] is the
   loop as it was before the repair (no lap detection). *)
Fixpoint walk (check : bool) (fuel : nat) (ring : list section) (rf : nat)
         (jn since : nat) (reps : list nat) (sp : spread) : outcome :=
  if rf <=? length reps then Done reps else
  match fuel with
  | O => OutOfFuel
  | S f =>
    if check && (length ring <=? since) then Stuck else
    let j := jn mod length ring in
    let rep := nth j ring dummy_section in
    if rejects reps sp rep
    then walk check f ring rf (S j) (S since) reps sp
    else walk check f ring rf (S j) 0 (reps ++ [s_ep rep]) (sincr sp (s_az rep))
  end.

(* iterations that always suffice for the repaired loop (lemma walk_fuel_suffices) *)
Definition walk_fuel (ring : list section) (rf : nat) : nat :=
  (rf + 1) * (length ring + 1) + 1.

Inductive calc_result :=
| COk (replicas : list (list nat))   (* replicas of section 0, 1, ... *)
| CErr
| CFuel.

(* outer loop `for i, s := range ringSections`, returning at the first error *)
Fixpoint calc_from (check : bool) (fuel : nat) (ring : list section) (rf : nat) (azs : list Z)
         (is : list nat) : calc_result :=
  match is with
  | [] => COk []
  | i :: r =>
    match walk check fuel ring rf i 0 [] (spread_init azs) with
    | Done reps =>
      match calc_from check fuel ring rf azs r with
      | COk l => COk (reps :: l)
      | e => e
      end
    | Stuck => CErr
    | OutOfFuel => CFuel
    end
  end.

Definition calc_replicas (check : bool) (fuel : nat) (ring : list section) (rf : nat) (azs : list Z) : calc_result :=
  calc_from check fuel ring rf azs (seq 0 (length ring)).

Inductive ketama_result :=
| KOk (ring : list section) (replicas : list (list nat))
| KErr
| KFuel.

(* newKetamaHashring; [eps] = per endpoint (zone id, hashes of its sections) *)
Definition ketama_new_fuel (check : bool) (fuel : nat) (eps : list (Z * list Z)) (rf : nat) : ketama_result :=
  if length eps <? rf then KErr else
  let ring := sort_sections (sections_of 0 eps) in
  match calc_replicas check fuel ring rf (az_set [] eps) with
  | COk reps => KOk ring reps
  | CErr => KErr
  | CFuel => KFuel
  end.

Definition ketama_new (eps : list (Z * list Z)) (rf : nat) : ketama_result :=
  ketama_new_fuel true (walk_fuel (sections_of 0 eps) rf) eps rf.

(* ---- lookups ---- *)

(* sort.Search(len, func(i) sections[i].hash >= v), then wrap to 0 *)
Fixpoint search_ge (ring : list section) (v : Z) : nat :=
  match ring with
  | [] => 0
  | s :: r => if (v <=? s_hash s)%Z then 0 else S (search_ge r v)
  end.

Definition ring_index (ring : list section) (v : Z) : nat :=
  let i := search_ge ring v in if i =? length ring then 0 else i.

(* ketamaHashring.GetN: endpoint index of the n-th replica, None = insufficientNodesError *)
Definition ketama_getn (numEndpoints : nat) (ring : list section) (replicas : list (list nat)) (v : Z) (n : nat) : option nat :=
  if numEndpoints <=? n then None
  else Some (nth n (nth (ring_index ring v) replicas []) 0).

(* deciders used by pred_ok definitions *)
Fixpoint nodup_nat (l : list nat) : bool :=
  match l with
  | [] => true
  | x :: r => negb (existsb (Nat.eqb x) r) && nodup_nat r
  end.

Fixpoint sorted_hash (l : list section) : bool :=
  match l with
  | a :: ((b :: _) as r) => (s_hash a <=? s_hash b)%Z && sorted_hash r
  | _ => true
  end.

Definition section_eqb (a b : section) : bool :=
  (s_hash a =? s_hash b)%Z && (s_ep a =? s_ep b) && (s_az a =? s_az b)%Z.
