(* Ketama placement does not depend on the order of the endpoint list (used by C18 and C21). *)
From Coq Require Import ZArith NArith List Bool Lia Arith Permutation Sorting.Sorted.
Import ListNotations.
From Verif Require Import Lib.Hashring_Ketama Lib.Hashring_KetamaFacts Lib.Hashring_RingFacts
  Lib.Hashring_Answers Lib.Hashring_AnswersFacts.
Close Scope Z_scope.

Definition dflt_ep : Z * list Z := (0%Z, []).

(* ------------------------------------------------------------------ *)
(* A. the ring sections as a flat_map over endpoint positions           *)

Definition secs_at (k : nat) (e : Z * list Z) : list section := map (fun h => mkS h k (fst e)) (snd e).

Lemma flat_map_map {A B C} (f : A -> B) (g : B -> list C) l : flat_map g (map f l) = flat_map (fun x => g (f x)) l.
Proof. induction l; simpl; [reflexivity|]. rewrite IHl. reflexivity. Qed.

Lemma map_flat_map {A B C} (f : B -> C) (g : A -> list B) l : map f (flat_map g l) = flat_map (fun x => map f (g x)) l.
Proof. induction l; simpl; [reflexivity|]. rewrite map_app, IHl. reflexivity. Qed.

Lemma flat_map_ext_in {A B} (f g : A -> list B) l : (forall x, In x l -> f x = g x) -> flat_map f l = flat_map g l.
Proof.
  induction l as [|a l IH]; simpl; intro H; [reflexivity|].
  rewrite (H a (or_introl eq_refl)), IH; [reflexivity|]. intros. apply H. now right.
Qed.

Lemma sections_of_flat eps : forall idx,
  sections_of idx eps = flat_map (fun j => secs_at (idx + j) (nth j eps dflt_ep)) (seq 0 (length eps)).
Proof.
  induction eps as [|[az hs] r IH]; intro idx; simpl; [reflexivity|].
  rewrite Nat.add_0_r. f_equal. rewrite <- seq_shift, flat_map_map, IH.
  apply flat_map_ext_in. intros j _. replace (S idx + j) with (idx + S j) by lia. reflexivity.
Qed.

(* ------------------------------------------------------------------ *)
(* B/C. the ring of a permuted endpoint list is the same ring, renamed  *)

Section Perm.
  Variable eps : list (Z * list Z).
  Variable perm : list nat.
  Hypothesis Hperm : Permutation perm (seq 0 (length eps)).
  Let n := length eps.
  Let eps' := permute dflt_ep eps perm.
  Let phi := fun i => nth i perm 0.
  Let g := fun k => secs_at k (nth k eps dflt_ep).

  Lemma perm_length : length perm = n.
  Proof. rewrite (Permutation_length Hperm), seq_length. reflexivity. Qed.

  Lemma eps'_length : length eps' = n.
  Proof. unfold eps', permute. rewrite map_length. apply perm_length. Qed.

  Lemma perm_NoDup : NoDup perm.
  Proof. eapply Permutation_NoDup; [apply Permutation_sym; exact Hperm|apply seq_NoDup]. Qed.

  Lemma phi_lt i : i < n -> phi i < n.
  Proof.
    intro Hi. assert (In (phi i) perm) by (apply nth_In; rewrite perm_length; exact Hi).
    eapply Permutation_in in H; [|exact Hperm]. apply in_seq in H. unfold n. lia.
  Qed.

  Lemma phi_inj i j : i < n -> j < n -> phi i = phi j -> i = j.
  Proof.
    intros Hi Hj E. apply (proj1 (NoDup_nth perm 0) perm_NoDup); rewrite ?perm_length; assumption.
  Qed.

  Lemma eps'_nth j : j < n -> nth j eps' dflt_ep = nth (phi j) eps dflt_ep.
  Proof.
    intro Hj. unfold eps', permute.
    rewrite (nth_indep _ dflt_ep (nth 0 eps dflt_ep)) by (rewrite map_length, perm_length; exact Hj).
    rewrite (map_nth (fun i => nth i eps dflt_ep) perm 0 j). reflexivity.
  Qed.

  Lemma eps'_perm : Permutation eps' eps.
  Proof.
    unfold eps', permute.
    eapply Permutation_trans; [apply Permutation_map; exact Hperm|].
    rewrite (map_nth_seq dflt_ep eps). apply Permutation_refl.
  Qed.

  Lemma renamed_sections : map (rename phi) (sections_of 0 eps') = flat_map g perm.
  Proof.
    rewrite (sections_of_flat eps' 0), map_flat_map, eps'_length.
    replace (flat_map g perm) with (flat_map g (map phi (seq 0 n)))
      by (f_equal; unfold phi; rewrite <- perm_length; apply map_nth_seq).
    rewrite flat_map_map.
    apply flat_map_ext_in. intros j Hj. apply in_seq in Hj. simpl.
    rewrite (eps'_nth j) by lia. unfold g, secs_at. rewrite map_map. reflexivity.
  Qed.

  Lemma sections_perm : Permutation (map (rename phi) (sections_of 0 eps')) (sections_of 0 eps).
  Proof.
    rewrite renamed_sections, (sections_of_flat eps 0).
    apply Permutation_flat_map. exact Hperm.
  Qed.

  Hypothesis Hnd : NoDup (map s_hash (sections_of 0 eps)).

  Lemma ring_renamed :
    map (rename phi) (sort_sections (sections_of 0 eps')) = sort_sections (sections_of 0 eps).
  Proof.
    apply sorted_unique.
    - apply StronglySorted_map_hash; [reflexivity|apply sort_sections_StronglySorted].
    - apply sort_sections_StronglySorted.
    - eapply Permutation_trans; [apply Permutation_map, Permutation_sym, sort_sections_perm|].
      eapply Permutation_trans; [apply sections_perm|apply sort_sections_perm].
    - assert (P : Permutation (map (rename phi) (sort_sections (sections_of 0 eps'))) (sections_of 0 eps)).
      { eapply Permutation_trans; [apply Permutation_map, Permutation_sym, sort_sections_perm|apply sections_perm]. }
      eapply Permutation_NoDup; [apply Permutation_map, Permutation_sym; exact P|exact Hnd].
  Qed.
End Perm.

(* ------------------------------------------------------------------ *)
(* D. azSpread maps that differ only in the order of their keys          *)

Definition sp_equiv (sp sp' : spread) : Prop :=
  (forall z, sget sp z = sget sp' z) /\ Permutation (map fst sp) (map fst sp') /\ NoDup (map fst sp).

Lemma sget_notin sp z : ~ In z (map fst sp) -> sget sp z = 0%Z.
Proof.
  induction sp as [|[a c] r IH]; simpl; intro H; [reflexivity|].
  destruct (a =? z)%Z eqn:E; [apply Z.eqb_eq in E; subst; exfalso; apply H; now left|].
  apply IH. intro. apply H. now right.
Qed.

Lemma fold_sget_cons a c r ks : ~ In a ks ->
  fold_right (fun k m => Z.min (sget ((a, c) :: r) k) m) MaxInt64 ks
  = fold_right (fun k m => Z.min (sget r k) m) MaxInt64 ks.
Proof.
  induction ks as [|k ks IHk]; simpl; intro Hn; [reflexivity|].
  destruct (a =? k)%Z eqn:E; [apply Z.eqb_eq in E; subst; exfalso; apply Hn; now left|].
  f_equal. apply IHk. intro. apply Hn. now right.
Qed.

Lemma smin_as_fold sp : NoDup (map fst sp) ->
  smin sp = fold_right (fun k m => Z.min (sget sp k) m) MaxInt64 (map fst sp).
Proof.
  induction sp as [|[a c] r IH]; intro H; [reflexivity|].
  inversion H as [|? ? Hn Hnd]; subst.
  change (smin ((a, c) :: r)) with (Z.min c (smin r)).
  change (map fst ((a, c) :: r)) with (a :: map fst r).
  change (fold_right (fun k m => Z.min (sget ((a, c) :: r) k) m) MaxInt64 (a :: map fst r))
    with (Z.min (sget ((a, c) :: r) a) (fold_right (fun k m => Z.min (sget ((a, c) :: r) k) m) MaxInt64 (map fst r))).
  rewrite (fold_sget_cons a c r _ Hn), <- (IH Hnd). simpl. rewrite Z.eqb_refl. reflexivity.
Qed.

Lemma fold_min_perm (f : Z -> Z) M l l' : Permutation l l' ->
  fold_right (fun k m => Z.min (f k) m) M l = fold_right (fun k m => Z.min (f k) m) M l'.
Proof. induction 1; simpl; [reflexivity|rewrite IHPermutation; reflexivity|lia|congruence]. Qed.

Lemma fold_min_ext (f f' : Z -> Z) M l : (forall k, f k = f' k) ->
  fold_right (fun k m => Z.min (f k) m) M l = fold_right (fun k m => Z.min (f' k) m) M l.
Proof. intro H. induction l; simpl; [reflexivity|]. rewrite H, IHl. reflexivity. Qed.

Lemma sp_equiv_smin sp sp' : sp_equiv sp sp' -> smin sp = smin sp'.
Proof.
  intros [Hg [Hp Hnd]].
  rewrite (smin_as_fold sp Hnd), (smin_as_fold sp' (Permutation_NoDup Hp Hnd)).
  rewrite (fold_min_perm _ _ _ _ Hp). apply fold_min_ext. exact Hg.
Qed.

Lemma sp_equiv_length sp sp' : sp_equiv sp sp' -> length sp = length sp'.
Proof. intros [_ [Hp _]]. apply Permutation_length in Hp. rewrite !map_length in Hp. exact Hp. Qed.

Lemma sp_equiv_sincr sp sp' z : sp_equiv sp sp' -> In z (map fst sp) -> sp_equiv (sincr sp z) (sincr sp' z).
Proof.
  intros [Hg [Hp Hnd]] Hz.
  assert (Hz' : In z (map fst sp')) by (eapply Permutation_in; eauto).
  split; [|split].
  - intro z0. rewrite !sget_sincr by assumption. rewrite Hg. reflexivity.
  - rewrite !sincr_keys by assumption. exact Hp.
  - rewrite sincr_keys by assumption. exact Hnd.
Qed.

Lemma existsb_map_inj (f : nat -> nat) x l :
  (forall y, In y l -> f x = f y -> x = y) ->
  existsb (Nat.eqb (f x)) (map f l) = existsb (Nat.eqb x) l.
Proof.
  intro Hinj. destruct (existsb (Nat.eqb x) l) eqn:E.
  - apply existsb_nat_In in E. apply existsb_nat_In. apply in_map. exact E.
  - destruct (existsb (Nat.eqb (f x)) (map f l)) eqn:E'; [|reflexivity].
    apply existsb_nat_In in E'. apply in_map_iff in E' as [y [Ey Hy]].
    symmetry in Ey. apply Hinj in Ey; [|exact Hy]. subst y. apply existsb_nat_In in Hy. congruence.
Qed.

Definition map_out (f : nat -> nat) (o : outcome) : outcome :=
  match o with Done l => Done (map f l) | Stuck => Stuck | OutOfFuel => OutOfFuel end.

Section Sim.
  Variable n : nat.
  Variable phi : nat -> nat.
  Hypothesis phi_inj : forall i j, i < n -> j < n -> phi i = phi j -> i = j.
  Variable ring' : list section.
  Hypothesis ring'_lt : forall s, In s ring' -> s_ep s < n.
  Let ring := map (rename phi) ring'.

  Lemma rejects_sim reps' sp sp' s' :
    sp_equiv sp sp' -> In s' ring' -> (forall e, In e reps' -> e < n) ->
    rejects (map phi reps') sp (rename phi s') = rejects reps' sp' s'.
  Proof.
    intros He Hs Hr. unfold rejects. simpl.
    rewrite existsb_map_inj.
    2:{ intros y Hy E. apply phi_inj; auto. }
    destruct He as [Hg [Hp Hnd]].
    rewrite (sp_equiv_length sp sp' (conj Hg (conj Hp Hnd))), (sp_equiv_smin sp sp' (conj Hg (conj Hp Hnd))), Hg.
    reflexivity.
  Qed.

  Lemma walk_sim rf : forall fuel jn since reps' sp sp',
    sp_equiv sp sp' ->
    (forall s, In s ring' -> In (s_az s) (map fst sp)) ->
    (forall e, In e reps' -> e < n) ->
    walk true fuel ring rf jn since (map phi reps') sp = map_out phi (walk true fuel ring' rf jn since reps' sp').
  Proof.
    induction fuel as [|f IH]; intros jn since reps' sp sp' He Hk Hr; simpl.
    - rewrite map_length. destruct (rf <=? length reps'); reflexivity.
    - rewrite map_length. destruct (rf <=? length reps'); [reflexivity|].
      assert (Hl : length ring = length ring') by (unfold ring; apply map_length).
      rewrite !Hl.
      destruct (length ring' <=? since) eqn:E; simpl; [reflexivity|]. apply Nat.leb_gt in E.
      assert (Hlen : 0 < length ring') by lia.
      set (j := jn mod length ring').
      assert (Hj : j < length ring') by (apply Nat.mod_upper_bound; lia).
      assert (Hnth : nth j ring dummy_section = rename phi (nth j ring' dummy_section)).
      { unfold ring. rewrite (nth_indep _ dummy_section (rename phi dummy_section)) by (rewrite map_length; exact Hj).
        apply map_nth. }
      rewrite Hnth.
      assert (Hin : In (nth j ring' dummy_section) ring') by (apply nth_In; exact Hj).
      rewrite (rejects_sim reps' sp sp' _ He Hin Hr).
      destruct (rejects reps' sp' (nth j ring' dummy_section)).
      + apply IH; assumption.
      + replace (map phi reps' ++ [s_ep (rename phi (nth j ring' dummy_section))])
          with (map phi (reps' ++ [s_ep (nth j ring' dummy_section)])) by (rewrite map_app; reflexivity).
        simpl s_az. apply IH.
        * apply sp_equiv_sincr; [exact He|apply Hk; exact Hin].
        * intros s Hs. rewrite sincr_keys by (apply Hk; exact Hin). apply Hk. exact Hs.
        * intros e He'. apply in_app_or in He' as [He'|[<-|[]]]; [auto|apply ring'_lt; exact Hin].
  Qed.
End Sim.

(* ------------------------------------------------------------------ *)
(* E-G. constructor and lookups                                          *)

Definition map_calc (f : nat -> nat) (c : calc_result) : calc_result :=
  match c with COk l => COk (map (map f) l) | CErr => CErr | CFuel => CFuel end.

Lemma calc_from_sim n phi ring' rf azs azs' fuel :
  (forall i j, i < n -> j < n -> phi i = phi j -> i = j) ->
  (forall s, In s ring' -> s_ep s < n) ->
  sp_equiv (spread_init azs) (spread_init azs') ->
  (forall s, In s ring' -> In (s_az s) azs) ->
  forall is,
  calc_from true fuel (map (rename phi) ring') rf azs is = map_calc phi (calc_from true fuel ring' rf azs' is).
Proof.
  intros Hinj Hlt He Hk. induction is as [|i r IH]; simpl; [reflexivity|].
  pose proof (walk_sim n phi Hinj ring' Hlt rf fuel i 0 [] (spread_init azs) (spread_init azs') He) as W.
  simpl in W. rewrite W.
  - destruct (walk true fuel ring' rf i 0 [] (spread_init azs')); simpl; try reflexivity.
    rewrite IH. destruct (calc_from true fuel ring' rf azs' r); reflexivity.
  - intros s Hs. rewrite spread_init_keys. apply Hk. exact Hs.
  - intros e [].
Qed.

Lemma search_ge_rename phi ring v : search_ge (map (rename phi) ring) v = search_ge ring v.
Proof. induction ring as [|s r IH]; simpl; [reflexivity|]. destruct (v <=? s_hash s)%Z; [reflexivity|]. rewrite IH. reflexivity. Qed.

Lemma ring_index_rename phi ring v : ring_index (map (rename phi) ring) v = ring_index ring v.
Proof. unfold ring_index. rewrite search_ge_rename, map_length. reflexivity. Qed.

Section Final.
  Variable eps : list (Z * list Z).
  Variable perm : list nat.
  Hypothesis Hperm : Permutation perm (seq 0 (length eps)).
  Hypothesis Hnd : NoDup (map s_hash (sections_of 0 eps)).
  Let eps' := permute dflt_ep eps perm.
  Let phi := fun i => nth i perm 0.

  Lemma az_sets_equiv : sp_equiv (spread_init (az_set [] eps)) (spread_init (az_set [] eps')).
  Proof.
    split; [|split].
    - intro z. rewrite !sget_init. reflexivity.
    - rewrite !spread_init_keys. apply NoDup_Permutation; try (apply az_set_NoDup; constructor).
      intro a. rewrite !az_set_spec. simpl.
      assert (P : Permutation eps' eps) by (apply eps'_perm; exact Hperm).
      split; intros [[]|[hs H]]; right; exists hs.
      + eapply Permutation_in; [apply Permutation_sym; exact P|exact H].
      + eapply Permutation_in; [exact P|exact H].
    - rewrite spread_init_keys. apply az_set_NoDup. constructor.
  Qed.

  Lemma ketama_new_perm rf :
    ketama_new eps rf =
    match ketama_new eps' rf with
    | KOk ring' reps' => KOk (map (rename phi) ring') (map (map phi) reps')
    | KErr => KErr
    | KFuel => KFuel
    end.
  Proof.
    unfold ketama_new, ketama_new_fuel.
    assert (Hlen : length eps' = length eps) by (apply eps'_length; exact Hperm).
    rewrite Hlen. destruct (length eps <? rf); [reflexivity|].
    pose proof (ring_renamed eps perm Hperm Hnd) as HR. fold eps' in HR. fold phi in HR.
    set (ring' := sort_sections (sections_of 0 eps')) in *.
    assert (Hf : walk_fuel (sections_of 0 eps) rf = walk_fuel (sections_of 0 eps') rf).
    { unfold walk_fuel. f_equal. f_equal.
      rewrite <- (sort_sections_length (sections_of 0 eps)), <- (sort_sections_length (sections_of 0 eps')).
      fold ring'. rewrite <- HR, map_length. reflexivity. }
    rewrite Hf. unfold calc_replicas. rewrite <- HR at 1 2. rewrite map_length.
    rewrite (calc_from_sim (length eps) phi ring' rf (az_set [] eps) (az_set [] eps')).
    - destruct (calc_from true _ ring' rf (az_set [] eps') _); simpl; [rewrite HR| |]; reflexivity.
    - intros i j Hi Hj. apply (phi_inj eps perm Hperm); assumption.
    - intros s Hs. apply (proj1 (sort_sections_In _ _)) in Hs. apply sections_of_In in Hs as [B _]. lia.
    - exact az_sets_equiv.
    - intros s Hs.
      assert (Hs' : In (rename phi s) (sort_sections (sections_of 0 eps))) by (rewrite <- HR; apply in_map; exact Hs).
      apply ring_consistent in Hs' as [_ H]. exact H.
  Qed.

  Lemma ketama_answers_perm rf v : sections_of 0 eps <> [] ->
    option_map (map phi) (ketama_answers eps' rf v) = ketama_answers eps rf v.
  Proof.
    intro Hne.
    assert (Hne' : sections_of 0 eps' <> []).
    { intro X. apply Hne. pose proof (sections_perm eps perm Hperm) as P. fold eps' in P.
      rewrite X in P. simpl in P. apply Permutation_nil in P. exact P. }
    destruct (ketama_answers eps' rf v) as [a'|] eqn:A'; simpl.
    - destruct (ketama_answers_spec _ _ _ _ Hne' A') as [ring' [reps' [K' [_ [Ea' _]]]]].
      pose proof (ketama_new_perm rf) as K. rewrite K' in K.
      destruct (ketama_answers eps rf v) as [a|] eqn:A.
      + destruct (ketama_answers_spec _ _ _ _ Hne A) as [ring [reps [K2 [_ [Ea _]]]]].
        rewrite K in K2. inversion K2; subst ring reps. f_equal.
        rewrite Ea, Ea', ring_index_rename.
        rewrite <- (map_nth (map phi) reps' [] (ring_index ring' v)). reflexivity.
      + unfold ketama_answers in A. rewrite K in A. discriminate.
    - unfold ketama_answers in A' |- *. rewrite (ketama_new_perm rf).
      destruct (ketama_new eps' rf); [discriminate|reflexivity|reflexivity].
  Qed.
End Final.
