(* Facts about the constructor of the shared ketama model that do not depend on any
   generated source facts: totality, shape of a returned ring, the original loop
   diverges where the repaired one errs, single-zone configurations always build. *)
From Coq Require Import ZArith List Bool Lia Arith Permutation.
Import ListNotations.
From Verif Require Import Lib.Hashring_Ketama Lib.Hashring_KetamaFacts.

Lemma walk_fuel_length r1 r2 rf : length r1 = length r2 -> walk_fuel r1 rf = walk_fuel r2 rf.
Proof. unfold walk_fuel. intros ->. reflexivity. Qed.

(* ---- totality ---- *)

Lemma calc_replicas_total ring rf azs fuel :
  walk_fuel ring rf <= fuel -> calc_replicas true fuel ring rf azs <> CFuel.
Proof. intro H. unfold calc_replicas. apply calc_from_total. exact H. Qed.

Lemma ketama_new_total eps rf : ketama_new eps rf <> KFuel.
Proof.
  unfold ketama_new, ketama_new_fuel. destruct (length eps <? rf); [discriminate|].
  set (ring := sort_sections (sections_of 0 eps)).
  destruct (calc_replicas true _ ring rf (az_set [] eps)) eqn:C; try discriminate.
  exfalso. eapply calc_replicas_total; [|exact C].
  rewrite (walk_fuel_length (sections_of 0 eps) ring); [lia|]. unfold ring. rewrite sort_sections_length. reflexivity.
Qed.

(* ---- a returned ring is usable ---- *)

Definition replicas_wf (n rf : nat) (reps : list nat) : Prop :=
  length reps = rf /\ NoDup reps /\ forall e, In e reps -> e < n.

Lemma ketama_new_fuel_ok check fuel eps rf ring reps :
  ketama_new_fuel check fuel eps rf = KOk ring reps ->
  ring = sort_sections (sections_of 0 eps) /\ rf <= length eps /\
  length reps = length ring /\ Forall (replicas_wf (length eps) rf) reps.
Proof.
  unfold ketama_new_fuel. destruct (length eps <? rf) eqn:E; [discriminate|]. apply Nat.ltb_ge in E.
  destruct (calc_replicas check fuel (sort_sections (sections_of 0 eps)) rf (az_set [] eps)) eqn:C; try discriminate.
  intro H. inversion H; subst ring replicas. clear H. split; [reflexivity|]. split; [exact E|].
  unfold calc_replicas in C. remember (sort_sections (sections_of 0 eps)) as r eqn:Hr.
  destruct r as [|s0 r0].
  - simpl in C. inversion C; subst. split; [reflexivity|constructor].
  - assert (Hne : s0 :: r0 <> []) by discriminate.
    destruct (calc_from_ok check _ rf (az_set [] eps) fuel _ _ (or_introl Hne) C) as [L F].
    rewrite seq_length in L. split; [exact L|].
    eapply Forall_impl; [|exact F]. intros a [H1 [H2 H3]]. split; [exact H1|]. split; [exact H2|].
    intros e He. destruct (H3 e He) as [s [Hs <-]].
    rewrite Hr in Hs. apply (proj1 (sort_sections_In _ _)) in Hs. apply sections_of_In in Hs as [B _]. lia.
Qed.

(* ---- an error (with enough endpoints) is reported only where the original loop spins ---- *)

Lemma ketama_err_original_diverges eps rf :
  rf <= length eps -> ketama_new eps rf = KErr ->
  forall fuel, ketama_new_fuel false fuel eps rf = KFuel.
Proof.
  intros Hle H fuel. unfold ketama_new, ketama_new_fuel in *.
  assert (E : (length eps <? rf) = false) by (apply Nat.ltb_ge; exact Hle). rewrite E in *.
  set (ring := sort_sections (sections_of 0 eps)) in *.
  destruct (calc_replicas true _ ring rf (az_set [] eps)) eqn:C; try discriminate.
  unfold calc_replicas in *.
  assert (Hne : ring <> []). { intro X. rewrite X in C. simpl in C. discriminate. }
  rewrite (calc_err_diverges ring rf _ Hne _ _ C fuel). reflexivity.
Qed.

(* ---- without zones (or with a single zone) the constructor always succeeds ---- *)

Lemma all_or_ex {A} (f : A -> bool) l :
  (forall x, In x l -> f x = true) \/ exists x, In x l /\ f x = false.
Proof.
  induction l as [|a l [IH|[x [Hx Fx]]]].
  - left. intros x [].
  - destruct (f a) eqn:E; [left|right; exists a; split; [now left|exact E]].
    intros x [<-|Hx]; auto.
  - right. exists x. split; [now right|exact Fx].
Qed.

Lemma single_zone_ok eps rf :
  length (az_set [] eps) <= 1 -> rf <= length eps -> Forall (fun e => snd e <> []) eps ->
  exists ring reps, ketama_new eps rf = KOk ring reps.
Proof.
  intros Hz Hrf Hsec.
  pose proof (ketama_new_total eps rf) as Htot. unfold ketama_new, ketama_new_fuel in *.
  assert (E : (length eps <? rf) = false) by (apply Nat.ltb_ge; exact Hrf). rewrite E in *.
  set (ring := sort_sections (sections_of 0 eps)) in *.
  set (azs := az_set [] eps) in *. set (fuel := walk_fuel (sections_of 0 eps) rf) in *.
  destruct (calc_replicas true fuel ring rf azs) eqn:C; [eauto|exfalso|congruence].
  (* all sections lie in one zone a *)
  destruct azs as [|a [|b azs']] eqn:Ea; [| |simpl in Hz; lia].
  { (* no zone at all: no endpoints, empty ring *)
    destruct eps as [|[az hs] r].
    - unfold calc_replicas in C. simpl in C. discriminate.
    - assert (In az (az_set [] ((az, hs) :: r))) by (apply az_set_spec; right; exists hs; now left).
      fold azs in H. rewrite Ea in H. contradiction. }
  assert (Haz : forall s, In s ring -> s_az s = a).
  { intros s Hs. apply (proj1 (sort_sections_In _ _)) in Hs. apply sections_of_In in Hs as [_ [hs [Hn _]]].
    apply nth_error_In in Hn.
    assert (In (s_az s) (az_set [] eps)) by (apply az_set_spec; right; eauto).
    fold azs in H. rewrite Ea in H. destruct H as [H|[]]. auto. }
  assert (Hall : forall k, k < length eps -> exists s, In s ring /\ s_ep s = k).
  { intros k Hk. destruct (nth_error eps k) as [[az hs]|] eqn:N; [|apply nth_error_None in N; lia].
    assert (hs <> []). { rewrite Forall_forall in Hsec. apply (Hsec (az, hs)). eapply nth_error_In; eauto. }
    destruct (sections_of_has eps 0 k az hs N H) as [s [Hin [He _]]].
    exists s. split; [apply sort_sections_In; exact Hin|exact He]. }
  set (P := fun (reps : list nat) (sp : spread) => NoDup reps /\ exists c, sp = [(a, c)]).
  assert (Hstuck : forall fuel i, walk true fuel ring rf i 0 [] (spread_init [a]) <> Stuck).
  { intros f i. apply (walk_not_stuck ring rf P).
    - intros reps sp s [Hnd [c ->]] Hin R. split.
      + apply NoDup_snoc; [exact Hnd|]. eapply rejects_false_notin; eauto.
      + exists (c + 1)%Z. simpl. rewrite (Haz s Hin), Z.eqb_refl. reflexivity.
    - intros reps sp [Hnd [c ->]] Hlt.
      destruct (all_or_ex (rejects reps [(a, c)]) ring) as [Hrej|[s' [Hin' Hf']]]; [|eauto].
      (* every section rejected: then every endpoint is already a replica *)
      exfalso.
      assert (Hincl : incl (seq 0 (length eps)) reps).
      { intros k Hk. apply in_seq in Hk. destruct (Hall k) as [s1 [Hin1 <-]]; [lia|].
        specialize (Hrej s1 Hin1). unfold rejects in Hrej. simpl in Hrej.
        rewrite orb_false_r in Hrej. apply existsb_nat_In in Hrej. exact Hrej. }
      apply NoDup_incl_length in Hincl; [|apply seq_NoDup]. rewrite seq_length in Hincl. lia.
    - apply lap_inv_zero.
    - split; [constructor|]. exists 0%Z. reflexivity. }
  unfold calc_replicas in C. apply calc_err_stuck in C as [i [_ W]]. exact (Hstuck _ _ W).
Qed.

