(* Shared lemmas: the windows of ALL batches of a raw series, globally
   (used by C36 and C37). *)
From Coq Require Import ZArith List Bool Lia Sorted.
Import ListNotations.
From Verif Require Import Lib.Downsample_Core Lib.Downsample_Batch Lib.Downsample_Raw.
Open Scope Z_scope.

Lemma sorted_app {A} (R : A -> A -> Prop) l1 l2 :
  StronglySorted R l1 -> StronglySorted R l2 ->
  (forall x y, In x l1 -> In y l2 -> R x y) -> StronglySorted R (l1 ++ l2).
Proof.
  intros H1 H2 Hc. induction H1 as [|x l1 _ IH Hx]; [exact H2|].
  cbn [app]. constructor.
  - apply IH. intros a b Ha Hb. apply Hc; [right; exact Ha|exact Hb].
  - apply Forall_app. split; [exact Hx|].
    rewrite Forall_forall. intros y Hy. apply Hc; [left; reflexivity|exact Hy].
Qed.

Lemma sorted_map_in {A B} (R : A -> A -> Prop) (R' : B -> B -> Prop) (f : A -> B) l :
  StronglySorted R l ->
  (forall x y, In x l -> In y l -> R x y -> R' (f x) (f y)) ->
  StronglySorted R' (map f l).
Proof.
  induction 1 as [|x l _ IH Hx]; intros Hf; [constructor|].
  cbn [map]. constructor.
  - apply IH. intros a b Ha Hb. apply Hf; right; assumption.
  - rewrite Forall_map. rewrite Forall_forall in *. intros y Hy.
    apply Hf; [left; reflexivity|right; exact Hy|apply Hx; exact Hy].
Qed.

Lemma sorted_unmap {A B} (R : B -> B -> Prop) (f : A -> B) l :
  StronglySorted R (map f l) -> StronglySorted (fun x y => R (f x) (f y)) l.
Proof.
  induction l as [|x l IH]; intros H; [constructor|].
  cbn [map] in H. apply StronglySorted_inv in H as [Hs Hx]. constructor; [apply IH; exact Hs|].
  rewrite Forall_map in Hx. exact Hx.
Qed.

Lemma in_concat_map_snd {A B} (l : list (A * list B)) p s :
  In p l -> In s (snd p) -> In s (concat (map snd l)).
Proof. intros Hp Hs. apply in_concat. exists (snd p). split; [apply in_map; exact Hp|exact Hs]. Qed.

Lemma Forall2_map_eq {A B C} (R : A -> B -> Prop) (f : A -> C) (g : B -> C) l1 l2 :
  Forall2 R l1 l2 -> (forall x y, R x y -> f x = g y) -> map f l1 = map g l2.
Proof. induction 1 as [|x y l1 l2 Hxy _ IH]; intros H; [reflexivity|]. cbn. f_equal; [apply H; exact Hxy|apply IH; exact H]. Qed.

Lemma last_map {A B} (f : A -> B) l d : last (map f l) (f d) = f (last l d).
Proof. induction l as [|x l IH]; [reflexivity|]. destruct l; [reflexivity|]. exact IH. Qed.

Lemma sorted_le_last_Z l : StronglySorted Z.lt l -> forall x, In x l -> x <= last l 0.
Proof.
  induction l as [|a l IHl]; intros Hs x Hx; [contradiction|].
  apply StronglySorted_inv in Hs as [Hs Ha]. destruct l as [|c l'].
  - destruct Hx as [<-|[]]. cbn. lia.
  - change (last (a :: c :: l') 0) with (last (c :: l') 0).
    destruct Hx as [<-|Hx]; [|apply IHl; assumption].
    rewrite Forall_forall in Ha. pose proof (Ha _ (last_in (c :: l') 0 ltac:(discriminate))). lia.
Qed.

Section Windows.
Variable cw : Z -> Z -> Z.
Variable res : Z.
Hypothesis res_pos : 0 < res.
Hypothesis cw_ge : forall t, 0 <= t -> t <= cw t res.
Hypothesis cw_same : forall t t', 0 <= t -> t <= t' -> t' <= cw t res -> cw t' res = cw t res.

Let cw_mono := cw_mono cw res cw_ge cw_same.

Definition good_batch (b : list sample) : Prop := b <> [] /\ sorted_nonneg b.

(* a window as seen globally: non-empty, and its samples are exactly in the
   downsampling window of its label, at or before the label *)
Definition gwin_ok (p : Z * list sample) : Prop :=
  snd p <> [] /\ 0 <= fst p /\
  Forall (fun s => 0 <= fst s /\ fst s <= fst p /\ cw (fst s) res = cw (fst p) res) (snd p).

Lemma ew_label lastT t : 0 <= t -> t <= lastT ->
  t <= ew cw res lastT t /\ cw (ew cw res lastT t) res = cw t res.
Proof.
  intros H0 Hl. unfold ew. pose proof (cw_ge t H0).
  destruct (Z_le_gt_dec (cw t res) lastT) as [H1|H1].
  - rewrite Z.min_l by lia. split; [lia|]. apply cw_same; lia.
  - rewrite Z.min_r by lia. split; [lia|]. apply cw_same; lia.
Qed.

Lemma batch_windows_facts b : good_batch b ->
  let bw := batch_windows cw res b in
  concat (map snd bw) = b /\ Forall gwin_ok bw /\
  StronglySorted Z.lt (map fst bw) /\
  StronglySorted Z.lt (map (fun p => cw (fst p) res) bw) /\
  bw <> [] /\ fst (last bw (0, [])) = last_t b /\
  Forall2 snap_ok (fst (downsample_batch cw res b)) bw /\
  snd (downsample_batch cw res b) = last_t b.
Proof.
  intros [Hne Hsn]. pose proof (batch_spec cw res cw_ge cw_same b Hne Hsn) as S.
  cbv zeta in *. destruct S as (Hcat & Hwin & Hsort & HF & HnT & Hlast).
  destruct Hsn as [Hs Hnn]. pose proof (sorted_le_last b Hs) as Hle.
  set (bw := batch_windows cw res b) in *.
  assert (Hin : forall p s, In p bw -> In s (snd p) -> In s b).
  { intros p s Hp Hs'. rewrite <- Hcat. eapply in_concat_map_snd; eauto. }
  assert (G : Forall gwin_ok bw).
  { rewrite Forall_forall in *. intros p Hp. destruct (Hwin p Hp) as [Hpne Hall].
    assert (Hall' : Forall (fun s => 0 <= fst s /\ fst s <= fst p /\ cw (fst s) res = cw (fst p) res) (snd p)).
    { rewrite Forall_forall in *. intros s Hs'. specialize (Hall s Hs').
      pose proof (Hin p s Hp Hs') as Hb.
      destruct (ew_label (last_t b) (fst s) (Hnn s Hb) (Hle s Hb)) as [E1 E2].
      rewrite Hall in *. split; [apply Hnn; exact Hb|]. split; [lia|]. congruence. }
    split; [exact Hpne|]. split; [|exact Hall'].
    destruct (snd p) as [|s0 l]; [congruence|]. apply Forall_cons_iff in Hall' as [(? & ? & _) _]. lia. }
  split; [exact Hcat|]. split; [exact G|]. split; [exact Hsort|].
  split.
  { apply (sorted_map_in (fun p q : Z * list (Z * Z) => fst p < fst q) Z.lt (fun p => cw (fst p) res) bw).
    - apply sorted_unmap. exact Hsort.
    - intros p1 p2 H1 H2 Hlt. rewrite Forall_forall in G, Hwin.
      destruct (G p1 H1) as (Hne1 & H01 & A1). destruct (G p2 H2) as (Hne2 & H02 & A2).
      assert (Hm : cw (fst p1) res <= cw (fst p2) res) by (apply cw_mono; lia).
      destruct (Z.eq_dec (cw (fst p1) res) (cw (fst p2) res)) as [E|]; [|lia]. exfalso.
      destruct (Hwin p1 H1) as [_ W1]. destruct (Hwin p2 H2) as [_ W2].
      destruct (snd p1) as [|s1 l1]; [congruence|]. destruct (snd p2) as [|s2 l2]; [congruence|].
      apply Forall_cons_iff in A1 as [(_ & _ & C1) _]. apply Forall_cons_iff in A2 as [(_ & _ & C2) _].
      apply Forall_cons_iff in W1 as [W1 _]. apply Forall_cons_iff in W2 as [W2 _].
      unfold ew in W1, W2. rewrite C1 in W1. rewrite C2 in W2. rewrite E in W1. lia. }
  split.
  { intro E. rewrite E in Hcat. cbn in Hcat. congruence. }
  repeat split; assumption.
Qed.

(* ---- all batches of a series ---- *)

Definition all_windows (batches : list (list sample)) : list (Z * list sample) :=
  concat (map (batch_windows cw res) batches).

Definition all_outs (batches : list (list sample)) : list (Z * fagg) :=
  concat (map (fun b => fst (downsample_batch cw res b)) batches).

Lemma all_windows_facts : forall batches,
  Forall good_batch batches -> seps cw res batches ->
  let gw := all_windows batches in
  concat (map snd gw) = concat batches /\ Forall gwin_ok gw /\
  StronglySorted Z.lt (map (fun p => cw (fst p) res) gw) /\
  Forall2 snap_ok (all_outs batches) gw.
Proof.
  induction batches as [|b rest IH]; intros Hg Hsep; cbv zeta.
  - repeat split; constructor.
  - apply Forall_cons_iff in Hg as [Hb Hg]. destruct Hsep as [Hcross Hsep].
    specialize (IH Hg Hsep). cbv zeta in IH. destruct IH as (Rcat & Rok & Rsort & RF).
    destruct (batch_windows_facts b Hb) as (Bcat & Bok & _ & Bsort & _ & _ & BF & _).
    unfold all_windows, all_outs in *. cbn [map concat].
    split; [rewrite map_app, concat_app, Bcat, Rcat; reflexivity|].
    split; [apply Forall_app; split; assumption|].
    split; [|apply Forall2_app; assumption].
    rewrite map_app. apply sorted_app; [exact Bsort|exact Rsort|].
    intros x y Hx Hy. apply in_map_iff in Hx as (p1 & <- & H1). apply in_map_iff in Hy as (p2 & <- & H2).
    rewrite Forall_forall in Bok, Rok.
    destruct (Bok p1 H1) as (Hne1 & _ & A1). destruct (Rok p2 H2) as (Hne2 & _ & A2).
    destruct (snd p1) as [|s1 l1] eqn:E1; [congruence|]. destruct (snd p2) as [|s2 l2] eqn:E2; [congruence|].
    apply Forall_cons_iff in A1 as [(_ & _ & C1) _]. apply Forall_cons_iff in A2 as [(N2 & _ & C2) _].
    assert (I1 : In s1 b) by (rewrite <- Bcat; eapply in_concat_map_snd; [exact H1|rewrite E1; left; reflexivity]).
    assert (I2 : In s2 (concat rest)) by (rewrite <- Rcat; eapply in_concat_map_snd; [exact H2|rewrite E2; left; reflexivity]).
    rewrite Forall_forall in Hcross. specialize (Hcross s1 I1). rewrite Forall_forall in Hcross.
    specialize (Hcross s2 I2). pose proof (cw_ge (fst s2) N2). lia.
Qed.

(* every window is the filter of the whole series by its downsampling window *)
Lemma all_windows_filter : forall batches,
  Forall good_batch batches -> seps cw res batches ->
  Forall (fun p => filter (fun s => cw (fst s) res =? cw (fst p) res) (concat batches) = snd p)
         (all_windows batches).
Proof.
  intros batches Hg Hsep. destruct (all_windows_facts batches Hg Hsep) as (Hcat & Hok & Hsort & _).
  set (gw := all_windows batches) in *.
  pose proof (windows_filter (fun s => cw (fst s) res) (map (fun p => (cw (fst p) res, snd p)) gw)) as W.
  rewrite !map_map in W. cbn [fst snd] in W.
  assert (E : map (fun x : Z * list sample => snd x) gw = map snd gw) by reflexivity.
  rewrite E, Hcat in W.
  assert (A : Forall (fun x : Z * list (Z * Z) =>
                Forall (fun s : Z * Z => cw (fst s) res = cw (fst x) res) (snd x)) gw).
  { eapply Forall_impl; [|exact Hok].
    intros p (_ & _ & A). eapply Forall_impl; [|exact A]. intros s (_ & _ & C). exact C. }
  rewrite Forall_map in W. cbn [fst snd] in W.
  specialize (W A (sorted_lt_nodup _ Hsort)).
  rewrite Forall_map in W. cbn [fst snd] in W. exact W.
Qed.

End Windows.
