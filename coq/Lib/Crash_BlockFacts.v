(* Crash group (C28, C35): lemmas about Lib/Crash_Block.v.
   The invariant [binv U b] (every data object agrees with the universe, every
   meta.json present is the universe's file list and all listed files are
   present) is kept by every bucket operation that satisfies [op_guard]; each
   modelled function issues only guarded operations, so the invariant holds
   after every prefix of its op log (= at every crash point). *)
From Coq Require Import ZArith NArith List Bool Lia Arith.
Import ListNotations.
From Verif Require Import Lib.Corr Lib.Crash_Store Lib.Crash_Block.

(* ---- deciders ---- *)
Lemma file_eqb_spec a b : file_eqb a b = true <-> a = b.
Proof.
  destruct a, b; simpl; split; intros H; try discriminate; try reflexivity;
    try (apply N.eqb_eq in H; subst; reflexivity);
    try (inversion H; subst; apply N.eqb_refl).
Qed.

Lemma key_eqb_spec a b : key_eqb a b = true <-> a = b.
Proof.
  destruct a as [i f], b as [j g]. unfold key_eqb; simpl. rewrite andb_true_iff, N.eqb_eq, file_eqb_spec.
  split; [intros [? ?]; subst; reflexivity | intros H; inversion H; auto].
Qed.

Lemma fz_eqb_spec a b : fz_eqb a b = true <-> a = b.
Proof.
  destruct a as [f x], b as [g y]. unfold fz_eqb; simpl. rewrite andb_true_iff, Z.eqb_eq, file_eqb_spec.
  split; [intros [? ?]; subst; reflexivity | intros H; inversion H; auto].
Qed.

Lemma obj_eqb_spec a b : obj_eqb a b = true <-> a = b.
Proof.
  destruct a as [x|c f l], b as [y|c' f' l']; simpl; split; intros H; try discriminate.
  - apply Z.eqb_eq in H. subst; reflexivity.
  - inversion H. apply Z.eqb_refl.
  - apply andb_true_iff in H as [H H3]. apply andb_true_iff in H as [H1 H2].
    apply N.eqb_eq in H1, H3. apply (list_eqb_spec fz_eqb fz_eqb_spec) in H2. subst; reflexivity.
  - inversion H; subst. rewrite !N.eqb_refl. simpl.
    rewrite (proj2 (list_eqb_spec fz_eqb fz_eqb_spec f' f') eq_refl). reflexivity.
Qed.

Lemma bop_eqb_spec a b : bop_eqb a b = true <-> a = b.
Proof.
  destruct a as [k v|k], b as [k' v'|k']; simpl; split; intros H; try discriminate.
  - apply andb_true_iff in H as [H1 H2]. apply key_eqb_spec in H1. apply obj_eqb_spec in H2. subst; reflexivity.
  - inversion H; subst. apply andb_true_iff; split; [apply key_eqb_spec|apply obj_eqb_spec]; reflexivity.
  - apply key_eqb_spec in H. subst; reflexivity.
  - inversion H; subst. apply key_eqb_spec; reflexivity.
Qed.

Lemma kv_eqb_spec a b : kv_eqb a b = true <-> a = b.
Proof.
  destruct a as [k v], b as [k' v']. unfold kv_eqb; simpl. rewrite andb_true_iff, key_eqb_spec, obj_eqb_spec.
  split; [intros [? ?]; subst; reflexivity | intros H; inversion H; auto].
Qed.

Lemma bucket_eqb_spec a b : bucket_eqb a b = true <-> a = b.
Proof. apply list_eqb_spec, kv_eqb_spec. Qed.

Lemma ops_eqb_spec a b : list_eqb bop_eqb a b = true <-> a = b.
Proof. apply list_eqb_spec, bop_eqb_spec. Qed.

Lemma buckets_eqb_spec a b : list_eqb bucket_eqb a b = true <-> a = b.
Proof. apply list_eqb_spec, bucket_eqb_spec. Qed.

(* ---- the store lemmas at the bucket instance ---- *)
Lemma bget_put_same b k v : bget (bput b k v) k = Some v.
Proof. apply get_put_same, key_eqb_spec. Qed.
Lemma bget_put_other b k v k2 : k2 <> k -> bget (bput b k v) k2 = bget b k2.
Proof. apply get_put_other, key_eqb_spec. Qed.
Lemma bget_del_same b k : bget (bdel b k) k = None.
Proof. apply get_del_same. Qed.
Lemma bget_del_other b k k2 : k2 <> k -> bget (bdel b k) k2 = bget b k2.
Proof. apply get_del_other, key_eqb_spec. Qed.

Lemma key_dec (a b : key) : {a = b} + {a <> b}.
Proof.
  destruct (key_eqb a b) eqn:E; [left; apply key_eqb_spec; exact E|right].
  intros H. apply key_eqb_spec in H. congruence.
Qed.

Lemma bhas_true b k : bhas b k = true <-> bget b k <> None.
Proof. unfold bhas, has, bget. destruct (get key obj key_eqb b k); split; congruence. Qed.
Lemma bhas_false b k : bhas b k = false <-> bget b k = None.
Proof. unfold bhas, has, bget. destruct (get key obj key_eqb b k); split; congruence. Qed.

(* ---- N lists ---- *)
Lemma memN_In n l : memN n l = true <-> In n l.
Proof.
  induction l as [|m r IH]; simpl; [split; [discriminate|tauto]|].
  rewrite orb_true_iff, N.eqb_eq, IH. split; intros [H|H]; auto.
Qed.

Lemma nodupN_NoDup l : nodupN l = true -> NoDup l.
Proof.
  induction l as [|n r IH]; simpl; intros H; [constructor|].
  apply andb_true_iff in H as [H1 H2]. constructor; [|apply IH; exact H2].
  intros Hin. apply memN_In in Hin. rewrite Hin in H1. discriminate.
Qed.

Lemma memF_In f l : memF f l = true <-> In f l.
Proof.
  induction l as [|m r IH]; simpl; [split; [discriminate|tauto]|].
  rewrite orb_true_iff, file_eqb_spec, IH. split; intros [H|H]; auto.
Qed.

Lemma nodupF_NoDup l : nodupF l = true -> NoDup l.
Proof.
  induction l as [|n r IH]; simpl; intros H; [constructor|].
  apply andb_true_iff in H as [H1 H2]. constructor; [|apply IH; exact H2].
  intros Hin. apply memF_In in Hin. rewrite Hin in H1. discriminate.
Qed.

Lemma perm_b_spec order segs :
  perm_b order segs = true -> (forall n, In n order <-> In n segs).
Proof.
  unfold perm_b. intros H. apply andb_true_iff in H as [H H3]. apply andb_true_iff in H as [H1 H2].
  apply Nat.eqb_eq in H1. apply nodupN_NoDup in H2.
  assert (Hincl : incl order segs).
  { intros n Hn. rewrite forallb_forall in H3. apply memN_In. apply H3. exact Hn. }
  intros n. split; [apply Hincl|].
  apply (NoDup_length_incl H2); [lia|exact Hincl].
Qed.

Lemma perm_files_spec order expected :
  perm_files order expected = true -> (forall f, In f order <-> In f expected).
Proof.
  unfold perm_files. intros H. apply andb_true_iff in H as [H H3]. apply andb_true_iff in H as [H1 H2].
  apply Nat.eqb_eq in H1. apply nodupF_NoDup in H2.
  assert (Hincl : incl order expected).
  { intros n Hn. rewrite forallb_forall in H3. apply memF_In. apply H3. exact Hn. }
  intros n. split; [apply Hincl|].
  apply (NoDup_length_incl H2); [lia|exact Hincl].
Qed.

(* ---- universe ---- *)
Definition wf_blk (b : blk) : Prop := NoDup (map fst (b_chunks b)).
Definition wf_univ (U : univ) : Prop := forall id b, ublock U id = Some b -> wf_blk b.

Lemma ublock_In U id b : ublock U id = Some b -> In (id, b) U.
Proof.
  induction U as [|[i x] r IH]; simpl; [discriminate|].
  destruct (N.eqb id i) eqn:E.
  - intros H. inversion H; subst. apply N.eqb_eq in E. subst. left; reflexivity.
  - intros H. right. apply IH. exact H.
Qed.

Lemma wf_univ_b_spec U : wf_univ_b U = true -> wf_univ U.
Proof.
  unfold wf_univ_b, wf_univ, wf_blk. rewrite forallb_forall. intros H id b Hb.
  apply ublock_In in Hb. apply H in Hb. simpl in Hb. apply nodupN_NoDup. exact Hb.
Qed.

Lemma assocN_In l n z : NoDup (map fst l) -> In (n, z) l -> assocN l n = z.
Proof.
  induction l as [|[m y] r IH]; simpl; intros Hnd Hin; [contradiction|].
  inversion Hnd as [|? ? Hnotin Hnd']; subst.
  destruct Hin as [H|H].
  - inversion H; subst. rewrite N.eqb_refl. reflexivity.
  - destruct (N.eqb n m) eqn:E.
    + apply N.eqb_eq in E. subst. exfalso. apply Hnotin. apply (in_map fst) in H. exact H.
    + apply IH; assumption.
Qed.

Lemma In_assocN l n : In n (map fst l) -> In (n, assocN l n) l.
Proof.
  induction l as [|[m y] r IH]; simpl; intros H; [contradiction|].
  destruct (N.eqb n m) eqn:E.
  - apply N.eqb_eq in E. subst. left; reflexivity.
  - destruct H as [H|H]; [subst; rewrite N.eqb_refl in E; discriminate|]. right. apply IH. exact H.
Qed.

(* the data files listed by a block, with their sizes *)
Lemma files_of_data b f sz :
  wf_blk b -> In (f, sz) (files_of b) -> is_data f = true ->
  Blob sz = data_val b f /\
  ((exists n, f = FChunk n /\ In n (map fst (b_chunks b))) \/ f = FIndex).
Proof.
  intros Hwf Hin Hd. unfold files_of in Hin. apply in_app_or in Hin as [Hin|Hin].
  - apply in_map_iff in Hin as [[n z] [Heq Hin]]. simpl in Heq. inversion Heq; subst.
    split.
    + simpl. unfold chunk_size. rewrite (assocN_In _ _ _ Hwf Hin). reflexivity.
    + left. exists n. split; [reflexivity|]. apply (in_map fst) in Hin. exact Hin.
  - simpl in Hin. destruct Hin as [H|[H|[]]]; inversion H; subst; [|discriminate].
    split; [reflexivity|right; reflexivity].
Qed.

Lemma files_of_chunk b n : In n (map fst (b_chunks b)) -> In (FChunk n, chunk_size b n) (files_of b).
Proof.
  intros H. unfold files_of. apply in_or_app. left.
  apply in_map_iff. exists (n, chunk_size b n). split; [reflexivity|]. apply In_assocN. exact H.
Qed.

Lemma files_of_index b : In (FIndex, b_index b) (files_of b).
Proof. unfold files_of. apply in_or_app. right. left. reflexivity. Qed.

(* ---- the invariant ---- *)
Definition agree (U : univ) (b : bucket) : Prop :=
  forall id f o, is_data f = true -> bget b (id, f) = Some o ->
    exists bl sz, ublock U id = Some bl /\ In (f, sz) (files_of bl) /\ o = Blob sz.

Definition all_data_present (b : bucket) (id : N) (bl : blk) : Prop :=
  forall f sz, In (f, sz) (files_of bl) -> is_data f = true -> bget b (id, f) = Some (Blob sz).

Definition complete (U : univ) (b : bucket) : Prop :=
  forall id o, bget b (id, FMeta) = Some o ->
    exists bl cid lbl, ublock U id = Some bl /\ o = MetaO cid (files_of bl) lbl /\ all_data_present b id bl.

Definition binv (U : univ) (b : bucket) : Prop := agree U b /\ complete U b.

Lemma binv_empty U : binv U [].
Proof. split; intros id; intros; discriminate. Qed.

(* when may an operation be issued *)
Definition op_guard (U : univ) (b : bucket) (o : bop) : Prop :=
  match o with
  | Up (id, f) v =>
      if is_data f then exists bl sz, ublock U id = Some bl /\ In (f, sz) (files_of bl) /\ v = Blob sz
      else match f with
           | FMeta => exists bl cid lbl, ublock U id = Some bl /\ v = MetaO cid (files_of bl) lbl
                                         /\ all_data_present b id bl
           | _ => True
           end
  | Del (id, f) => is_data f = true -> bget b (id, FMeta) = None
  end.

Lemma data_not_meta f : is_data f = true -> f <> FMeta.
Proof. intros H E. subst. discriminate. Qed.

Lemma binv_step U b o : wf_univ U -> binv U b -> op_guard U b o -> binv U (bapply b o).
Proof.
  intros Hwf [Hag Hco] Hg. destruct o as [[id f] v|[id f]]; simpl in *.
  - (* upload *)
    destruct (is_data f) eqn:Hd.
    + destruct Hg as [bl [sz [Hu [Hin Hv]]]]. subst v. split.
      * intros id' f' o' Hd' Hget. destruct (key_dec (id', f') (id, f)) as [E|E].
        -- inversion E; subst. fold bput in Hget. rewrite bget_put_same in Hget. inversion Hget; subst.
           exists bl, sz. auto.
        -- fold bput in Hget. rewrite bget_put_other in Hget by exact E. eapply Hag; eauto.
      * intros id' o' Hget. fold bput in Hget. rewrite bget_put_other in Hget.
        2:{ intros E. inversion E; subst. discriminate. }
        destruct (Hco _ _ Hget) as [bl' [cid [lbl [Hu' [Ho' Hall]]]]].
        exists bl', cid, lbl. split; [exact Hu'|]. split; [exact Ho'|].
        intros f' sz' Hin' Hd'. destruct (key_dec (id', f') (id, f)) as [E|E].
        -- inversion E; subst. fold bput. rewrite bget_put_same. rewrite Hu in Hu'. inversion Hu'; subst.
           destruct (files_of_data _ _ _ (Hwf _ _ Hu) Hin Hd) as [E1 _].
           destruct (files_of_data _ _ _ (Hwf _ _ Hu) Hin' Hd) as [E2 _].
           rewrite E1, E2. reflexivity.
        -- fold bput. rewrite bget_put_other by exact E. apply Hall; assumption.
    + split.
      * intros id' f' o' Hd' Hget. fold bput in Hget. rewrite bget_put_other in Hget.
        2:{ intros E. inversion E; subst. congruence. }
        eapply Hag; eauto.
      * intros id' o' Hget. destruct (key_dec (id', FMeta) (id, f)) as [E|E].
        -- inversion E; subst. fold bput in Hget. rewrite bget_put_same in Hget. inversion Hget; subst.
           destruct Hg as [bl [cid [lbl [Hu [Hv Hall]]]]]. exists bl, cid, lbl. split; [exact Hu|]. split; [exact Hv|].
           intros f' sz' Hin' Hd'. fold bput. rewrite bget_put_other.
           2:{ intros E'. inversion E'; subst. discriminate. }
           apply Hall; assumption.
        -- fold bput in Hget. rewrite bget_put_other in Hget by exact E.
           destruct (Hco _ _ Hget) as [bl' [cid [lbl [Hu' [Ho' Hall]]]]].
           exists bl', cid, lbl. split; [exact Hu'|]. split; [exact Ho'|].
           intros f' sz' Hin' Hd'. fold bput. rewrite bget_put_other.
           2:{ intros E'. inversion E'; subst. congruence. }
           apply Hall; assumption.
  - (* delete *)
    split.
    + intros id' f' o' Hd' Hget. destruct (key_dec (id', f') (id, f)) as [E|E].
      * inversion E; subst. fold bdel in Hget. rewrite bget_del_same in Hget. discriminate.
      * fold bdel in Hget. rewrite bget_del_other in Hget by exact E. eapply Hag; eauto.
    + intros id' o' Hget. destruct (key_dec (id', FMeta) (id, f)) as [E|E].
      * inversion E; subst. fold bdel in Hget. rewrite bget_del_same in Hget. discriminate.
      * fold bdel in Hget. rewrite bget_del_other in Hget by exact E.
        destruct (Hco _ _ Hget) as [bl' [cid [lbl [Hu' [Ho' Hall]]]]].
        exists bl', cid, lbl. split; [exact Hu'|]. split; [exact Ho'|].
        intros f' sz' Hin' Hd'. destruct (key_dec (id', f') (id, f)) as [E'|E'].
        -- inversion E'; subst. rewrite (Hg Hd') in Hget. discriminate.
        -- fold bdel. rewrite bget_del_other by exact E'. apply Hall; assumption.
Qed.

(* all states of a guarded op log satisfy the invariant *)
Lemma binv_states U b l :
  wf_univ U -> binv U b -> guarded key obj key_eqb key_ltb (op_guard U) b l ->
  forall b', In b' (bstates b l) -> binv U b'.
Proof.
  intros Hwf Hb Hg. apply (states_invariant key obj key_eqb key_ltb (binv U) (op_guard U)); auto.
  intros s o Hs Ho. apply binv_step; assumption.
Qed.

(* ---- the property clause follows from the invariant ---- *)
Lemma binv_visible_complete U b : binv U b -> visible_complete_b b = true.
Proof.
  intros [Hag Hco]. unfold visible_complete_b. apply forallb_forall. intros [id f] Hk. simpl.
  destruct f; try reflexivity.
  destruct (bget b (id, FMeta)) as [o|] eqn:Hget; [|reflexivity].
  destruct (Hco _ _ Hget) as [bl [cid [lbl [Hu [Ho Hall]]]]]. subst o. simpl.
  apply forallb_forall. intros [f sz] Hin. simpl.
  destruct (is_data f) eqn:Hd.
  - destruct f; try discriminate; rewrite (Hall _ _ Hin Hd); apply Z.eqb_refl.
  - unfold files_of in Hin. apply in_app_or in Hin as [Hin|Hin].
    + apply in_map_iff in Hin as [[n z] [Heq _]]. inversion Heq; subst. discriminate.
    + simpl in Hin. destruct Hin as [H|[H|[]]]; inversion H; subst; [discriminate|reflexivity].
Qed.

(* the property clause as a proposition *)
Definition visible_complete (b : bucket) : Prop :=
  forall id cid files lbl, bget b (id, FMeta) = Some (MetaO cid files lbl) ->
    forall f sz, In (f, sz) files -> f <> FMeta -> bget b (id, f) = Some (Blob sz).

Lemma binv_visible U b : binv U b -> visible_complete b.
Proof.
  intros [_ Hco] id cid files lbl Hm f sz Hin Hf.
  destruct (Hco _ _ Hm) as [bl [cid' [lbl' [Hu [Ho Hall]]]]]. inversion Ho; subst.
  apply Hall; [exact Hin|].
  unfold files_of in Hin. apply in_app_or in Hin as [Hin|Hin].
  - apply in_map_iff in Hin as [[n z] [Heq _]]. inversion Heq; subst. reflexivity.
  - simpl in Hin. destruct Hin as [H|[H|[]]]; inversion H; subst; [reflexivity|congruence].
Qed.

