(* Facts about hash-sorted rings used by C20 (node addition) and C18 (order independence):
   a hash-sorted list with pairwise distinct hashes is determined by its set of sections. *)
From Coq Require Import ZArith List Bool Lia Arith Permutation Sorting.Sorted.
Import ListNotations.
From Verif Require Import Lib.Hashring_Ketama Lib.Hashring_KetamaFacts.

Definition hash_le (a b : section) : Prop := (s_hash a <= s_hash b)%Z.

Lemma sort_sections_StronglySorted l : StronglySorted hash_le (sort_sections l).
Proof.
  unfold sort_sections.
  assert (T : RelationClasses.Transitive (fun x y : section => is_true (s_hash x <=? s_hash y)%Z)).
  { intros x y z Hxy Hyz. unfold is_true in *. apply Z.leb_le in Hxy, Hyz. apply Z.leb_le. lia. }
  pose proof (SecSort.StronglySorted_sort l T) as S.
  induction S as [|a l' S IH F]; constructor; auto.
  eapply Forall_impl; [|exact F]. intros b Hb. apply Z.leb_le. exact Hb.
Qed.

Lemma NoDup_map_inj {A B} (f : A -> B) l x y :
  NoDup (map f l) -> In x l -> In y l -> f x = f y -> x = y.
Proof.
  induction l as [|a l IH]; simpl; intros Hnd Hx Hy E; [contradiction|].
  inversion Hnd as [|? ? Hn Hnd']; subst.
  destruct Hx as [->|Hx], Hy as [->|Hy]; auto.
  - exfalso. apply Hn. rewrite E. apply in_map. exact Hy.
  - exfalso. apply Hn. rewrite <- E. apply in_map. exact Hx.
Qed.

(* uniqueness of the hash-sorted arrangement *)
Lemma sorted_unique : forall l l' : list section,
  StronglySorted hash_le l -> StronglySorted hash_le l' -> Permutation l l' ->
  NoDup (map s_hash l) -> l = l'.
Proof.
  induction l as [|a l IH]; intros l' S S' P Hnd.
  - apply Permutation_nil in P. subst. reflexivity.
  - destruct l' as [|b l'']; [apply Permutation_sym, Permutation_nil in P; discriminate|].
    inversion S as [|? ? Sl Fa]; subst. inversion S' as [|? ? Sl' Fb]; subst.
    assert (a = b).
    { assert (Ia : In a (b :: l'')) by (eapply Permutation_in; [exact P|now left]).
      assert (Ib : In b (a :: l)) by (eapply Permutation_in; [apply Permutation_sym; exact P|now left]).
      rewrite Forall_forall in Fa, Fb.
      destruct Ia as [->|Ia]; [reflexivity|]. destruct Ib as [Ib|Ib]; [auto|].
      specialize (Fa _ Ib). specialize (Fb _ Ia). unfold hash_le in *.
      apply (NoDup_map_inj s_hash (a :: l)); [exact Hnd|now left|now right|lia]. }
    subst b. f_equal. apply IH; auto.
    + eapply Permutation_cons_inv; eauto.
    + simpl in Hnd. inversion Hnd; assumption.
Qed.

Lemma StronglySorted_filter {A} (R : A -> A -> Prop) f l :
  StronglySorted R l -> StronglySorted R (filter f l).
Proof.
  induction 1 as [|a l S IH F]; simpl; [constructor|].
  destruct (f a); [|exact IH]. constructor; [exact IH|].
  rewrite Forall_forall in *. intros x Hx. apply filter_In in Hx as [Hx _]. auto.
Qed.

Lemma StronglySorted_map_hash (g : section -> section) l :
  (forall s, s_hash (g s) = s_hash s) ->
  StronglySorted hash_le l -> StronglySorted hash_le (map g l).
Proof.
  intros Hg. induction 1 as [|a l S IH F]; simpl; constructor; [exact IH|].
  rewrite Forall_forall in *. intros x Hx. apply in_map_iff in Hx as [y [<- Hy]].
  unfold hash_le. rewrite !Hg. apply F. exact Hy.
Qed.

Lemma Permutation_filter' {A} (f : A -> bool) l l' :
  Permutation l l' -> Permutation (filter f l) (filter f l').
Proof.
  induction 1; simpl; auto.
  - destruct (f x); auto.
  - destruct (f x), (f y); auto. apply perm_swap.
  - eapply Permutation_trans; eauto.
Qed.

Lemma NoDup_map_filter {A B} (f : A -> B) g l : NoDup (map f l) -> NoDup (map f (filter g l)).
Proof.
  induction l as [|a l IH]; simpl; intro H; [constructor|].
  inversion H as [|? ? Hn H']; subst. destruct (g a); simpl; [|auto].
  constructor; [|auto]. intro Hin. apply Hn. apply in_map_iff in Hin as [y [E Hy]].
  apply filter_In in Hy as [Hy _]. rewrite <- E. apply in_map. exact Hy.
Qed.

(* renaming endpoint indexes *)
Definition rename (f : nat -> nat) (s : section) : section := mkS (s_hash s) (f (s_ep s)) (s_az s).

Lemma rename_hash f s : s_hash (rename f s) = s_hash s.
Proof. reflexivity. Qed.

Lemma sections_of_app a : forall idx b,
  sections_of idx (a ++ b) = sections_of idx a ++ sections_of (idx + length a) b.
Proof.
  induction a as [|[az hs] r IH]; intros idx b; simpl.
  - rewrite Nat.add_0_r. reflexivity.
  - rewrite IH, <- app_assoc. do 3 f_equal. lia.
Qed.

Lemma sections_of_shift eps : forall idx k,
  sections_of (k + idx) eps = map (rename (fun e => k + e)) (sections_of idx eps).
Proof.
  induction eps as [|[az hs] r IH]; intros idx k; simpl; [reflexivity|].
  rewrite map_app, map_map. f_equal. replace (S (k + idx)) with (k + S idx) by lia. apply IH.
Qed.

Lemma sections_of_ge eps : forall idx s, In s (sections_of idx eps) -> idx <= s_ep s.
Proof. intros idx s H. apply sections_of_In in H. lia. Qed.
