(* Shared helpers for the correspondence check (tie C): the harness writes a
   list of (index, case) pairs observed on the real implementation; a property's
   Model file supplies [corr_ok] (model output = implementation observable) and
   [pred_ok] (the property's boolean predicate on the implementation's own
   observable). [find_bad] returns the indices where a check fails. *)
From Coq Require Import NArith List Bool.
Import ListNotations.

Definition find_bad {A : Type} (f : A -> bool) (l : list (N * A)) : list N :=
  map fst (filter (fun p => negb (f (snd p))) l).

Lemma find_bad_nil_all {A} (f : A -> bool) l :
  find_bad f l = [] -> forall i c, In (i, c) l -> f c = true.
Proof.
  unfold find_bad. induction l as [|[j d] l IH]; simpl; intros H i c Hin; [contradiction|].
  destruct (f d) eqn:E; simpl in H.
  - destruct Hin as [Heq|Hin]; [inversion Heq; subst; exact E | eapply IH; eauto].
  - discriminate.
Qed.

(* list equality deciders used by corr_ok definitions *)
Fixpoint list_eqb {A} (eqb : A -> A -> bool) (l1 l2 : list A) : bool :=
  match l1, l2 with
  | [], [] => true
  | x :: l1', y :: l2' => eqb x y && list_eqb eqb l1' l2'
  | _, _ => false
  end.

Lemma list_eqb_spec {A} (eqb : A -> A -> bool) :
  (forall x y, eqb x y = true <-> x = y) ->
  forall l1 l2, list_eqb eqb l1 l2 = true <-> l1 = l2.
Proof.
  intros H l1; induction l1 as [|x l1 IH]; intros [|y l2]; simpl; split; intro E;
    try reflexivity; try discriminate.
  - apply andb_true_iff in E as [E1 E2]. apply H in E1. apply IH in E2. subst. reflexivity.
  - inversion E; subst. apply andb_true_iff; split; [apply H; reflexivity | apply IH; reflexivity].
Qed.

Definition option_eqb {A} (eqb : A -> A -> bool) (a b : option A) : bool :=
  match a, b with
  | Some x, Some y => eqb x y
  | None, None => true
  | _, _ => false
  end.

Definition pair_eqb {A B} (ea : A -> A -> bool) (eb : B -> B -> bool) (p q : A * B) : bool :=
  ea (fst p) (fst q) && eb (snd p) (snd q).
