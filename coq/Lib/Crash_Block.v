(* Crash group (C28, C35): thanos blocks in an object store.
   Executable definitions only: object keys, objects, the "universe" of block
   contents, the bucket operations issued by
     block.upload                         (pkg/block/block.go)
     block.Delete / deleteDirRec          (pkg/block/block.go)
     block.MarkForDeletion                (pkg/block/block.go)
     replicationScheme.ensureBlockIsReplicated / ensureObjectReplicated (pkg/replicate/scheme.go)
   and the boolean predicates of property C28 evaluated on bucket listings.
   The ORDER of the phases of each function is not written here: it is an
   argument ([phases]) that the property files compute from the source-order
   call list regenerated into Gen/CNN.v on every run (tie T). Lemmas are in
   Lib/Crash_BlockFacts.v. *)
From Coq Require Import ZArith NArith List Bool.
Import ListNotations.
From Verif Require Import Lib.Corr Lib.Crash_Store.

Fixpoint all_some {A} (l : list (option A)) : option (list A) :=
  match l with
  | [] => Some []
  | None :: _ => None
  | Some x :: r => match all_some r with Some y => Some (x :: y) | None => None end
  end.

(* ---- keys: <block>/<file>; blocks are numbered by the harness (ULID order) ---- *)
Inductive file :=
| FMeta                (* meta.json *)
| FIndex               (* index *)
| FChunk (seg : N)     (* chunks/<seg, 6 digits> *)
| FDelMark             (* deletion-mark.json *)
| FNoCompact           (* no-compact-mark.json *)
| FNoDownsample        (* no-downsample-mark.json *)
| FDirChunks           (* "<id>/chunks/" directory marker object *)
| FDirBlock            (* "<id>/" directory marker object *)
| FOther (n : N).

Definition file_eqb (a b : file) : bool :=
  match a, b with
  | FMeta, FMeta | FIndex, FIndex | FDelMark, FDelMark | FNoCompact, FNoCompact
  | FNoDownsample, FNoDownsample | FDirChunks, FDirChunks | FDirBlock, FDirBlock => true
  | FChunk n, FChunk m => N.eqb n m
  | FOther n, FOther m => N.eqb n m
  | _, _ => false
  end.

(* position in a sorted listing of "<id>/": chunks/* < deletion-mark.json < index
   < meta.json < no-compact-mark.json < no-downsample-mark.json *)
Definition file_code (f : file) : N * N :=
  match f with
  | FChunk n => (0, n) | FDelMark => (1, 0) | FIndex => (2, 0) | FMeta => (3, 0)
  | FNoCompact => (4, 0) | FNoDownsample => (5, 0) | FDirChunks => (6, 0)
  | FDirBlock => (7, 0) | FOther n => (8, n)
  end%N.

Definition key := (N * file)%type.

Definition key_eqb (a b : key) : bool := N.eqb (fst a) (fst b) && file_eqb (snd a) (snd b).

Definition nn_ltb (a b : N * N) : bool :=
  N.ltb (fst a) (fst b) || (N.eqb (fst a) (fst b) && N.ltb (snd a) (snd b)).

Definition key_ltb (a b : key) : bool :=
  N.ltb (fst a) (fst b) || (N.eqb (fst a) (fst b) && nn_ltb (file_code (snd a)) (file_code (snd b))).

(* ---- objects ---- *)
Inductive obj :=
| Blob (sz : Z)                                         (* any non-meta object: its size *)
| MetaO (cid : N) (files : list (file * Z)) (lbl : N).  (* meta.json: content id (equal bytes <-> equal id),
                                                           Thanos.Files (name, size), external label set id *)

Definition fz_eqb (a b : file * Z) : bool := file_eqb (fst a) (fst b) && Z.eqb (snd a) (snd b).

Definition obj_eqb (a b : obj) : bool :=
  match a, b with
  | Blob x, Blob y => Z.eqb x y
  | MetaO c f l, MetaO c' f' l' => N.eqb c c' && list_eqb fz_eqb f f' && N.eqb l l'
  | _, _ => false
  end.

Definition bucket := store key obj.
Definition bop := op key obj.

Definition bget : bucket -> key -> option obj := get key obj key_eqb.
Definition bhas : bucket -> key -> bool := has key obj key_eqb.
Definition bput : bucket -> key -> obj -> bucket := put key obj key_eqb key_ltb.
Definition bdel : bucket -> key -> bucket := del key obj key_eqb.
Definition bapply : bucket -> bop -> bucket := apply_op key obj key_eqb key_ltb.
Definition bapply_ops : bucket -> list bop -> bucket := apply_ops key obj key_eqb key_ltb.
Definition bstates : bucket -> list bop -> list bucket := states key obj key_eqb key_ltb.

(* typed constructors used by the generated case files (fast elaboration) *)
Definition kv (id : N) (f : file) (o : obj) : key * obj := ((id, f), o).
Definition up (id : N) (f : file) (o : obj) : bop := Up (id, f) o.
Definition dl (id : N) (f : file) : bop := Del (id, f).
Definition fz (f : file) (z : Z) : file * Z := (f, z).
Definition cz (n : N) (z : Z) : N * Z := (n, z).

Definition bop_eqb (a b : bop) : bool :=
  match a, b with
  | Up k v, Up k' v' => key_eqb k k' && obj_eqb v v'
  | Del k, Del k' => key_eqb k k'
  | _, _ => false
  end.

Definition kv_eqb (a b : key * obj) : bool := key_eqb (fst a) (fst b) && obj_eqb (snd a) (snd b).
Definition bucket_eqb : bucket -> bucket -> bool := list_eqb kv_eqb.

(* ---- block contents: every block id has one content, fixed for ever (ULIDs are unique) ---- *)
Record blk := mkblk {
  b_chunks : list (N * Z);   (* segment number, size *)
  b_index : Z;               (* size of index *)
  b_lbl : N                  (* external labels in the local meta.json *)
}.
Definition univ := list (N * blk).

Fixpoint ublock (U : univ) (id : N) : option blk :=
  match U with
  | [] => None
  | (i, b) :: r => if N.eqb id i then Some b else ublock r id
  end.

Fixpoint assocN (l : list (N * Z)) (n : N) : Z :=
  match l with [] => 0%Z | (m, z) :: r => if N.eqb n m then z else assocN r n end.

Definition chunk_size (b : blk) (n : N) : Z := assocN (b_chunks b) n.

(* Thanos.Files as written by GatherFileStats: chunks (ReadDir order), index,
   meta.json (without size), sorted by RelPath: chunks/... < index < meta.json *)
Definition files_of (b : blk) : list (file * Z) :=
  map (fun p => (FChunk (fst p), snd p)) (b_chunks b) ++ [(FIndex, b_index b); (FMeta, 0%Z)].

Definition is_data (f : file) : bool :=
  match f with FChunk _ | FIndex => true | _ => false end.

Fixpoint memN (n : N) (l : list N) : bool :=
  match l with [] => false | m :: r => N.eqb n m || memN n r end.
Fixpoint nodupN (l : list N) : bool :=
  match l with [] => true | n :: r => negb (memN n r) && nodupN r end.

Definition wf_univ_b (U : univ) : bool :=
  forallb (fun p => nodupN (map fst (b_chunks (snd p)))) U.

(* [order] = the order in which the chunk files were uploaded (objstore.UploadDir
   walks the directory; with upload concurrency > 1 any order is possible): it
   must be a permutation of the segment files of the block *)
Definition perm_b (order segs : list N) : bool :=
  Nat.eqb (length order) (length segs) && nodupN order && forallb (fun n => memN n segs) order.

(* ---- block.upload ---- *)
Inductive uphase := PChunks | PIndex | PMeta.

Definition data_val (b : blk) (f : file) : obj :=
  match f with
  | FChunk n => Blob (chunk_size b n)
  | FIndex => Blob (b_index b)
  | _ => Blob 0
  end.

Definition upload_phase_ops (id : N) (b : blk) (order : list N) (cid lbl : N) (p : uphase) : list bop :=
  match p with
  | PChunks => map (fun n => Up (id, FChunk n) (data_val b (FChunk n))) order
  | PIndex => [Up (id, FIndex) (data_val b FIndex)]
  | PMeta => [Up (id, FMeta) (MetaO cid (files_of b) lbl)]
  end.

(* None: [order] is not a permutation of the block's segment files.
   A block id unknown to the universe has no local directory: upload fails
   before any bucket operation. *)
Definition upload_ops (phases : list uphase) (U : univ) (id : N) (order : list N) (cid lbl : N)
  : option (list bop) :=
  match ublock U id with
  | None => Some []
  | Some b =>
      if perm_b order (map fst (b_chunks b))
      then Some (flat_map (upload_phase_ops id b order cid lbl) phases)
      else None
  end.

(* ---- block.Delete ---- *)
Inductive dphase := DMeta | DRest | DMark | DDirs.

Definition block_keys (b : bucket) (id : N) : list key :=
  filter (fun k => N.eqb (fst k) id) (map fst b).

Definition kept_by_rest (f : file) : bool :=
  match f with FMeta | FDelMark | FDirChunks | FDirBlock => true | _ => false end.

(* what deleteDirRec deletes: every object under "<id>/" that the keep function
   does not protect (directory names are descended into, never deleted there) *)
Definition rest_files (b : bucket) (id : N) : list file :=
  filter (fun f => negb (kept_by_rest f)) (map snd (block_keys b id)).

Fixpoint memF (f : file) (l : list file) : bool :=
  match l with [] => false | g :: r => file_eqb f g || memF f r end.
Fixpoint nodupF (l : list file) : bool :=
  match l with [] => true | f :: r => negb (memF f r) && nodupF r end.

(* [order]: the order in which Bucket.Iter handed the objects to deleteDirRec
   (provider specific: the in-memory bucket lists files before directories) *)
Definition perm_files (order expected : list file) : bool :=
  Nat.eqb (length order) (length expected) && nodupF order && forallb (fun f => memF f expected) order.

Definition delete_phase_ops (b : bucket) (id : N) (order : list file) (p : dphase) : list bop :=
  match p with
  | DMeta => if bhas b (id, FMeta) then [Del (id, FMeta)] else []
  | DRest => map (fun f => Del (id, f)) order
  | DMark => if bhas b (id, FDelMark) then [Del (id, FDelMark)] else []
  | DDirs => [Del (id, FDirChunks); Del (id, FDirBlock)]
  end.

(* None: [order] is not a permutation of what deleteDirRec has to delete *)
Definition delete_ops (phases : list dphase) (b : bucket) (id : N) (order : list file) : option (list bop) :=
  if perm_files order (rest_files b id)
  then Some (flat_map (delete_phase_ops b id order) phases)
  else None.

(* ---- block.MarkForDeletion ---- *)
Definition mark_ops (b : bucket) (id : N) (sz : Z) : list bop :=
  if bhas b (id, FDelMark) then [] else [Up (id, FDelMark) (Blob sz)].

(* ---- replicationScheme.ensureBlockIsReplicated ---- *)
Inductive rphase := RChunks | RIndex | RMeta.

Definition is_chunk (f : file) : bool := match f with FChunk _ => true | _ => false end.

(* ensureObjectReplicated: skip when the target has the name; None = error (origin lacks it) *)
Definition copy_ops (src dst : bucket) (k : key) : option (list bop) :=
  if bhas dst k then Some []
  else match bget src k with Some o => Some [Up k o] | None => None end.

Fixpoint seq_opt (l : list (option (list bop))) : option (list bop) :=
  match l with
  | [] => Some []
  | None :: _ => None
  | Some x :: r => match seq_opt r with Some y => Some (x ++ y) | None => None end
  end.

(* ops of one phase; None = the phase returned an error *)
Definition replicate_phase (src dst : bucket) (id : N) (om : obj) (p : rphase) : option (list bop) :=
  match p with
  | RChunks => seq_opt (map (copy_ops src dst) (filter (fun k => is_chunk (snd k)) (block_keys src id)))
  | RIndex => copy_ops src dst (id, FIndex)
  | RMeta => Some [Up (id, FMeta) om]
  end.

(* phases run in order; the first error ends the function (ops issued so far stay) *)
Fixpoint run_phases (l : list (option (list bop))) : list bop :=
  match l with
  | [] => []
  | None :: _ => []
  | Some x :: r => x ++ run_phases r
  end.

Definition meta_cid (o : obj) : option N :=
  match o with MetaO c _ _ => Some c | Blob _ => None end.

Definition same_content (a : obj) (b : option obj) : bool :=
  match meta_cid a, b with
  | Some c, Some b' => match meta_cid b' with Some c' => N.eqb c c' | None => false end
  | _, _ => false
  end.

Definition replicate_ops (phases : list rphase) (src dst : bucket) (id : N) : list bop :=
  match bget src (id, FMeta) with
  | None => []
  | Some om =>
      if same_content om (bget dst (id, FMeta)) then []
      else run_phases (map (replicate_phase src dst id om) phases)
  end.


(* ---- two actors: ensureBlockIsReplicated origin -> target while block.Delete runs on the origin.
   [pend]: the deleter's operations, each with the number of the replicator's origin operation
   (0: Get meta.json, 1: Iter chunks/, 2..: the Gets) right before which it takes effect. ---- *)
Definition pending := list (nat * bop).

Fixpoint adv (src : bucket) (pend : pending) (n : nat) : bucket * pending :=
  match pend with
  | (k, o) :: r => if Nat.leb k n then adv (bapply src o) r n else (src, pend)
  | [] => (src, [])
  end.

(* ensureObjectReplicated for each name in turn, the origin changing underneath: Some = all done
   (origin state, pending deletions and origin-operation counter afterwards), None = a Get found
   the object gone: the replicator returns the error *)
Fixpoint rd_copy (src dst : bucket) (pend : pending) (n : nat) (ks : list key) (acc : list bop)
  : list bop * option (bucket * pending * nat) :=
  match ks with
  | [] => (acc, Some (src, pend, n))
  | k :: r =>
      if bhas dst k then rd_copy src dst pend n r acc
      else let (src', pend') := adv src pend n in
           match bget src' k with
           | None => (acc, None)
           | Some o => rd_copy src' dst pend' (S n) r (acc ++ [Up k o])
           end
  end.

Definition repdel_ops (src dst : bucket) (id : N) (pend : pending) : list bop * bool :=
  let (s0, p0) := adv src pend 0 in
  match bget s0 (id, FMeta) with
  | None => ([], false)
  | Some om =>
      if same_content om (bget dst (id, FMeta)) then ([], true)
      else
        let (s1, p1) := adv s0 p0 1 in
        let cks := filter (fun k => is_chunk (snd k)) (block_keys s1 id) in
        match rd_copy s1 dst p1 2 (cks ++ [(id, FIndex)]) [] with
        | (acc, None) => (acc, false)
        | (acc, Some _) => (acc ++ [Up (id, FMeta) om], true)
        end
  end.

(* the deleter removes the index before any chunk file (the in-memory bucket lists files before
   directories; S3/GCS list "chunks/" before "index") *)
Fixpoint index_first (order : list file) : bool :=
  match order with
  | [] => true
  | FIndex :: _ => true
  | FChunk _ :: _ => false
  | _ :: r => index_first r
  end.

(* ---- property C28 on a bucket listing (boolean, evaluated on the real bucket) ---- *)

(* a block whose meta.json is present has every file that meta.json lists, with the recorded size *)
Definition meta_complete_b (b : bucket) (id : N) (o : obj) : bool :=
  match o with
  | MetaO _ files _ =>
      forallb (fun fs =>
        match fst fs with
        | FMeta => true
        | f => match bget b (id, f) with Some (Blob sz) => Z.eqb sz (snd fs) | _ => false end
        end) files
  | Blob _ => false      (* unparseable meta.json *)
  end.

Definition visible_complete_b (b : bucket) : bool :=
  forallb (fun k =>
    match snd k with
    | FMeta => match bget b k with Some o => meta_complete_b b (fst k) o | None => true end
    | _ => true
    end) (map fst b).

Definition is_dirmarker (f : file) : bool :=
  match f with FDirChunks | FDirBlock => true | _ => false end.

(* nothing of the block is left (directory marker objects aside) *)
Definition block_gone_b (b : bucket) (id : N) : bool :=
  forallb (fun k => negb (N.eqb (fst k) id) || is_dirmarker (snd k)) (map fst b).

(* the deletion mark is present, or nothing else of the block is left *)
Definition mark_or_gone_b (b : bucket) (id : N) : bool :=
  bhas b (id, FDelMark) || block_gone_b b id.
