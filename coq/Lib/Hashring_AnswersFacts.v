(* Lemmas about ketama lookups (Lib/Hashring_Answers.v): distinct valid nodes, zone balance. *)
From Coq Require Import ZArith NArith List Bool Lia Arith Permutation Sorting.Sorted.
Import ListNotations.
From Verif Require Import Lib.Hashring_Ketama Lib.Hashring_KetamaFacts Lib.Hashring_Answers.

(* ------------------------------------------------------------------ *)
(* B. ketama answers are distinct valid nodes                           *)

Lemma map_nth_seq {A} (d : A) (l : list A) : map (fun n => nth n l d) (seq 0 (length l)) = l.
Proof.
  induction l as [|a l IH]; [reflexivity|]. simpl. f_equal.
  rewrite <- seq_shift, map_map. exact IH.
Qed.

Lemma search_ge_le ring v : search_ge ring v <= length ring.
Proof. induction ring as [|s r IH]; simpl; [lia|]. destruct (v <=? s_hash s)%Z; lia. Qed.

Lemma ring_index_lt ring v : ring <> [] -> ring_index ring v < length ring.
Proof.
  intro Hne. unfold ring_index. pose proof (search_ge_le ring v).
  destruct (search_ge ring v =? length ring) eqn:E.
  - destruct ring; [congruence|simpl; lia].
  - apply Nat.eqb_neq in E. lia.
Qed.

Definition replicas_wf (n rf : nat) (reps : list nat) : Prop :=
  length reps = rf /\ NoDup reps /\ forall e, In e reps -> e < n.

Lemma ketama_new_ok_wf eps rf ring reps :
  ketama_new eps rf = KOk ring reps ->
  ring = sort_sections (sections_of 0 eps) /\ rf <= length eps /\
  length reps = length ring /\
  Forall (fun r => length r = rf /\ NoDup r /\ forall e, In e r -> exists s, In s ring /\ s_ep s = e) reps.
Proof.
  unfold ketama_new, ketama_new_fuel. destruct (length eps <? rf) eqn:E; [discriminate|]. apply Nat.ltb_ge in E.
  destruct (calc_replicas true _ (sort_sections (sections_of 0 eps)) rf (az_set [] eps)) eqn:C; try discriminate.
  intro H. inversion H; subst ring replicas. clear H. split; [reflexivity|]. split; [exact E|].
  unfold calc_replicas in C.
  destruct (calc_from_ok true _ rf (az_set [] eps) _ _ _ (or_intror eq_refl) C) as [L F].
  rewrite seq_length in L. split; [exact L|exact F].
Qed.

Lemma ketama_answers_spec eps rf v a :
  sections_of 0 eps <> [] ->
  ketama_answers eps rf v = Some a ->
  exists ring reps, ketama_new eps rf = KOk ring reps /\ ring <> [] /\
    a = nth (ring_index ring v) reps [] /\ In a reps.
Proof.
  intros Hne H. unfold ketama_answers in H.
  destruct (ketama_new eps rf) as [ring reps| |] eqn:K; try discriminate.
  destruct (ketama_new_ok_wf _ _ _ _ K) as [Hr [Hrf [L F]]].
  assert (Hring : ring <> []).
  { intro X. apply Hne. apply length_zero_iff_nil. rewrite <- (sort_sections_length (sections_of 0 eps)), <- Hr, X. reflexivity. }
  exists ring, reps. split; [reflexivity|]. split; [exact Hring|].
  pose proof (ring_index_lt ring v Hring) as Hi.
  set (r := nth (ring_index ring v) reps []) in *.
  assert (Hin : In r reps) by (apply nth_In; lia).
  assert (Hlen : length r = rf) by (rewrite Forall_forall in F; apply (F r Hin)).
  inversion H; subst a. split; [|].
  - rewrite <- Hlen at 1. rewrite <- (map_nth_seq 0 r) at 2. apply map_ext_in.
    intros n Hn. apply in_seq in Hn. unfold ketama_getn.
    destruct (length eps <=? n) eqn:E; [apply Nat.leb_le in E; lia|]. reflexivity.
  - replace (map _ (seq 0 rf)) with r; [exact Hin|].
    rewrite <- Hlen at 1. rewrite <- (map_nth_seq 0 r) at 1. apply map_ext_in.
    intros n Hn. apply in_seq in Hn. unfold ketama_getn.
    destruct (length eps <=? n) eqn:E; [apply Nat.leb_le in E; lia|]. reflexivity.
Qed.

Lemma ketama_answers_distinct eps rf v a :
  sections_of 0 eps <> [] ->
  ketama_answers eps rf v = Some a ->
  length a = rf /\ NoDup a /\ forall e, In e a -> e < length eps.
Proof.
  intros Hne H. destruct (ketama_answers_spec _ _ _ _ Hne H) as [ring [reps [K [_ [_ Hin]]]]].
  destruct (ketama_new_ok_wf _ _ _ _ K) as [Hr [_ [_ F]]].
  rewrite Forall_forall in F. destruct (F a Hin) as [H1 [H2 H3]].
  split; [exact H1|]. split; [exact H2|].
  intros e He. destruct (H3 e He) as [s [Hs <-]]. rewrite Hr in Hs.
  apply (proj1 (sort_sections_In _ _)) in Hs. apply sections_of_In in Hs as [B _]. lia.
Qed.

(* ------------------------------------------------------------------ *)
(* E. zone balance                                                      *)

Lemma sget_sincr sp z z' : In z (map fst sp) ->
  sget (sincr sp z) z' = if (z =? z')%Z then (sget sp z' + 1)%Z else sget sp z'.
Proof.
  induction sp as [|[a c] r IH]; simpl; intro Hin; [contradiction|].
  destruct (a =? z)%Z eqn:E.
  - apply Z.eqb_eq in E. subst a. simpl. destruct (z =? z')%Z; reflexivity.
  - simpl. destruct Hin as [Hin|Hin]; [apply Z.eqb_neq in E; congruence|].
    destruct (a =? z')%Z eqn:E'.
    + apply Z.eqb_eq in E'. subst a. rewrite (Z.eqb_sym z z'), E. reflexivity.
    + apply IH. exact Hin.
Qed.

Lemma sincr_keys sp z : In z (map fst sp) -> map fst (sincr sp z) = map fst sp.
Proof.
  induction sp as [|[a c] r IH]; simpl; intro Hin; [contradiction|].
  destruct (a =? z)%Z eqn:E; simpl; [reflexivity|]. f_equal. apply IH.
  destruct Hin as [Hin|Hin]; [apply Z.eqb_neq in E; congruence|exact Hin].
Qed.

Lemma smin_le sp z : In z (map fst sp) -> (smin sp <= sget sp z)%Z.
Proof.
  unfold smin. induction sp as [|[a c] r IH]; simpl; intro Hin; [contradiction|].
  destruct (a =? z)%Z eqn:E; [lia|].
  destruct Hin as [Hin|Hin]; [apply Z.eqb_neq in E; congruence|]. specialize (IH Hin). lia.
Qed.

Lemma sget_init azs z : sget (spread_init azs) z = 0%Z.
Proof. induction azs as [|a r IH]; simpl; [reflexivity|]. destruct (a =? z)%Z; [reflexivity|exact IH]. Qed.

Lemma spread_init_keys azs : map fst (spread_init azs) = azs.
Proof. unfold spread_init. rewrite map_map. simpl. apply map_id. Qed.

Lemma zone_count_snoc eps reps e az :
  zone_count eps (reps ++ [e]) az = zone_count eps reps az + (if (az_of eps e =? az)%Z then 1 else 0).
Proof.
  unfold zone_count. rewrite filter_app, app_length. simpl.
  destruct (az_of eps e =? az)%Z; reflexivity.
Qed.

Definition bal_inv (eps : list (Z * list Z)) (azs : list Z) (reps : list nat) (sp : spread) : Prop :=
  map fst sp = azs /\
  (forall az, sget sp az = Z.of_nat (zone_count eps reps az)) /\
  (forall a b, In a azs -> In b azs -> (sget sp a <= sget sp b + 1)%Z).

Lemma bal_inv_step eps azs ring reps sp s :
  (forall s, In s ring -> s_az s = az_of eps (s_ep s) /\ In (s_az s) azs) ->
  bal_inv eps azs reps sp -> In s ring -> rejects reps sp s = false ->
  bal_inv eps azs (reps ++ [s_ep s]) (sincr sp (s_az s)).
Proof.
  intros Hcons [K [Hc Hb]] Hin R. destruct (Hcons s Hin) as [Haz Hz].
  assert (Hk : In (s_az s) (map fst sp)) by (rewrite K; exact Hz).
  split; [rewrite sincr_keys; assumption|]. split.
  - intro az. rewrite sget_sincr by exact Hk. rewrite zone_count_snoc, <- Haz, Hc.
    destruct (s_az s =? az)%Z; lia.
  - intros a b Ha Hb'. rewrite !sget_sincr by exact Hk.
    unfold rejects in R. apply orb_false_iff in R as [_ R].
    assert (Hmin : forall b, In b azs -> (sget sp (s_az s) <= sget sp b)%Z).
    { intros b0 Hb0.
      destruct (1 <? length sp) eqn:E1.
      - simpl in R.
        assert (Hnn : (0 <= sget sp b0)%Z) by (rewrite Hc; lia).
        destruct (0 <? sget sp (s_az s))%Z eqn:E2.
        + simpl in R. apply Z.ltb_ge in R.
          pose proof (smin_le sp b0 ltac:(rewrite K; exact Hb0)). lia.
        + apply Z.ltb_ge in E2. lia.
      - (* a single zone *)
        apply Nat.ltb_ge in E1. rewrite <- K in Hb0, Hz. rewrite <- (map_length fst) in E1.
        destruct (map fst sp) as [|k [|k' r]]; simpl in *; try contradiction; try lia.
        destruct Hb0 as [<-|[]]. destruct Hz as [<-|[]]. lia. }
    pose proof (Hmin a Ha). pose proof (Hmin b Hb'). pose proof (Hb a (s_az s) Ha Hz). pose proof (Hb (s_az s) b Hz Hb').
    destruct (s_az s =? a)%Z eqn:Ea; destruct (s_az s =? b)%Z eqn:Eb;
      try (apply Z.eqb_eq in Ea; subst a); try (apply Z.eqb_eq in Eb; subst b); lia.
Qed.

Lemma ring_consistent eps s :
  In s (sort_sections (sections_of 0 eps)) ->
  s_az s = az_of eps (s_ep s) /\ In (s_az s) (az_set [] eps).
Proof.
  intro Hs. apply (proj1 (sort_sections_In _ _)) in Hs.
  apply sections_of_In in Hs as [_ [hs [Hn _]]]. rewrite Nat.sub_0_r in Hn.
  split.
  - unfold az_of. erewrite nth_error_nth; [|exact Hn]. reflexivity.
  - apply az_set_spec. right. exists hs. eapply nth_error_In; eauto.
Qed.

Lemma calc_from_In check fuel ring rf azs : forall is out r,
  calc_from check fuel ring rf azs is = COk out -> In r out ->
  exists i, walk check fuel ring rf i 0 [] (spread_init azs) = Done r.
Proof.
  induction is as [|i is' IH]; intros out r H Hin; simpl in H.
  - inversion H; subst. contradiction.
  - destruct (walk check fuel ring rf i 0 [] (spread_init azs)) eqn:W; try discriminate.
    destruct (calc_from check fuel ring rf azs is') eqn:C; try discriminate.
    inversion H; subst. destruct Hin as [<-|Hin]; [eauto|]. eapply IH; eauto.
Qed.

Lemma ketama_answers_balanced eps rf v a :
  sections_of 0 eps <> [] ->
  ketama_answers eps rf v = Some a ->
  forall z1 z2, In z1 (az_set [] eps) -> In z2 (az_set [] eps) ->
    zone_count eps a z1 <= zone_count eps a z2 + 1.
Proof.
  intros Hne H z1 z2 H1 H2.
  destruct (ketama_answers_spec _ _ _ _ Hne H) as [ring [reps [K [Hring [_ Hin]]]]].
  unfold ketama_new, ketama_new_fuel in K.
  destruct (length eps <? rf); [discriminate|].
  destruct (calc_replicas true _ (sort_sections (sections_of 0 eps)) rf (az_set [] eps)) eqn:C; try discriminate.
  inversion K; subst ring replicas. clear K. unfold calc_replicas in C.
  destruct (calc_from_In _ _ _ _ _ _ _ _ C Hin) as [i W].
  destruct (walk_done_inv (sort_sections (sections_of 0 eps)) (bal_inv eps (az_set [] eps)))
    with (check := true) (rf := rf) (fuel := walk_fuel (sections_of 0 eps) rf) (jn := i) (since := 0)
         (reps := @nil nat) (sp := spread_init (az_set [] eps)) (out := a) as [sp' [_ [Hc Hb]]].
  - intros reps0 sp0 s HP Hs R. eapply bal_inv_step; eauto. intros s0 Hs0. apply ring_consistent. exact Hs0.
  - now right.
  - split; [apply spread_init_keys|]. split.
    + intro az. rewrite sget_init. reflexivity.
    + intros a0 b0 _ _. rewrite !sget_init. lia.
  - exact W.
  - specialize (Hb z1 z2 H1 H2). rewrite !Hc in Hb. lia.
Qed.

Lemma balanced_true eps a :
  (forall z1 z2, In z1 (az_set [] eps) -> In z2 (az_set [] eps) -> zone_count eps a z1 <= zone_count eps a z2 + 1) ->
  balanced eps a = true.
Proof.
  intro H. unfold balanced. apply forallb_forall. intros x Hx. apply forallb_forall. intros y Hy.
  apply Nat.leb_le. auto.
Qed.

