(* Shared executable model of ProxyStore.Series (pkg/store/proxy.go,
   proxy_merge.go, batchable.go, pkg/losertree/tree.go), used by C03 and C06.
   Generic in the label type L (with labels.Compare as [lcmp]), the chunk type C
   (dedup key [ckey], order [cleb] = "AggrChunk.Compare >= 0") and warnings W.
   Executable definitions only; proofs are in Lib/Proxy_Proofs*.v. *)
From Coq Require Import ZArith NArith List Bool.
Import ListNotations.

Fixpoint upd {A} (n : nat) (x : A) (l : list A) : list A :=
  match l, n with
  | [], _ => []
  | _ :: r, O => x :: r
  | y :: r, S m => y :: upd m x r
  end.

Section Model.
Context {L C K W : Type}
  (lcmp : L -> L -> comparison)       (* labels.Compare *)
  (ckey : C -> K) (keqb : K -> K -> bool) (* identity of a chunk for de-duplication: its field checksums *)
  (cleb : C -> C -> bool)             (* a sorts before-or-equal b: b.Compare(a) <= 0 i.e. (MinTime, MaxTime, data) *)
  (wlen : W -> N).                    (* len(warning text) *)

(* one storepb.SeriesResponse as the merge sees it (batches are already split) *)
Inductive resp := RSeries (l : L) (cs : list C) | RWarn (w : W).
(* one message on the wire (from a store, or sent by the proxy) *)
Inductive frame := FSeries (l : L) (cs : list C) | FBatch (ss : list (L * list C)) | FWarn (w : W).

Definition is_series (r : resp) : bool := match r with RSeries _ _ => true | RWarn _ => false end.

(* ---- NewProxyResponseLoserTree: less ---- *)
Definition rless (a b : resp) : bool :=
  match a, b with
  | RSeries la _, RSeries lb _ => match lcmp la lb with Lt => true | _ => false end
  | RWarn _, RSeries _ _ => true
  | RSeries _ _, RWarn _ => false
  | RWarn wa, RWarn wb => (wlen wa <? wlen wb)%N
  end.
(* None = maxVal *)
Definition vless (a b : option resp) : bool :=
  match a, b with
  | None, Some _ => false
  | Some _, None => true
  | None, None => true
  | Some x, Some y => rless x y
  end.

(* ---- pkg/losertree/tree.go, array layout: nodes[0] winner, 1..k-1 internal, k..2k-1 leaves ---- *)
Record node := MkNode { nidx : Z; nval : option resp }.
Definition dnode := MkNode 0 None.
Record tree := MkTree { nodes : list node; seqs : list (list resp) }.

(* moveNext(index) for a leaf index >= k *)
Definition move_next (k : nat) (t : tree) (i : nat) : tree :=
  match nth (i - k) (seqs t) [] with
  | x :: r => MkTree (upd i (MkNode (nidx (nth i (nodes t) dnode)) (Some x)) (nodes t)) (upd (i - k) r (seqs t))
  | [] => MkTree (upd i (MkNode (-1) None) (nodes t)) (seqs t)
  end.

Fixpoint play_game (fuel k : nat) (ns : list node) (pos : nat) : nat * list node :=
  match fuel with
  | O => (pos, ns)
  | S f =>
      if k <=? pos then (pos, ns)
      else
        let '(l, n1) := play_game f k ns (2 * pos) in
        let '(r, n2) := play_game f k n1 (2 * pos + 1) in
        let '(loser, winner) :=
          if vless (nval (nth l n2 dnode)) (nval (nth r n2 dnode)) then (r, l) else (l, r) in
        (winner, upd pos (MkNode (Z.of_nat loser) (nval (nth loser n2 dnode))) n2)
  end.

(* replayGames: n runs over parent(pos), parent(parent(pos)), ... until 0 *)
Fixpoint replay (fuel : nat) (ns : list node) (pos : nat) (wv : option resp) (n : nat) : list node :=
  match fuel with
  | O => upd 0 (MkNode (Z.of_nat pos) wv) ns
  | S f =>
      if n =? 0 then upd 0 (MkNode (Z.of_nat pos) wv) ns
      else
        let nd := nth n ns dnode in
        if vless (nval nd) wv
        then replay f (upd n (MkNode (Z.of_nat pos) wv) ns) (Z.to_nat (nidx nd)) (nval nd) (Nat.div2 n)
        else replay f ns pos wv (Nat.div2 n)
  end.
Definition replay_games (ns : list node) (pos : nat) : list node :=
  replay (length ns) ns pos (nval (nth pos ns dnode)) (Nat.div2 pos).

Definition lt_new (ss : list (list resp)) : tree :=
  let k := length ss in
  let t0 := MkTree (repeat dnode (2 * k)) ss in
  let t1 := fold_left (fun t i => move_next k t (i + k)) (seq 0 k) t0 in
  match k with
  | O => t1
  | _ => MkTree (upd 0 (MkNode (-1) None) (nodes t1)) (seqs t1)
  end.

Definition winner_live (ns : list node) : bool :=
  negb (nidx (nth (Z.to_nat (nidx (nth 0 ns dnode))) ns dnode) =? -1)%Z.

(* Tree.Next *)
Definition lt_next (t : tree) : bool * tree :=
  let k := length (seqs t) in
  match nodes t with
  | [] => (false, t)
  | n0 :: _ =>
      if (nidx n0 =? -1)%Z then
        let '(w, ns) := play_game (2 * k) k (nodes t) 1 in
        let ns' := upd 0 (MkNode (Z.of_nat w) (nval (nth w ns dnode))) ns in
        (winner_live ns', MkTree ns' (seqs t))
      else if negb (winner_live (nodes t)) then (false, t)
      else
        let w := Z.to_nat (nidx n0) in
        let t1 := move_next k t w in
        let ns := replay_games (nodes t1) w in
        (winner_live ns, MkTree ns (seqs t1))
  end.

Fixpoint lt_drain (fuel : nat) (t : tree) : list resp :=
  match fuel with
  | O => []
  | S f =>
      let '(ok, t') := lt_next t in
      if ok then match nval (nth 0 (nodes t') dnode) with
                 | Some x => x :: lt_drain f t'
                 | None => []
                 end
      else []
  end.

(* the whole k-way merge: sequence of At() values while Next() is true *)
Definition lt_merge (ss : list (list resp)) : list resp :=
  lt_drain (S (length (concat ss))) (lt_new ss).

(* ---- responseDeduplicator ---- *)
Fixpoint dedup_keys (seen : list K) (cs : list C) : list C :=
  match cs with
  | [] => []
  | c :: r => if existsb (keqb (ckey c)) seen then dedup_keys seen r
              else c :: dedup_keys (ckey c :: seen) r
  end.
Fixpoint cinsert (c : C) (l : list C) : list C :=
  match l with
  | [] => [c]
  | d :: r => if cleb c d then c :: l else d :: cinsert c r
  end.
Definition csort (l : list C) : list C := fold_right cinsert [] l.

(* chainSeriesAndRemIdenticalChunks on a group given as (labels of the first, all chunks in arrival order) *)
Definition chain (g : L * list C) : resp :=
  RSeries (fst g) (csort (dedup_keys [] (snd g))).

(* Next()/At() as a stream transformer: non-series responses pass through at once,
   consecutive series with equal labels are chained *)
Fixpoint dedup (pending : option (L * list C)) (l : list resp) : list resp :=
  match l with
  | [] => match pending with Some g => [chain g] | None => [] end
  | RWarn w :: r => RWarn w :: dedup pending r
  | RSeries lb cs :: r =>
      match pending with
      | None => dedup (Some (lb, cs)) r
      | Some (pl, pcs) =>
          match lcmp pl lb with
          | Eq => dedup (Some (pl, pcs ++ cs)) r
          | _ => chain (pl, pcs) :: dedup (Some (lb, cs)) r
          end
      end
  end.

(* ---- per-store response sets ---- *)
Definition flatten_frame (f : frame) : list resp :=
  match f with
  | FSeries l cs => [RSeries l cs]
  | FBatch ss => map (fun p => RSeries (fst p) (snd p)) ss
  | FWarn w => [RWarn w]
  end.
Definition flatten_frames (fs : list frame) : list resp := concat (map flatten_frame fs).

(* sortWithoutLabels: order used by sort.Slice — non-series first, series by labels.
   Modelled as a stable insertion sort (the order among equal elements is not
   determined by the code and does not reach the de-duplicated output). *)
Definition rle (a b : resp) : bool :=
  match a, b with
  | RWarn _, _ => true
  | RSeries _ _, RWarn _ => false
  | RSeries la _, RSeries lb _ => match lcmp la lb with Gt => false | _ => true end
  end.
Fixpoint rinsert (x : resp) (l : list resp) : list resp :=
  match l with
  | [] => [x]
  | y :: r => if rle x y then x :: l else y :: rinsert x r
  end.
Definition rsort (l : list resp) : list resp := fold_right rinsert [] l.
Definition sort_without_labels (rm : L -> L) (l : list resp) : list resp :=
  rsort (map (fun r => match r with RSeries lb cs => RSeries (rm lb) cs | _ => r end) l).

Inductive ending := EEof | ERecvErr (w : W).   (* how the store's stream ends: io.EOF or a Recv error (wrapped into warning w) *)
Record script := MkScript {
  sopen_err : option W;      (* st.Series(...) itself fails: the warning the proxy makes of it *)
  sframes : list frame;
  send : ending;
  ssupports : bool           (* Client.SupportsWithoutReplicaLabels *)
}.

(* newAsyncRespSet + lazyRespSet / eagerRespSet: the sequence the merge reads *)
Definition resp_set (lazy wrl : bool) (rm : L -> L) (s : script) : list resp :=
  let rs := flatten_frames (sframes s) ++ match send s with EEof => [] | ERecvErr w => [RWarn w] end in
  if negb (ssupports s) && wrl then sort_without_labels rm rs
  else if lazy then rs
  else sort_without_labels (fun l => l) rs.

(* ---- batchableServer ---- *)
Fixpoint batch_send (n : nat) (pending : list (L * list C)) (l : list resp) : list frame * list (L * list C) :=
  match l with
  | [] => ([], pending)
  | RWarn w :: r =>
      let '(fs, p) := batch_send n [] r in
      ((match pending with [] => [] | _ => [FBatch pending] end) ++ FWarn w :: fs, p)
  | RSeries lb cs :: r =>
      let p1 := pending ++ [(lb, cs)] in
      if n <=? length p1 then let '(fs, p) := batch_send n [] r in (FBatch p1 :: fs, p)
      else batch_send n p1 r
  end.
Definition passthrough (r : resp) : frame :=
  match r with RSeries l cs => FSeries l cs | RWarn w => FWarn w end.
(* everything sent through newBatchableServer(.., batch): Send for each response, then Flush unless aborted *)
Definition send_all (batch : nat) (flush : bool) (l : list resp) : list frame :=
  if batch <=? 1 then map passthrough l
  else let '(fs, p) := batch_send batch [] l in
       fs ++ (if flush then match p with [] => [] | _ => [FBatch p] end else []).

(* ---- ProxyStore.Series: fan-out, merge, dedup, limit, partial-response strategy, send ---- *)
(* stores whose stream opened, and the warnings for those that did not *)
Fixpoint open_all (abort : bool) (ss : list script) : option (list W * list script) :=
  match ss with
  | [] => Some ([], [])
  | s :: r =>
      match sopen_err s with
      | Some w => if abort then None
                  else match open_all abort r with Some (ws, os) => Some (w :: ws, os) | None => None end
      | None => match open_all abort r with Some (ws, os) => Some (ws, s :: os) | None => None end
      end
  end.

(* the `for respHeap.Next()` loop: responses passed to srv.Send, and whether it ended in codes.Aborted *)
(* [lbreak limit i] is the `r.Limit > 0 && i > int(r.Limit)` test (regenerated from the source, Gen/CNN.v) *)
Fixpoint series_loop (lbreak : Z -> Z -> bool) (abort : bool) (limit : Z) (i : Z) (l : list resp) : list resp * bool :=
  match l with
  | [] => ([], false)
  | x :: r =>
      let i := (i + 1)%Z in
      if lbreak limit i then ([], false)
      else match x with
           | RWarn _ => if abort then ([], true)
                        else let '(o, a) := series_loop lbreak abort limit i r in (x :: o, a)
           | _ => let '(o, a) := series_loop lbreak abort limit i r in (x :: o, a)
           end
  end.

(* result: None = the request failed (error returned); Some frames = frames received by the client.
   [abort_open]: a store whose stream cannot be opened fails the request (the negation of the
   `!r.PartialResponseDisabled && r.PartialResponseStrategy != ABORT` test in the fan-out loop);
   [abort_loop]: a warning in the merged stream fails the request (the
   `r.PartialResponseDisabled || r.PartialResponseStrategy == ABORT` test in the send loop) *)
Definition proxy_series (lbreak : Z -> Z -> bool) (lazy wrl abort_open abort_loop : bool) (rm : L -> L) (limit : Z) (batch : nat) (ss : list script)
  : option (list frame) :=
  match open_all abort_open ss with
  | None => None
  | Some (ws, os) =>
      let merged := lt_merge (map (resp_set lazy wrl rm) os) in
      let '(out, aborted) := series_loop lbreak abort_loop limit 0 (dedup None merged) in
      if aborted then None
      else Some (send_all batch true (map RWarn ws ++ out))
  end.

(* what the client sees after splitting batches *)
Definition unbatch (fs : list frame) : list resp := flatten_frames fs.

End Model.

Arguments RSeries {L C W}.
Arguments RWarn {L C W}.
Arguments FSeries {L C W}.
Arguments FBatch {L C W}.
Arguments FWarn {L C W}.
Arguments EEof {W}.
Arguments ERecvErr {W}.
Arguments MkScript {L C W}.
