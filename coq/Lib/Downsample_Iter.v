(* Fuel-independence of the ApplyCounterResetsSeriesIterator model
   (Lib/Downsample_Aggr.v): with enough fuel acr_next / acr_seek never run out and
   their result does not depend on the fuel, which gives fuel-free equations. *)
From Coq Require Import ZArith List Bool Lia.
Import ListNotations.
From Verif Require Import Lib.Downsample_Core Lib.Downsample_Aggr.
Open Scope Z_scope.

Lemma acr_shorter : forall f,
  (forall toks st b toks' st', acr_next f toks st = Some (b, toks', st') ->
     (length toks' <= length toks)%nat /\ (b = true -> (length toks' < length toks)%nat)) /\
  (forall x toks st b toks' st', acr_seek f x toks st = Some (b, toks', st') ->
     (length toks' <= length toks)%nat).
Proof.
  induction f as [|f [IHn IHs]]; [split; intros; discriminate|]. split.
  - intros toks st b toks' st' H. cbn [acr_next] in H. destruct toks as [|[t v|] r].
    + injection H as <- <- <-. split; [lia|discriminate].
    + destruct (c_total st =? 0); [injection H as <- <- <-; cbn; split; lia|].
      destruct (t >? c_lastT st); [injection H as <- <- <-; cbn; split; lia|].
      destruct (t =? c_lastT st); apply IHn in H; cbn [length]; destruct H as [H1 H2]; split; intros; try lia;
        specialize (H2 ltac:(assumption)); lia.
    + apply IHs in H. cbn [length]. split; intros; lia.
  - intros x toks st b toks' st' H. cbn [acr_seek] in H.
    destruct (c_lastT st >=? x); [injection H as <- <- <-; lia|].
    destruct (acr_next f toks st) as [[[b1 t1] s1]|] eqn:E; [|discriminate].
    apply IHn in E. destruct b1; [apply IHs in H; lia|injection H as <- <- <-; lia].
Qed.

Lemma acr_enough : forall f,
  (forall toks st, (2 * length toks + 1 <= f)%nat -> acr_next f toks st <> None) /\
  (forall x toks st, (2 * length toks + 2 <= f)%nat -> acr_seek f x toks st <> None).
Proof.
  induction f as [|f [IHn IHs]]; [split; intros; lia|]. split.
  - intros toks st Hf. cbn [acr_next]. destruct toks as [|[t v|] r]; [discriminate| |].
    + cbn [length] in Hf. destruct (c_total st =? 0); [discriminate|].
      destruct (t >? c_lastT st); [discriminate|].
      destruct (t =? c_lastT st); apply IHn; lia.
    + cbn [length] in Hf. apply IHs. lia.
  - intros x toks st Hf. cbn [acr_seek]. destruct (c_lastT st >=? x); [discriminate|].
    destruct (acr_next f toks st) as [[[b1 t1] s1]|] eqn:E; [|exfalso; revert E; apply IHn; lia].
    destruct b1; [|discriminate]. apply IHs.
    destruct (acr_shorter f) as [S _]. destruct (S _ _ _ _ _ E) as [_ H]. specialize (H eq_refl). lia.
Qed.

Lemma acr_mono : forall f,
  (forall toks st r, acr_next f toks st = Some r -> forall f', (f <= f')%nat -> acr_next f' toks st = Some r) /\
  (forall x toks st r, acr_seek f x toks st = Some r -> forall f', (f <= f')%nat -> acr_seek f' x toks st = Some r).
Proof.
  induction f as [|f [IHn IHs]]; [split; intros; discriminate|]. split.
  - intros toks st r H f' Hf. destruct f' as [|f']; [lia|]. cbn [acr_next] in *.
    destruct toks as [|[t v|] r0]; [exact H| |].
    + destruct (c_total st =? 0); [exact H|]. destruct (t >? c_lastT st); [exact H|].
      destruct (t =? c_lastT st); eapply IHn; try eassumption; lia.
    + eapply IHs; [eassumption|lia].
  - intros x toks st r H f' Hf. destruct f' as [|f']; [lia|]. cbn [acr_seek] in *.
    destruct (c_lastT st >=? x); [exact H|].
    destruct (acr_next f toks st) as [[[b1 t1] s1]|] eqn:E; [|discriminate].
    rewrite (IHn _ _ _ E f' ltac:(lia)).
    destruct b1; [eapply IHs; [eassumption|lia]|exact H].
Qed.

(* fuel-free versions *)
Definition NEXT (toks : list tok) (st : acr) : option (bool * list tok * acr) :=
  acr_next (acr_fuel toks) toks st.
Definition SEEK (x : Z) (toks : list tok) (st : acr) : option (bool * list tok * acr) :=
  acr_seek (S (acr_fuel toks)) x toks st.

Lemma next_any f toks st : (2 * length toks + 1 <= f)%nat -> acr_next f toks st = NEXT toks st.
Proof.
  intros Hf. unfold NEXT. destruct (acr_next f toks st) as [r|] eqn:E.
  - destruct (le_ge_dec f (acr_fuel toks)) as [H|H].
    + symmetry. eapply (proj1 (acr_mono f)); eassumption.
    + destruct (acr_next (acr_fuel toks) toks st) as [r'|] eqn:E'.
      * rewrite (proj1 (acr_mono _) _ _ _ E' f H) in E. symmetry. exact E.
      * exfalso. revert E'. apply (proj1 (acr_enough _)). unfold acr_fuel. lia.
  - exfalso. revert E. apply (proj1 (acr_enough _)). exact Hf.
Qed.

Lemma seek_any f x toks st : (2 * length toks + 2 <= f)%nat -> acr_seek f x toks st = SEEK x toks st.
Proof.
  intros Hf. unfold SEEK. destruct (acr_seek f x toks st) as [r|] eqn:E.
  - destruct (le_ge_dec f (S (acr_fuel toks))) as [H|H].
    + symmetry. eapply (proj2 (acr_mono f)); eassumption.
    + destruct (acr_seek (S (acr_fuel toks)) x toks st) as [r'|] eqn:E'.
      * rewrite (proj2 (acr_mono _) _ _ _ _ E' f H) in E. symmetry. exact E.
      * exfalso. revert E'. apply (proj2 (acr_enough _)). unfold acr_fuel. lia.
  - exfalso. revert E. apply (proj2 (acr_enough _)). exact Hf.
Qed.

(* ---- equations ---- *)

Lemma NEXT_nil st : NEXT [] st = Some (false, [], st).
Proof. reflexivity. Qed.

Lemma NEXT_sample t v r st :
  NEXT (TS t v :: r) st =
  if c_total st =? 0 then Some (true, r, mkI 1 t v v true)
  else if t >? c_lastT st then
    Some (true, r, mkI (c_total st + 1) t v (c_totalV st + (if v >=? c_lastV st then v - c_lastV st else v)) true)
  else if t =? c_lastT st then NEXT r (mkI (c_total st) (c_lastT st) v (c_totalV st) true)
  else NEXT r (mkI (c_total st) (c_lastT st) (c_lastV st) (c_totalV st) true).
Proof.
  unfold NEXT at 1. unfold acr_fuel. cbn [length]. 
  replace (2 * S (length r) + 3)%nat with (S (2 * length r + 4)) by lia. cbn [acr_next].
  destruct (c_total st =? 0); [reflexivity|]. destruct (t >? c_lastT st); [reflexivity|].
  destruct (t =? c_lastT st); apply next_any; lia.
Qed.

Lemma NEXT_end r st :
  NEXT (TEnd :: r) st = SEEK (c_lastT st + 1) r (mkI (c_total st) (c_lastT st) (c_lastV st) (c_totalV st) false).
Proof.
  unfold NEXT. unfold acr_fuel. cbn [length].
  replace (2 * S (length r) + 3)%nat with (S (2 * length r + 4)) by lia. cbn [acr_next].
  apply seek_any. lia.
Qed.

Lemma SEEK_eq x toks st :
  SEEK x toks st =
  if c_lastT st >=? x then Some (c_lvt st, toks, st)
  else match NEXT toks st with
       | None => None
       | Some (false, toks', st') => Some (false, toks', st')
       | Some (true, toks', st') => SEEK x toks' st'
       end.
Proof.
  unfold SEEK at 1. cbn [acr_seek]. destruct (c_lastT st >=? x); [reflexivity|].
  fold (NEXT toks st). destruct (NEXT toks st) as [[[b t1] s1]|] eqn:E; [|reflexivity].
  destruct b; [|reflexivity]. apply seek_any.
  destruct (acr_shorter (acr_fuel toks)) as [S _]. destruct (S _ _ _ _ _ E) as [_ H]. specialize (H eq_refl).
  unfold acr_fuel. lia.
Qed.

(* repeated Next with enough rounds *)
Lemma acr_run_any : forall m n toks st, (length toks < m)%nat -> (length toks < n)%nat ->
  acr_run m toks st = acr_run n toks st.
Proof.
  induction m as [|m IH]; intros n toks st Hm Hn; [lia|]. destruct n as [|n]; [lia|].
  cbn [acr_run]. destruct (acr_next (acr_fuel toks) toks st) as [[[b t1] s1]|] eqn:E; [|reflexivity].
  destruct b; [|reflexivity].
  destruct (acr_shorter (acr_fuel toks)) as [S _]. destruct (S _ _ _ _ _ E) as [_ H]. specialize (H eq_refl).
  rewrite (IH n t1 s1) by lia. reflexivity.
Qed.

Lemma acr_run_eq n toks st : (length toks < n)%nat ->
  acr_run n toks st =
  match NEXT toks st with
  | None => None
  | Some (false, _, st') => Some ([], st')
  | Some (true, toks', st') =>
      match acr_run (S (length toks')) toks' st' with
      | None => None
      | Some (out, fin) => Some ((c_lastT st', c_totalV st') :: out, fin)
      end
  end.
Proof.
  intros Hn. destruct n as [|n]; [lia|]. cbn [acr_run]. fold (NEXT toks st).
  destruct (NEXT toks st) as [[[b t1] s1]|] eqn:E; [|reflexivity].
  destruct b; [|reflexivity].
  destruct (acr_shorter (acr_fuel toks)) as [S _]. destruct (S _ _ _ _ _ E) as [_ H]. specialize (H eq_refl).
  rewrite (acr_run_any n (Datatypes.S (length t1)) t1 s1) by lia. reflexivity.
Qed.

(* reading with Next until ValNone always terminates within the rounds given *)
Lemma acr_run_total : forall k toks st, (length toks <= k)%nat -> acr_run (S (length toks)) toks st <> None.
Proof.
  induction k as [|k IH]; intros toks st Hk.
  - destruct toks; [|cbn in Hk; lia]. cbn. discriminate.
  - rewrite acr_run_eq by lia.
    destruct (NEXT toks st) as [[[b t1] s1]|] eqn:E.
    + destruct b; [|discriminate].
      destruct (acr_shorter (acr_fuel toks)) as [S _]. destruct (S _ _ _ _ _ E) as [_ H]. specialize (H eq_refl).
      specialize (IH t1 s1 ltac:(lia)). destruct (acr_run (Datatypes.S (length t1)) t1 s1) as [[out fin]|]; [discriminate|congruence].
    + exfalso. revert E. unfold NEXT. apply (proj1 (acr_enough _)). unfold acr_fuel. lia.
Qed.
