(* Shared model of pkg/compact/downsample/downsample.go for C36 / C37 / C38
   (float series only; values are integer-valued floats, modelled exactly as Z).

   [cw] is currentWindow: it is NOT written here; every property passes the
   definition regenerated from the Go source (Gen/CNN.v, tie T).

   Executable definitions first, then lemmas that all three properties use. *)
From Coq Require Import ZArith List Bool Lia Sorted.
Import ListNotations.
Open Scope Z_scope.

Notation sample := (Z * Z)%type (only parsing).          (* (t, v) *)

(* raw samples: None = NaN (ordinary or stale marker) *)
Notation rsample := (Z * option Z)%type (only parsing).

(* monomorphic constructors for the generated cases.v files (elaborating `(t, Some v)` in long
   list literals is several times slower than these) *)
Definition sp (t v : Z) : Z * Z := (t, v).
Definition rs (t v : Z) : Z * option Z := (t, Some v).
Definition rn (t : Z) : Z * option Z := (t, None).

Definition max_int64 : Z := 9223372036854775807.
Definition min_int64 : Z := -9223372036854775808.

(* ---- floatAggregator ---- *)

(* a_min / a_max: None stands for +MaxFloat64 / -MaxFloat64 (state after reset) *)
Record fagg := mkA {
  a_total : Z; a_count : Z; a_sum : Z; a_min : option Z; a_max : option Z;
  a_counter : Z; a_resets : Z; a_last : Z }.

(* &floatAggregator{} *)
Definition a0 : fagg := mkA 0 0 0 (Some 0) (Some 0) 0 0 0.

Definition a_reset (a : fagg) : fagg :=
  mkA (a_total a) 0 0 None None (a_counter a) (a_resets a) (a_last a).

Definition a_add (a : fagg) (v : Z) : fagg :=
  let counter' :=
    if a_total a >? 0 then
      (if v <? a_last a then a_counter a + v else a_counter a + (v - a_last a))
    else v in
  let resets' := if (a_total a >? 0) && (v <? a_last a) then a_resets a + 1 else a_resets a in
  let min' := match a_min a with
              | None => Some v
              | Some m => if v <? m then Some v else Some m
              end in
  let max' := match a_max a with
              | None => Some v
              | Some m => if v >? m then Some v else Some m
              end in
  mkA (a_total a + 1) (a_count a + 1) (a_sum a + v) min' max' counter' resets' v.

Definition oz (o : option Z) : Z := match o with Some z => z | None => 0 end.

(* ---- downsampleBatch ---- *)

Section WithWindow.
Variable cw : Z -> Z -> Z.

(* the `for _, s := range data` loop; returns the (t, aggregator snapshot)
   pairs handed to `add`, and the final (nextT, aggr) *)
Fixpoint db_loop (res lastT : Z) (data : list sample) (nextT : Z) (a : fagg)
  : list (Z * fagg) * (Z * fagg) :=
  match data with
  | [] => ([], (nextT, a))
  | (t, v) :: r =>
      if t >? nextT then
        let emit := if nextT =? -1 then [] else [(nextT, a)] in
        let nextT' := Z.min (cw t res) lastT in
        let '(out, fin) := db_loop res lastT r nextT' (a_add (a_reset a) v) in
        (emit ++ out, fin)
      else
        db_loop res lastT r nextT (a_add a v)
  end.

Definition last_t (data : list sample) : Z := fst (last data (0, 0)).

(* downsampleBatch(data, resolution, &floatAggregator{}, add): the emitted
   (t, snapshot) list and the returned nextT.  data must be non-empty in Go
   (data[len(data)-1] panics otherwise); callers guarantee it. *)
Definition downsample_batch (res : Z) (data : list sample) : list (Z * fagg) * Z :=
  let '(out, (nextT, a)) := db_loop res (last_t data) data (-1) a0 in
  (out ++ (if a_total a >? 0 then [(nextT, a)] else []), nextT).

(* ---- aggregate chunks ---- *)

Record achunk := mkC {
  k_mint : Z; k_maxt : Z;
  k_count : option (list sample); k_sum : option (list sample);
  k_min : option (list sample); k_max : option (list sample);
  k_counter : option (list sample) }.

Definition fold_mint (ts : list Z) (init : Z) : Z := fold_left Z.min ts init.
Definition fold_maxt (ts : list Z) (init : Z) : Z := fold_left Z.max ts init.

Definition proj (f : fagg -> Z) (out : list (Z * fagg)) : list sample :=
  map (fun p => (fst p, f (snd p))) out.

(* downsampleFloatBatch: first raw value, per-window values, last raw value
   re-using the last timestamp *)
Definition float_batch (res : Z) (batch : list sample) : achunk :=
  let '(out, lastT) := downsample_batch res batch in
  let ts := map fst out in
  mkC (fold_mint ts max_int64) (fold_maxt ts min_int64)
      (Some (proj a_count out))
      (Some (proj a_sum out))
      (Some (proj (fun a => oz (a_min a)) out))
      (Some (proj (fun a => oz (a_max a)) out))
      (Some (hd (0, 0) batch :: proj a_counter out ++ [(lastT, snd (last batch (0, 0)))])).

(* ---- downsampleRawLoop ---- *)


Definition keep_nonnan (l : list rsample) : list sample :=
  flat_map (fun s => match snd s with Some v => [(fst s, v)] | None => [] end) l.

(* `for ; j < len(data) && data[j].t <= curW; j++ {}`: (taken, rest) *)
Fixpoint take_le (curW : Z) (l : list rsample) : list rsample * list rsample :=
  match l with
  | [] => ([], [])
  | s :: r =>
      if fst s <=? curW then let '(a, b) := take_le curW r in (s :: a, b) else ([], l)
  end.

(* j := min(batchSize, len(data)); curW := currentWindow(data[j-1].t, res); then the
   extension loop.  Walks the list: n counts down from batchSize, lastt is the
   timestamp of the sample taken last (data[j-1].t once n reaches 0 or the data
   is exhausted).  batchSize >= 1 always (len/numChunks + 1). *)
Fixpoint take_batch (res : Z) (n : nat) (lastt : Z) (l : list rsample) : list rsample * list rsample :=
  match n, l with
  | S n', s :: r => let '(a, b) := take_batch res n' (fst s) r in (s :: a, b)
  | _, _ => take_le (cw lastt res) l
  end.

(* the batches cut by downsampleRawLoop (NaN already filtered, empty ones
   skipped).  fuel = len(data): every iteration consumes at least one sample *)
Fixpoint raw_batches (fuel : nat) (res : Z) (batch_size : nat) (data : list rsample) : option (list (list sample)) :=
  match data with
  | [] => Some []
  | _ :: _ =>
    match fuel with
    | O => None
    | S f =>
      let '(taken, rest) := take_batch res batch_size 0 data in
      let batch := keep_nonnan taken in
      match raw_batches f res batch_size rest with
      | None => None
      | Some more =>
          match batch with
          | [] => Some more
          | _ :: _ => Some (batch :: more)
          end
      end
    end
  end.

(* DownsampleRaw for float samples; num_chunks = targetChunkCount(...) is an
   input (its float64 heuristic only chooses the batch size) *)
Definition downsample_raw (res : Z) (num_chunks : nat) (data : list rsample) : option (list achunk) :=
  match raw_batches (length data) res (length data / num_chunks + 1) data with
  | Some bs => Some (map (float_batch res) bs)
  | None => None
  end.

End WithWindow.

(* ---- list aggregates used by specifications ---- *)

Fixpoint sumZ (l : list Z) : Z := match l with [] => 0 | x :: r => x + sumZ r end.

Fixpoint min_list (l : list Z) : option Z :=
  match l with
  | [] => None
  | x :: r => match min_list r with None => Some x | Some m => Some (Z.min x m) end
  end.

Fixpoint max_list (l : list Z) : option Z :=
  match l with
  | [] => None
  | x :: r => match max_list r with None => Some x | Some m => Some (Z.max x m) end
  end.

Definition opt_min (a b : option Z) : option Z :=
  match a, b with
  | None, x | x, None => x
  | Some x, Some y => Some (Z.min x y)
  end.

Definition opt_max (a b : option Z) : option Z :=
  match a, b with
  | None, x | x, None => x
  | Some x, Some y => Some (Z.max x y)
  end.

Lemma min_list_app l1 l2 : min_list (l1 ++ l2) = opt_min (min_list l1) (min_list l2).
Proof.
  induction l1 as [|x l1 IH]; cbn [app min_list].
  - destruct (min_list l2); reflexivity.
  - rewrite IH. destruct (min_list l1), (min_list l2); cbn; f_equal; lia.
Qed.

Lemma max_list_app l1 l2 : max_list (l1 ++ l2) = opt_max (max_list l1) (max_list l2).
Proof.
  induction l1 as [|x l1 IH]; cbn [app max_list].
  - destruct (max_list l2); reflexivity.
  - rewrite IH. destruct (max_list l1), (max_list l2); cbn; f_equal; lia.
Qed.

Lemma sumZ_app l1 l2 : sumZ (l1 ++ l2) = sumZ l1 + sumZ l2.
Proof. induction l1 as [|x l1 IH]; cbn [app sumZ]; lia. Qed.

(* ---- the window part of the aggregator describes the samples added since reset ---- *)

Definition win_ok (a : fagg) (cur : list Z) : Prop :=
  a_count a = Z.of_nat (length cur) /\ a_sum a = sumZ cur /\
  a_min a = min_list cur /\ a_max a = max_list cur.

Lemma win_ok_reset a : win_ok (a_reset a) [].
Proof. repeat split. Qed.

Lemma win_ok_add a cur v : win_ok a cur -> win_ok (a_add a v) (cur ++ [v]).
Proof.
  intros (Hc & Hs & Hmn & Hmx). unfold win_ok. cbn [a_add a_count a_sum a_min a_max].
  rewrite app_length, sumZ_app, min_list_app, max_list_app. cbn [length sumZ min_list max_list].
  rewrite Hc, Hs, Hmn, Hmx. repeat split; try lia.
  - destruct (min_list cur) as [m|]; cbn; [|reflexivity].
    destruct (v <? m) eqn:E; [apply Z.ltb_lt in E|apply Z.ltb_ge in E]; f_equal; lia.
  - destruct (max_list cur) as [m|]; cbn; [|reflexivity].
    destruct (v >? m) eqn:E; [apply Z.gtb_lt in E|rewrite Z.gtb_ltb in E; apply Z.ltb_ge in E]; f_equal; lia.
Qed.

(* ---- ghost version of db_loop: the samples of each emitted window ---- *)

Section Ghost.
Variable cw : Z -> Z -> Z.

(* emits (t, samples of the window); returns the open window at the end *)
Fixpoint gh_loop (res lastT : Z) (data : list sample) (nextT : Z) (cur : list sample)
  : list (Z * list sample) * (Z * list sample) :=
  match data with
  | [] => ([], (nextT, cur))
  | (t, v) :: r =>
      if t >? nextT then
        let emit := if nextT =? -1 then [] else [(nextT, cur)] in
        let nextT' := Z.min (cw t res) lastT in
        let '(out, fin) := gh_loop res lastT r nextT' [(t, v)] in
        (emit ++ out, fin)
      else gh_loop res lastT r nextT (cur ++ [(t, v)])
  end.

(* db_loop and gh_loop walk in lockstep: same timestamps, and each snapshot's
   window part describes the ghost window *)
Lemma db_gh_lockstep res lastT : forall data nextT a cur,
  win_ok a (map snd cur) ->
  let '(out, (nT, a')) := db_loop cw res lastT data nextT a in
  let '(gout, (gT, cur')) := gh_loop res lastT data nextT cur in
  nT = gT /\ win_ok a' (map snd cur') /\
  Forall2 (fun o g => fst o = fst g /\ win_ok (snd o) (map snd (snd g))) out gout.
Proof.
  induction data as [|[t v] r IH]; intros nextT a cur Hw; cbn [db_loop gh_loop].
  - split; [reflexivity|split; [assumption|constructor]].
  - destruct (t >? nextT) eqn:E.
    + specialize (IH (Z.min (cw t res) lastT) (a_add (a_reset a) v) [(t, v)]).
      assert (W : win_ok (a_add (a_reset a) v) (map snd [(t, v)])).
      { change (map snd [(t, v)]) with ([] ++ [v]). apply win_ok_add, win_ok_reset. }
      specialize (IH W).
      destruct (db_loop cw res lastT r (Z.min (cw t res) lastT) (a_add (a_reset a) v)) as [out [nT a']].
      destruct (gh_loop res lastT r (Z.min (cw t res) lastT) [(t, v)]) as [gout [gT cur']].
      destruct IH as (-> & Hw' & HF). split; [reflexivity|split; [assumption|]].
      destruct (nextT =? -1); cbn [app]; [assumption|].
      constructor; [split; [reflexivity|assumption]|assumption].
    + specialize (IH nextT (a_add a v) (cur ++ [(t, v)])).
      assert (W : win_ok (a_add a v) (map snd (cur ++ [(t, v)]))).
      { rewrite map_app. apply win_ok_add, Hw. }
      exact (IH W).
Qed.


(* ---- what the ghost windows are, for time-ordered non-negative data ---- *)

Variable res lastT : Z.
Hypothesis res_pos : 0 < res.
Hypothesis cw_ge : forall t, 0 <= t -> t <= cw t res.
Hypothesis cw_same : forall t t', 0 <= t -> t <= t' -> t' <= cw t res -> cw t' res = cw t res.

(* effective window end of a sample inside a batch whose last timestamp is lastT *)
Definition ew (t : Z) : Z := Z.min (cw t res) lastT.

Definition win_of (p : Z * list sample) : Prop :=
  snd p <> [] /\ Forall (fun s => ew (fst s) = fst p) (snd p).

Lemma gh_loop_spec : forall data nextT cur,
  StronglySorted Z.le (map fst data) ->
  Forall (fun s => 0 <= fst s <= lastT) data ->
  (nextT = -1 /\ cur = [] \/
   win_of (nextT, cur) /\ exists t0, 0 <= t0 /\ nextT = ew t0 /\ Forall (fun s => t0 <= fst s) data) ->
  let '(gout, (gT, cur')) := gh_loop res lastT data nextT cur in
  concat (map snd gout) ++ cur' = cur ++ data /\
  Forall win_of gout /\
  (data <> [] \/ nextT <> -1 -> win_of (gT, cur')) /\
  StronglySorted Z.lt (map fst gout ++ [gT]) /\
  Forall (fun w => nextT <= w) (map fst gout ++ [gT]).
Proof.
  induction data as [|[t v] r IH]; intros nextT cur Hs Hb Hinv; cbn [gh_loop].
  - cbn [map concat app]. rewrite app_nil_r. split; [reflexivity|]. split; [constructor|].
    split.
    { intros [H|H]; [congruence|]. destruct Hinv as [[? _]|[? _]]; [congruence|assumption]. }
    split; [repeat constructor|]. constructor; [lia|constructor].
  - cbn [map] in Hs. apply StronglySorted_inv in Hs as [Hs Hle].
    apply Forall_cons_iff in Hb as [Ht Hb]. cbn [fst] in Ht.
    destruct (t >? nextT) eqn:E.
    + apply Z.gtb_lt in E.
      assert (Hnew : win_of (ew t, [(t, v)])).
      { split; [discriminate|]. constructor; [reflexivity|constructor]. }
      assert (Hlt : nextT < Z.min (cw t res) lastT) by (pose proof (cw_ge t (proj1 Ht)); lia).
      assert (Hew0 : 0 <= Z.min (cw t res) lastT) by (pose proof (cw_ge t (proj1 Ht)); lia).
      specialize (IH (Z.min (cw t res) lastT) [(t, v)] Hs Hb).
      assert (Hinv' : Z.min (cw t res) lastT = -1 /\ [(t, v)] = [] \/
                win_of (Z.min (cw t res) lastT, [(t, v)]) /\
                exists t0, 0 <= t0 /\ Z.min (cw t res) lastT = ew t0 /\ Forall (fun s => t0 <= fst s) r).
      { right. split; [exact Hnew|]. exists t. split; [lia|]. split; [reflexivity|].
        rewrite Forall_map in Hle. exact Hle. }
      specialize (IH Hinv').
      destruct (gh_loop res lastT r (Z.min (cw t res) lastT) [(t, v)]) as [gout [gT cur']].
      destruct IH as (Hcat & Hwins & Hfin & Hsort & Hge).
      assert (Hfin' : win_of (gT, cur')).
      { apply Hfin. right. pose proof (cw_ge t (proj1 Ht)). lia. }
      destruct Hinv as [[-> ->]|[Hw (t0 & Ht0 & Hn & _)]].
      * change (-1 =? -1) with true. cbv iota. cbn [app].
        split; [exact Hcat|]. split; [exact Hwins|]. split; [intros _; exact Hfin'|].
        split; [exact Hsort|].
        eapply Forall_impl; [|exact Hge]. intros w Hw; cbv beta in Hw; lia.
      * assert (Hnn : 0 <= nextT).
        { subst nextT. unfold ew. pose proof (cw_ge t0 Ht0). lia. }
        replace (nextT =? -1) with false by (symmetry; apply Z.eqb_neq; lia).
        cbn [app map concat fst snd]. rewrite <- app_assoc.
        split; [rewrite Hcat; reflexivity|].
        split; [constructor; assumption|]. split; [intros _; exact Hfin'|].
        split.
        -- constructor; [exact Hsort|].
           eapply Forall_impl; [|exact Hge]. intros w Hw'; cbv beta in Hw'; lia.
        -- constructor; [lia|].
           eapply Forall_impl; [|exact Hge]. intros w Hw'; cbv beta in Hw'; lia.
    + rewrite Z.gtb_ltb in E. apply Z.ltb_ge in E.
      destruct Hinv as [[-> _]|[Hw (t0 & Ht0 & Hn & Hall)]]; [lia|].
      apply Forall_cons_iff in Hall as [Ht0t Hall]. cbn [fst] in Ht0t.
      assert (Hjoin : ew t = nextT).
      { subst nextT. unfold ew in *. rewrite (cw_same t0 t); [reflexivity|lia|lia|lia]. }
      specialize (IH nextT (cur ++ [(t, v)]) Hs Hb).
      assert (Hinv' : nextT = -1 /\ cur ++ [(t, v)] = [] \/
                win_of (nextT, cur ++ [(t, v)]) /\
                exists t0, 0 <= t0 /\ nextT = ew t0 /\ Forall (fun s => t0 <= fst s) r).
      { right. split.
        - destruct Hw as [_ Hw]. split; [destruct cur; discriminate|].
          cbn [snd fst] in *. apply Forall_app. split; [exact Hw|]. constructor; [exact Hjoin|constructor].
        - exists t0. repeat split; assumption. }
      specialize (IH Hinv').
      destruct (gh_loop res lastT r nextT (cur ++ [(t, v)])) as [gout [gT cur']].
      destruct IH as (Hcat & Hwins & Hfin & Hsort & Hge).
      split; [rewrite Hcat, <- app_assoc; reflexivity|]. split; [exact Hwins|].
      split; [|split; assumption].
      intros _. apply Hfin. right. destruct Hw as [Hne Hw]. cbn [snd fst] in *.
      destruct cur as [|[tc vc] cur0]; [congruence|].
      apply Forall_cons_iff in Hw as [Hw _]. cbn [fst] in Hw.
      intro Habs. subst nextT. lia.
Qed.

End Ghost.
