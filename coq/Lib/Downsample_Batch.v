(* Shared lemmas about downsampleBatch (Lib/Downsample_Core.v) for C36 / C37 / C38:
   what one batch emits, for time-ordered non-negative samples. *)
From Coq Require Import ZArith List Bool Lia Sorted.
Import ListNotations.
From Verif Require Import Lib.Downsample_Core.
Open Scope Z_scope.

(* ---- generic list facts ---- *)

Lemma last_in {A} (l : list A) d : l <> [] -> In (last l d) l.
Proof.
  induction l as [|x l IH]; [congruence|]. intros _.
  destruct l as [|y l']; [left; reflexivity|]. right. apply IH. discriminate.
Qed.

Lemma last_app_ne {A} (l1 l2 : list A) d : l2 <> [] -> last (l1 ++ l2) d = last l2 d.
Proof.
  intros H. induction l1 as [|x l1 IH]; [reflexivity|]. cbn [app].
  assert (N : l1 ++ l2 <> []) by (intro E; apply app_eq_nil in E; destruct E; congruence).
  destruct (l1 ++ l2) as [|a l] eqn:E; [congruence|]. exact IH.
Qed.

Lemma sorted_le_last (b : list sample) :
  StronglySorted Z.le (map fst b) -> Forall (fun s => fst s <= last_t b) b.
Proof.
  unfold last_t. induction b as [|s r IH]; intros Hs; [constructor|].
  cbn [map] in Hs. apply StronglySorted_inv in Hs as [Hs Hle].
  destruct r as [|s' r'].
  - constructor; [cbn; lia|constructor].
  - change (last (s :: s' :: r') (0, 0)) with (last (s' :: r') (0, 0)).
    constructor; [|apply IH; exact Hs].
    rewrite Forall_forall in Hle. apply Hle. apply in_map. apply last_in. discriminate.
Qed.

(* ---- aggregator bookkeeping ---- *)

Lemma db_loop_total cw res lastT : forall data nextT a,
  a_total (snd (snd (db_loop cw res lastT data nextT a))) = a_total a + Z.of_nat (length data).
Proof.
  induction data as [|[t v] r IH]; intros nextT a; cbn [db_loop].
  - cbn. lia.
  - destruct (t >? nextT).
    + specialize (IH (Z.min (cw t res) lastT) (a_add (a_reset a) v)).
      destruct (db_loop cw res lastT r (Z.min (cw t res) lastT) (a_add (a_reset a) v)) as [out fin].
      cbn [snd] in *. rewrite IH. cbn [a_add a_reset a_total length]. lia.
    + rewrite IH. cbn [a_add a_total length]. lia.
Qed.

(* ---- windows as filters ---- *)

Lemma filter_all {A} (f : A -> bool) l : Forall (fun x => f x = true) l -> filter f l = l.
Proof. induction 1 as [|x l Hx _ IH]; cbn [filter]; [reflexivity|]. rewrite Hx, IH. reflexivity. Qed.

Lemma filter_none {A} (f : A -> bool) l : Forall (fun x => f x = false) l -> filter f l = [].
Proof. induction 1 as [|x l Hx _ IH]; cbn [filter]; [reflexivity|]. rewrite Hx, IH. reflexivity. Qed.

Lemma sorted_lt_nodup l : StronglySorted Z.lt l -> NoDup l.
Proof.
  induction 1 as [|x l _ IH Hx]; constructor; [|exact IH].
  intro Hin. rewrite Forall_forall in Hx. specialize (Hx x Hin). lia.
Qed.

(* consecutive groups with pairwise distinct keys are the key-filters of the whole *)
Lemma windows_filter (key : sample -> Z) : forall (wins : list (Z * list sample)),
  Forall (fun p => Forall (fun s => key s = fst p) (snd p)) wins ->
  NoDup (map fst wins) ->
  Forall (fun p => filter (fun s => key s =? fst p) (concat (map snd wins)) = snd p) wins.
Proof.
  induction wins as [|[w c] rest IH]; intros Hk Hnd; [constructor|].
  apply Forall_cons_iff in Hk as [Hc Hk]. cbn [fst snd] in Hc.
  cbn [map] in Hnd. apply NoDup_cons_iff in Hnd as [Hnin Hnd]. cbn [fst] in Hnin.
  cbn [map concat snd]. constructor.
  - cbn [fst snd]. rewrite filter_app. rewrite filter_all.
    + rewrite filter_none; [apply app_nil_r|].
      apply Forall_concat. apply Forall_map.
      rewrite Forall_forall in Hk |- *. intros [w' c'] Hin. specialize (Hk _ Hin). cbn [fst snd] in *.
      eapply Forall_impl; [|exact Hk]. intros s Hs; cbv beta in Hs. apply Z.eqb_neq.
      intro E. apply Hnin. rewrite <- E, Hs. change w' with (fst (w', c')). apply in_map. exact Hin.
    + eapply Forall_impl; [|exact Hc]. intros s Hs; cbv beta in Hs. apply Z.eqb_eq. exact Hs.
  - specialize (IH Hk Hnd). rewrite Forall_forall in IH |- *. intros [w' c'] Hin. cbn [fst snd].
    rewrite filter_app. rewrite filter_none.
    + cbn [app]. apply (IH _ Hin).
    + eapply Forall_impl; [|exact Hc]. intros s Hs; cbv beta in Hs. apply Z.eqb_neq.
      intro E. apply Hnin. rewrite <- Hs, E. change w' with (fst (w', c')). apply in_map. exact Hin.
Qed.

(* ---- totals of a list of snapshots against the samples they aggregate ---- *)

Definition snap_ok (o : Z * fagg) (g : Z * list sample) : Prop :=
  fst o = fst g /\ win_ok (snd o) (map snd (snd g)).

Lemma min_list_some l : l <> [] -> exists m, min_list l = Some m.
Proof. destruct l as [|x l]; [congruence|]. intros _. cbn. destruct (min_list l); eexists; reflexivity. Qed.

Lemma max_list_some l : l <> [] -> exists m, max_list l = Some m.
Proof. destruct l as [|x l]; [congruence|]. intros _. cbn. destruct (max_list l); eexists; reflexivity. Qed.

Lemma snap_totals : forall outs wins,
  Forall2 snap_ok outs wins -> Forall (fun g : Z * list sample => snd g <> []) wins ->
  let vs := map snd (concat (map snd wins)) in
  sumZ (map (fun o => a_count (snd o)) outs) = Z.of_nat (length vs) /\
  sumZ (map (fun o => a_sum (snd o)) outs) = sumZ vs /\
  min_list (map (fun o => oz (a_min (snd o))) outs) = min_list vs /\
  max_list (map (fun o => oz (a_max (snd o))) outs) = max_list vs.
Proof.
  induction 1 as [|o g outs wins [_ (Hc & Hs & Hmn & Hmx)] _ IH]; intros Hne; cbv zeta.
  - repeat split.
  - apply Forall_cons_iff in Hne as [Hg Hne]. specialize (IH Hne). cbv zeta in IH.
    destruct IH as (IHc & IHs & IHmn & IHmx).
    cbn [map concat sumZ min_list max_list].
    rewrite map_app, app_length, sumZ_app, min_list_app, max_list_app.
    rewrite IHc, IHs, IHmn, IHmx, Hc, Hs, Hmn, Hmx.
    assert (Hv : map snd (snd g) <> []) by (destruct (snd g); [congruence|discriminate]).
    split; [rewrite Nat2Z.inj_add; reflexivity|]. split; [reflexivity|].
    destruct (min_list_some _ Hv) as [m Em]. destruct (max_list_some _ Hv) as [m' Em'].
    rewrite Em, Em'. cbn [oz]. split.
    + destruct (min_list (map snd (concat (map snd wins)))); reflexivity.
    + destruct (max_list (map snd (concat (map snd wins)))); reflexivity.
Qed.

(* ---- builder mint / maxt over increasing timestamps ---- *)

Lemma fold_mint_sorted : forall ts init,
  StronglySorted Z.lt ts -> ts <> [] -> hd 0 ts <= init -> fold_mint ts init = hd 0 ts.
Proof.
  unfold fold_mint. intros ts init Hs Hne Hle. destruct ts as [|x ts]; [congruence|]. cbn [hd fold_left] in *.
  apply StronglySorted_inv in Hs as [_ Hx]. replace (Z.min init x) with x by lia.
  clear Hle Hne. induction ts as [|y ts IH]; [reflexivity|]. cbn [fold_left].
  apply Forall_cons_iff in Hx as [Hy Hx]. replace (Z.min x y) with x by lia. apply IH. exact Hx.
Qed.

Lemma fold_maxt_sorted : forall ts init,
  StronglySorted Z.lt ts -> ts <> [] -> init <= last ts 0 -> fold_maxt ts init = last ts 0.
Proof.
  unfold fold_maxt. induction ts as [|x ts IH]; intros init Hs Hne Hle; [congruence|].
  apply StronglySorted_inv in Hs as [Hs Hx]. cbn [fold_left].
  destruct ts as [|y ts']; [cbn in *; lia|].
  change (last (x :: y :: ts') 0) with (last (y :: ts') 0) in *.
  apply IH; [exact Hs|discriminate|].
  assert (x <= last (y :: ts') 0).
  { rewrite Forall_forall in Hx. specialize (Hx _ (last_in (y :: ts') 0 ltac:(discriminate))). lia. }
  lia.
Qed.

Section Batch.
Variable cw : Z -> Z -> Z.
Variable res : Z.
Hypothesis res_pos : 0 < res.
Hypothesis cw_ge : forall t, 0 <= t -> t <= cw t res.
Hypothesis cw_same : forall t t', 0 <= t -> t <= t' -> t' <= cw t res -> cw t' res = cw t res.

Lemma cw_mono t t' : 0 <= t -> t <= t' -> cw t res <= cw t' res.
Proof.
  intros H0 Hle. destruct (Z_le_gt_dec t' (cw t res)) as [H|H].
  - rewrite (cw_same t t'); lia.
  - pose proof (cw_ge t' ltac:(lia)). lia.
Qed.

Definition sorted_nonneg (b : list sample) : Prop :=
  StronglySorted Z.le (map fst b) /\ Forall (fun s => 0 <= fst s) b.

(* the windows of a batch: (emitted timestamp, samples aggregated under it) *)
Definition batch_windows (b : list sample) : list (Z * list sample) :=
  let '(gout, (gT, cur')) := gh_loop cw res (last_t b) b (-1) [] in gout ++ [(gT, cur')].

Lemma batch_spec (b : list sample) :
  b <> [] -> sorted_nonneg b ->
  let wins := batch_windows b in
  concat (map snd wins) = b /\
  Forall (win_of cw res (last_t b)) wins /\
  StronglySorted Z.lt (map fst wins) /\
  Forall2 snap_ok (fst (downsample_batch cw res b)) wins /\
  snd (downsample_batch cw res b) = last_t b /\
  fst (last wins (0, [])) = last_t b.
Proof.
  intros Hne [Hs Hnn]. unfold batch_windows, downsample_batch.
  pose proof (sorted_le_last b Hs) as Hle.
  assert (Hb : Forall (fun s => 0 <= fst s <= last_t b) b).
  { rewrite Forall_forall in *. intros s Hin. split; [apply Hnn|apply Hle]; assumption. }
  pose proof (gh_loop_spec cw res (last_t b) cw_ge cw_same b (-1) [] Hs Hb
                (or_introl (conj eq_refl eq_refl))) as G.
  pose proof (db_loop_total cw res (last_t b) b (-1) a0) as T.
  set (lastT := last_t b) in *.
  (* peel the first sample: it always opens a window and resets the aggregator *)
  destruct b as [|[t v] r]; [congruence|].
  assert (Ht : 0 <= t) by (apply Forall_cons_iff in Hnn as [H _]; exact H).
  cbn [db_loop gh_loop] in *.
  replace (t >? -1) with true in * by (symmetry; apply Z.gtb_lt; lia).
  change (-1 =? -1) with true in *. cbv iota in *. cbn [app] in *.
  pose proof (db_gh_lockstep cw res lastT r (Z.min (cw t res) lastT) (a_add (a_reset a0) v) [(t, v)]) as L.
  assert (W : win_ok (a_add (a_reset a0) v) (map snd [(t, v)])).
  { change (map snd [(t, v)]) with ([] ++ [v]). apply win_ok_add, win_ok_reset. }
  specialize (L W).
  destruct (db_loop cw res lastT r (Z.min (cw t res) lastT) (a_add (a_reset a0) v)) as [out [nT a']].
  destruct (gh_loop cw res lastT r (Z.min (cw t res) lastT) [(t, v)]) as [gout [gT cur']].
  cbn [app] in G.
  destruct G as (Hcat & Hwins & Hfin & Hsort & _).
  destruct L as (-> & Hw' & HF).
  cbn [snd fst] in T.
  replace (a_total a' >? 0) with true by (symmetry; apply Z.gtb_lt; rewrite T; cbn [a_total a0 length]; lia).
  assert (Hfw : win_of cw res lastT (gT, cur')) by (apply Hfin; left; discriminate).
  assert (HgT : gT = lastT).
  { destruct Hfw as [Hne' Hall]. cbn [fst snd] in *.
    assert (Hl : last ((t, v) :: r) (0, 0) = last cur' (0, 0)).
    { transitivity (last (concat (map snd gout) ++ cur') (0, 0));
      [rewrite Hcat; reflexivity|apply last_app_ne; exact Hne']. }
    rewrite Forall_forall in Hall. specialize (Hall (last cur' (0, 0)) (last_in _ _ Hne')).
    rewrite <- Hl in Hall. unfold ew in Hall.
    change (fst (last ((t, v) :: r) (0, 0))) with lastT in Hall.
    assert (0 <= lastT).
    { rewrite Forall_forall in Hb. destruct (Hb (t, v) (or_introl eq_refl)) as [? ?]. cbn [fst] in *. lia. }
    pose proof (cw_ge lastT ltac:(assumption)). lia. }
  cbn [fst snd].
  split; [rewrite map_app, concat_app; cbn [map concat]; rewrite app_nil_r; exact Hcat|].
  split; [apply Forall_app; split; [exact Hwins|constructor; [exact Hfw|constructor]]|].
  split; [rewrite map_app; exact Hsort|].
  split; [apply Forall2_app; [exact HF|constructor; [split; [reflexivity|exact Hw']|constructor]]|].
  split; [exact HgT|].
  rewrite last_app_ne by discriminate. cbn. exact HgT.
Qed.

End Batch.
