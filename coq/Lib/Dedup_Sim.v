(* Counter mode and non-counter mode of the dedup iterator model take the same
   decisions: adjustAtValue only changes values, and every decision of
   Next / Seek depends on timestamps and exhaustion only. Hence a counter-mode
   reader sees the same timestamps (and the same exhaustion points) as the
   non-counter reader of the same replicas. Used by C02 to transfer
   termination and the shape of the output from the C01 refinement. *)
From Coq Require Import ZArith List Bool Lia.
Import ListNotations.
From Verif Require Import Lib.Dedup_Iter.
Open Scope Z_scope.

Record sim (o1 o2 : iobj) : Type := mkSim {
  R : X o1 -> X o2 -> Prop;
  s_valid : forall x y, R x y -> valid o1 x = valid o2 y;
  s_atT : forall x y, R x y -> atT o1 x = atT o2 y;
  s_ts : forall x y, R x y -> ts (at_ o1 x) = ts (at_ o2 y);
  s_size : forall x y, R x y -> size o1 x = size o2 y;
  s_next : forall x y, R x y -> R (next o1 x) (next o2 y);
  s_seek : forall t x y, R x y -> R (seek o1 t x) (seek o2 t y);
  s_adj1 : forall v x y, R x y -> R (adjust o1 v x) y;
  s_adj2 : forall v x y, R x y -> R x (adjust o2 v y);
}.
Arguments R {o1 o2}. Arguments s_valid {o1 o2}. Arguments s_atT {o1 o2}. Arguments s_ts {o1 o2}.
Arguments s_size {o1 o2}. Arguments s_next {o1 o2}. Arguments s_seek {o1 o2}.
Arguments s_adj1 {o1 o2}. Arguments s_adj2 {o1 o2}.

Definition leafR (l1 l2 : leaf) : Prop := l_started l1 = l_started l2 /\ l_list l1 = l_list l2.

Lemma leafR_valid l1 l2 : leafR l1 l2 -> leaf_valid l1 = leaf_valid l2.
Proof. intros [H1 H2]. unfold leaf_valid. rewrite H1, H2. reflexivity. Qed.
Lemma leafR_atT l1 l2 : leafR l1 l2 -> leaf_atT l1 = leaf_atT l2.
Proof. intros [H1 H2]. unfold leaf_atT. rewrite H2. reflexivity. Qed.
Lemma leafR_ts l1 l2 : leafR l1 l2 -> ts (leaf_at l1) = ts (leaf_at l2).
Proof. intros [H1 H2]. unfold leaf_at. rewrite H2. destruct (l_list l2); reflexivity. Qed.
Lemma leafR_seek t l1 l2 : leafR l1 l2 -> leafR (leaf_seek t l1) (leaf_seek t l2).
Proof. intros [H1 H2]. unfold leafR, leaf_seek; simpl. rewrite H2. split; reflexivity. Qed.
Lemma leafR_next l1 l2 : leafR l1 l2 -> leafR (leaf_next l1) (leaf_next l2).
Proof. intros [H1 H2]. unfold leafR, leaf_next. rewrite H1, H2. destruct (l_started l2); split; reflexivity. Qed.
Lemma leafR_adj c1 c2 v w l1 l2 : leafR l1 l2 -> leafR (leaf_adjust c1 v l1) (leaf_adjust c2 w l2).
Proof.
  intros [H1 H2]. unfold leafR, leaf_adjust.
  destruct c1, c2; try destruct (v >? _); try destruct (w >? _); simpl; split; assumption.
Qed.

Lemma leaf_sim : sim (leaf_obj true) (leaf_obj false).
Proof.
  refine (mkSim (leaf_obj true) (leaf_obj false) leafR leafR_valid leafR_atT leafR_ts _ leafR_next leafR_seek _ _).
  - intros x y [_ H]; simpl. rewrite H. reflexivity.
  - intros v x y H. change (leafR (leaf_adjust true v x) y). 
    replace y with (leaf_adjust false v y) by reflexivity. apply leafR_adj. exact H.
  - intros v x y H. exact H.
Defined.

Section NodeSim.
  Variable cfg : pcfg.
  Variables A1 A2 : iobj.
  Variable SA : sim A1 A2.
  Notation N1 := (node_obj true cfg A1).
  Notation N2 := (node_obj false cfg A2).

  Definition nR (x : nstate A1) (y : nstate A2) : Prop :=
    let '(a1, b1, s1) := x in let '(a2, b2, s2) := y in
    R SA a1 a2 /\ leafR b1 b2 /\ s1 = s2.

  Lemma nR_adj1 v x y : nR x y -> nR (node_adjust true A1 v x) y.
  Proof.
    destruct x as [[a1 b1] s1], y as [[a2 b2] s2]. intros (Ha & Hb & Hs). unfold node_adjust, nR.
    split; [destruct (valid A1 a1); [apply (s_adj1 SA)|]; exact Ha|].
    split; [|exact Hs]. destruct (leaf_valid b1); [|exact Hb].
    replace b2 with (leaf_adjust false v b2) by reflexivity. apply leafR_adj. exact Hb.
  Qed.
  Lemma nR_adj2 v x y : nR x y -> nR x (node_adjust false A2 v y).
  Proof.
    destruct x as [[a1 b1] s1], y as [[a2 b2] s2]. intros (Ha & Hb & Hs). unfold node_adjust, nR.
    split; [destruct (valid A2 a2); [apply (s_adj2 SA)|]; exact Ha|].
    split; [|exact Hs]. destruct (leaf_valid b2); exact Hb.
  Qed.

  Lemma seek_opt_R lt p a1 a2 : R SA a1 a2 -> R SA (seek_opt (seek A1) lt p a1) (seek_opt (seek A2) lt p a2).
  Proof. intro H. unfold seek_opt. destruct lt; [apply (s_seek SA)|]; exact H. Qed.
  Lemma seek_opt_leafR lt p b1 b2 : leafR b1 b2 -> leafR (seek_opt leaf_seek lt p b1) (seek_opt leaf_seek lt p b2).
  Proof. intro H. unfold seek_opt. destruct lt; [apply leafR_seek|]; exact H. Qed.

  Lemma nR_next x y : nR x y -> nR (node_next true cfg A1 x) (node_next false cfg A2 y).
  Proof.
    destruct x as [[a1 b1] s1], y as [[a2 b2] s2]. intros (Ha & Hb & Hs). subst s2.
    unfold node_next.
    rewrite <- (s_valid SA _ _ Ha), <- (leafR_valid _ _ Hb).
    set (a1' := if valid A1 a1 then seek_opt (seek A1) (lastT s1) (penA s1) a1 else a1).
    set (a2' := if valid A1 a1 then seek_opt (seek A2) (lastT s1) (penA s1) a2 else a2).
    set (b1' := if leaf_valid b1 then seek_opt leaf_seek (lastT s1) (penB s1) b1 else b1).
    set (b2' := if leaf_valid b1 then seek_opt leaf_seek (lastT s1) (penB s1) b2 else b2).
    assert (Ha' : R SA a1' a2') by (unfold a1', a2'; destruct (valid A1 a1); [apply seek_opt_R|]; exact Ha).
    assert (Hb' : leafR b1' b2') by (unfold b1', b2'; destruct (leaf_valid b1); [apply seek_opt_leafR|]; exact Hb).
    rewrite <- (s_valid SA _ _ Ha'), <- (leafR_valid _ _ Hb'), <- (s_atT SA _ _ Ha'), <- (leafR_atT _ _ Hb').
    set (s' := if negb (valid A1 a1') then _ else _).
    assert (Hbase : nR (a1', b1', s') (a2', b2', s')) by (unfold nR; auto).
    destruct (useA s1 && valid A1 a1); [|destruct (negb (useA s1) && leaf_valid b1)];
      try exact Hbase; destruct (Bool.eqb (useA s') (useA s1)); try exact Hbase;
      apply nR_adj1; apply nR_adj2; exact Hbase.
  Qed.

  Lemma nR_atT x y : nR x y -> node_atT A1 x = node_atT A2 y.
  Proof.
    destruct x as [[a1 b1] s1], y as [[a2 b2] s2]. intros (Ha & Hb & Hs). subst s2.
    unfold node_atT. rewrite (s_atT SA _ _ Ha), (leafR_atT _ _ Hb). reflexivity.
  Qed.

  Lemma nR_loop : forall fuel t x y, nR x y ->
    nR (node_seek_loop true cfg A1 fuel t x) (node_seek_loop false cfg A2 fuel t y).
  Proof.
    induction fuel as [|f IH]; intros t x y H; [exact H|].
    pose proof (nR_atT _ _ H) as Ht. pose proof (nR_next _ _ H) as Hn.
    destruct x as [[a1 b1] s1], y as [[a2 b2] s2]. cbn [node_seek_loop]. rewrite <- Ht.
    destruct H as (Ha & Hb & Hs). subst s2.
    destruct (node_atT A1 (a1, b1, s1) >=? t).
    - destruct (useA s1).
      + pose proof (s_seek SA (node_atT A1 (a1, b1, s1)) _ _ Ha) as Ha'.
        unfold nR. rewrite (s_valid SA _ _ Ha'). auto.
      + pose proof (leafR_seek (node_atT A1 (a1, b1, s1)) _ _ Hb) as Hb'.
        unfold nR. rewrite (leafR_valid _ _ Hb'). auto.
    - set (x' := node_next true cfg A1 (a1, b1, s1)) in *.
      set (y' := node_next false cfg A2 (a2, b2, s1)) in *.
      assert (Hv : node_valid A1 x' = node_valid A2 y').
      { destruct x' as [[? ?] ?], y' as [[? ?] ?]. destruct Hn as (_ & _ & ->). reflexivity. }
      rewrite <- Hv. destruct (node_valid A1 x'); [apply IH|]; exact Hn.
  Qed.

  Lemma nR_size x y : nR x y -> node_size A1 x = node_size A2 y.
  Proof.
    destruct x as [[a1 b1] s1], y as [[a2 b2] s2]. intros (Ha & [_ Hb] & Hs).
    unfold node_size. rewrite (s_size SA _ _ Ha), Hb. reflexivity.
  Qed.

  Lemma nR_seek t x y : nR x y -> nR (node_seek true cfg A1 t x) (node_seek false cfg A2 t y).
  Proof.
    intro H. pose proof (nR_size _ _ H) as Hsz. pose proof (nR_next _ _ H) as Hn.
    destruct x as [[a1 b1] s1], y as [[a2 b2] s2]. unfold node_seek.
    assert (s1 = s2) by (destruct H as (_ & _ & E); exact E). subst s2.
    destruct (lastT s1).
    - rewrite Hsz. apply nR_loop. exact H.
    - set (x' := node_next true cfg A1 (a1, b1, s1)) in *.
      set (y' := node_next false cfg A2 (a2, b2, s1)) in *.
      assert (Hv : node_valid A1 x' = node_valid A2 y').
      { destruct x' as [[? ?] ?], y' as [[? ?] ?]. destruct Hn as (_ & _ & ->). reflexivity. }
      rewrite <- Hv, (nR_size _ _ Hn). destruct (node_valid A1 x'); [apply nR_loop|]; exact Hn.
  Qed.

  Definition node_sim : sim N1 N2.
  Proof.
    refine (mkSim N1 N2 nR _ nR_atT _ nR_size nR_next nR_seek nR_adj1 nR_adj2).
    - intros [[a1 b1] s1] [[a2 b2] s2] (_ & _ & ->). reflexivity.
    - intros [[a1 b1] s1] [[a2 b2] s2] (Ha & Hb & ->). simpl.
      destruct (lastA s2); [apply (s_ts SA); exact Ha|apply leafR_ts; exact Hb].
  Defined.

  Lemma node_sim_init a1 a2 b : R SA a1 a2 -> nR (node_init A1 a1 b) (node_init A2 a2 b).
  Proof.
    intro H. unfold node_init, nR. split; [apply (s_next SA); exact H|]. split; [split; reflexivity|reflexivity].
  Qed.
End NodeSim.

Lemma tower_sim_gen cfg : forall rest (i1 i2 : iter) (S : sim (io i1) (io i2)),
  R S (ist i1) (ist i2) ->
  exists S' : sim (io (fold_left (iter_node true cfg) rest i1)) (io (fold_left (iter_node false cfg) rest i2)),
    R S' (ist (fold_left (iter_node true cfg) rest i1)) (ist (fold_left (iter_node false cfg) rest i2)).
Proof.
  induction rest as [|b rest IH]; intros i1 i2 S H.
  - exists S. exact H.
  - cbn [fold_left].
    exact (IH (iter_node true cfg i1 b) (iter_node false cfg i2 b) (node_sim cfg (io i1) (io i2) S)
              (node_sim_init (io i1) (io i2) S (ist i1) (ist i2) b H)).
Qed.

Lemma tower_sim cfg first rest :
  exists S : sim (io (tower true cfg first rest)) (io (tower false cfg first rest)),
    R S (ist (tower true cfg first rest)) (ist (tower false cfg first rest)).
Proof.
  unfold tower. apply (tower_sim_gen cfg rest (iter_leaf true first) (iter_leaf false first) leaf_sim).
  split; reflexivity.
Qed.

(* ---------- readers ---------- *)
Section SimReaders.
  Variables o1 o2 : iobj.
  Variable S : sim o1 o2.

  Definition obs_ts (ob : obs) : option Z := option_map ts ob.

  Lemma observe_sim x y : R S x y -> obs_ts (observe o1 x) = obs_ts (observe o2 y).
  Proof.
    intro H. unfold observe. rewrite (s_valid S _ _ H). destruct (valid o2 y); [|reflexivity].
    simpl. rewrite (s_ts S _ _ H). reflexivity.
  Qed.

  Lemma run_ops_sim : forall ops x y, R S x y ->
    map obs_ts (run_ops o1 x ops) = map obs_ts (run_ops o2 y ops).
  Proof.
    induction ops as [|p ops IH]; intros x y H; [reflexivity|].
    cbn [run_ops map].
    assert (H' : R S (step o1 p x) (step o2 p y)) by (destruct p; [apply (s_next S)|apply (s_seek S)]; exact H).
    rewrite (observe_sim _ _ H'). f_equal. apply IH. exact H'.
  Qed.

  Lemma drain_loop_sim : forall fuel x y out2, R S x y ->
    drain_loop o2 fuel y = Some out2 ->
    exists out1, drain_loop o1 fuel x = Some out1 /\ map ts out1 = map ts out2.
  Proof.
    induction fuel as [|f IH]; intros x y out2 H Hd; [discriminate|].
    cbn [drain_loop] in *. pose proof (s_next S _ _ H) as Hn.
    rewrite (s_valid S _ _ Hn). destruct (valid o2 (next o2 y)).
    - destruct (drain_loop o2 f (next o2 y)) as [r2|] eqn:E; [|discriminate].
      destruct (IH _ _ _ Hn E) as (r1 & Hr1 & Hm). rewrite Hr1.
      inversion Hd; subst. eexists; split; [reflexivity|]. simpl. rewrite (s_ts S _ _ Hn), Hm. reflexivity.
    - inversion Hd; subst. exists []. split; reflexivity.
  Qed.
End SimReaders.

Theorem tower_counter_same_timestamps cfg first rest out2 :
  drain (tower false cfg first rest) = Some out2 ->
  exists out1, drain (tower true cfg first rest) = Some out1 /\ map ts out1 = map ts out2.
Proof.
  destruct (tower_sim cfg first rest) as [S H]. unfold drain. rewrite (s_size S _ _ H).
  apply (drain_loop_sim _ _ S). exact H.
Qed.

Theorem tower_counter_reader_timestamps cfg first rest ops :
  map (option_map ts) (run_prog (tower true cfg first rest) ops) =
  map (option_map ts) (run_prog (tower false cfg first rest) ops).
Proof.
  destruct (tower_sim cfg first rest) as [S H]. unfold run_prog. apply (run_ops_sim _ _ S). exact H.
Qed.
