(* Crash group (C28, C35, C29): a generic object store as an association list,
   mutating operations, the op log, and crash points (= prefixes of the op log).

   [put] keeps the list ordered by a key order [kltb] when it is ordered, so a
   model store and the listing of the real bucket (printed by the harness in
   the same order) are syntactically equal; none of the lemmas below needs the
   order. *)
From Coq Require Import List Bool Arith Lia.
Import ListNotations.

Section Store.
  Variables K V : Type.
  Variable keqb : K -> K -> bool.
  Variable kltb : K -> K -> bool.
  Hypothesis keqb_spec : forall a b, keqb a b = true <-> a = b.

  Definition store := list (K * V).

  Fixpoint get (s : store) (k : K) : option V :=
    match s with
    | [] => None
    | (k', v) :: r => if keqb k k' then Some v else get r k
    end.

  Definition has (s : store) (k : K) : bool :=
    match get s k with Some _ => true | None => false end.

  Fixpoint del (s : store) (k : K) : store :=
    match s with
    | [] => []
    | (k', v) :: r => if keqb k k' then del r k else (k', v) :: del r k
    end.

  (* insert-or-replace; position by [kltb] *)
  Fixpoint put (s : store) (k : K) (v : V) : store :=
    match s with
    | [] => [(k, v)]
    | (k', v') :: r =>
        if keqb k k' then (k, v) :: del r k
        else if kltb k k' then (k, v) :: (k', v') :: del r k
        else (k', v') :: put r k v
    end.

  Lemma keqb_refl k : keqb k k = true.
  Proof. apply keqb_spec. reflexivity. Qed.

  Lemma keqb_neq a b : a <> b -> keqb a b = false.
  Proof.
    intros H. destruct (keqb a b) eqn:E; [|reflexivity].
    apply keqb_spec in E. contradiction.
  Qed.

  Lemma keqb_false a b : keqb a b = false -> a <> b.
  Proof. intros E H. subst. rewrite keqb_refl in E. discriminate. Qed.

  Lemma get_del_same s k : get (del s k) k = None.
  Proof.
    induction s as [|[k' v] r IH]; simpl; [reflexivity|].
    destruct (keqb k k') eqn:E; [exact IH|]. simpl. rewrite E. exact IH.
  Qed.

  Lemma get_del_other s k k2 : k2 <> k -> get (del s k) k2 = get s k2.
  Proof.
    intros N. induction s as [|[k' v] r IH]; simpl; [reflexivity|].
    destruct (keqb k k') eqn:E.
    - apply keqb_spec in E. subst k'. rewrite (keqb_neq _ _ N). exact IH.
    - simpl. destruct (keqb k2 k'); [reflexivity|exact IH].
  Qed.

  Lemma get_put_same s k v : get (put s k v) k = Some v.
  Proof.
    induction s as [|[k' v'] r IH]; simpl.
    - rewrite keqb_refl. reflexivity.
    - destruct (keqb k k') eqn:E; simpl.
      + rewrite keqb_refl. reflexivity.
      + destruct (kltb k k'); simpl.
        * rewrite keqb_refl. reflexivity.
        * rewrite E. exact IH.
  Qed.

  Lemma get_put_other s k v k2 : k2 <> k -> get (put s k v) k2 = get s k2.
  Proof.
    intros N. induction s as [|[k' v'] r IH]; simpl.
    - rewrite (keqb_neq _ _ N). reflexivity.
    - destruct (keqb k k') eqn:E; simpl.
      + apply keqb_spec in E. subst k'. rewrite (keqb_neq _ _ N).
        apply get_del_other; assumption.
      + destruct (kltb k k'); simpl.
        * rewrite (keqb_neq _ _ N).
          destruct (keqb k2 k'); [reflexivity|]. apply get_del_other; assumption.
        * destruct (keqb k2 k'); [reflexivity|exact IH].
  Qed.

  Lemma get_In s k v : get s k = Some v -> In (k, v) s.
  Proof.
    induction s as [|[k' v'] r IH]; simpl; [discriminate|].
    destruct (keqb k k') eqn:E.
    - intros H. inversion H; subst. apply keqb_spec in E. subst. left; reflexivity.
    - intros H. right. apply IH; assumption.
  Qed.

  Lemma get_none_keys s k : get s k = None -> ~ In k (map fst s).
  Proof.
    induction s as [|[k' v'] r IH]; simpl; [tauto|].
    destruct (keqb k k') eqn:E; [discriminate|].
    intros H [H1|H1]; [subst; rewrite keqb_refl in E; discriminate|].
    apply IH; assumption.
  Qed.

  Lemma get_some_keys s k v : get s k = Some v -> In k (map fst s).
  Proof. intros H. apply get_In in H. apply (in_map fst) in H. exact H. Qed.

  Lemma keys_get s k : In k (map fst s) -> exists v, get s k = Some v.
  Proof.
    induction s as [|[k' v'] r IH]; simpl; [tauto|].
    intros [H|H].
    - subst. rewrite keqb_refl. eauto.
    - destruct (keqb k k'); eauto.
  Qed.

  (* ---- mutating operations and the op log ---- *)

  Inductive op := Up (k : K) (v : V) | Del (k : K).

  Definition apply_op (s : store) (o : op) : store :=
    match o with Up k v => put s k v | Del k => del s k end.

  Definition apply_ops (s : store) (l : list op) : store := fold_left apply_op l s.

  (* the store after every prefix of the log (every crash point), initial state first *)
  Fixpoint states (s : store) (l : list op) : list store :=
    s :: match l with [] => [] | o :: r => states (apply_op s o) r end.

  Lemma apply_ops_app s l1 l2 : apply_ops s (l1 ++ l2) = apply_ops (apply_ops s l1) l2.
  Proof. apply fold_left_app. Qed.

  Lemma states_length s l : length (states s l) = S (length l).
  Proof. revert s; induction l as [|o r IH]; intros s; simpl; [reflexivity|]. rewrite IH. reflexivity. Qed.

  Lemma states_firstn s l s' :
    In s' (states s l) <-> exists k, (k <= length l)%nat /\ s' = apply_ops s (firstn k l).
  Proof.
    revert s. induction l as [|o r IH]; intros s; simpl.
    - split.
      + intros [H|[]]. subst. exists 0%nat. split; [lia|reflexivity].
      + intros [k [_ H]]. left. destruct k; simpl in H; subst; reflexivity.
    - split.
      + intros [H|H].
        * subst. exists 0%nat. split; [lia|reflexivity].
        * apply IH in H. destruct H as [k [Hk H]]. exists (S k). split; [lia|exact H].
      + intros [k [Hk H]]. destruct k as [|k]; simpl in H.
        * left. subst; reflexivity.
        * right. apply IH. exists k. split; [lia|exact H].
  Qed.

  Lemma states_last s l : In (apply_ops s l) (states s l).
  Proof.
    apply states_firstn. exists (length l). split; [lia|]. rewrite firstn_all. reflexivity.
  Qed.

  Lemma states_app s l1 l2 s' :
    In s' (states s (l1 ++ l2)) <-> In s' (states s l1) \/ In s' (states (apply_ops s l1) l2).
  Proof.
    revert s. induction l1 as [|o r IH]; intros s; simpl.
    - split.
      + intros H. right. exact H.
      + intros [[H|[]]|H]; [|exact H]. subst. destruct l2; simpl; left; reflexivity.
    - rewrite IH. tauto.
  Qed.

  Lemma states_firstn_incl s l k s' :
    In s' (states s (firstn k l)) -> In s' (states s l).
  Proof.
    intros H. rewrite <- (firstn_skipn k l). apply states_app. left. exact H.
  Qed.

  (* an invariant [P] kept by every op that satisfies a guard [G] in the state
     where it is issued holds after every prefix *)
  Fixpoint guarded (G : store -> op -> Prop) (s : store) (l : list op) : Prop :=
    match l with
    | [] => True
    | o :: r => G s o /\ guarded G (apply_op s o) r
    end.

  Lemma guarded_app G s l1 l2 :
    guarded G s (l1 ++ l2) <-> guarded G s l1 /\ guarded G (apply_ops s l1) l2.
  Proof.
    revert s. induction l1 as [|o r IH]; intros s; simpl; [tauto|].
    rewrite IH. tauto.
  Qed.

  Lemma states_invariant (P : store -> Prop) (G : store -> op -> Prop) :
    (forall s o, P s -> G s o -> P (apply_op s o)) ->
    forall l s, P s -> guarded G s l -> forall s', In s' (states s l) -> P s'.
  Proof.
    intros Hstep. induction l as [|o r IH]; intros s HP HG s' Hin; simpl in *.
    - destruct Hin as [H|[]]. subst. exact HP.
    - destruct Hin as [H|H]; [subst; exact HP|].
      destruct HG as [G1 G2]. eapply IH; [|exact G2|exact H]. apply Hstep; assumption.
  Qed.

  Lemma guarded_firstn G s l k : guarded G s l -> guarded G s (firstn k l).
  Proof.
    revert s k. induction l as [|o r IH]; intros s k H; destruct k; simpl in *; try exact I.
    destruct H as [H1 H2]. split; [exact H1|]. apply IH. exact H2.
  Qed.

  (* ops that only touch keys outside a set leave those keys alone *)
  Definition op_key (o : op) : K := match o with Up k _ => k | Del k => k end.

  Lemma get_apply_op_other s o k : k <> op_key o -> get (apply_op s o) k = get s k.
  Proof.
    destruct o as [k' v|k']; simpl; intros N.
    - apply get_put_other; assumption.
    - apply get_del_other; assumption.
  Qed.

  Lemma get_apply_ops_other l : forall s k,
    (forall o, In o l -> k <> op_key o) -> get (apply_ops s l) k = get s k.
  Proof.
    unfold apply_ops.
    induction l as [|o r IH]; intros s k H; simpl; [reflexivity|].
    rewrite IH.
    - apply get_apply_op_other. apply H. left; reflexivity.
    - intros o' Ho'. apply H. right; assumption.
  Qed.

  (* uploads stay present while nothing deletes them *)
  Definition is_up (o : op) : bool := match o with Up _ _ => true | Del _ => false end.

  Lemma has_after_ups l : forall s k,
    forallb is_up l = true -> get s k <> None -> get (apply_ops s l) k <> None.
  Proof.
    unfold apply_ops.
    induction l as [|o r IH]; intros s k Hall Hg; simpl; [exact Hg|].
    simpl in Hall. apply andb_true_iff in Hall as [Ho Hr].
    apply IH; [exact Hr|].
    destruct o as [k' v|k']; [|discriminate]. simpl.
    destruct (keqb k k') eqn:E.
    - apply keqb_spec in E. subst. rewrite get_put_same. discriminate.
    - rewrite get_put_other; [exact Hg|]. apply keqb_false; assumption.
  Qed.
  Lemma guarded_stateless (G : store -> op -> Prop) l : (forall o, In o l -> forall s, G s o) -> forall s, guarded G s l.
  Proof.
    induction l as [|o r IH]; intros H s; simpl; [exact I|].
    split; [apply H; left; reflexivity|]. apply IH. intros o' Ho'. apply H. right; assumption.
  Qed.

  (* a run of uploads whose value is a function of the key *)
  Lemma get_after_ups_map (f : K -> V) keys : forall s k,
    In k keys -> get (apply_ops s (map (fun k => Up k (f k)) keys)) k = Some (f k).
  Proof.
    induction keys as [|k0 r IH] using rev_ind; intros s k Hin; [contradiction|].
    rewrite map_app, apply_ops_app. simpl.
    destruct (keqb k k0) eqn:E.
    - apply keqb_spec in E. subst. apply get_put_same.
    - rewrite get_put_other by (apply keqb_false; exact E).
      apply IH. apply in_app_or in Hin as [Hin|[Hin|[]]]; [exact Hin|].
      subst. rewrite keqb_refl in E. discriminate.
  Qed.

  Lemma get_after_ups_map_other (f : K -> V) keys : forall s k,
    ~ In k keys -> get (apply_ops s (map (fun k => Up k (f k)) keys)) k = get s k.
  Proof.
    intros s k Hn. apply get_apply_ops_other. intros o Ho.
    apply in_map_iff in Ho as [k' [Ho Hk']]. subst o. simpl. intros E. subst. contradiction.
  Qed.

  Definition is_del (o : op) : bool := match o with Del _ => true | Up _ _ => false end.

  Lemma get_none_after_dels l : forall s k,
    forallb is_del l = true -> get s k = None -> get (apply_ops s l) k = None.
  Proof.
    unfold apply_ops.
    induction l as [|o r IH]; intros s k Hall Hg; simpl; [exact Hg|].
    simpl in Hall. apply andb_true_iff in Hall as [Ho Hr].
    apply IH; [exact Hr|]. destruct o as [k' v|k']; [discriminate|]. simpl.
    destruct (keqb k k') eqn:E.
    - apply keqb_spec in E. subst. apply get_del_same.
    - rewrite get_del_other; [exact Hg|]. apply keqb_false; assumption.
  Qed.

  Lemma get_none_after_del_in l : forall s k,
    forallb is_del l = true -> In (Del k) l -> get (apply_ops s l) k = None.
  Proof.
    unfold apply_ops.
    induction l as [|o r IH]; intros s k Hall Hin; simpl; [contradiction|].
    simpl in Hall. apply andb_true_iff in Hall as [Ho Hr].
    destruct Hin as [Hin|Hin].
    - subst o. simpl. apply (get_none_after_dels r _ _ Hr). apply get_del_same.
    - apply IH; assumption.
  Qed.

  Lemma last_states_gen l : forall s d, last (states s l) d = apply_ops s l.
  Proof.
    unfold apply_ops.
    induction l as [|o r IH]; intros s d; [reflexivity|].
    change (states s (o :: r)) with (s :: states (apply_op s o) r).
    change (fold_left apply_op (o :: r) s) with (fold_left apply_op r (apply_op s o)).
    rewrite <- (IH (apply_op s o) d).
    destruct r; reflexivity.
  Qed.

  Lemma last_states s l : last (tl (states s l)) s = apply_ops s l.
  Proof.
    destruct l as [|o r]; [reflexivity|].
    change (tl (states s (o :: r))) with (states (apply_op s o) r).
    rewrite last_states_gen. reflexivity.
  Qed.
  (* a log of uploads in which a key always gets the same value *)
  Lemma get_after_ups_functional l : forall s k v,
    forallb is_up l = true -> In (Up k v) l -> (forall v', In (Up k v') l -> v' = v) ->
    get (apply_ops s l) k = Some v.
  Proof.
    induction l as [|o r IH] using rev_ind; intros s k v Hall Hin Hf; [contradiction|].
    rewrite apply_ops_app. simpl. rewrite forallb_app in Hall. apply andb_true_iff in Hall as [Hr Ho].
    destruct o as [k0 v0|k0]; [|simpl in Ho; discriminate]. simpl.
    destruct (keqb k k0) eqn:E.
    - apply keqb_spec in E. subst k0. rewrite get_put_same. f_equal. apply Hf. apply in_or_app. right. left. reflexivity.
    - rewrite get_put_other by (apply keqb_false; exact E).
      apply IH; [exact Hr| |].
      + apply in_app_or in Hin as [Hin|[Hin|[]]]; [exact Hin|]. inversion Hin; subst. rewrite keqb_refl in E. discriminate.
      + intros v' Hv'. apply Hf. apply in_or_app. left. exact Hv'.
  Qed.

  (* deletions only take away *)
  Lemma get_some_after_dels l : forall s k v,
    forallb is_del l = true -> get (apply_ops s l) k = Some v -> get s k = Some v.
  Proof.
    unfold apply_ops. induction l as [|o r IH]; intros s k v Hall H; simpl in *; [exact H|].
    apply andb_true_iff in Hall as [Ho Hr]. destruct o as [k0 v0|k0]; [discriminate|].
    apply IH in H; [|exact Hr]. simpl in H.
    destruct (keqb k k0) eqn:E.
    - apply keqb_spec in E. subst. rewrite get_del_same in H. discriminate.
    - rewrite get_del_other in H; [exact H|]. apply keqb_false. exact E.
  Qed.
End Store.


Arguments Up {K V}.
Arguments Del {K V}.
