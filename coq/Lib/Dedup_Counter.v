(* Counter mode of the dedup iterator model (counterErrAdjustSeriesIterator +
   the deferred adjustAtValue on a replica switch): the values a reader sees
   never decrease when every replica's values never decrease. Compositional:
   [vcontract] holds of counter leaves over value-monotone lists and of a node
   over children that satisfy it. Used by C02. *)
From Coq Require Import ZArith List Bool Lia.
Import ListNotations.
From Verif Require Import Lib.Dedup_Iter Lib.Dedup_SpecFacts.
Open Scope Z_scope.

Definition val (o : iobj) (x : X o) : Z := snd (at_ o x).

Record vcontract (o : iobj) : Type := mkVC {
  VInv : X o -> Prop;
  VFresh : X o -> Prop;
  v_next_inv : forall x, VInv x -> VInv (next o x);
  v_seek_inv : forall t x, VInv x -> (valid o x = true \/ VFresh x) -> VInv (seek o t x);
  v_adj_inv : forall v x, VInv x -> VInv (adjust o v x);
  v_adj_valid : forall v x, valid o (adjust o v x) = valid o x;
  v_next_mono : forall x, VInv x -> valid o x = true -> valid o (next o x) = true ->
      val o x <= val o (next o x);
  v_seek_mono : forall t x, VInv x -> valid o x = true -> valid o (seek o t x) = true ->
      val o x <= val o (seek o t x);
  v_adj_ge : forall v x, VInv x -> valid o x = true ->
      v <= val o (adjust o v x) /\ val o x <= val o (adjust o v x);
}.
Arguments VInv {o}. Arguments VFresh {o}. Arguments v_next_inv {o}. Arguments v_seek_inv {o}. Arguments v_adj_inv {o}.
Arguments v_adj_valid {o}. Arguments v_next_mono {o}. Arguments v_seek_mono {o}. Arguments v_adj_ge {o}.

(* ---------- value-monotone lists ---------- *)
Definition vmono (l : list sample) : Prop := nondecr (map snd l) = true.

Lemma nondecr_from_weaken lo l : nondecr_from lo l = true -> nondecr l = true.
Proof.
  unfold nondecr. destruct l as [|v r]; simpl; [reflexivity|].
  intro H. apply andb_true_iff in H as [_ H]. exact H.
Qed.

Lemma nondecr_from_all : forall l lo v, nondecr_from (Some lo) l = true -> In v l -> lo <= v.
Proof.
  induction l as [|x l IH]; simpl; intros lo v H Hin; [contradiction|].
  apply andb_true_iff in H as [H1 H2]. apply Z.leb_le in H1.
  destruct Hin as [->|Hin]; [exact H1|]. specialize (IH _ _ H2 Hin). lia.
Qed.

Lemma vmono_tl l : vmono l -> vmono (tl l).
Proof.
  unfold vmono. destruct l as [|s r]; simpl; [auto|]. unfold nondecr at 1. simpl.
  intro H. eapply nondecr_from_weaken. exact H.
Qed.

Lemma vmono_suffix p : forall l, vmono (p ++ l) -> vmono l.
Proof.
  induction p as [|x p IH]; intros l H; [exact H|].
  apply IH. apply (vmono_tl ((x :: p) ++ l)). exact H.
Qed.

Lemma vmono_drop t l : vmono l -> vmono (drop_lt t l).
Proof.
  intro H. destruct (drop_lt_suffix t l) as [p Hp]. rewrite Hp in H. eapply vmono_suffix; exact H.
Qed.

Lemma vmono_head_le x l y : vmono (x :: l) -> In y l -> snd x <= snd y.
Proof.
  unfold vmono, nondecr. simpl. intros H Hin.
  eapply nondecr_from_all; [exact H|]. apply in_map. exact Hin.
Qed.

Lemma vmono_head_suffix x l p y r : vmono (x :: l) -> x :: l = p ++ y :: r -> snd x <= snd y.
Proof.
  intros H E. destruct p as [|z p]; simpl in E; inversion E; subst.
  - lia.
  - eapply vmono_head_le; [exact H|]. apply in_or_app. right; left; reflexivity.
Qed.

(* ---------- leaves (counter mode) ---------- *)
Lemma leaf_vcontract : vcontract (leaf_obj true).
Proof.
  refine (mkVC (leaf_obj true) (fun l => vmono (l_list l)) (fun l => l_started l = false) _ _ _ _ _ _ _).
  - intros [st l adj]; simpl. unfold leaf_next; simpl. destruct st; simpl; [apply vmono_tl|auto].
  - intros t [st l adj]; simpl. intros H _. apply vmono_drop. exact H.
  - intros v [st l adj]; simpl. unfold leaf_adjust; simpl. destruct (v >? _); simpl; auto.
  - intros v [st l adj]; simpl. unfold leaf_adjust, leaf_valid; simpl. destruct (v >? _); reflexivity.
  - intros [st l adj]; simpl. unfold leaf_valid, leaf_next, val; simpl. intros Hm Hv Hv'.
    destruct st; simpl in *; [|discriminate].
    destruct l as [|x l]; simpl in *; [discriminate|].
    destruct l as [|y l]; simpl in *; [discriminate|].
    unfold leaf_at; simpl.
    assert (snd x <= snd y) by (eapply vmono_head_le; [exact Hm|left; reflexivity]). lia.
  - intros t [st l adj]; simpl. unfold leaf_valid, leaf_seek, val; simpl. intros Hm Hv Hv'.
    destruct st; simpl in *; [|discriminate].
    destruct l as [|x l]; [discriminate|].
    destruct (drop_lt_suffix t (x :: l)) as [p Hp].
    destruct (drop_lt t (x :: l)) as [|y r] eqn:E; [discriminate|].
    unfold leaf_at. cbn [l_list l_adj snd].
    assert (snd x <= snd y) by (eapply vmono_head_suffix; [exact Hm|exact Hp]).
    lia.
  - intros v [st l adj]; simpl. unfold leaf_valid, leaf_adjust, val; simpl. intros Hm Hv.
    destruct st; simpl in *; [|discriminate].
    destruct l as [|x l]; [discriminate|].
    unfold leaf_at; cbn [l_list l_adj snd].
    destruct (v >? snd x + adj) eqn:E; cbn [l_list l_adj snd].
    + apply Z.gtb_lt in E. lia.
    + assert (v <= snd x + adj) by (destruct (Z.gtb_spec v (snd x + adj)); [discriminate|lia]). lia.
Defined.

(* ---------- nodes (counter mode) ---------- *)
Section NodeV.
  Variable cfg : pcfg.
  Variable A : iobj.
  Variable VA : vcontract A.
  Notation N := (node_obj true cfg A).
  Notation VL := leaf_vcontract.

  Definition nVInv (x : nstate A) : Prop :=
    let '(a, b, s) := x in
    VInv VA a /\ vmono (l_list b) /\
    (n_ok s = true ->
       if lastA s then valid A a = true /\ useA s = true
       else leaf_valid b = true /\ useA s = false).

  Lemma leaf_adj_valid v b : leaf_valid (leaf_adjust true v b) = leaf_valid b.
  Proof. exact (v_adj_valid VL v b). Qed.

  Lemma node_adjust_inv v x : nVInv x -> nVInv (node_adjust true A v x).
  Proof.
    destruct x as [[a b] s]. intros (Ha & Hb & Hok). unfold node_adjust, nVInv.
    split; [destruct (valid A a); [apply (v_adj_inv VA)|]; exact Ha|].
    split; [destruct (leaf_valid b); [apply (v_adj_inv VL v b)|]; exact Hb|].
    intro Hn. specialize (Hok Hn). destruct (lastA s).
    - destruct Hok as [Hv Hu]. split; [|exact Hu]. rewrite Hv. rewrite (v_adj_valid VA). exact Hv.
    - destruct Hok as [Hv Hu]. split; [|exact Hu]. rewrite Hv. rewrite leaf_adj_valid. exact Hv.
  Qed.

  (* the components of node_next, as in Lib/Dedup_Refine.v *)
  Definition va1 (a : X A) (s : nst) : X A :=
    if valid A a then seek_opt (seek A) (lastT s) (penA s) a else a.
  Definition vb1 (b : leaf) (s : nst) : leaf :=
    if leaf_valid b then seek_opt leaf_seek (lastT s) (penB s) b else b.
  Definition vs1 (a1 : X A) (b1 : leaf) (s : nst) : nst :=
    if negb (valid A a1) then
      if leaf_valid b1 then mkNst true (Some (leaf_atT b1)) false (penA s) 0 false
      else mkNst false (lastT s) (lastA s) (penA s) (penB s) false
    else if negb (leaf_valid b1) then
      mkNst true (Some (atT A a1)) true 0 (penB s) true
    else
      let ta := atT A a1 in
      let tb := leaf_atT b1 in
      if ta <=? tb then mkNst true (Some ta) true 0 (pen_of cfg (penfB cfg) (lastT s) ta) true
      else mkNst true (Some tb) false (pen_of cfg (penfA cfg) (lastT s) tb) 0 false.
  Definition vlast (a : X A) (b : leaf) (s : nst) : option Z :=
    if useA s && valid A a then Some (snd (node_at A (a, b, s)))
    else if negb (useA s) && leaf_valid b then Some (snd (node_at A (a, b, s)))
    else None.

  Lemma node_next_eq_v a b s :
    node_next true cfg A (a, b, s) =
    let a1 := va1 a s in let b1 := vb1 b s in let s1 := vs1 a1 b1 s in
    match vlast a b s with
    | Some v => if Bool.eqb (useA s1) (useA s) then (a1, b1, s1) else node_adjust true A v (a1, b1, s1)
    | None => (a1, b1, s1)
    end.
  Proof. reflexivity. Qed.

  Lemma va1_inv a s : VInv VA a -> VInv VA (va1 a s).
  Proof.
    intro H. unfold va1, seek_opt. destruct (valid A a) eqn:Hv; [|exact H].
    destruct (lastT s); [apply (v_seek_inv VA); [exact H|left; exact Hv]|exact H].
  Qed.
  Lemma vb1_inv b s : vmono (l_list b) -> vmono (l_list (vb1 b s)).
  Proof.
    intro H. unfold vb1, seek_opt. destruct (leaf_valid b) eqn:Hv; [|exact H].
    destruct (lastT s); [apply (v_seek_inv VL _ b); [exact H|left; exact Hv]|exact H].
  Qed.
  Lemma va1_mono a s : VInv VA a -> valid A a = true -> valid A (va1 a s) = true -> val A a <= val A (va1 a s).
  Proof.
    intros H Hv. unfold va1, seek_opt. rewrite Hv. destruct (lastT s); [|lia].
    apply (v_seek_mono VA); assumption.
  Qed.
  Lemma vb1_mono b s : vmono (l_list b) -> leaf_valid b = true -> leaf_valid (vb1 b s) = true ->
    snd (leaf_at b) <= snd (leaf_at (vb1 b s)).
  Proof.
    intros H Hv. unfold vb1, seek_opt. rewrite Hv. destruct (lastT s); [|lia].
    apply (v_seek_mono VL _ b); assumption.
  Qed.

  Lemma vs1_inv a1 b1 s :
    n_ok (vs1 a1 b1 s) = true ->
    if lastA (vs1 a1 b1 s) then valid A a1 = true /\ useA (vs1 a1 b1 s) = true
    else leaf_valid b1 = true /\ useA (vs1 a1 b1 s) = false.
  Proof.
    unfold vs1. destruct (valid A a1) eqn:Ea; destruct (leaf_valid b1) eqn:Eb; cbn [negb].
    - destruct (atT A a1 <=? leaf_atT b1); cbn; auto.
    - cbn; auto.
    - cbn; auto.
    - cbn. discriminate.
  Qed.

  Lemma node_next_inv x : nVInv x -> nVInv (node_next true cfg A x).
  Proof.
    destruct x as [[a b] s]. intros (Ha & Hb & Hok).
    rewrite node_next_eq_v. cbv zeta.
    assert (Hbase : nVInv (va1 a s, vb1 b s, vs1 (va1 a s) (vb1 b s) s)).
    { unfold nVInv. split; [apply va1_inv; exact Ha|]. split; [apply vb1_inv; exact Hb|]. apply vs1_inv. }
    destruct (vlast a b s); [|exact Hbase].
    destruct (Bool.eqb _ _); [exact Hbase|]. apply node_adjust_inv. exact Hbase.
  Qed.

  (* the value of a valid node never decreases along Next *)
  Lemma node_next_mono x :
    nVInv x -> node_valid A x = true -> node_valid A (node_next true cfg A x) = true ->
    snd (node_at A x) <= snd (node_at A (node_next true cfg A x)).
  Proof.
    destruct x as [[a b] s]. intros (Ha & Hb & Hok) Hv. simpl in Hv. specialize (Hok Hv).
    rewrite node_next_eq_v. cbv zeta.
    set (a1 := va1 a s). set (b1 := vb1 b s). set (s1 := vs1 a1 b1 s).
    pose proof (vs1_inv a1 b1 s) as Hs1. fold s1 in Hs1.
    assert (Hlast : vlast a b s = Some (snd (node_at A (a, b, s)))).
    { unfold vlast. destruct (lastA s) eqn:El.
      - destruct Hok as [Hva Hu]. rewrite Hu, Hva. reflexivity.
      - destruct Hok as [Hvb Hu]. rewrite Hu, Hvb. simpl. reflexivity. }
    rewrite Hlast.
    destruct (Bool.eqb (useA s1) (useA s)) eqn:Esw.
    - (* same replica *)
      intro Hv1. simpl in Hv1. specialize (Hs1 Hv1). apply Bool.eqb_prop in Esw.
      cbn [node_at]. destruct (lastA s) eqn:El.
      + destruct Hok as [Hva Hu]. rewrite Hu in Esw.
        destruct (lastA s1); [|destruct Hs1 as [_ H]; congruence].
        destruct Hs1 as [Hva1 _]. apply (va1_mono a s Ha Hva Hva1).
      + destruct Hok as [Hvb Hu]. rewrite Hu in Esw.
        destruct (lastA s1); [destruct Hs1 as [_ H]; congruence|].
        destruct Hs1 as [Hvb1 _]. apply (vb1_mono b s Hb Hvb Hvb1).
    - (* switched: both children were adjusted to the last value *)
      unfold node_adjust. cbn [node_valid node_at]. intro Hv1. specialize (Hs1 Hv1).
      destruct (lastA s1).
      + destruct Hs1 as [Hva1 _]. rewrite Hva1.
        apply (v_adj_ge VA). apply va1_inv; exact Ha. exact Hva1.
      + destruct Hs1 as [Hvb1 _]. rewrite Hvb1.
        apply (v_adj_ge VL _ b1). apply vb1_inv; exact Hb. exact Hvb1.
  Qed.

  Lemma set_ok_fields ok s :
    n_ok (set_ok ok s) = ok /\ lastA (set_ok ok s) = lastA s /\ useA (set_ok ok s) = useA s /\ lastT (set_ok ok s) = lastT s.
  Proof. repeat split. Qed.

  Lemma node_seek_loop_v : forall fuel t x,
    nVInv x -> node_valid A x = true ->
    nVInv (node_seek_loop true cfg A fuel t x) /\
    (node_valid A (node_seek_loop true cfg A fuel t x) = true ->
     snd (node_at A x) <= snd (node_at A (node_seek_loop true cfg A fuel t x))).
  Proof.
    induction fuel as [|f IH]; intros t x HI Hv; [split; [exact HI|intros; simpl; lia]|].
    destruct x as [[a b] s]. cbn [node_seek_loop].
    destruct (node_atT A (a, b, s) >=? t).
    - pose proof HI as (Ha & Hb & Hok). simpl in Hv. specialize (Hok Hv).
      destruct (useA s) eqn:Eu.
      + destruct (lastA s) eqn:El; [|destruct Hok as [_ H]; congruence].
        destruct Hok as [Hva _]. split.
        * unfold nVInv. split; [apply (v_seek_inv VA); [exact Ha|left; exact Hva]|]. split; [exact Hb|].
          cbn [n_ok lastA useA set_ok]. rewrite El. intro Hn. split; [exact Hn|exact Eu].
        * cbn [node_valid node_at n_ok lastA set_ok]. rewrite El. intro Hn.
          apply (v_seek_mono VA); assumption.
      + destruct (lastA s) eqn:El; [destruct Hok as [_ H]; congruence|].
        destruct Hok as [Hvb _]. split.
        * unfold nVInv. split; [exact Ha|]. split; [apply (v_seek_inv VL _ b); [exact Hb|left; exact Hvb]|].
          cbn [n_ok lastA useA set_ok]. rewrite El. intro Hn. split; [exact Hn|exact Eu].
        * cbn [node_valid node_at n_ok lastA set_ok]. rewrite El. intro Hn.
          apply (v_seek_mono VL _ b); assumption.
    - pose proof (node_next_inv _ HI) as HIn.
      pose proof (node_next_mono _ HI Hv) as Hm.
      destruct (node_valid A (node_next true cfg A (a, b, s))) eqn:Evn.
      + destruct (IH t _ HIn Evn) as [H1 H2]. split; [exact H1|].
        intro Hn. specialize (H2 Hn). specialize (Hm eq_refl). lia.
      + split; [exact HIn|]. rewrite Evn. discriminate.
  Qed.

  Definition nVFresh (x : nstate A) : Prop := let '(_, _, s) := x in lastT s = None /\ n_ok s = false.

  Lemma node_seek_v t x :
    nVInv x -> (node_valid A x = true \/ nVFresh x) ->
    nVInv (node_seek true cfg A t x) /\
    (node_valid A x = true -> node_valid A (node_seek true cfg A t x) = true ->
     snd (node_at A x) <= snd (node_at A (node_seek true cfg A t x))).
  Proof.
    intros HI Hc. destruct x as [[a b] s]. unfold node_seek.
    destruct (lastT s) eqn:ElT.
    - destruct Hc as [Hv|[H _]]; [|congruence].
      destruct (node_seek_loop_v (S (node_size A (a, b, s))) t _ HI Hv) as [H1 H2].
      split; [exact H1|]. intros _. exact H2.
    - pose proof (node_next_inv _ HI) as HIn.
      destruct (node_valid A (node_next true cfg A (a, b, s))) eqn:Evn.
      + destruct (node_seek_loop_v (S (node_size A (node_next true cfg A (a, b, s)))) t _ HIn Evn) as [H1 H2].
        split; [exact H1|]. intros Hv Hn. specialize (H2 Hn).
        pose proof (node_next_mono _ HI Hv Evn). lia.
      + split; [exact HIn|]. intros _. rewrite Evn. discriminate.
  Qed.

  Lemma node_adjust_ge v x :
    nVInv x -> node_valid A x = true ->
    v <= snd (node_at A (node_adjust true A v x)) /\ snd (node_at A x) <= snd (node_at A (node_adjust true A v x)).
  Proof.
    destruct x as [[a b] s]. intros (Ha & Hb & Hok) Hv. simpl in Hv. specialize (Hok Hv).
    unfold node_adjust. cbn [node_at]. destruct (lastA s).
    - destruct Hok as [Hva _]. rewrite Hva. apply (v_adj_ge VA); assumption.
    - destruct Hok as [Hvb _]. rewrite Hvb. apply (v_adj_ge VL _ b); assumption.
  Qed.

  Definition node_vcontract : vcontract N.
  Proof.
    refine (mkVC N nVInv nVFresh node_next_inv (fun t x H Hc => proj1 (node_seek_v t x H Hc))
              node_adjust_inv _ node_next_mono _ node_adjust_ge).
    - intros v [[a b] s]. reflexivity.
    - intros t x HI Hv Hn. exact (proj2 (node_seek_v t x HI (or_introl Hv)) Hv Hn).
  Defined.

  Lemma node_vcontract_init a0 b :
    VInv VA a0 -> vmono b -> nVInv (node_init A a0 b) /\ nVFresh (node_init A a0 b).
  Proof.
    intros Ha Hb. unfold node_init, nVInv, nVFresh. split; [|split; reflexivity].
    split; [apply (v_next_inv VA); exact Ha|]. split; [exact Hb|]. cbn. discriminate.
  Qed.
End NodeV.

(* ---------- the fold and its readers ---------- *)
Lemma tower_vcontract_gen cfg : forall rest (i : iter) (V : vcontract (io i)),
  VInv V (ist i) -> VFresh V (ist i) -> Forall vmono rest ->
  exists V' : vcontract (io (fold_left (iter_node true cfg) rest i)),
    VInv V' (ist (fold_left (iter_node true cfg) rest i)) /\
    VFresh V' (ist (fold_left (iter_node true cfg) rest i)).
Proof.
  induction rest as [|b rest IH]; intros i V Hi Hf Hr.
  - exists V. split; assumption.
  - inversion Hr; subst. cbn [fold_left].
    destruct (node_vcontract_init (io i) V (ist i) b Hi H1) as [H H'].
    exact (IH (iter_node true cfg i b) (node_vcontract cfg (io i) V) H H' H2).
Qed.

Lemma tower_vcontract cfg first rest :
  Forall vmono (first :: rest) ->
  exists V : vcontract (io (tower true cfg first rest)),
    VInv V (ist (tower true cfg first rest)) /\ VFresh V (ist (tower true cfg first rest)).
Proof.
  intro H. inversion H; subst. unfold tower.
  apply (tower_vcontract_gen cfg rest (iter_leaf true first) leaf_vcontract); try assumption. reflexivity.
Qed.

Section VReaders.
  Variable o : iobj.
  Variable V : vcontract o.

  Definition lo_of (x : X o) : option Z := if valid o x then Some (val o x) else None.

  (* iterating with Next: values never decrease *)
  Lemma drain_loop_mono : forall fuel x out,
    VInv V x -> drain_loop o fuel x = Some out -> nondecr_from (lo_of x) (map snd out) = true.
  Proof.
    induction fuel as [|f IH]; intros x out Hi Hd; [discriminate|].
    cbn [drain_loop] in Hd.
    pose proof (v_next_inv V x Hi) as Hi'.
    destruct (valid o (next o x)) eqn:Evn.
    - destruct (drain_loop o f (next o x)) as [r|] eqn:Er; [|discriminate].
      inversion Hd; subst. cbn [map nondecr_from].
      specialize (IH _ _ Hi' Er). unfold lo_of in IH. rewrite Evn in IH.
      apply andb_true_iff; split; [|exact IH].
      unfold lo_of. destruct (valid o x) eqn:Ev; [|reflexivity].
      apply Z.leb_le. apply (v_next_mono V); assumption.
    - inversion Hd; subst. reflexivity.
  Qed.

  Lemma drain_mono x out :
    VInv V x -> drain_loop o (S (S (size o x))) x = Some out -> nondecr (map snd out) = true.
  Proof. intros Hi Hd. eapply nondecr_from_weaken. eapply drain_loop_mono; eassumption. Qed.
End VReaders.

Theorem tower_counter_monotone cfg first rest out :
  Forall vmono (first :: rest) ->
  drain (tower true cfg first rest) = Some out -> nondecr (map snd out) = true.
Proof.
  intros H Hd. destruct (tower_vcontract cfg first rest H) as [V [Hi _]].
  eapply (drain_mono _ V); eassumption.
Qed.
