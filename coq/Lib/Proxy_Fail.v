(* Proofs about the shared proxy model under store failures (C06): nothing a store
   delivered is lost by the de-duplicator, a failing store's warning reaches the
   client under the warn strategy, and any warning aborts under the abort strategy. *)
From Coq Require Import ZArith NArith List Bool Lia Permutation Sorted.
Import ListNotations.
From Verif Require Import Lib.Proxy_Order Lib.Proxy_Model Lib.Proxy_Proofs Lib.Proxy_LoserTree.

Section Fail.
Context {L C K W : Type}
  (lcmp : L -> L -> comparison) (Hl : OrdSpec lcmp)
  (ckey : C -> K) (keqb : K -> K -> bool) (Hk : forall a b, keqb a b = true <-> a = b)
  (cleb : C -> C -> bool) (R : C -> C -> Prop)
  (HR1 : forall c d, cleb c d = true -> R c d) (HR2 : forall c d, cleb c d = false -> R d c)
  (wlen : W -> N).

Notation resp := (@resp L C W).
Notation frame := (@frame L C W).
Notation script := (@script L C W).
Notation sers := (@Proxy_Proofs.sers L C W).
Notation warns := (@Proxy_Proofs.warns L C W).

Lemma group_keeps (s : list (L * list C)) : forall p X cs,
  In (X, cs) (olist p ++ s) -> exists cs0, In (X, cs0) (group lcmp p s) /\ incl cs cs0.
Proof.
  induction s as [|[lb c] r IH]; intros p X cs Hin.
  - rewrite app_nil_r in Hin. destruct p as [g|]; cbn in *; [|contradiction].
    exists cs. split; [exact Hin | apply incl_refl].
  - destruct p as [[pl pcs]|]; cbn [group].
    2:{ apply (IH (Some (lb, c))). exact Hin. }
    cbn [olist app] in Hin. destruct (lcmp pl lb) eqn:E.
    + apply (cmp_eq _ Hl) in E. subst lb.
      destruct Hin as [Hin|[Hin|Hin]].
      * inversion Hin; subst. destruct (IH (Some (X, cs ++ c)) X (cs ++ c)) as [cs0 [H1 H2]]; [left; reflexivity|].
        exists cs0. split; [exact H1|]. intros x Hx. apply H2. apply in_or_app. left. exact Hx.
      * inversion Hin; subst. destruct (IH (Some (X, pcs ++ cs)) X (pcs ++ cs)) as [cs0 [H1 H2]]; [left; reflexivity|].
        exists cs0. split; [exact H1|]. intros x Hx. apply H2. apply in_or_app. right. exact Hx.
      * apply (IH (Some (pl, pcs ++ c))). right. exact Hin.
    + destruct Hin as [Hin|Hin].
      * inversion Hin; subst. exists cs. split; [left; reflexivity | apply incl_refl].
      * destruct (IH (Some (lb, c)) X cs Hin) as [cs0 [H1 H2]]. exists cs0. split; [right; exact H1 | exact H2].
    + destruct Hin as [Hin|Hin].
      * inversion Hin; subst. exists cs. split; [left; reflexivity | apply incl_refl].
      * destruct (IH (Some (lb, c)) X cs Hin) as [cs0 [H1 H2]]. exists cs0. split; [right; exact H1 | exact H2].
Qed.

(* whatever order the stream has: every series that enters the de-duplicator comes out
   under its label set with (at least) all its chunk keys *)
Lemma dedup_keeps (l : list resp) X cs :
  In (X, cs) (sers l) ->
  exists cs', In (X, cs') (sers (dedup lcmp ckey keqb cleb None l))
              /\ forall c, In c cs -> In (ckey c) (map ckey cs').
Proof.
  intros Hin. rewrite (dedup_sers lcmp).
  destruct (group_keeps (sers l) None X cs Hin) as [cs0 [H1 H2]].
  exists (chained ckey keqb cleb cs0). split.
  - apply in_map_iff. exists (X, cs0). split; [reflexivity | exact H1].
  - intros c Hc. destruct (chained_spec ckey keqb Hk cleb R HR1 HR2 cs0) as [_ [_ [S3 _]]].
    apply S3. apply in_map. apply H2. exact Hc.
Qed.

Lemma series_loop_aborts lbreak limit (l : list resp) : forall i,
  (forall j, lbreak limit j = false) -> warns l <> [] ->
  snd (series_loop lbreak true limit i l) = true.
Proof.
  induction l as [|x r IH]; intros i Hb Hw; [exfalso; apply Hw; reflexivity|].
  cbn [series_loop]. rewrite Hb. destruct x as [lb cs|w]; [|reflexivity].
  destruct (series_loop lbreak true limit (i + 1) r) as [o a] eqn:E. cbn [snd].
  specialize (IH (i + 1)%Z Hb Hw). rewrite E in IH. exact IH.
Qed.

Fixpoint open_warns (ss : list script) : list W :=
  match ss with
  | [] => []
  | s :: r => match sopen_err s with Some w => w :: open_warns r | None => open_warns r end
  end.
Definition is_open (s : script) : bool := match sopen_err s with None => true | Some _ => false end.

Lemma open_all_warn (ss : list script) : open_all false ss = Some (open_warns ss, filter is_open ss).
Proof.
  induction ss as [|s r IH]; [reflexivity|]. cbn [open_all open_warns filter]. unfold is_open at 1.
  destruct (sopen_err s); rewrite IH; reflexivity.
Qed.

Lemma open_all_abort (ss : list script) :
  open_all true ss = if forallb is_open ss then Some ([], ss) else None.
Proof.
  induction ss as [|s r IH]; [reflexivity|]. cbn [open_all forallb]. unfold is_open at 1.
  destruct (sopen_err s); [reflexivity|]. rewrite IH. cbn. destruct (forallb is_open r); reflexivity.
Qed.

Lemma in_open_warns (ss : list script) s w : In s ss -> sopen_err s = Some w -> In w (open_warns ss).
Proof.
  induction ss as [|x r IH]; intros Hin Hs; [contradiction|]. cbn [open_warns].
  destruct Hin as [->|Hin]; [rewrite Hs; left; reflexivity|].
  destruct (sopen_err x); [right|]; apply IH; assumption.
Qed.

Lemma in_warns w (l : list resp) : In w (warns l) <-> In (RWarn w) l.
Proof.
  unfold Proxy_Proofs.warns. rewrite in_concat. split.
  - intros [x [Hx Hin]]. apply in_map_iff in Hx as [r [Hr Hr2]]. subst x.
    destruct r as [l0 c0|w0]; cbn in Hin; [contradiction|]. destruct Hin as [E|[]]. subst. exact Hr2.
  - intros H. exists [w]. split; [|left; reflexivity]. apply in_map_iff. exists (RWarn w). split; [reflexivity|exact H].
Qed.

(* the series the proxy read from a store, under the labels it presents them with *)
Lemma resp_set_sers_any lazy wrl rm (s : script) :
  Permutation (sers (resp_set lcmp lazy wrl rm s)) (presented wrl rm s).
Proof.
  unfold resp_set, presented.
  set (rs := flatten_frames (sframes s) ++ match send s with EEof => [] | ERecvErr w => [RWarn w] end).
  assert (Hrs : sers rs = sers (flatten_frames (sframes s))).
  { unfold rs. rewrite sers_app. destruct (send s); cbn; apply app_nil_r. }
  destruct (negb (ssupports s) && wrl).
  - eapply perm_trans; [apply sers_perm, sort_without_labels_perm|]. rewrite sers_map_rm, Hrs. apply Permutation_refl.
  - assert (map (fun p : L * list C => (fst p, snd p)) (sers (flatten_frames (sframes s))) = sers (flatten_frames (sframes s))) as ->.
    { rewrite <- (map_id (sers _)) at 2. apply map_ext. intros [a b]. reflexivity. }
    destruct lazy; [rewrite Hrs; apply Permutation_refl|].
    eapply perm_trans; [apply sers_perm, sort_without_labels_perm|]. rewrite sers_map_rm, Hrs.
    rewrite <- (map_id (sers _)) at 2. apply Permutation_refl'. apply map_ext. intros [a b]. reflexivity.
Qed.

Lemma resp_set_fail_warn lazy wrl rm (s : script) w :
  send s = ERecvErr w -> In (RWarn w) (resp_set lcmp lazy wrl rm s).
Proof.
  intros He. unfold resp_set. rewrite He.
  assert (Hin : In (RWarn w) (flatten_frames (sframes s) ++ [RWarn w])) by (apply in_or_app; right; left; reflexivity).
  assert (Hs : forall rm', In (RWarn w) (sort_without_labels lcmp rm' (flatten_frames (sframes s) ++ [RWarn w]))).
  { intros rm'. eapply Permutation_in; [apply Permutation_sym, sort_without_labels_perm|].
    apply in_map_iff. exists (RWarn w). split; [reflexivity | exact Hin]. }
  destruct (negb (ssupports s) && wrl); [apply Hs|]. destruct lazy; [exact Hin | apply Hs].
Qed.

Definition fail_warn (s : script) : option W :=
  match sopen_err s with
  | Some w => Some w
  | None => match send s with ERecvErr w => Some w | EEof => None end
  end.

Lemma in_merged lazy wrl rm (os : list script) x s :
  In s os -> In x (resp_set lcmp lazy wrl rm s) ->
  In x (lt_merge lcmp wlen (map (resp_set lcmp lazy wrl rm) os)).
Proof.
  intros Hs Hx. eapply Permutation_in.
  - apply Permutation_sym. apply (min_run_perm lcmp wlen). apply (lt_merge_min_run lcmp Hl wlen).
  - apply in_concat. exists (resp_set lcmp lazy wrl rm s). split; [apply in_map; exact Hs | exact Hx].
Qed.

(* ABORT: a failing store (open or receive) fails the request *)
Theorem abort_fails lbreak lazy wrl rm limit batch (scripts : list script) :
  (forall i, lbreak limit i = false) ->
  (exists s w, In s scripts /\ fail_warn s = Some w) ->
  proxy_series lcmp ckey keqb cleb wlen lbreak lazy wrl true true rm limit batch scripts = None.
Proof.
  intros Hb [s [w [Hs Hf]]]. unfold proxy_series. rewrite open_all_abort.
  destruct (forallb is_open scripts) eqn:Eo; [|reflexivity].
  rewrite forallb_forall in Eo. specialize (Eo s Hs). unfold is_open in Eo. unfold fail_warn in Hf.
  destruct (sopen_err s); [discriminate|]. destruct (send s) as [|w'] eqn:Es; [discriminate|]. inversion Hf; subst w'.
  set (merged := lt_merge lcmp wlen (map (resp_set lcmp lazy wrl rm) scripts)).
  assert (Hw : warns (dedup lcmp ckey keqb cleb None merged) <> []).
  { rewrite dedup_warns. intros E.
    assert (In w (warns merged)) as Hin.
    { apply in_warns. unfold merged. eapply in_merged; [exact Hs | apply resp_set_fail_warn; exact Es]. }
    rewrite E in Hin. contradiction. }
  pose proof (series_loop_aborts lbreak limit _ 0%Z Hb Hw) as Ha.
  destruct (series_loop lbreak true limit 0 (dedup lcmp ckey keqb cleb None merged)) as [o a]. cbn in Ha. subst a. reflexivity.
Qed.

(* WARN: the request succeeds, every failed store is reported by (at least) its warning,
   and every series read from a store whose stream opened — in particular everything of
   the stores that did not fail — is in the result with all its chunk keys *)
Theorem warn_succeeds lbreak lazy wrl rm limit batch (scripts : list script) :
  (forall i, lbreak limit i = false) ->
  exists frames,
    proxy_series lcmp ckey keqb cleb wlen lbreak lazy wrl false false rm limit batch scripts = Some frames
    /\ (forall s w, In s scripts -> fail_warn s = Some w -> In w (warns (unbatch frames)))
    /\ (forall s X cs, In s scripts -> sopen_err s = None -> In (X, cs) (presented wrl rm s) ->
          exists cs', In (X, cs') (sers (unbatch frames)) /\ forall c, In c cs -> In (ckey c) (map ckey cs')).
Proof.
  intros Hb. unfold proxy_series. rewrite open_all_warn.
  set (os := filter is_open scripts). set (merged := lt_merge lcmp wlen (map (resp_set lcmp lazy wrl rm) os)).
  rewrite series_loop_all by exact Hb. eexists. split; [reflexivity|]. rewrite unbatch_send_all.
  assert (Hos : forall s, In s scripts -> sopen_err s = None -> In s os).
  { intros s Hs Ho. unfold os. apply filter_In. split; [exact Hs|]. unfold is_open. rewrite Ho. reflexivity. }
  split.
  - intros s w Hs Hf. rewrite warns_app. apply in_or_app. unfold fail_warn in Hf.
    destruct (sopen_err s) as [w0|] eqn:Eo.
    + inversion Hf; subst w0. left.
      assert (warns (map RWarn (open_warns scripts)) = open_warns scripts) as ->.
      { induction (open_warns scripts) as [|a r IH]; [reflexivity|]. cbn [map].
        change (warns (RWarn a :: map RWarn r)) with (a :: warns (map RWarn r)). rewrite IH. reflexivity. }
      eapply in_open_warns; eauto.
    + destruct (send s) as [|w'] eqn:Es; [discriminate|]. inversion Hf; subst w'. right.
      rewrite dedup_warns. apply in_warns. unfold merged. apply (in_merged lazy wrl rm os _ s (Hos s Hs Eo)). apply resp_set_fail_warn. exact Es.
  - intros s X cs Hs Ho Hin.
    assert (Hm : In (X, cs) (sers merged)).
    { apply in_sers. unfold merged. apply (in_merged lazy wrl rm os _ s (Hos s Hs Ho)).
      apply in_sers. eapply Permutation_in; [apply Permutation_sym, resp_set_sers_any | exact Hin]. }
    destruct (dedup_keeps merged X cs Hm) as [cs' [H1 H2]]. exists cs'. split; [|exact H2].
    rewrite sers_app. apply in_or_app. right. exact H1.
Qed.

End Fail.
