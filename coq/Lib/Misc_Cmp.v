(* Shared by the "misc" group (C45..C49): byte strings as [list N], three-way
   comparisons in the style of Go's strings.Compare / labels.Compare, the
   combinators used to build them (lexicographic product, comparison through a
   projection), and a stable insertion sort with its specification over any
   comparison that is a total preorder. *)
From Coq Require Import NArith ZArith List Bool Lia Permutation Sorted.
Import ListNotations.

Definition str := list N.

Fixpoint str_eqb (a b : str) : bool :=
  match a, b with
  | [], [] => true
  | x :: a', y :: b' => N.eqb x y && str_eqb a' b'
  | _, _ => false
  end.

Lemma str_eqb_eq a b : str_eqb a b = true <-> a = b.
Proof.
  revert b; induction a as [|x a IH]; intros [|y b]; simpl; split; intro H;
    try reflexivity; try discriminate.
  - apply andb_true_iff in H as [H1 H2]. apply N.eqb_eq in H1. apply IH in H2. congruence.
  - inversion H; subst. rewrite N.eqb_refl. simpl. apply IH. reflexivity.
Qed.

Lemma str_eqb_refl a : str_eqb a a = true.
Proof. apply str_eqb_eq. reflexivity. Qed.

Lemma str_eqb_neq a b : str_eqb a b = false <-> a <> b.
Proof.
  split; intro H.
  - intro E. apply str_eqb_eq in E. congruence.
  - destruct (str_eqb a b) eqn:E; [|reflexivity]. apply str_eqb_eq in E. contradiction.
Qed.

Definition mem_str (x : str) (l : list str) : bool := existsb (str_eqb x) l.

Lemma mem_str_In x l : mem_str x l = true <-> In x l.
Proof.
  unfold mem_str. rewrite existsb_exists. split.
  - intros [y [Hy E]]. apply str_eqb_eq in E. subst. exact Hy.
  - intro H. exists x. split; [exact H | apply str_eqb_refl].
Qed.

(* ---- comparisons that are total preorders ---- *)

Section Cmp.
  Context {A : Type}.

  Record good_cmp (c : A -> A -> comparison) : Prop := {
    gc_refl : forall x, c x x = Eq;
    gc_sym : forall x y, c y x = CompOpp (c x y);
    gc_trans : forall x y z, c x y = Lt -> c y z = Lt -> c x z = Lt;
    gc_eq_l : forall x y z, c x y = Eq -> c x z = c y z
  }.

  Variable c : A -> A -> comparison.
  Hypothesis G : good_cmp c.

  Lemma gc_eq_sym x y : c x y = Eq -> c y x = Eq.
  Proof. intro H. rewrite (gc_sym c G x y), H. reflexivity. Qed.

  Lemma gc_eq_r x y z : c x y = Eq -> c z x = c z y.
  Proof.
    intro H. rewrite (gc_sym c G x z), (gc_sym c G y z).
    f_equal. apply (gc_eq_l c G). exact H.
  Qed.

  Lemma gc_eq_trans x y z : c x y = Eq -> c y z = Eq -> c x z = Eq.
  Proof. intros H1 H2. rewrite (gc_eq_l c G x y z H1). exact H2. Qed.

  Lemma gc_gt_lt x y : c x y = Gt -> c y x = Lt.
  Proof. intro H. rewrite (gc_sym c G x y), H. reflexivity. Qed.

  Lemma gc_lt_gt x y : c x y = Lt -> c y x = Gt.
  Proof. intro H. rewrite (gc_sym c G x y), H. reflexivity. Qed.

  (* x <= y *)
  Definition cle (x y : A) : Prop := c x y <> Gt.

  Lemma cle_refl x : cle x x.
  Proof. unfold cle. rewrite (gc_refl c G). discriminate. Qed.

  Lemma cle_total x y : cle x y \/ cle y x.
  Proof.
    unfold cle. destruct (c x y) eqn:E.
    - left; discriminate.
    - left; discriminate.
    - right. rewrite (gc_gt_lt _ _ E). discriminate.
  Qed.

  Lemma cle_trans x y z : cle x y -> cle y z -> cle x z.
  Proof.
    unfold cle. intros H1 H2.
    destruct (c x y) eqn:E1; [| |congruence].
    - rewrite (gc_eq_l c G x y z E1). exact H2.
    - destruct (c y z) eqn:E2; [| |congruence].
      + rewrite <- (gc_eq_r y z x E2). rewrite E1. discriminate.
      + rewrite (gc_trans c G x y z E1 E2). discriminate.
  Qed.

  Lemma clt_le_trans x y z : c x y = Lt -> cle y z -> c x z = Lt.
  Proof.
    unfold cle. intros H1 H2. destruct (c y z) eqn:E2; [| |congruence].
    - rewrite <- (gc_eq_r y z x E2). exact H1.
    - exact (gc_trans c G x y z H1 E2).
  Qed.

  Lemma cle_lt_trans x y z : cle x y -> c y z = Lt -> c x z = Lt.
  Proof.
    unfold cle. intros H1 H2. destruct (c x y) eqn:E1; [| |congruence].
    - rewrite (gc_eq_l c G x y z E1). exact H2.
    - exact (gc_trans c G x y z E1 H2).
  Qed.
End Cmp.

(* comparison through a projection *)
Definition on_cmp {A B} (f : A -> B) (c : B -> B -> comparison) (x y : A) : comparison :=
  c (f x) (f y).

Lemma on_cmp_good {A B} (f : A -> B) c : good_cmp c -> good_cmp (on_cmp f c).
Proof.
  intros G. unfold on_cmp. constructor; intros.
  - apply (gc_refl c G).
  - apply (gc_sym c G).
  - eapply (gc_trans c G); eauto.
  - apply (gc_eq_l c G); assumption.
Qed.

(* lexicographic product: first c1, on a tie c2 *)
Definition lex_cmp {A} (c1 c2 : A -> A -> comparison) (x y : A) : comparison :=
  match c1 x y with Eq => c2 x y | r => r end.

Lemma lex_cmp_good {A} (c1 c2 : A -> A -> comparison) :
  good_cmp c1 -> good_cmp c2 -> good_cmp (lex_cmp c1 c2).
Proof.
  intros G1 G2. unfold lex_cmp. constructor.
  - intros x. rewrite (gc_refl c1 G1). apply (gc_refl c2 G2).
  - intros x y. rewrite (gc_sym c1 G1 x y). destruct (c1 x y); simpl; try reflexivity.
    apply (gc_sym c2 G2).
  - intros x y z H1 H2.
    destruct (c1 x y) eqn:E1; try discriminate.
    + rewrite (gc_eq_l c1 G1 x y z E1).
      destruct (c1 y z) eqn:E2; try discriminate; [|reflexivity].
      eapply (gc_trans c2 G2); eauto.
    + destruct (c1 y z) eqn:E2; try discriminate.
      * rewrite <- (gc_eq_r c1 G1 y z x E2). rewrite E1. reflexivity.
      * rewrite (gc_trans c1 G1 x y z E1 E2). reflexivity.
  - intros x y z H.
    destruct (c1 x y) eqn:E1; try discriminate.
    rewrite (gc_eq_l c1 G1 x y z E1).
    destruct (c1 y z); try reflexivity.
    apply (gc_eq_l c2 G2). exact H.
Qed.

Lemma N_compare_good : good_cmp N.compare.
Proof.
  constructor; intros.
  - apply N.compare_refl.
  - apply N.compare_antisym.
  - rewrite N.compare_lt_iff in *. lia.
  - apply N.compare_eq_iff in H. subst. reflexivity.
Qed.

Lemma Z_compare_good : good_cmp Z.compare.
Proof.
  constructor; intros.
  - apply Z.compare_refl.
  - apply Z.compare_antisym.
  - rewrite Z.compare_lt_iff in *. lia.
  - apply Z.compare_eq_iff in H. subst. reflexivity.
Qed.

(* reversed comparison *)
Definition rev_cmp {A} (c : A -> A -> comparison) (x y : A) : comparison := c y x.

Lemma rev_cmp_good {A} (c : A -> A -> comparison) : good_cmp c -> good_cmp (rev_cmp c).
Proof.
  intros G. unfold rev_cmp. constructor; intros.
  - apply (gc_refl c G).
  - apply (gc_sym c G).
  - eapply (gc_trans c G); eauto.
  - apply (gc_eq_r c G). apply (gc_eq_sym c G). exact H.
Qed.

(* lexicographic comparison of lists: Go's strings.Compare on bytes, and
   labels.Compare on (name, value) pairs: first difference decides, otherwise
   the shorter list is smaller *)
Fixpoint list_cmp {A} (c : A -> A -> comparison) (l1 l2 : list A) : comparison :=
  match l1, l2 with
  | [], [] => Eq
  | [], _ :: _ => Lt
  | _ :: _, [] => Gt
  | x :: l1', y :: l2' => match c x y with Eq => list_cmp c l1' l2' | r => r end
  end.

Lemma list_cmp_good {A} (c : A -> A -> comparison) : good_cmp c -> good_cmp (list_cmp c).
Proof.
  intros G. constructor.
  - induction x as [|a x IH]; simpl; [reflexivity|]. rewrite (gc_refl c G). exact IH.
  - induction x as [|a x IH]; intros [|b y]; simpl; try reflexivity.
    rewrite (gc_sym c G a b). destruct (c a b); simpl; try reflexivity. apply IH.
  - induction x as [|a x IH]; intros [|b y] [|d z]; simpl; intros H1 H2; try discriminate; try reflexivity.
    destruct (c a b) eqn:E1; try discriminate.
    + rewrite (gc_eq_l c G a b d E1).
      destruct (c b d) eqn:E2; try discriminate; [|reflexivity].
      eapply IH; eauto.
    + destruct (c b d) eqn:E2; try discriminate.
      * rewrite <- (gc_eq_r c G b d a E2). rewrite E1. reflexivity.
      * rewrite (gc_trans c G a b d E1 E2). reflexivity.
  - induction x as [|a x IH]; intros [|b y] [|d z]; simpl; intros H; try discriminate; try reflexivity.
    destruct (c a b) eqn:E1; try discriminate.
    rewrite (gc_eq_l c G a b d E1). destruct (c b d); try reflexivity.
    apply IH. exact H.
Qed.

Lemma list_cmp_eq {A} (c : A -> A -> comparison) :
  (forall x y, c x y = Eq -> x = y) -> forall l1 l2, list_cmp c l1 l2 = Eq -> l1 = l2.
Proof.
  intros H. induction l1 as [|a l1 IH]; intros [|b l2]; simpl; intro E; try discriminate; try reflexivity.
  destruct (c a b) eqn:E1; try discriminate.
  apply H in E1. apply IH in E. congruence.
Qed.

Definition str_cmp : str -> str -> comparison := list_cmp N.compare.

Lemma str_cmp_good : good_cmp str_cmp.
Proof. apply list_cmp_good, N_compare_good. Qed.

Lemma str_cmp_eq a b : str_cmp a b = Eq -> a = b.
Proof. apply list_cmp_eq. intros x y. apply N.compare_eq. Qed.

Lemma str_cmp_refl a : str_cmp a a = Eq.
Proof. apply (gc_refl _ str_cmp_good). Qed.

Definition is_eq (r : comparison) : bool := match r with Eq => true | _ => false end.
Definition is_lt (r : comparison) : bool := match r with Lt => true | _ => false end.
Definition is_gt (r : comparison) : bool := match r with Gt => true | _ => false end.

(* ---- stable insertion sort (model of sort.Slice / sort.Sort up to the
   arrangement of equal elements) ---- *)
Section Sort.
  Context {A : Type}.
  Variable c : A -> A -> comparison.

  Fixpoint insert (x : A) (l : list A) : list A :=
    match l with
    | [] => [x]
    | y :: l' => if is_gt (c x y) then y :: insert x l' else x :: l
    end.

  Definition isort (l : list A) : list A := fold_right insert [] l.

  Lemma insert_perm x l : Permutation (x :: l) (insert x l).
  Proof.
    induction l as [|y l IH]; simpl; [reflexivity|].
    destruct (is_gt (c x y)); [|reflexivity].
    rewrite perm_swap. constructor. exact IH.
  Qed.

  Lemma isort_perm l : Permutation l (isort l).
  Proof.
    induction l as [|x l IH]; simpl; [constructor|].
    rewrite <- insert_perm. constructor. exact IH.
  Qed.

  Lemma isort_In x l : In x (isort l) <-> In x l.
  Proof.
    split; intro H.
    - eapply Permutation_in; [symmetry; apply isort_perm | exact H].
    - eapply Permutation_in; [apply isort_perm | exact H].
  Qed.

  Hypothesis G : good_cmp c.

  Lemma insert_sorted x l :
    StronglySorted (cle c) l -> StronglySorted (cle c) (insert x l).
  Proof.
    induction 1 as [|y l Hs IH Hall]; simpl.
    - constructor; constructor.
    - destruct (c x y) eqn:E; simpl.
      + constructor; [constructor; assumption|].
        constructor; [unfold cle; rewrite E; discriminate|].
        eapply Forall_impl; [|exact Hall]. intros z Hz.
        eapply (cle_trans c G); [|exact Hz]. unfold cle; rewrite E; discriminate.
      + constructor; [constructor; assumption|].
        constructor; [unfold cle; rewrite E; discriminate|].
        eapply Forall_impl; [|exact Hall]. intros z Hz.
        eapply (cle_trans c G); [|exact Hz]. unfold cle; rewrite E; discriminate.
      + constructor; [exact IH|].
        assert (Hp : Permutation (x :: l) (insert x l)) by apply insert_perm.
        eapply Permutation_Forall; [exact Hp|].
        constructor; [|exact Hall].
        unfold cle. rewrite (gc_gt_lt c G _ _ E). discriminate.
  Qed.

  Lemma isort_sorted l : StronglySorted (cle c) (isort l).
  Proof.
    induction l as [|x l IH]; simpl; [constructor|]. apply insert_sorted. exact IH.
  Qed.
End Sort.
