(* Byte strings with Go's string order (bytewise lexicographic), for the
   store-gateway group of properties (C10, C11, C14). *)
From Coq Require Import NArith List Bool Lia.
Import ListNotations.

Definition str := list N.

Fixpoint str_compare (a b : str) : comparison :=
  match a, b with
  | [], [] => Eq
  | [], _ :: _ => Lt
  | _ :: _, [] => Gt
  | x :: a', y :: b' =>
      match N.compare x y with
      | Eq => str_compare a' b'
      | c => c
      end
  end.

Definition str_eqb (a b : str) : bool :=
  match str_compare a b with Eq => true | _ => false end.
Definition str_ltb (a b : str) : bool :=
  match str_compare a b with Lt => true | _ => false end.
(* a <= b *)
Definition str_leb (a b : str) : bool :=
  match str_compare a b with Gt => false | _ => true end.

Definition str_lt (a b : str) : Prop := str_compare a b = Lt.
Definition str_le (a b : str) : Prop := str_compare a b <> Gt.

Lemma str_compare_eq : forall a b, str_compare a b = Eq <-> a = b.
Proof.
  induction a as [|x a IH]; destruct b as [|y b]; simpl; split; intro H;
    try reflexivity; try discriminate.
  - destruct (N.compare x y) eqn:E; try discriminate.
    apply N.compare_eq_iff in E. apply IH in H. subst. reflexivity.
  - inversion H; subst. rewrite N.compare_refl. apply IH. reflexivity.
Qed.

Lemma str_compare_refl : forall a, str_compare a a = Eq.
Proof. intro a. apply str_compare_eq. reflexivity. Qed.

Lemma str_compare_antisym : forall a b, str_compare b a = CompOpp (str_compare a b).
Proof.
  induction a as [|x a IH]; destruct b as [|y b]; simpl; try reflexivity.
  rewrite (N.compare_antisym x y).
  destruct (N.compare x y); simpl; auto.
Qed.

Lemma str_lt_trans : forall a b c, str_lt a b -> str_lt b c -> str_lt a c.
Proof.
  unfold str_lt.
  induction a as [|x a IH]; destruct b as [|y b]; destruct c as [|z c]; simpl;
    intros H1 H2; try reflexivity; try discriminate.
  destruct (N.compare x y) eqn:E1; try discriminate.
  - apply N.compare_eq_iff in E1. subst y.
    destruct (N.compare x z) eqn:E2; try discriminate; try reflexivity.
    eapply IH; eauto.
  - destruct (N.compare y z) eqn:E2; try discriminate.
    + apply N.compare_eq_iff in E2. subst z. rewrite E1. reflexivity.
    + assert (E3 : N.compare x z = Lt) by (exact (N.lt_trans _ _ _ E1 E2)).
      rewrite E3. reflexivity.
Qed.

Lemma str_eqb_eq : forall a b, str_eqb a b = true <-> a = b.
Proof.
  intros a b. unfold str_eqb. rewrite <- str_compare_eq.
  destruct (str_compare a b); split; intro H; try reflexivity; try discriminate.
Qed.

Lemma str_eqb_refl : forall a, str_eqb a a = true.
Proof. intro a. apply str_eqb_eq. reflexivity. Qed.

Lemma str_ltb_lt : forall a b, str_ltb a b = true <-> str_lt a b.
Proof.
  intros a b. unfold str_ltb, str_lt.
  destruct (str_compare a b); split; intro H; try reflexivity; try discriminate.
Qed.

Lemma str_leb_le : forall a b, str_leb a b = true <-> str_le a b.
Proof.
  intros a b. unfold str_leb, str_le.
  destruct (str_compare a b); split; intro H; try reflexivity; try discriminate; try congruence.
Qed.

Lemma str_lt_irrefl : forall a, ~ str_lt a a.
Proof. intros a H. unfold str_lt in H. rewrite str_compare_refl in H. discriminate. Qed.

Lemma str_le_refl : forall a, str_le a a.
Proof. intros a. unfold str_le. rewrite str_compare_refl. discriminate. Qed.

Lemma str_lt_le : forall a b, str_lt a b -> str_le a b.
Proof. unfold str_lt, str_le. intros a b H. rewrite H. discriminate. Qed.

(* a <= b  <->  not (b < a) *)
Lemma str_le_not_gt : forall a b, str_le a b <-> ~ str_lt b a.
Proof.
  intros a b. unfold str_le, str_lt. rewrite (str_compare_antisym a b).
  destruct (str_compare a b); simpl; split; intro H; try congruence.
Qed.

Lemma str_le_cases : forall a b, str_le a b -> a = b \/ str_lt a b.
Proof.
  unfold str_le, str_lt. intros a b H.
  destruct (str_compare a b) eqn:E.
  - left. apply str_compare_eq. exact E.
  - right. reflexivity.
  - exfalso. apply H. reflexivity.
Qed.

Lemma str_total : forall a b, str_lt a b \/ a = b \/ str_lt b a.
Proof.
  intros a b. unfold str_lt. rewrite (str_compare_antisym a b).
  destruct (str_compare a b) eqn:E; simpl.
  - right. left. apply str_compare_eq. exact E.
  - left. reflexivity.
  - right. right. reflexivity.
Qed.

Lemma str_le_lt_trans : forall a b c, str_le a b -> str_lt b c -> str_lt a c.
Proof.
  intros a b c H1 H2. destruct (str_le_cases _ _ H1) as [->|H]; [exact H2|].
  eapply str_lt_trans; eauto.
Qed.

Lemma str_lt_le_trans : forall a b c, str_lt a b -> str_le b c -> str_lt a c.
Proof.
  intros a b c H1 H2. destruct (str_le_cases _ _ H2) as [<-|H]; [exact H1|].
  eapply str_lt_trans; eauto.
Qed.

Lemma str_le_trans : forall a b c, str_le a b -> str_le b c -> str_le a c.
Proof.
  intros a b c H1 H2. destruct (str_le_cases _ _ H1) as [->|H]; [exact H2|].
  apply str_lt_le. eapply str_lt_le_trans; eauto.
Qed.

Lemma str_lt_not_eq : forall a b, str_lt a b -> a <> b.
Proof. intros a b H E. subst. eapply str_lt_irrefl; eauto. Qed.

Lemma str_lt_asym : forall a b, str_lt a b -> ~ str_lt b a.
Proof. intros a b H1 H2. eapply str_lt_irrefl. eapply str_lt_trans; eauto. Qed.

Lemma str_leb_false_lt : forall a b, str_leb a b = false <-> str_lt b a.
Proof.
  intros a b. unfold str_leb, str_lt. rewrite (str_compare_antisym a b).
  destruct (str_compare a b); simpl; split; intro H; try reflexivity; try discriminate.
Qed.

Lemma str_ltb_false_le : forall a b, str_ltb a b = false <-> str_le b a.
Proof.
  intros a b. unfold str_ltb, str_le. rewrite (str_compare_antisym a b).
  destruct (str_compare a b); simpl; split; intro H; try reflexivity; try discriminate; try congruence.
Qed.

Lemma str_eqb_false_ne : forall a b, str_eqb a b = false <-> a <> b.
Proof.
  intros a b. split; intro H.
  - intro E. apply str_eqb_eq in E. congruence.
  - destruct (str_eqb a b) eqn:E; [|reflexivity]. apply str_eqb_eq in E. contradiction.
Qed.

Lemma str_eqb_sym : forall a b, str_eqb a b = str_eqb b a.
Proof.
  intros a b. unfold str_eqb. rewrite (str_compare_antisym a b).
  destruct (str_compare a b); reflexivity.
Qed.
