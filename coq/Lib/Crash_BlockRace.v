(* Crash group (C28): ensureBlockIsReplicated racing with block.Delete of the origin block.
   [repdel_ops] (Lib/Crash_Block.v) lets the deleter's operations take effect before any of the
   replicator's origin operations. The target stays safe for EVERY schedule when the deleter
   removes the index before any chunk file and the target does not hold the index yet; without
   that order there is a schedule that publishes an incomplete block ([repdel_refuted]). *)
From Coq Require Import ZArith NArith List Bool Lia Arith.
Import ListNotations.
From Verif Require Import Lib.Corr Lib.Crash_Store Lib.Crash_Block Lib.Crash_BlockFacts Lib.Crash_BlockProgs.

Lemma adv_spec : forall pend src n src' pend',
  adv src pend n = (src', pend') ->
  exists d, pend = d ++ pend' /\ src' = bapply_ops src (map snd d).
Proof.
  induction pend as [|[k o] r IH]; intros src n src' pend' H; simpl in H.
  - inversion H; subst. exists []. split; reflexivity.
  - destruct (Nat.leb k n).
    + apply IH in H as [d [H1 H2]]. exists ((k, o) :: d). split; [simpl; rewrite H1; reflexivity|exact H2].
    + inversion H; subst. exists []. split; reflexivity.
Qed.

Section Race.
  Variable U : univ.
  Variable src dst : bucket.
  Variable id : N.
  Variable D : list bop.                     (* all scheduled deletions, in order *)
  Hypothesis Hwf : wf_univ U.
  Hypothesis Hsrc : binv U src.
  Hypothesis Hdst : binv U dst.
  Hypothesis Hdel : forallb (is_del key obj) D = true.
  (* in every executed prefix: a chunk file is gone only if the index is gone *)
  Hypothesis Hidx : forall E rest n, D = E ++ rest -> In (Del (id, FChunk n)) E -> In (Del (id, FIndex)) E.

  Definition is_prefix (E : list bop) : Prop := exists rest, D = E ++ rest.

  Lemma prefix_dels E : is_prefix E -> forallb (is_del key obj) E = true.
  Proof. intros [rest H]. rewrite H, forallb_app in Hdel. apply andb_true_iff in Hdel. tauto. Qed.

  Lemma get_in_src E k v : is_prefix E -> bget (bapply_ops src E) k = Some v -> bget src k = Some v.
  Proof.
    intros HE. apply (get_some_after_dels key obj key_eqb key_ltb key_eqb_spec). apply prefix_dels. exact HE.
  Qed.

  Lemma get_untouched E k : is_prefix E -> ~ In (Del k) E -> bget (bapply_ops src E) k = bget src k.
  Proof.
    intros HE Hn. unfold bget, bapply_ops. apply (get_apply_ops_other key obj key_eqb key_ltb key_eqb_spec).
    intros o Ho Hk. pose proof (prefix_dels E HE) as Hd. rewrite forallb_forall in Hd. specialize (Hd o Ho).
    destruct o as [k' v|k']; [discriminate|]. simpl in Hk. subst k'. contradiction.
  Qed.

  (* rd_copy: what it emits and what it has achieved when it comes through *)
  Lemma rd_copy_spec : forall ks cur pend n acc acc' res E,
    cur = bapply_ops src E -> E ++ map snd pend = D ->
    rd_copy cur dst pend n ks acc = (acc', res) ->
    exists new, acc' = acc ++ new
      /\ (forall o, In o new -> exists k v x, o = Up k v /\ In k ks /\ bhas dst k = false
                                 /\ is_prefix (E ++ x) /\ bget (bapply_ops src (E ++ x)) k = Some v)
      /\ (res <> None -> forall k, In k ks -> bhas dst k = true \/
            exists v x, In (Up k v) new /\ is_prefix (E ++ x) /\ bget (bapply_ops src (E ++ x)) k = Some v).
  Proof.
    induction ks as [|k r IH]; intros cur pend n acc acc' res E Hcur HE H; simpl in H.
    - inversion H; subst. exists []. rewrite app_nil_r. split; [reflexivity|]. split; [intros o []|intros _ k []].
    - destruct (bhas dst k) eqn:Hh.
      + destruct (IH cur pend n acc acc' res E Hcur HE H) as [new [H1 [H2 H3]]].
        exists new. split; [exact H1|]. split.
        * intros o Ho. destruct (H2 o Ho) as [k' [v [x [A [B C]]]]]. exists k', v, x. split; [exact A|]. split; [right; exact B|exact C].
        * intros Hr k' [Hk|Hk]; [subst; left; exact Hh|apply H3; assumption].
      + destruct (adv cur pend n) as [cur' pend'] eqn:Ha.
        destruct (adv_spec _ _ _ _ _ Ha) as [d [Hd1 Hd2]].
        set (E' := E ++ map snd d).
        assert (Hcur' : cur' = bapply_ops src E').
        { unfold E'. rewrite Hd2, Hcur. symmetry. apply bapply_ops_app. }
        assert (HE' : E' ++ map snd pend' = D).
        { unfold E'. rewrite <- app_assoc, <- map_app, <- Hd1. exact HE. }
        assert (HpE' : is_prefix E') by (exists (map snd pend'); symmetry; exact HE').
        destruct (bget cur' k) as [o|] eqn:Hg.
        * destruct (IH cur' pend' (S n) (acc ++ [Up k o]) acc' res E' Hcur' HE' H) as [new [H1 [H2 H3]]].
          exists (Up k o :: new). split; [rewrite H1, <- app_assoc; reflexivity|]. split.
          -- intros o' [Ho'|Ho'].
             ++ subst o'. exists k, o, (map snd d). split; [reflexivity|]. split; [left; reflexivity|]. split; [exact Hh|].
                fold E'. split; [exact HpE'|]. rewrite <- Hcur'. exact Hg.
             ++ destruct (H2 o' Ho') as [k' [v [x [A [B [C [P G]]]]]]]. exists k', v, (map snd d ++ x).
                split; [exact A|]. split; [right; exact B|]. split; [exact C|].
                unfold E' in P, G. rewrite <- app_assoc in P, G. split; assumption.
          -- intros Hr k' [Hk|Hk].
             ++ subst k'. right. exists o, (map snd d). split; [left; reflexivity|]. fold E'. split; [exact HpE'|].
                rewrite <- Hcur'. exact Hg.
             ++ destruct (H3 Hr k' Hk) as [Hl|[v [x [A [P G]]]]]; [left; exact Hl|].
                right. exists v, (map snd d ++ x). split; [right; exact A|].
                unfold E' in P, G. rewrite <- app_assoc in P, G. split; assumption.
        * inversion H; subst. exists []. rewrite app_nil_r. split; [reflexivity|]. split; [intros o []|].
          intros Hr. exfalso. apply Hr. reflexivity.
  Qed.

  Lemma copies_guarded new ks :
    (forall k, In k ks -> fst k = id /\ is_data (snd k) = true) ->
    (forall o, In o new -> exists k v x, o = Up k v /\ In k ks /\ bhas dst k = false
                 /\ is_prefix x /\ bget (bapply_ops src x) k = Some v) ->
    forall s, bguarded U s new.
  Proof.
    intros Hks Hnew. apply guarded_stateless. intros o Ho s.
    destruct (Hnew o Ho) as [k [v [x [Eo [Hk [_ [Hp Hg]]]]]]]. subst o.
    destruct (Hks k Hk) as [Hi Hd]. destruct k as [i f]. simpl in *. subst i. rewrite Hd.
    apply get_in_src in Hg; [|exact Hp]. destruct Hsrc as [Hag _].
    destruct (Hag _ _ _ Hd Hg) as [bl [sz [Hu [Hin Hv]]]]. exists bl, sz. auto.
  Qed.

  Hypothesis Hnoidx : bhas dst (id, FIndex) = false.

  Theorem repdel_guarded pend ops ok :
    map snd pend = D -> repdel_ops src dst id pend = (ops, ok) ->
    bguarded U dst ops /\ (ok = true -> bhas (bapply_ops dst ops) (id, FMeta) = true).
  Proof.
    intros HD H. unfold repdel_ops in H.
    destruct (adv src pend 0) as [s0 p0] eqn:A0. destruct (adv_spec _ _ _ _ _ A0) as [d0 [P0 S0]].
    assert (Pre0 : is_prefix (map snd d0)) by (exists (map snd p0); rewrite <- HD, P0, map_app; reflexivity).
    destruct (bget s0 (id, FMeta)) as [om|] eqn:Hm.
    2:{ inversion H; subst. split; [exact I|discriminate]. }
    assert (Hm' : bget src (id, FMeta) = Some om) by (rewrite S0 in Hm; eapply get_in_src; eauto).
    destruct Hsrc as [Hag Hco]. destruct (Hco _ _ Hm') as [bl [cid [lbl [Hu [Ho Hall]]]]].
    destruct (same_content om (bget dst (id, FMeta))) eqn:Hs.
    { inversion H; subst ops ok. split; [exact I|]. intros _. simpl.
      unfold same_content in Hs. rewrite Ho in Hs. simpl in Hs. apply bhas_true.
      destruct (bget dst (id, FMeta)); [discriminate|discriminate]. }
    destruct (adv s0 p0 1) as [s1 p1] eqn:A1. destruct (adv_spec _ _ _ _ _ A1) as [d1 [P1 S1]].
    set (E1 := map snd d0 ++ map snd d1).
    assert (Hs1 : s1 = bapply_ops src E1) by (unfold E1; rewrite S1, S0; symmetry; apply bapply_ops_app).
    assert (HE1 : E1 ++ map snd p1 = D).
    { unfold E1. rewrite <- HD, P0, P1, !map_app, <- app_assoc. reflexivity. }
    match type of H with context [rd_copy ?a ?b ?c ?d ?e ?f] =>
      destruct (rd_copy a b c d e f) as [acc res] eqn:Hrd end.
    match type of Hrd with context [filter ?g (block_keys s1 id)] =>
      set (cks := filter g (block_keys s1 id)) in * end.
    destruct (rd_copy_spec _ _ _ _ _ _ _ E1 Hs1 HE1 Hrd) as [new [Hacc [Hnew Hdone]]]. simpl in Hacc. subst acc.
    assert (Hks : forall k, In k (cks ++ [(id, FIndex)]) -> fst k = id /\ is_data (snd k) = true).
    { intros k Hk. apply in_app_or in Hk as [Hk|[Hk|[]]]; [|subst; split; reflexivity].
      unfold cks, block_keys in Hk. rewrite !filter_In in Hk. destruct Hk as [[_ Hi] Hc].
      apply N.eqb_eq in Hi. split; [exact Hi|]. destruct k as [i f]; simpl in *; destruct f; try discriminate; reflexivity. }
    assert (Hnew' : forall o, In o new -> exists k v x, o = Up k v /\ In k (cks ++ [(id, FIndex)]) /\ bhas dst k = false
                      /\ is_prefix x /\ bget (bapply_ops src x) k = Some v).
    { intros o Ho'. destruct (Hnew o Ho') as [k [v [x [A [B [C [P G]]]]]]]. exists k, v, (E1 ++ x). auto. }
    pose proof (copies_guarded new _ Hks Hnew') as Gnew.
    destruct res as [r|].
    2:{ inversion H; subst ops ok. split; [apply Gnew|discriminate]. }
    inversion H; subst ops ok. clear H. split.
    2:{ intros _. rewrite bapply_ops_app. simpl. apply bhas_true. fold bput. rewrite bget_put_same. discriminate. }
    apply guarded_app. split; [apply Gnew|]. simpl. split; [|exact I].
    exists bl, cid, lbl. split; [exact Hu|]. split; [exact Ho|].
    (* every data file of the block is in the target after the copies *)
    assert (Hdone' := Hdone ltac:(discriminate)).
    destruct (Hdone' (id, FIndex) ltac:(apply in_or_app; right; left; reflexivity)) as [Hl|[vi [xi [_ [Pi Gi]]]]];
      [rewrite Hnoidx in Hl; discriminate|].
    assert (Hidx_alive : ~ In (Del (id, FIndex)) (E1 ++ xi)).
    { intros Hin. pose proof (prefix_dels _ Pi) as Hd.
      unfold bget, bapply_ops in Gi.
      rewrite (get_none_after_del_in key obj key_eqb key_ltb key_eqb_spec _ _ _ Hd Hin) in Gi. discriminate. }
    assert (Hups : forallb (is_up key obj) new = true).
    { apply forallb_forall. intros o Ho'. destruct (Hnew o Ho') as [k [v [x [A _]]]]. subst o. reflexivity. }
    assert (Hval : forall k v, In (Up k v) new -> bget src k = Some v).
    { intros k v Hin. destruct (Hnew' _ Hin) as [k' [v' [x [A [_ [_ [P G]]]]]]]. inversion A; subst. eapply get_in_src; eauto. }
    intros f sz Hin Hd. specialize (Hall f sz Hin Hd).
    assert (Hk : In (id, f) (cks ++ [(id, FIndex)])).
    { destruct (files_of_data _ _ _ (Hwf _ _ Hu) Hin Hd) as [_ [[n [Hf _]]|Hf]]; subst f.
      - apply in_or_app. left. unfold cks. apply chunk_keys_spec. split; [|split; reflexivity].
        assert (Hnot : ~ In (Del (id, FChunk n)) E1).
        { intros Hc. apply Hidx_alive. destruct Pi as [rest Pi]. apply (Hidx (E1 ++ xi) rest n Pi).
          apply in_or_app. left. exact Hc. }
        assert (PE1 : is_prefix E1) by (exists (map snd p1); symmetry; exact HE1).
        apply (get_some_keys key obj key_eqb key_eqb_spec) with (v := Blob sz).
        rewrite Hs1. fold (bget (bapply_ops src E1) (id, FChunk n)). rewrite (get_untouched E1 _ PE1 Hnot). exact Hall.
      - apply in_or_app. right. left. reflexivity. }
    destruct (Hdone' _ Hk) as [Hl|[v [x [Hin' [P G]]]]].
    - (* already in the target *)
      assert (Hno : forall o, In o new -> (id, f) <> op_key key obj o).
      { intros o Ho' E. destruct (Hnew o Ho') as [k [v [x [A [_ [C _]]]]]]. subst o. simpl in E. subst k. congruence. }
      unfold bget, bapply_ops. rewrite (get_apply_ops_other key obj key_eqb key_ltb key_eqb_spec _ _ _ Hno).
      apply bhas_true in Hl. destruct (bget dst (id, f)) as [o|] eqn:Hgo; [|congruence].
      destruct Hdst as [Hagd _]. destruct (Hagd _ _ _ Hd Hgo) as [bl' [sz' [Hu' [Hin'' Hv]]]].
      rewrite Hu in Hu'. inversion Hu'; subst bl'. subst o. fold (bget dst (id, f)). rewrite Hgo.
      destruct (files_of_data _ _ _ (Hwf _ _ Hu) Hin Hd) as [E1' _].
      destruct (files_of_data _ _ _ (Hwf _ _ Hu) Hin'' Hd) as [E2' _].
      rewrite E1', E2'. reflexivity.
    - unfold bget, bapply_ops.
      rewrite (get_after_ups_functional key obj key_eqb key_ltb key_eqb_spec new dst (id, f) v Hups Hin').
      + rewrite (Hval _ _ Hin') in Hall. exact Hall.
      + intros v' Hv'. pose proof (Hval _ _ Hv') as Q1. pose proof (Hval _ _ Hin') as Q2. congruence.
  Qed.
End Race.

(* ---- the deleter's log: index before chunks ---- *)
Fixpoint scan (id : N) (l : list bop) : bool :=
  match l with
  | [] => true
  | Del (i, FIndex) :: r => if N.eqb i id then true else scan id r
  | Del (i, FChunk _) :: r => if N.eqb i id then false else scan id r
  | _ :: r => scan id r
  end.

Lemma scan_prefix id : forall l E rest n,
  scan id l = true -> l = E ++ rest -> In (Del (id, FChunk n)) E -> In (Del (id, FIndex)) E.
Proof.
  induction l as [|o l' IH]; intros E rest n Hs Hl Hin.
  - destruct E; [contradiction|discriminate].
  - destruct E as [|o' E']; [contradiction|]. simpl in Hl. inversion Hl; subst o' l'. clear Hl.
    destruct Hin as [Hin|Hin].
    + subst o. simpl in Hs. rewrite N.eqb_refl in Hs. discriminate.
    + destruct o as [k v|[i f]]; simpl in Hs.
      * right. eapply IH; eauto.
      * destruct f; try (right; eapply IH; eauto; fail).
        -- destruct (N.eqb i id) eqn:E; [apply N.eqb_eq in E; subst; left; reflexivity|right; eapply IH; eauto].
        -- destruct (N.eqb i id) eqn:E; [discriminate|right; eapply IH; eauto].
Qed.

Lemma scan_order id order tail :
  index_first order = true -> scan id tail = true ->
  scan id (map (fun f => Del (id, f)) order ++ tail) = true.
Proof.
  induction order as [|f r IH]; intros Hi Ht; simpl; [exact Ht|].
  destruct f; simpl in *; try (apply IH; assumption); try discriminate.
  rewrite N.eqb_refl. reflexivity.
Qed.

Lemma scan_delete_ops b id order dels :
  delete_ops std_delete b id order = Some dels -> index_first order = true -> scan id dels = true.
Proof.
  intros H Hi. apply delete_ops_std in H as [_ H]. subst dels.
  unfold delete_meta_part, delete_mark_part.
  assert (Ht : scan id ((if bhas b (id, FDelMark) then [Del (id, FDelMark)] else []) ++ [Del (id, FDirChunks); Del (id, FDirBlock)]) = true)
    by (destruct (bhas b (id, FDelMark)); reflexivity).
  destruct (bhas b (id, FMeta)); simpl; apply scan_order; assumption.
Qed.

Lemma combine_prefix {A B} (a : list A) : forall (l : list B), exists rest, l = map snd (combine a l) ++ rest.
Proof.
  induction a as [|x a IH]; intros l; simpl; [exists l; reflexivity|].
  destruct l as [|y l]; [exists []; reflexivity|]. destruct (IH l) as [rest H]. exists rest. simpl. rewrite <- H. reflexivity.
Qed.

(* the statement used by property C28 *)
Theorem repdel_safe U src dst id sched order dels ops ok :
  wf_univ U -> binv U src -> binv U dst ->
  delete_ops std_delete src id order = Some dels ->
  index_first order = true -> bhas dst (id, FIndex) = false ->
  repdel_ops src dst id (combine sched dels) = (ops, ok) ->
  bguarded U dst ops /\ (ok = true -> bhas (bapply_ops dst ops) (id, FMeta) = true).
Proof.
  intros Hwf Hs Hd Hdel Hi Hn H.
  destruct (combine_prefix sched dels) as [rest Hpre].
  pose proof (delete_all_dels _ _ _ _ Hdel) as [Hall _].
  pose proof (scan_delete_ops _ _ _ _ Hdel Hi) as Hscan.
  apply (repdel_guarded U src dst id (map snd (combine sched dels)) Hwf Hs Hd) with (pend := combine sched dels); try assumption; try reflexivity.
  - rewrite Hpre, forallb_app in Hall. apply andb_true_iff in Hall. tauto.
  - intros E rest' n HE Hin. apply (scan_prefix id dels E (rest' ++ rest) n Hscan); [|exact Hin].
    rewrite Hpre, HE, <- app_assoc. reflexivity.
Qed.
