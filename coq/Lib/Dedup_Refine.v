(* Refinement of the iterator-object model (Lib/Dedup_Iter.v, non-counter mode)
   to the specification-level penalty merge: an iterator object satisfies
   [contract] when it behaves as a reader of a plain list of samples [fut];
   leaves do, and a dedup node over a contract-satisfying [a] and a leaf [b]
   does, with [fut] given by [pm] over the children's streams. *)
From Coq Require Import ZArith List Bool Lia.
Import ListNotations.
From Verif Require Import Lib.Dedup_Iter Lib.Dedup_SpecFacts.
Open Scope Z_scope.

Section Defs.
  Variable o : iobj.
  Variable fut : X o -> list sample.

  (* x observes as the stream l: head = current sample, tail = future *)
  Definition settled (x : X o) (l : list sample) : Prop :=
    match l with
    | [] => valid o x = false /\ fut x = []
    | s :: r => valid o x = true /\ at_ o x = s /\ atT o x = ts s /\ fut x = r
    end.

  Definition str (x : X o) : list sample := if valid o x then at_ o x :: fut x else fut x.

  Lemma settled_str x l : settled x l -> str x = l.
  Proof.
    unfold settled, str. destruct l as [|s r].
    - intros [-> ->]. reflexivity.
    - intros (-> & -> & _ & ->). reflexivity.
  Qed.

  Lemma settled_self x l : settled x l -> settled x (str x).
  Proof. intro H. rewrite (settled_str _ _ H). exact H. Qed.

  Lemma settled_valid x l : settled x l -> valid o x = nonempty l.
  Proof. destruct l; simpl; intros H; destruct H as [H _]; exact H. Qed.
End Defs.

Record contract (o : iobj) : Type := mkContract {
  Inv : X o -> Prop;
  Fresh : X o -> Prop;
  fut : X o -> list sample;
  c_fresh : forall x, Fresh x -> valid o x = false;
  c_next : forall x, Inv x -> Inv (next o x) /\ settled o fut (next o x) (fut x);
  c_seek : forall t x, Inv x -> (valid o x = true \/ Fresh x) ->
      Inv (seek o t x) /\ settled o fut (seek o t x) (drop_lt t (str o fut x));
  c_size : forall x, Inv x -> (length (str o fut x) <= size o x)%nat;
  c_adjust : forall v x, adjust o v x = x;
}.
Arguments Inv {o}. Arguments Fresh {o}. Arguments fut {o}.
Arguments c_fresh {o}. Arguments c_next {o}. Arguments c_seek {o}. Arguments c_size {o}. Arguments c_adjust {o}.

(* ---------- leaves ---------- *)
Definition leaf_fut (l : leaf) : list sample := if l_started l then tl (l_list l) else l_list l.

Lemma pair_add0 (s : sample) : (fst s, snd s + 0) = s.
Proof. destruct s; simpl. f_equal. lia. Qed.

Lemma leaf_contract : contract (leaf_obj false).
Proof.
  refine (mkContract (leaf_obj false) (fun l => l_adj l = 0) (fun l => l_started l = false) leaf_fut _ _ _ _ _).
  - intros [st l adj]; simpl. intros ->. reflexivity.
  - intros [st l adj]; simpl. intros ->. split.
    + destruct st; reflexivity.
    + unfold leaf_fut; simpl. destruct st; simpl.
      * destruct l as [|x l]; simpl; [split; reflexivity|].
        destruct l as [|y l]; simpl; [split; reflexivity|].
        unfold leaf_valid, leaf_at, leaf_atT; simpl. rewrite pair_add0. repeat split; reflexivity.
      * destruct l as [|y l]; simpl; [split; reflexivity|].
        unfold leaf_valid, leaf_at, leaf_atT; simpl. rewrite pair_add0. repeat split; reflexivity.
  - intros t [st l adj]; simpl. intros -> Hv. split; [reflexivity|].
    assert (Hs : str (leaf_obj false) leaf_fut (mkLeaf st l 0) = l).
    { unfold str, leaf_fut; simpl. unfold leaf_valid, leaf_at; simpl.
      destruct Hv as [Hv|Hv].
      - unfold leaf_valid in Hv; simpl in Hv. destruct st; simpl in *; [|discriminate].
        destruct l as [|x l]; simpl in *; [discriminate|]. rewrite pair_add0. reflexivity.
      - simpl in Hv. subst st. reflexivity. }
    rewrite Hs. unfold leaf_seek; simpl.
    destruct (drop_lt t l) as [|s r] eqn:E; simpl.
    + unfold leaf_valid, leaf_fut; simpl. try rewrite E. split; reflexivity.
    + unfold leaf_valid, leaf_fut, leaf_at, leaf_atT; simpl. try rewrite E. simpl. rewrite pair_add0. repeat split; reflexivity.
  - intros [st l adj]; simpl. intros ->. unfold str, leaf_fut; simpl. unfold leaf_valid, leaf_at; simpl.
    destruct st; simpl.
    + destruct l as [|x l]; simpl; lia.
    + lia.
  - intros v x. reflexivity.
Defined.

Lemma leaf_contract_init l :
  Inv leaf_contract (leaf_init l) /\ Fresh leaf_contract (leaf_init l) /\ fut leaf_contract (leaf_init l) = l.
Proof. repeat split. Qed.

(* ---------- nodes ---------- *)
Section NodeC.
  Variable cfg : pcfg.
  Variable A : iobj.
  Variable CA : contract A.

  Notation strA := (str A (fut CA)).
  Notation nstateA := (nstate A).

  Definition nfut (x : nstateA) : list sample :=
    let '(a, b, s) := x in
    pm cfg (S (length (strA a) + length (l_list b))) (lastT s) (penA s) (penB s) (strA a) (l_list b).

  Definition nInv (x : nstateA) : Prop :=
    let '(a, b, s) := x in
    Inv CA a /\ settled A (fut CA) a (strA a) /\ l_started b = true /\ l_adj b = 0 /\
    (n_ok s = true -> exists lt, lastT s = Some lt /\ useA s = lastA s /\
        if lastA s then valid A a = true /\ ts (at_ A a) = lt /\ penA s = 0
        else leaf_valid b = true /\ leaf_atT b = lt /\ penB s = 0).

  Definition nFresh (x : nstateA) : Prop := let '(_, _, s) := x in lastT s = None /\ n_ok s = false.

  (* the three components of node_next *)
  Definition na1 (a : X A) (s : nst) : X A :=
    if valid A a then seek_opt (seek A) (lastT s) (penA s) a else a.
  Definition nb1 (b : leaf) (s : nst) : leaf :=
    if leaf_valid b then seek_opt leaf_seek (lastT s) (penB s) b else b.
  Definition ns1 (a1 : X A) (b1 : leaf) (s : nst) : nst :=
    if negb (valid A a1) then
      if leaf_valid b1 then mkNst true (Some (leaf_atT b1)) false (penA s) 0 false
      else mkNst false (lastT s) (lastA s) (penA s) (penB s) false
    else if negb (leaf_valid b1) then
      mkNst true (Some (atT A a1)) true 0 (penB s) true
    else
      let ta := atT A a1 in
      let tb := leaf_atT b1 in
      if ta <=? tb then mkNst true (Some ta) true 0 (pen_of cfg (penfB cfg) (lastT s) ta) true
      else mkNst true (Some tb) false (pen_of cfg (penfA cfg) (lastT s) tb) 0 false.

  Lemma node_adjust_id v (y : nstateA) : node_adjust false A v y = y.
  Proof.
    destruct y as [[a b] s]. unfold node_adjust. rewrite (c_adjust CA).
    simpl. destruct (valid A a), (leaf_valid b); reflexivity.
  Qed.

  Lemma node_next_eq a b s :
    node_next false cfg A (a, b, s) = (na1 a s, nb1 b s, ns1 (na1 a s) (nb1 b s) s).
  Proof.
    unfold node_next. fold (na1 a s). fold (nb1 b s). fold (ns1 (na1 a s) (nb1 b s) s).
    destruct (useA s && valid A a); [|destruct (negb (useA s) && leaf_valid b)];
      try reflexivity; destruct (Bool.eqb _ _); try reflexivity; apply node_adjust_id.
  Qed.

  Lemma wf_invalid a : settled A (fut CA) a (strA a) -> valid A a = false -> strA a = [].
  Proof.
    unfold str. intros H Hv. rewrite Hv in *.
    destruct (fut CA a) as [|x r] eqn:E; [reflexivity|].
    simpl in H. destruct H as [H _]. congruence.
  Qed.

  Lemma na1_spec a s :
    Inv CA a -> settled A (fut CA) a (strA a) ->
    Inv CA (na1 a s) /\ settled A (fut CA) (na1 a s) (sdrop (lastT s) (penA s) (strA a)).
  Proof.
    intros Hi Hw. unfold na1. destruct (valid A a) eqn:Hv.
    - unfold seek_opt, sdrop. destruct (lastT s) as [l|].
      + apply (c_seek CA); [exact Hi|left; exact Hv].
      + split; assumption.
    - pose proof (wf_invalid _ Hw Hv) as E. split; [exact Hi|].
      rewrite E in *. destruct (lastT s); simpl; exact Hw.
  Qed.

  Lemma nb1_spec b s :
    l_started b = true -> l_adj b = 0 ->
    l_started (nb1 b s) = true /\ l_adj (nb1 b s) = 0 /\
    l_list (nb1 b s) = sdrop (lastT s) (penB s) (l_list b).
  Proof.
    intros Hs Ha. unfold nb1, leaf_valid. rewrite Hs. simpl.
    destruct (l_list b) as [|x l] eqn:E; simpl.
    - rewrite E. destruct (lastT s); simpl; auto.
    - unfold seek_opt, sdrop. destruct (lastT s); simpl; [rewrite E|]; auto.
  Qed.

  Lemma leaf_started_obs b : l_started b = true -> l_adj b = 0 ->
    leaf_valid b = nonempty (l_list b) /\
    (forall x r, l_list b = x :: r -> leaf_at b = x /\ leaf_atT b = ts x).
  Proof.
    intros Hs Ha. unfold leaf_valid, leaf_at, leaf_atT. rewrite Hs, Ha. split; [reflexivity|].
    intros x r ->. rewrite pair_add0. split; reflexivity.
  Qed.

  (* one step of pm with any sufficient fuel for the recursive call *)
  Lemma pm_refuel f1 f2 lt pA pB la lb :
    (length la + length lb < f1)%nat -> (length la + length lb < f2)%nat ->
    pm cfg f1 lt pA pB la lb = pm cfg f2 lt pA pB la lb.
  Proof.
    intros H1 H2. pose proof (mu_le lt pA pB la lb). apply pm_fuel; lia.
  Qed.

  Lemma nfut_alt a b s f :
    (mu (lastT s) (penA s) (penB s) (strA a) (l_list b) < f)%nat ->
    nfut (a, b, s) = pm cfg f (lastT s) (penA s) (penB s) (strA a) (l_list b).
  Proof.
    intro H. unfold nfut. apply pm_fuel; [|exact H].
    pose proof (mu_le (lastT s) (penA s) (penB s) (strA a) (l_list b)). lia.
  Qed.

  Lemma node_next_spec x :
    nInv x -> nInv (node_next false cfg A x) /\
              settled (node_obj false cfg A) nfut (node_next false cfg A x) (nfut x).
  Proof.
    destruct x as [[a b] s]. intros (Hi & Hw & Hbs & Hba & Hok).
    rewrite node_next_eq.
    destruct (na1_spec a s Hi Hw) as [Hi1 Hw1].
    destruct (nb1_spec b s Hbs Hba) as (Hbs1 & Hba1 & Hbl1).
    destruct (leaf_started_obs _ Hbs1 Hba1) as [Hbv1 Hbat1].
    pose proof (settled_str _ _ _ _ Hw1) as Hsa1.
    pose proof (settled_valid _ _ _ _ Hw1) as Hva1.
    set (a1 := na1 a s) in *. set (b1 := nb1 b s) in *.
    assert (Hw1' : settled A (fut CA) a1 (strA a1)) by (eapply settled_self; exact Hw1).
    (* unfold one step of the specification *)
    unfold nfut at 2. cbn [pm].
    rewrite <- Hsa1, <- Hbl1.
    unfold ns1. rewrite Hva1, Hbv1. rewrite <- Hsa1.
    destruct (strA a1) as [|sa ra] eqn:Ea; destruct (l_list b1) as [|sb rb] eqn:Eb; cbn [nonempty negb].
    - (* both exhausted *)
      split.
      + unfold nInv. split; [exact Hi1|]. split; [rewrite Ea; exact Hw1'|].
        split; [exact Hbs1|]. split; [exact Hba1|]. cbn [n_ok]. discriminate.
      + unfold settled. cbn [valid node_obj node_valid n_ok]. split; [reflexivity|].
        unfold nfut. rewrite Ea, Eb. cbn [pm lastT penA penB]. destruct (lastT s); reflexivity.
    - (* only b *)
      destruct (Hbat1 _ _ eq_refl) as [Hat HatT].
      split.
      + unfold nInv. split; [exact Hi1|]. split; [rewrite Ea; exact Hw1'|].
        split; [exact Hbs1|]. split; [exact Hba1|]. cbn [n_ok lastT useA lastA penB]. intros _.
        exists (ts sb). rewrite HatT. repeat split; try reflexivity.
        rewrite Hbv1. reflexivity.
      + unfold settled. cbn [valid node_obj node_valid n_ok at_ node_at atT node_atT lastA useA].
        rewrite HatT. repeat split; try assumption.
        unfold nfut. rewrite Ea, Eb. cbn [lastT penA penB]. apply pm_fuel.
        * pose proof (mu_step_b sb rb [] (penA s)). simpl in *. lia.
        * pose proof (mu_step_b sb rb [] (penA s)).
          pose proof (sdrop_length (lastT s) (penA s) (strA a)).
          pose proof (sdrop_length (lastT s) (penB s) (l_list b)).
          rewrite <- Hbl1 in *. simpl in *. lia.
    - (* only a *)
      simpl in Hw1'. destruct Hw1' as (Hv & Hat & HatT & Hf).
      split.
      + unfold nInv. split; [exact Hi1|]. split; [rewrite Ea; simpl; repeat split; assumption|].
        split; [exact Hbs1|]. split; [exact Hba1|]. cbn [n_ok lastT useA lastA penA]. intros _.
        exists (ts sa). rewrite HatT, Hat. repeat split; try reflexivity. exact Hv.
      + unfold settled. cbn [valid node_obj node_valid n_ok at_ node_at atT node_atT lastA useA].
        rewrite HatT. repeat split; try assumption.
        unfold nfut. rewrite Ea, Eb. cbn [lastT penA penB]. apply pm_fuel.
        * pose proof (mu_step_a sa ra [] (penB s)). simpl in *. lia.
        * pose proof (mu_step_a sa ra [] (penB s)).
          pose proof (sdrop_length (lastT s) (penA s) (strA a)).
          pose proof (sdrop_length (lastT s) (penB s) (l_list b)).
          rewrite <- Hsa1 in *. simpl in *. lia.
    - (* both *)
      simpl in Hw1'. destruct Hw1' as (Hv & Hat & HatT & Hf).
      destruct (Hbat1 _ _ eq_refl) as [Hbat HbatT].
      rewrite HatT, HbatT.
      assert (Hpen : forall f t, pen_of cfg f (lastT s) t = spen cfg f (lastT s) t) by reflexivity.
      destruct (ts sa <=? ts sb) eqn:Ecmp.
      + split.
        * unfold nInv. split; [exact Hi1|]. split; [rewrite Ea; simpl; repeat split; assumption|].
          split; [exact Hbs1|]. split; [exact Hba1|]. cbn [n_ok lastT useA lastA penA]. intros _.
          exists (ts sa). rewrite Hat. repeat split; try reflexivity. exact Hv.
        * unfold settled. cbn [valid node_obj node_valid n_ok at_ node_at atT node_atT lastA useA].
          rewrite HatT. repeat split; try assumption.
          unfold nfut. rewrite Ea, Eb, Hpen. cbn [lastT penA penB]. apply pm_fuel.
          -- pose proof (mu_step_a sa ra (sb :: rb) (spen cfg (penfB cfg) (lastT s) (ts sa))). simpl in *. lia.
          -- pose proof (mu_step_a sa ra (sb :: rb) (spen cfg (penfB cfg) (lastT s) (ts sa))).
             pose proof (sdrop_length (lastT s) (penA s) (strA a)).
             pose proof (sdrop_length (lastT s) (penB s) (l_list b)).
             rewrite <- Hsa1, <- Hbl1 in *. simpl in *. lia.
      + split.
        * unfold nInv. split; [exact Hi1|]. split; [rewrite Ea; simpl; repeat split; assumption|].
          split; [exact Hbs1|]. split; [exact Hba1|]. cbn [n_ok lastT useA lastA penB]. intros _.
          exists (ts sb). rewrite HbatT. repeat split; try reflexivity.
          rewrite Hbv1. reflexivity.
        * unfold settled. cbn [valid node_obj node_valid n_ok at_ node_at atT node_atT lastA useA].
          rewrite HbatT. repeat split; try assumption.
          unfold nfut. rewrite Ea, Eb, Hpen. cbn [lastT penA penB]. apply pm_fuel.
          -- pose proof (mu_step_b sb rb (sa :: ra) (spen cfg (penfA cfg) (lastT s) (ts sb))). simpl in *. lia.
          -- pose proof (mu_step_b sb rb (sa :: ra) (spen cfg (penfA cfg) (lastT s) (ts sb))).
             pose proof (sdrop_length (lastT s) (penA s) (strA a)).
             pose proof (sdrop_length (lastT s) (penB s) (l_list b)).
             rewrite <- Hsa1, <- Hbl1 in *. simpl in *. lia.
  Qed.

  Notation N := (node_obj false cfg A).

  Lemma set_ok_true s : n_ok s = true -> set_ok true s = s.
  Proof. destruct s; simpl. intros ->. reflexivity. Qed.

  Lemma wf_valid a : settled A (fut CA) a (strA a) -> valid A a = true ->
    strA a = at_ A a :: fut CA a /\ atT A a = ts (at_ A a).
  Proof.
    unfold str. intros H Hv. rewrite Hv in *. split; [reflexivity|].
    simpl in H. destruct H as (_ & _ & H & _). exact H.
  Qed.

  Lemma node_seek_loop_spec : forall fuel t x,
    nInv x -> node_valid A x = true -> (length (nfut x) < fuel)%nat ->
    nInv (node_seek_loop false cfg A fuel t x) /\
    settled N nfut (node_seek_loop false cfg A fuel t x) (drop_lt t (node_at A x :: nfut x)).
  Proof.
    induction fuel as [|f IH]; intros t x HI Hv Hlen; [lia|].
    destruct x as [[a b] s]. cbn [node_seek_loop].
    pose proof HI as HI0.
    destruct HI as (Hi & Hw & Hbs & Hba & Hok).
    simpl in Hv. destruct (Hok Hv) as (lt & HlT & HuA & Hcase).
    assert (Ht0 : node_atT A (a, b, s) = ts (node_at A (a, b, s)) /\ ts (node_at A (a, b, s)) = lt).
    { cbn [node_atT node_at]. rewrite HuA. destruct (lastA s).
      - destruct Hcase as (Hva & Hta & _). destruct (wf_valid _ Hw Hva) as [_ H]. rewrite H. split; [reflexivity|exact Hta].
      - destruct Hcase as (Hvb & Htb & _).
        destruct (leaf_started_obs _ Hbs Hba) as [Hbv Hbat].
        rewrite Hbv in Hvb. destruct (l_list b) as [|xb rb] eqn:Eb; [discriminate|].
        destruct (Hbat _ _ eq_refl) as [H1 H2]. rewrite H1, H2. split; [reflexivity|]. rewrite <- H2. exact Htb. }
    destruct Ht0 as [Ht0 Hlt]. rewrite Ht0.
    destruct (ts (node_at A (a, b, s)) >=? t) eqn:Ecmp.
    - (* current sample already at or after t: the child's Seek is a no-op *)
      assert (Hge : t <= ts (node_at A (a, b, s))) by (apply Z.geb_le in Ecmp; lia).
      rewrite (drop_lt_keep _ _ _ Hge).
      cbn [node_at] in *. rewrite HuA. destruct (lastA s) eqn:ElA.
      + destruct Hcase as (Hva & Hta & HpA).
        destruct (wf_valid _ Hw Hva) as [Hstr HatT].
        destruct (c_seek CA (ts (at_ A a)) a Hi (or_introl Hva)) as [Hi' Hs'].
        rewrite Hstr in Hs'. rewrite drop_lt_keep in Hs' by lia.
        pose proof Hs' as Hs''. simpl in Hs''. destruct Hs'' as (Hv' & Hat' & HatT' & Hf').
        rewrite Hv'. rewrite (set_ok_true s Hv).
        assert (Hstr' : strA (seek A (ts (at_ A a)) a) = strA a).
        { rewrite Hstr. eapply settled_str. exact Hs'. }
        split.
        * unfold nInv. split; [exact Hi'|]. split; [rewrite Hstr', Hstr; exact Hs'|].
          split; [exact Hbs|]. split; [exact Hba|]. intros _. exists lt. rewrite ElA.
          repeat split; try assumption. rewrite Hat'. exact Hta.
        * unfold settled. cbn [valid node_obj node_valid at_ node_at atT node_atT]. rewrite ?HuA, ?ElA.
          rewrite Hat'. repeat split; try assumption.
          unfold nfut. rewrite Hstr'. reflexivity.
      + destruct Hcase as (Hvb & Htb & HpB).
        destruct (leaf_started_obs _ Hbs Hba) as [Hbv Hbat].
        rewrite Hbv in Hvb. destruct (l_list b) as [|xb rb] eqn:Eb; [discriminate|].
        destruct (Hbat _ _ eq_refl) as [H1 H2].
        assert (Hb' : leaf_seek (ts (leaf_at b)) b = b).
        { unfold leaf_seek. rewrite Eb, H1. rewrite drop_lt_keep by lia.
          destruct b as [st l adj]; simpl in *. subst. reflexivity. }
        rewrite Hb'. rewrite Hbv. cbn [nonempty]. rewrite (set_ok_true s Hv).
        split; [exact HI0|].
        unfold settled. cbn [valid node_obj node_valid at_ node_at atT node_atT]. rewrite ?HuA, ?ElA.
        repeat split; try assumption. rewrite H1, H2. reflexivity.
    - (* advance with Next *)
      assert (Hlt' : ts (node_at A (a, b, s)) < t) by (rewrite Z.geb_leb in Ecmp; apply Z.leb_gt in Ecmp; lia).
      rewrite (drop_lt_skip _ _ _ Hlt').
      destruct (node_next_spec (a, b, s) HI0) as [HIn Hsn].
      set (x' := node_next false cfg A (a, b, s)) in *.
      destruct (nfut (a, b, s)) as [|s0 r] eqn:Ef.
      + simpl in Hsn. destruct Hsn as [Hvn Hfn]. simpl in Hvn. rewrite Hvn.
        split; [exact HIn|]. simpl. split; assumption.
      + pose proof Hsn as Hsn'. simpl in Hsn'. destruct Hsn' as (Hvn & Hatn & _ & Hfn).
        simpl in Hvn. rewrite Hvn.
        simpl in Hlen.
        destruct (IH t x' HIn Hvn) as [HI2 Hs2]; [rewrite Hfn; lia|].
        split; [exact HI2|]. simpl in Hatn. rewrite Hatn, Hfn in Hs2. exact Hs2.
  Qed.

  Lemma node_size_spec x : nInv x -> (length (str N nfut x) <= node_size A x)%nat.
  Proof.
    destruct x as [[a b] s]. intros (Hi & Hw & Hbs & Hba & Hok).
    pose proof (c_size CA a Hi) as Hsz.
    assert (Hpl : (length (nfut (a, b, s)) <= mu (lastT s) (penA s) (penB s) (strA a) (l_list b))%nat)
      by (unfold nfut; apply pm_length).
    unfold str. cbn [valid node_obj node_valid at_ node_at node_size].
    generalize dependent (nfut (a, b, s)). intros F Hpl.
    destruct (n_ok s) eqn:Ev.
    - destruct (Hok eq_refl) as (lt & HlT & HuA & Hcase). rewrite HlT in Hpl.
      cbn [length]. destruct (lastA s).
      + destruct Hcase as (Hva & Hta & HpA). destruct (wf_valid _ Hw Hva) as [Hstr _].
        rewrite HpA, Hstr, <- Hta in Hpl.
        pose proof (mu_step_a (at_ A a) (fut CA a) (l_list b) (penB s)).
        rewrite Hstr in Hsz. cbn [length] in Hsz. lia.
      + destruct Hcase as (Hvb & Htb & HpB).
        destruct (leaf_started_obs _ Hbs Hba) as [Hbv Hbat].
        rewrite Hbv in Hvb. destruct (l_list b) as [|xb rb] eqn:Eb; [discriminate|].
        destruct (Hbat _ _ eq_refl) as [H1 H2]. rewrite H2 in Htb.
        rewrite HpB, <- Htb in Hpl.
        pose proof (mu_step_b xb rb (strA a) (penA s)). cbn [length]. lia.
    - pose proof (mu_le (lastT s) (penA s) (penB s) (strA a) (l_list b)). lia.
  Qed.

  Lemma node_seek_spec t x :
    nInv x -> (node_valid A x = true \/ nFresh x) ->
    nInv (node_seek false cfg A t x) /\
    settled N nfut (node_seek false cfg A t x) (drop_lt t (str N nfut x)).
  Proof.
    intros HI Hc. pose proof (node_size_spec x HI) as Hsz.
    destruct x as [[a b] s]. unfold node_seek.
    destruct Hc as [Hv|[HlT Hnv]].
    - pose proof HI as (_ & _ & _ & _ & Hok). simpl in Hv.
      destruct (Hok Hv) as (lt & HlT & _). rewrite HlT.
      unfold str in *. cbn [valid node_obj node_valid] in *. rewrite Hv in *.
      apply node_seek_loop_spec; [exact HI|exact Hv|]. cbn [at_ node_obj length] in Hsz. lia.
    - rewrite HlT.
      unfold str. cbn [valid node_obj node_valid]. rewrite Hnv.
      destruct (node_next_spec (a, b, s) HI) as [HIn Hsn].
      set (x0 := node_next false cfg A (a, b, s)) in *.
      pose proof (node_size_spec x0 HIn) as Hsz0.
      destruct (nfut (a, b, s)) as [|s0 r] eqn:Ef.
      + simpl in Hsn. destruct Hsn as [Hvn Hfn]. simpl in Hvn. rewrite Hvn.
        split; [exact HIn|]. simpl. split; assumption.
      + pose proof Hsn as Hsn'. simpl in Hsn'. destruct Hsn' as (Hvn & Hatn & _ & Hfn).
        simpl in Hvn. rewrite Hvn.
        unfold str in Hsz0. cbn [valid node_obj] in Hsz0. rewrite Hvn in Hsz0. cbn [length] in Hsz0.
        destruct (node_seek_loop_spec (S (node_size A x0)) t x0 HIn Hvn) as [HI2 Hs2]; [lia|].
        split; [exact HI2|]. simpl in Hatn. rewrite Hatn, Hfn in Hs2. exact Hs2.
  Qed.

  Definition node_contract : contract N :=
    mkContract N nInv nFresh nfut
      (fun x => match x with (_, _, s) => fun H => proj2 H end)
      node_next_spec node_seek_spec node_size_spec node_adjust_id.

  Lemma node_contract_init a0 b :
    Inv CA a0 ->
    nInv (node_init A a0 b) /\ nFresh (node_init A a0 b) /\
    nfut (node_init A a0 b) = pmerge cfg (fut CA a0) b.
  Proof.
    intro Hi. destruct (c_next CA a0 Hi) as [Hi' Hs'].
    unfold node_init. split; [|split].
    - unfold nInv. split; [exact Hi'|]. split; [eapply settled_self; exact Hs'|].
      repeat split. cbn. discriminate.
    - split; reflexivity.
    - unfold nfut, pmerge. rewrite (settled_str _ _ _ _ Hs'). reflexivity.
  Qed.
End NodeC.

(* ---------- the fold over the replicas ---------- *)
Lemma tower_contract_gen cfg : forall rest (i : iter) (C : contract (io i)),
  Inv C (ist i) -> Fresh C (ist i) ->
  exists C' : contract (io (fold_left (iter_node false cfg) rest i)),
    Inv C' (ist (fold_left (iter_node false cfg) rest i)) /\
    Fresh C' (ist (fold_left (iter_node false cfg) rest i)) /\
    fut C' (ist (fold_left (iter_node false cfg) rest i)) = pmerge_all cfg (fut C (ist i)) rest.
Proof.
  induction rest as [|b rest IH]; intros i C Hi Hf.
  - exists C. repeat split; assumption.
  - cbn [fold_left pmerge_all].
    destruct (node_contract_init cfg (io i) C (ist i) b Hi) as (H1 & H2 & H3).
    destruct (IH (iter_node false cfg i b) (node_contract cfg (io i) C) H1 H2) as (C' & Hi' & Hf' & Hfut).
    exists C'. repeat split; try assumption.
    rewrite Hfut. cbn [fut node_contract iter_node ist]. rewrite H3. reflexivity.
Qed.

Lemma tower_contract cfg first rest :
  exists C : contract (io (tower false cfg first rest)),
    Inv C (ist (tower false cfg first rest)) /\ Fresh C (ist (tower false cfg first rest)) /\
    fut C (ist (tower false cfg first rest)) = pmerge_all cfg first rest.
Proof.
  unfold tower.
  destruct (leaf_contract_init first) as (H1 & H2 & H3).
  destruct (tower_contract_gen cfg rest (iter_leaf false first) leaf_contract H1 H2) as (C & Hi & Hf & Hfut).
  exists C. split; [exact Hi|]. split; [exact Hf|]. rewrite Hfut. reflexivity.
Qed.

(* ---------- what readers of a contract-satisfying iterator see ---------- *)
Section Readers.
  Variable o : iobj.
  Variable C : contract o.

  Lemma drain_loop_spec : forall fuel x,
    Inv C x -> (length (fut C x) < fuel)%nat -> drain_loop o fuel x = Some (fut C x).
  Proof.
    induction fuel as [|f IH]; intros x Hi Hlen; [lia|].
    cbn [drain_loop]. destruct (c_next C x Hi) as [Hi' Hs'].
    destruct (fut C x) as [|s r] eqn:E.
    - simpl in Hs'. destruct Hs' as [Hv _]. rewrite Hv. reflexivity.
    - simpl in Hs'. destruct Hs' as (Hv & Hat & _ & Hf). rewrite Hv.
      rewrite (IH _ Hi'); [|rewrite Hf; simpl in Hlen; lia].
      rewrite Hat, Hf. reflexivity.
  Qed.

  Lemma drain_fresh x : Inv C x -> Fresh C x ->
    drain_loop o (S (S (size o x))) x = Some (fut C x).
  Proof.
    intros Hi Hf. apply drain_loop_spec; [exact Hi|].
    pose proof (c_size C x Hi) as Hsz. unfold str in Hsz. rewrite (c_fresh C x Hf) in Hsz. lia.
  Qed.

  (* relation between an iterator state and the state of a reader of a plain list *)
  Definition rel (x : X o) (started : bool) (cur : option sample) (futl : list sample) : Prop :=
    match cur with
    | Some c => valid o x = true /\ at_ o x = c /\ fut C x = futl
    | None => valid o x = false /\ fut C x = futl /\ (started = false -> Fresh C x) /\ (started = true -> futl = [])
    end.

  Lemma rel_str x st cur futl : rel x st cur futl -> str o (fut C) x = lstream cur futl.
  Proof.
    unfold rel, str. destruct cur as [c|].
    - intros (-> & -> & ->). reflexivity.
    - intros (-> & -> & _). reflexivity.
  Qed.

  Lemma rel_of_settled x l :
    settled o (fut C) x l ->
    match l with [] => rel x true None [] | s :: r => rel x true (Some s) r end.
  Proof.
    destruct l as [|s r]; simpl.
    - intros [Hv Hf]. repeat split; try assumption. discriminate.
    - intros (Hv & Hat & _ & Hf). repeat split; assumption.
  Qed.

  Lemma observe_settled x l : settled o (fut C) x l ->
    observe o x = match l with [] => None | s :: _ => Some s end.
  Proof.
    unfold observe. destruct l as [|s r]; simpl.
    - intros [-> _]. reflexivity.
    - intros (-> & -> & _). reflexivity.
  Qed.

  Lemma run_ops_spec : forall ops x st cur futl,
    Inv C x -> rel x st cur futl -> proto_ok st cur futl ops = true ->
    run_ops o x ops = spec_run cur futl ops.
  Proof.
    induction ops as [|p ops IH]; intros x st cur futl Hi Hr Hp; [reflexivity|].
    cbn [run_ops spec_run proto_ok] in *.
    apply andb_true_iff in Hp as [Hp1 Hp2].
    assert (Hstep : Inv C (step o p x) /\
            settled o (fut C) (step o p x)
              (match p with ONext => futl | OSeek t => drop_lt t (lstream cur futl) end)).
    { destruct p as [|t]; cbn [step].
      - destruct (c_next C x Hi) as [H1 H2]. split; [exact H1|].
        replace futl with (fut C x); [exact H2|].
        unfold rel in Hr. destruct cur; [destruct Hr as (_ & _ & H)|destruct Hr as (_ & H & _)]; exact H.
      - rewrite <- (rel_str _ _ _ _ Hr). apply (c_seek C); [exact Hi|].
        unfold rel in Hr. destruct cur as [c|].
        + left. destruct Hr as [H _]. exact H.
        + destruct Hr as (_ & _ & Hfr & Hex). destruct st.
          * rewrite (Hex eq_refl) in Hp1. simpl in Hp1. discriminate.
          * right. apply Hfr. reflexivity. }
    destruct Hstep as [Hi' Hs'].
    rewrite (observe_settled _ _ Hs').
    pose proof (rel_of_settled _ _ Hs') as Hr'.
    destruct (match p with ONext => futl | OSeek t => drop_lt t (lstream cur futl) end) as [|s r].
    - f_equal. eapply IH; eassumption.
    - f_equal. eapply IH; eassumption.
  Qed.

  Lemma run_ops_fresh ops x :
    Inv C x -> Fresh C x -> proto_ok false None (fut C x) ops = true ->
    run_ops o x ops = spec_run None (fut C x) ops.
  Proof.
    intros Hi Hf Hp. eapply run_ops_spec; [exact Hi| |exact Hp].
    unfold rel. repeat split; auto. exact (c_fresh C x Hf). discriminate.
  Qed.
End Readers.

(* ---------- summary for the fold ---------- *)
Theorem tower_drain cfg first rest :
  drain (tower false cfg first rest) = Some (pmerge_all cfg first rest).
Proof.
  destruct (tower_contract cfg first rest) as (C & Hi & Hf & Hfut).
  unfold drain. rewrite (drain_fresh _ C _ Hi Hf). rewrite Hfut. reflexivity.
Qed.

Theorem tower_reader cfg first rest ops :
  proto_ok false None (pmerge_all cfg first rest) ops = true ->
  run_prog (tower false cfg first rest) ops = spec_run None (pmerge_all cfg first rest) ops.
Proof.
  destruct (tower_contract cfg first rest) as (C & Hi & Hf & Hfut).
  intro Hp. unfold run_prog. rewrite <- Hfut in *. apply (run_ops_fresh _ C); assumption.
Qed.
