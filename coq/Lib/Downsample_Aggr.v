(* Shared model (C37 / C38) of the second level of downsampling in
   pkg/compact/downsample/downsample.go: ApplyCounterResetsSeriesIterator,
   expandXorChunkIterator, genericAggregate, downsampleFloatAggrBatch,
   downsampleAggrLoop / downsampleAggr (float chunks only).
   Executable definitions only; [cw] = currentWindow comes from Gen (tie T). *)
From Coq Require Import ZArith List Bool Lia.
Import ListNotations.
From Verif Require Import Lib.Downsample_Core.
Open Scope Z_scope.

(* ---- expandXorChunkIterator: stale markers cannot occur (values are Z); a
   sample is kept iff it does not go back in time; lastT starts at 0 ---- *)
Fixpoint expand_xor (lastT : Z) (l : list sample) : list sample :=
  match l with
  | [] => []
  | (t, v) :: r => if t >=? lastT then (t, v) :: expand_xor t r else expand_xor lastT r
  end.

(* ---- ApplyCounterResetsSeriesIterator over a list of chunk iterators ----
   The chunks are flattened into tokens: the samples of a chunk followed by
   TEnd (that chunk's iterator returned ValNone). *)
Inductive tok := TS (t v : Z) | TEnd.

Definition toks_of (chks : list (list sample)) : list tok :=
  flat_map (fun c => map (fun s => TS (fst s) (snd s)) c ++ [TEnd]) chks.

Record acr := mkI { c_total : Z; c_lastT : Z; c_lastV : Z; c_totalV : Z; c_lvt : bool (* lastValType <> ValNone *) }.

Definition acr0 : acr := mkI 0 0 0 0 false.

(* result: None = out of fuel; Some (true, rest, state) = a sample, At() = (c_lastT, c_totalV);
   Some (false, rest, state) = ValNone (the state still records lastV etc.) *)
Fixpoint acr_next (fuel : nat) (toks : list tok) (st : acr) {struct fuel} : option (bool * list tok * acr) :=
  match fuel with
  | O => None
  | S f =>
    match toks with
    | [] => Some (false, [], st)                        (* it.i >= len(it.chks) *)
    | TEnd :: r =>                                      (* chunk exhausted: it.i++; return it.Seek(it.lastT + 1) *)
        acr_seek f (c_lastT st + 1) r (mkI (c_total st) (c_lastT st) (c_lastV st) (c_totalV st) false)
    | TS t v :: r =>
        if c_total st =? 0 then Some (true, r, mkI 1 t v v true)
        else if t >? c_lastT st then
          Some (true, r, mkI (c_total st + 1) t v
                          (c_totalV st + (if v >=? c_lastV st then v - c_lastV st else v)) true)
        else if t =? c_lastT st then
          acr_next f r (mkI (c_total st) (c_lastT st) v (c_totalV st) true)
        else acr_next f r (mkI (c_total st) (c_lastT st) (c_lastV st) (c_totalV st) true)
    end
  end
with acr_seek (fuel : nat) (x : Z) (toks : list tok) (st : acr) {struct fuel} : option (bool * list tok * acr) :=
  match fuel with
  | O => None
  | S f =>
    if c_lastT st >=? x then Some (c_lvt st, toks, st)   (* return it.lastValType *)
    else match acr_next f toks st with
         | None => None
         | Some (false, toks', st') => Some (false, toks', st')
         | Some (true, toks', st') => acr_seek f x toks' st'
         end
  end.

Definition acr_fuel (toks : list tok) : nat := (2 * length toks + 3)%nat.

(* repeated Next until ValNone: the emitted samples and the final state (it.lastV) *)
Fixpoint acr_run (n : nat) (toks : list tok) (st : acr) : option (list sample * acr) :=
  match n with
  | O => None
  | S n' =>
    match acr_next (acr_fuel toks) toks st with
    | None => None
    | Some (false, _, st') => Some ([], st')
    | Some (true, toks', st') =>
        match acr_run n' toks' st' with
        | None => None
        | Some (out, fin) => Some ((c_lastT st', c_totalV st') :: out, fin)
        end
    end
  end.

Section WithWindow.
Variable cw : Z -> Z -> Z.

(* ---- genericAggregate ---- *)

Definition present (f : achunk -> option (list sample)) (part : list achunk) : list (list sample) :=
  flat_map (fun k => match f k with Some l => [l] | None => [] end) part.

(* (mint, maxt, new sub-chunk) *)
Definition generic_aggregate (f : achunk -> option (list sample)) (g : fagg -> Z) (res : Z) (part : list achunk)
  : Z * Z * option (list sample) :=
  let buf := concat (map (expand_xor 0) (present f part)) in
  match buf with
  | [] => (0, 0, None)
  | _ :: _ =>
      let '(out, _) := downsample_batch cw res buf in
      let ts := map fst out in
      (fold_mint ts max_int64, fold_maxt ts min_int64, Some (proj g out))
  end.

(* ---- downsampleFloatAggrBatch; None = fuel exhausted inside the counter iterator ---- *)
Definition float_aggr_batch (res : Z) (part : list achunk) : option achunk :=
  let '(m1, x1, cnt) := generic_aggregate k_count a_sum res part in       (* count is re-aggregated by SUM *)
  let '(m2, x2, sm) := generic_aggregate k_sum a_sum res part in
  let '(m3, x3, mn) := generic_aggregate k_min (fun a => oz (a_min a)) res part in
  let '(m4, x4, mx) := generic_aggregate k_max (fun a => oz (a_max a)) res part in
  let mint := Z.min (Z.min (Z.min (Z.min max_int64 m1) m2) m3) m4 in
  let maxt := Z.max (Z.max (Z.max (Z.max min_int64 x1) x2) x3) x4 in
  let toks := toks_of (present k_counter part) in
  match acr_run (S (length toks)) toks acr0 with
  | None => None
  | Some (emitted, fin) =>
      let buf := expand_xor 0 emitted in
      match buf with
      | [] => Some (mkC mint maxt cnt sm mn mx None)
      | first :: _ =>
          let '(out, lastT) := downsample_batch cw res buf in
          let ts := map fst out in
          Some (mkC (fold_mint ts mint) (fold_maxt ts maxt) cnt sm mn mx
                    (Some (first :: proj a_counter out ++ [(lastT, c_lastV fin)])))
      end
  end.

(* ---- downsampleAggrLoop: None = does not terminate within fuel ---- *)
Fixpoint aggr_loop (fuel : nat) (res : Z) (batch_size : nat) (chks : list achunk) : option (list achunk) :=
  match chks with
  | [] => Some []
  | _ :: _ =>
    match fuel with
    | O => None
    | S f =>
      let j := Nat.min batch_size (length chks) in
      match float_aggr_batch res (firstn j chks), aggr_loop f res batch_size (skipn j chks) with
      | Some k, Some rest => Some (k :: rest)
      | _, _ => None
      end
    end
  end.

(* downsampleAggr on float aggregate chunks; num_chunks = targetChunkCount(...) is an input.
   batchSize := max(len(chks)/numChunks, 1)  (C38-fix.patch; as found it was
   len(chks)/numChunks, which is 0 when numChunks > len(chks): see aggr_loop with 0).
   (The "invalid range" error needs MinTime = MaxInt64, which float batches never produce:
   an empty aggregate yields mint = maxt = 0.) *)
Definition downsample_aggr (res : Z) (num_chunks : nat) (chks : list achunk) : option (list achunk) :=
  aggr_loop (length chks) res (Nat.max (length chks / num_chunks) 1) chks.

End WithWindow.
