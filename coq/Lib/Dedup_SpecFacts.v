(* Lemmas about the specification-level penalty merge [pm] of Lib/Dedup_Iter.v
   (used by the proofs of C01, C02, C40). *)
From Coq Require Import ZArith List Bool Lia.
Import ListNotations.
From Verif Require Import Lib.Dedup_Iter.
Open Scope Z_scope.

(* ---------- drop_lt ---------- *)
Lemma drop_lt_suffix t l : exists p, l = p ++ drop_lt t l.
Proof.
  induction l as [|s r IH]; simpl.
  - exists []; reflexivity.
  - destruct (ts s <? t).
    + destruct IH as [p Hp]. exists (s :: p). simpl. f_equal. exact Hp.
    + exists []; reflexivity.
Qed.

Lemma drop_lt_In t l s : In s (drop_lt t l) -> In s l.
Proof.
  destruct (drop_lt_suffix t l) as [p Hp]. intro H. rewrite Hp. apply in_or_app. right; exact H.
Qed.

Lemma drop_lt_length t l : (length (drop_lt t l) <= length l)%nat.
Proof.
  destruct (drop_lt_suffix t l) as [p Hp]. rewrite Hp at 2. rewrite app_length. lia.
Qed.

Lemma drop_lt_head t l s r : drop_lt t l = s :: r -> t <= ts s.
Proof.
  induction l as [|x l IH]; simpl; [discriminate|].
  destruct (ts x <? t) eqn:E; [exact IH|].
  intro H; inversion H; subst. apply Z.ltb_ge in E. exact E.
Qed.

Lemma drop_lt_keep t s r : t <= ts s -> drop_lt t (s :: r) = s :: r.
Proof. intro H. simpl. apply Z.ltb_ge in H. rewrite H. reflexivity. Qed.

Lemma drop_lt_skip t s r : ts s < t -> drop_lt t (s :: r) = drop_lt t r.
Proof. intro H. simpl. apply Z.ltb_lt in H. rewrite H. reflexivity. Qed.

Lemma drop_lt_cons_length t s r : ts s < t -> (length (drop_lt t (s :: r)) <= length r)%nat.
Proof. intro H. rewrite drop_lt_skip by exact H. apply drop_lt_length. Qed.

(* ---------- strictly increasing ---------- *)
Lemma strict_from_weaken lo lo' l :
  strict_incr_from (Some lo) l = true -> lo' <= lo -> strict_incr_from (Some lo') l = true.
Proof.
  destruct l as [|s r]; simpl; [reflexivity|].
  intros H Hle. apply andb_true_iff in H as [H1 H2]. apply andb_true_iff; split; [|exact H2].
  apply Z.ltb_lt in H1. apply Z.ltb_lt. lia.
Qed.

Lemma strict_from_none lo l : strict_incr_from lo l = true -> strict_incr l = true.
Proof.
  unfold strict_incr. destruct l as [|s r]; simpl; [reflexivity|].
  intro H. apply andb_true_iff in H as [_ H]. exact H.
Qed.

Lemma strict_cons s r : strict_incr (s :: r) = true <-> strict_incr_from (Some (ts s)) r = true.
Proof. unfold strict_incr; simpl. reflexivity. Qed.

Lemma strict_from_all lo l s :
  strict_incr_from (Some lo) l = true -> In s l -> lo < ts s.
Proof.
  revert lo. induction l as [|x l IH]; simpl; intros lo H Hin; [contradiction|].
  apply andb_true_iff in H as [H1 H2]. apply Z.ltb_lt in H1.
  destruct Hin as [->|Hin]; [exact H1|].
  specialize (IH _ H2 Hin). lia.
Qed.

Lemma strict_from_tail lo x l : strict_incr_from lo (x :: l) = true -> strict_incr_from (Some (ts x)) l = true.
Proof. simpl. intro H. apply andb_true_iff in H as [_ H]. exact H. Qed.

Lemma strict_suffix p : forall l lo, strict_incr_from lo (p ++ l) = true -> strict_incr l = true.
Proof.
  induction p as [|x p IH]; simpl; intros l lo H.
  - eapply strict_from_none; exact H.
  - apply andb_true_iff in H as [_ H]. eapply IH; exact H.
Qed.

(* in a strictly increasing list drop_lt is the suffix of samples at or after t *)
Lemma drop_lt_sorted_next s r : strict_incr (s :: r) = true -> drop_lt (ts s + 1) (s :: r) = r.
Proof.
  intro H. rewrite drop_lt_skip by lia. apply strict_cons in H.
  destruct r as [|x r]; [reflexivity|].
  simpl in H. apply andb_true_iff in H as [H _]. apply Z.ltb_lt in H.
  apply drop_lt_keep. lia.
Qed.

Lemma filter_all_id {A} (f : A -> bool) l : (forall x, In x l -> f x = true) -> filter f l = l.
Proof.
  induction l as [|x l IH]; intro H; [reflexivity|].
  simpl. rewrite (H x (or_introl eq_refl)). f_equal. apply IH. intros y Hy. apply H. right; exact Hy.
Qed.

Lemma drop_lt_filter t l lo :
  strict_incr_from lo l = true -> drop_lt t l = filter (fun s => t <=? ts s) l.
Proof.
  revert lo. induction l as [|x l IH]; intros lo H; [reflexivity|].
  simpl. destruct (ts x <? t) eqn:E.
  - apply Z.ltb_lt in E. assert (E' : (t <=? ts x) = false) by (apply Z.leb_gt; lia). rewrite E'.
    eapply IH. eapply strict_from_tail; exact H.
  - apply Z.ltb_ge in E. assert (E' : (t <=? ts x) = true) by (apply Z.leb_le; lia). rewrite E'.
    f_equal.
    apply strict_from_tail in H.
    (* nothing in l is filtered out *)
    clear IH. symmetry. apply filter_all_id. intros s Hs.
    apply Z.leb_le. pose proof (strict_from_all _ _ _ H Hs). lia.
Qed.

(* ---------- the penalty merge ---------- *)
Section PM.
  Variable cfg : pcfg.
  (* what the theorems need of the penalty configuration *)
  Definition cfg_ok : Prop :=
    0 <= ipen cfg /\ (forall t l, l < t -> 0 <= penfA cfg t l) /\ (forall t l, l < t -> 0 <= penfB cfg t l).

  Definition mu (lt : option Z) (pA pB : Z) (la lb : list sample) : nat :=
    (length (sdrop lt pA la) + length (sdrop lt pB lb))%nat.

  Lemma sdrop_length lt p l : (length (sdrop lt p l) <= length l)%nat.
  Proof. destruct lt; simpl; [apply drop_lt_length|lia]. Qed.

  Lemma sdrop_In lt p l s : In s (sdrop lt p l) -> In s l.
  Proof. destruct lt; simpl; [apply drop_lt_In|auto]. Qed.

  Lemma mu_le lt pA pB la lb : (mu lt pA pB la lb <= length la + length lb)%nat.
  Proof. unfold mu. pose proof (sdrop_length lt pA la). pose proof (sdrop_length lt pB lb). lia. Qed.

  (* after emitting the head of la', the next entry drop removes it *)
  Lemma mu_step_a s r lb' pB' :
    (mu (Some (ts s)) 0 pB' (s :: r) lb' <= length r + length lb')%nat.
  Proof.
    unfold mu. cbn [sdrop].
    assert (ts s < ts s + 1 + 0) by lia.
    pose proof (drop_lt_cons_length (ts s + 1 + 0) s r H).
    pose proof (drop_lt_length (ts s + 1 + pB') lb'). lia.
  Qed.
  Lemma mu_step_b s r la' pA' :
    (mu (Some (ts s)) pA' 0 la' (s :: r) <= length la' + length r)%nat.
  Proof.
    unfold mu. cbn [sdrop].
    assert (ts s < ts s + 1 + 0) by lia.
    pose proof (drop_lt_cons_length (ts s + 1 + 0) s r H).
    pose proof (drop_lt_length (ts s + 1 + pA') la'). lia.
  Qed.

  (* enough fuel: the result does not depend on it *)
  Lemma pm_fuel : forall f1 f2 lt pA pB la lb,
    (mu lt pA pB la lb < f1)%nat -> (mu lt pA pB la lb < f2)%nat ->
    pm cfg f1 lt pA pB la lb = pm cfg f2 lt pA pB la lb.
  Proof.
    induction f1 as [|f1 IH]; intros f2 lt pA pB la lb H1 H2; [lia|].
    destruct f2 as [|f2]; [lia|].
    cbn [pm]. unfold mu in H1, H2.
    destruct (sdrop lt pA la) as [|sa ra] eqn:Ea; destruct (sdrop lt pB lb) as [|sb rb] eqn:Eb.
    - reflexivity.
    - f_equal. apply IH.
      + pose proof (mu_step_b sb rb [] pA). simpl in *. lia.
      + pose proof (mu_step_b sb rb [] pA). simpl in *. lia.
    - f_equal. apply IH.
      + pose proof (mu_step_a sa ra [] pB). simpl in *. lia.
      + pose proof (mu_step_a sa ra [] pB). simpl in *. lia.
    - destruct (ts sa <=? ts sb).
      + f_equal. apply IH.
        * pose proof (mu_step_a sa ra (sb :: rb) (spen cfg (penfB cfg) lt (ts sa))). simpl in *. lia.
        * pose proof (mu_step_a sa ra (sb :: rb) (spen cfg (penfB cfg) lt (ts sa))). simpl in *. lia.
      + f_equal. apply IH.
        * pose proof (mu_step_b sb rb (sa :: ra) (spen cfg (penfA cfg) lt (ts sb))). simpl in *. lia.
        * pose proof (mu_step_b sb rb (sa :: ra) (spen cfg (penfA cfg) lt (ts sb))). simpl in *. lia.
  Qed.

  Lemma pm_length : forall f lt pA pB la lb,
    (length (pm cfg f lt pA pB la lb) <= mu lt pA pB la lb)%nat.
  Proof.
    induction f as [|f IH]; intros lt pA pB la lb; [simpl; lia|].
    cbn [pm]. unfold mu at 1.
    destruct (sdrop lt pA la) as [|sa ra] eqn:Ea; destruct (sdrop lt pB lb) as [|sb rb] eqn:Eb.
    - simpl; lia.
    - cbn [length]. specialize (IH (Some (ts sb)) pA 0 [] (sb :: rb)).
      pose proof (mu_step_b sb rb [] pA). simpl in *. lia.
    - cbn [length]. specialize (IH (Some (ts sa)) 0 pB (sa :: ra) []).
      pose proof (mu_step_a sa ra [] pB). simpl in *. lia.
    - destruct (ts sa <=? ts sb); cbn [length].
      + specialize (IH (Some (ts sa)) 0 (spen cfg (penfB cfg) lt (ts sa)) (sa :: ra) (sb :: rb)).
        pose proof (mu_step_a sa ra (sb :: rb) (spen cfg (penfB cfg) lt (ts sa))). simpl in *. lia.
      + specialize (IH (Some (ts sb)) (spen cfg (penfA cfg) lt (ts sb)) 0 (sa :: ra) (sb :: rb)).
        pose proof (mu_step_b sb rb (sa :: ra) (spen cfg (penfA cfg) lt (ts sb))). simpl in *. lia.
  Qed.

  (* provenance *)
  Lemma pm_In : forall f lt pA pB la lb s,
    In s (pm cfg f lt pA pB la lb) -> In s la \/ In s lb.
  Proof.
    induction f as [|f IH]; intros lt pA pB la lb s; [simpl; contradiction|].
    cbn [pm].
    destruct (sdrop lt pA la) as [|sa ra] eqn:Ea; destruct (sdrop lt pB lb) as [|sb rb] eqn:Eb.
    - simpl; contradiction.
    - intros [<-|H].
      + right. eapply sdrop_In. rewrite Eb. left; reflexivity.
      + apply IH in H as [H|H]; [contradiction|]. right. eapply sdrop_In. rewrite Eb. exact H.
    - intros [<-|H].
      + left. eapply sdrop_In. rewrite Ea. left; reflexivity.
      + apply IH in H as [H|H]; [|contradiction]. left. eapply sdrop_In. rewrite Ea. exact H.
    - destruct (ts sa <=? ts sb); intros [<-|H].
      + left. eapply sdrop_In. rewrite Ea. left; reflexivity.
      + apply IH in H as [H|H]; [left; eapply sdrop_In; rewrite Ea|right; eapply sdrop_In; rewrite Eb]; exact H.
      + right. eapply sdrop_In. rewrite Eb. left; reflexivity.
      + apply IH in H as [H|H]; [left; eapply sdrop_In; rewrite Ea|right; eapply sdrop_In; rewrite Eb]; exact H.
  Qed.

  (* strictly increasing output, for arbitrary input lists *)
  Definition pens_ok (lt : option Z) (pA pB : Z) : Prop :=
    0 <= pA /\ 0 <= pB.

  Lemma sdrop_head lt p l s r : sdrop lt p l = s :: r -> match lt with Some t => t + 1 + p <= ts s | None => True end.
  Proof. destruct lt; simpl; [apply drop_lt_head|auto]. Qed.

  Lemma spen_nonneg f lt t :
    0 <= ipen cfg -> (forall t l, l < t -> 0 <= f t l) ->
    match lt with Some l => l < t | None => True end -> 0 <= spen cfg f lt t.
  Proof. intros Hi Hf H. destruct lt; simpl; auto. Qed.

  Lemma pm_strict : cfg_ok -> forall f lt pA pB la lb,
    pens_ok lt pA pB -> strict_incr_from lt (pm cfg f lt pA pB la lb) = true.
  Proof.
    intros (Hi & HfA & HfB).
    unfold pens_ok.
    induction f as [|f IH]; intros lt pA pB la lb Hp; [reflexivity|].
    cbn [pm].
    destruct (sdrop lt pA la) as [|sa ra] eqn:Ea; destruct (sdrop lt pB lb) as [|sb rb] eqn:Eb.
    - reflexivity.
    - cbn [strict_incr_from]. apply andb_true_iff; split.
      + apply sdrop_head in Eb. destruct lt; [|reflexivity]. simpl in *. apply Z.ltb_lt. lia.
      + apply IH. simpl. apply sdrop_head in Eb. destruct lt; simpl in *; lia.
    - cbn [strict_incr_from]. apply andb_true_iff; split.
      + apply sdrop_head in Ea. destruct lt; [|reflexivity]. simpl in *. apply Z.ltb_lt. lia.
      + apply IH. simpl. apply sdrop_head in Ea. destruct lt; simpl in *; lia.
    - pose proof (sdrop_head _ _ _ _ _ Ea) as Ha. pose proof (sdrop_head _ _ _ _ _ Eb) as Hb.
      destruct (ts sa <=? ts sb); cbn [strict_incr_from]; apply andb_true_iff; split.
      + destruct lt; [|reflexivity]. simpl in *. apply Z.ltb_lt. lia.
      + apply IH. simpl. split; [lia|]. apply spen_nonneg; auto. destruct lt; simpl in *; lia.
      + destruct lt; [|reflexivity]. simpl in *. apply Z.ltb_lt. lia.
      + apply IH. simpl. split; [|lia]. apply spen_nonneg; auto. destruct lt; simpl in *; lia.
  Qed.

  (* the second stream is empty: the first comes out unchanged *)
  Lemma pm_nil_r : forall f c la pB,
    strict_incr (c :: la) = true -> (length la < f)%nat ->
    pm cfg f (Some (ts c)) 0 pB (c :: la) [] = la.
  Proof.
    induction f as [|f IH]; intros c la pB Hs Hf; [lia|].
    cbn [pm sdrop]. replace (ts c + 1 + 0) with (ts c + 1) by lia.
    rewrite (drop_lt_sorted_next _ _ Hs). simpl drop_lt.
    destruct la as [|a la]; [reflexivity|].
    f_equal. apply IH.
    - apply strict_cons in Hs. eapply strict_from_none; exact Hs.
    - simpl in Hf. lia.
  Qed.

  Lemma pmerge_nil_r la : strict_incr la = true -> pmerge cfg la [] = la.
  Proof.
    intro Hs. unfold pmerge. cbn [pm sdrop].
    destruct la as [|a la]; [reflexivity|].
    f_equal. apply pm_nil_r; [exact Hs|simpl; lia].
  Qed.

  (* the second stream is a suffix of the first: the first comes out unchanged *)
  Lemma pm_suffix : cfg_ok -> forall f c la lb pB p,
    strict_incr (c :: la) = true -> c :: la = p ++ lb -> 0 <= pB -> (length la < f)%nat ->
    pm cfg f (Some (ts c)) 0 pB (c :: la) lb = la.
  Proof.
    intros (Hi & HfA & HfB).
    induction f as [|f IH]; intros c la lb pB p Hs Hp HpB Hf; [lia|].
    cbn [pm sdrop]. replace (ts c + 1 + 0) with (ts c + 1) by lia.
    rewrite (drop_lt_sorted_next _ _ Hs).
    (* the dropped lb is a suffix of la *)
    assert (Hsuf : exists q, la = q ++ drop_lt (ts c + 1 + pB) lb).
    { destruct p as [|x p].
      - simpl in Hp. subst lb. rewrite drop_lt_skip by lia.
        destruct (drop_lt_suffix (ts c + 1 + pB) la) as [q Hq]. exists q; exact Hq.
      - simpl in Hp. inversion Hp; subst x.
        destruct (drop_lt_suffix (ts c + 1 + pB) lb) as [q Hq].
        exists (p ++ q). rewrite <- app_assoc, <- Hq. first [assumption|reflexivity|symmetry; assumption]. }
    destruct Hsuf as [q Hq].
    destruct la as [|a la].
    - destruct q; simpl in Hq; [|discriminate]. rewrite <- Hq. reflexivity.
    - assert (Hs' : strict_incr (a :: la) = true)
        by (apply strict_cons in Hs; eapply strict_from_none; exact Hs).
      assert (Hca : ts c < ts a).
      { apply strict_cons in Hs. simpl in Hs. apply andb_true_iff in Hs as [Hs _]. apply Z.ltb_lt; exact Hs. }
      destruct (drop_lt (ts c + 1 + pB) lb) as [|b rb] eqn:Eb.
      + f_equal. apply pm_nil_r; [exact Hs'|simpl in Hf; lia].
      + assert (Hab : ts a <= ts b).
        { destruct q as [|x q]; simpl in Hq; inversion Hq; subst.
          - lia.
          - apply strict_cons in Hs'.
            assert (In b (q ++ b :: rb)) by (apply in_or_app; right; left; reflexivity).
            pose proof (strict_from_all _ _ _ Hs' H). lia. }
        apply Z.leb_le in Hab. rewrite Hab.
        f_equal. eapply IH with (p := q); [exact Hs'|exact Hq| |simpl in Hf; lia].
        simpl. apply HfB. exact Hca.
  Qed.

  Lemma pmerge_same l : cfg_ok -> strict_incr l = true -> pmerge cfg l l = l.
  Proof.
    intros Hc Hs. unfold pmerge. cbn [pm sdrop].
    destruct l as [|c l]; [reflexivity|].
    rewrite Z.leb_refl. f_equal.
    eapply pm_suffix with (p := []); [exact Hc|exact Hs|reflexivity| |simpl; lia].
    simpl. destruct Hc as (Hi & _). exact Hi.
  Qed.

  Lemma pmerge_strict la lb : cfg_ok -> strict_incr (pmerge cfg la lb) = true.
  Proof. intro Hc. unfold pmerge, strict_incr. apply pm_strict; [exact Hc|unfold pens_ok; lia]. Qed.

  Lemma pmerge_In la lb s : In s (pmerge cfg la lb) -> In s la \/ In s lb.
  Proof. apply pm_In. Qed.

  (* ---------- the fold over all replicas ---------- *)
  Lemma pmerge_all_In : forall rest first s,
    In s (pmerge_all cfg first rest) -> exists l, In l (first :: rest) /\ In s l.
  Proof.
    induction rest as [|b rest IH]; intros first s H.
    - exists first. split; [left; reflexivity|exact H].
    - simpl in H. apply IH in H as (l & [<-|Hl] & Hs).
      + apply pmerge_In in Hs as [Hs|Hs].
        * exists first; split; [left; reflexivity|exact Hs].
        * exists b; split; [right; left; reflexivity|exact Hs].
      + exists l; split; [right; right; exact Hl|exact Hs].
  Qed.

  Lemma pmerge_all_strict : cfg_ok -> forall rest first,
    (rest <> [] \/ strict_incr first = true) -> strict_incr (pmerge_all cfg first rest) = true.
  Proof.
    intro Hc. induction rest as [|b rest IH]; intros first H.
    - destruct H as [H|H]; [congruence|exact H].
    - simpl. apply IH. right. apply pmerge_strict. exact Hc.
  Qed.

  Lemma pmerge_all_same : cfg_ok -> forall n l,
    strict_incr l = true -> pmerge_all cfg l (repeat l n) = l.
  Proof.
    intros Hc n l Hs. induction n as [|n IH]; [reflexivity|].
    simpl. rewrite pmerge_same by assumption. exact IH.
  Qed.
End PM.
