(* The array loser tree of pkg/losertree (model: Lib/Proxy_Model.v lt_new / lt_next /
   lt_drain) emits a minimal head at every step: [lt_merge_min_run]. Used by C03 / C06.
   Structure: positions of the implicit binary tree ([under]), the order of the tree's
   less with maxVal ([vle]), consistent tournaments below a position ([wins]),
   playGame ([play_game_ok]), replayGames along the winner's root path ([replay_ok]),
   one Next() ([next_ok]), New + the first Next() and the drain loop. *)
From Coq Require Import ZArith NArith List Bool Lia Permutation Sorted Arith.
Import ListNotations.
From Verif Require Import Lib.Proxy_Order Lib.Proxy_Model Lib.Proxy_Proofs.


(* ======== part LT1 ======== *)

(* ---- positions of the implicit binary tree: children of p are 2p and 2p+1 ---- *)
Inductive under : nat -> nat -> Prop :=
| u_refl p : under p p
| u_l p x : under (2 * p) x -> under p x
| u_r p x : under (2 * p + 1) x -> under p x.

Lemma under_range p x : under p x -> exists d, p * 2 ^ d <= x < (p + 1) * 2 ^ d.
Proof.
  induction 1 as [p|p x _ [d IH]|p x _ [d IH]].
  - exists 0. cbn. lia.
  - exists (S d). rewrite Nat.pow_succ_r'. nia.
  - exists (S d). rewrite Nat.pow_succ_r'. nia.
Qed.

Lemma under_le p x : under p x -> p <= x.
Proof. induction 1; lia. Qed.

Lemma under_disjoint p x : 1 <= p -> under (2 * p) x -> under (2 * p + 1) x -> False.
Proof.
  intros Hp H1 H2. apply under_range in H1 as [d1 H1]. apply under_range in H2 as [d2 H2].
  destruct (le_lt_dec d1 d2) as [Hd|Hd].
  - pose proof (Nat.pow_le_mono_r 2 d1 d2 ltac:(lia) Hd). nia.
  - assert (2 ^ (S d2) <= 2 ^ d1) by (apply Nat.pow_le_mono_r; lia).
    rewrite Nat.pow_succ_r' in H. nia.
Qed.

Lemma under_trans p q x : under p q -> under q x -> under p x.
Proof. induction 1; intros H2; [exact H2 | apply u_l; auto | apply u_r; auto]. Qed.

Lemma under_inv p x : under p x -> x = p \/ under (2 * p) x \/ under (2 * p + 1) x.
Proof. inversion 1; subst; auto. Qed.

Lemma under_strict p x : under p x -> x = p \/ 2 * p <= x.
Proof. intros H. apply under_inv in H as [H|[H|H]]; [left; exact H| |]; apply under_le in H; right; lia. Qed.

Lemma under_down p y : under p y -> under p (2 * y) /\ under p (2 * y + 1).
Proof.
  induction 1 as [p|p x _ [IH1 IH2]|p x _ [IH1 IH2]].
  - split; [apply u_l | apply u_r]; apply u_refl.
  - split; apply u_l; assumption.
  - split; apply u_r; assumption.
Qed.

Lemma under_one x : 1 <= x -> under 1 x.
Proof.
  induction x as [x IH] using lt_wf_ind. intros Hx.
  destruct (Nat.eq_dec x 1) as [->|Hn]; [apply u_refl|].
  assert (Hh : under 1 (Nat.div2 x)).
  { apply IH; [apply Nat.lt_div2; lia|]. destruct x as [|[|x]]; cbn; lia. }
  apply under_down in Hh as [H1 H2].
  pose proof (Nat.div2_odd x) as E. destruct (Nat.odd x); cbn [Nat.b2n] in E.
  - rewrite E. exact H2.
  - rewrite E. rewrite Nat.add_0_r. exact H1.
Qed.

Lemma div2_child q : 2 <= q -> q = 2 * Nat.div2 q \/ q = 2 * Nat.div2 q + 1.
Proof. intros _. pose proof (Nat.div2_odd q) as E. destruct (Nat.odd q); cbn [Nat.b2n] in E; lia. Qed.

(* ---- lists ---- *)
Lemma length_upd {A} (x : A) l : forall n, length (upd n x l) = length l.
Proof. induction l as [|y r IH]; intros [|n]; cbn; auto. Qed.
Lemma nth_upd_eq {A} (x d : A) l : forall n, n < length l -> nth n (upd n x l) d = x.
Proof. induction l as [|y r IH]; intros [|n] H; cbn in *; try lia; auto. apply IH. lia. Qed.
Lemma nth_upd_neq {A} (x d : A) l : forall n m, n <> m -> nth m (upd n x l) d = nth m l d.
Proof. induction l as [|y r IH]; intros [|n] [|m] H; cbn; try lia; auto. Qed.


(* ======== part LT2 ======== *)

Section LT.
Context {L C W : Type} (lcmp : L -> L -> comparison) (Hl : OrdSpec lcmp) (wlen : W -> N).
Notation resp := (@resp L C W).
Notation node := (@node L C W).
Notation dnode := (@dnode L C W).
Notation rless := (@Proxy_Model.rless L C W lcmp wlen).
Notation vless := (@Proxy_Model.vless L C W lcmp wlen).

(* a <= b in the order of the tree's less; None = maxVal *)
Definition vle (a b : option resp) : Prop :=
  match a, b with
  | Some x, Some y => rless y x = false
  | Some _, None => True
  | None, Some _ => False
  | None, None => True
  end.

Lemma rless_irrefl x : rless x x = false.
Proof. destruct x as [l c|w]; cbn; [rewrite (ord_refl _ Hl); reflexivity | apply N.ltb_irrefl]. Qed.

Lemma rless_asym x y : rless x y = true -> rless y x = false.
Proof.
  destruct x as [lx cx|wx], y as [ly cy|wy]; cbn; try congruence.
  - rewrite (cmp_opp _ Hl lx ly). destruct (lcmp lx ly); cbn; congruence.
  - intros H. apply N.ltb_lt in H. apply N.ltb_ge. lia.
Qed.

Lemma rless_negtrans x y z : rless y x = false -> rless z y = false -> rless z x = false.
Proof.
  destruct x as [lx cx|wx], y as [ly cy|wy], z as [lz cz|wz]; cbn; try congruence.
  - intros H1 H2.
    assert (A : cle lcmp lx ly) by (apply (not_lt_cle _ Hl); intros E; rewrite E in H1; discriminate).
    assert (B : cle lcmp ly lz) by (apply (not_lt_cle _ Hl); intros E; rewrite E in H2; discriminate).
    pose proof (cle_trans _ Hl _ _ _ A B) as T. unfold cle in T.
    destruct (lcmp lz lx) eqn:E; try reflexivity. exfalso. apply T. apply (cmp_gt_lt _ Hl). exact E.
  - intros H1 H2. apply N.ltb_ge in H1, H2. apply N.ltb_ge. lia.
Qed.

Lemma vle_refl a : vle a a.
Proof. destruct a; cbn; [apply rless_irrefl | exact I]. Qed.

Lemma vle_trans a b c : vle a b -> vle b c -> vle a c.
Proof.
  destruct a as [x|], b as [y|], c as [z|]; cbn; try tauto.
  intros H1 H2. eapply rless_negtrans; eauto.
Qed.

Lemma vless_true_vle a b : vless a b = true -> vle a b.
Proof. destruct a as [x|], b as [y|]; cbn; try congruence; try tauto. apply rless_asym. Qed.
Lemma vless_false_vle a b : vless a b = false -> vle b a.
Proof. destruct a as [x|], b as [y|]; cbn; try congruence; try tauto. Qed.

Definition val (ns : list node) (x : nat) : option resp := nval (nth x ns dnode).

(* [wins k ns p a]: the stored losers below position p form a consistent tournament
   over the current leaf values and leaf a is its winner *)
Inductive wins (k : nat) (ns : list node) : nat -> nat -> Prop :=
| w_leaf p : k <= p -> wins k ns p p
| w_node p a b ca cb :
    1 <= p < k -> (ca = 2 * p /\ cb = 2 * p + 1 \/ ca = 2 * p + 1 /\ cb = 2 * p) ->
    wins k ns ca a -> wins k ns cb b ->
    nth p ns dnode = MkNode (Z.of_nat b) (val ns b) ->
    vle (val ns a) (val ns b) ->
    wins k ns p a.

Lemma wins_under k ns p a : wins k ns p a -> under p a /\ k <= a.
Proof.
  induction 1 as [p Hp|p a b ca cb Hp Hc _ [IH1 IH2] _ _ _ _]; [split; [apply u_refl|exact Hp]|].
  split; [|exact IH2]. destruct Hc as [[-> ->]|[-> ->]]; [apply u_l | apply u_r]; exact IH1.
Qed.

Lemma wins_frame k ns ns' p a :
  wins k ns p a -> (forall q, under p q -> nth q ns' dnode = nth q ns dnode) -> wins k ns' p a.
Proof.
  induction 1 as [p Hp|p a b ca cb Hp Hc H1 IH1 H2 IH2 Hn Hv]; intros Hf; [apply w_leaf; exact Hp|].
  assert (Uca : under p ca) by (destruct Hc as [[-> ->]|[-> ->]]; [apply u_l|apply u_r]; apply u_refl).
  assert (Ucb : under p cb) by (destruct Hc as [[-> ->]|[-> ->]]; [apply u_r|apply u_l]; apply u_refl).
  assert (Va : val ns' a = val ns a).
  { unfold val. rewrite Hf; [reflexivity|]. eapply under_trans; [exact Uca|]. apply (wins_under _ _ _ _ H1). }
  assert (Vb : val ns' b = val ns b).
  { unfold val. rewrite Hf; [reflexivity|]. eapply under_trans; [exact Ucb|]. apply (wins_under _ _ _ _ H2). }
  apply w_node with (b := b) (ca := ca) (cb := cb); [exact Hp | exact Hc | | | |].
  - apply IH1. intros q Hq. apply Hf. exact (under_trans _ _ _ Uca Hq).
  - apply IH2. intros q Hq. apply Hf. exact (under_trans _ _ _ Ucb Hq).
  - rewrite Hf by apply u_refl. rewrite Vb. exact Hn.
  - rewrite Va, Vb. exact Hv.
Qed.

Lemma wins_min k ns p a :
  wins k ns p a -> forall x, k <= x < 2 * k -> under p x -> vle (val ns a) (val ns x).
Proof.
  induction 1 as [p Hp|p a b ca cb Hp Hc H1 IH1 H2 IH2 Hn Hv]; intros x Hx Hu.
  - apply under_strict in Hu as [->|Hu]; [apply vle_refl | lia].
  - apply under_inv in Hu as [->|Hu]; [lia|].
    destruct Hc as [[-> ->]|[-> ->]]; destruct Hu as [Hu|Hu];
      try (apply IH1; assumption); (eapply vle_trans; [exact Hv | apply IH2; assumption]).
Qed.

Lemma wins_sub k ns : forall p q, under p q -> forall a, 1 <= p -> wins k ns p a -> under q a -> wins k ns q a.
Proof.
  induction 1 as [p|p q Hu IH|p q Hu IH]; intros a Hp Hw Ha; [exact Hw| |].
  - pose proof (under_trans _ _ _ Hu Ha) as Ha2.
    inversion Hw as [p' Hk|p' a' b ca cb Hpk Hc H1 H2 Hn Hv]; subst.
    + apply under_le in Ha2. lia.
    + apply IH; [lia| |exact Ha]. destruct Hc as [[-> ->]|[-> ->]]; [exact H1|].
      exfalso. apply (under_disjoint p a); [lia|exact Ha2|]. apply (wins_under _ _ _ _ H1).
  - pose proof (under_trans _ _ _ Hu Ha) as Ha2.
    inversion Hw as [p' Hk|p' a' b ca cb Hpk Hc H1 H2 Hn Hv]; subst.
    + apply under_le in Ha2. lia.
    + apply IH; [lia| |exact Ha]. destruct Hc as [[-> ->]|[-> ->]]; [|exact H1].
      exfalso. apply (under_disjoint p a); [lia| |exact Ha2]. apply (wins_under _ _ _ _ H1).
Qed.

(* ---- playGame ---- *)
Lemma play_game_ok k : forall f ns pos w ns',
  1 <= pos -> k <= pos + f -> length ns = 2 * k -> pos < 2 * k ->
  play_game lcmp wlen f k ns pos = (w, ns') ->
  wins k ns' pos w /\ length ns' = length ns
  /\ (forall q, ~ under pos q -> nth q ns' dnode = nth q ns dnode)
  /\ (forall q, k <= q -> nth q ns' dnode = nth q ns dnode).
Proof.
  induction f as [|f IH]; intros ns pos w ns' Hp Hf Hlen Hlt H; cbn [play_game] in H.
  - inversion H; subst. split; [apply w_leaf; lia|]. auto.
  - destruct (k <=? pos) eqn:E.
    + apply Nat.leb_le in E. inversion H; subst. split; [apply w_leaf; exact E|]. auto.
    + apply Nat.leb_gt in E.
      destruct (play_game lcmp wlen f k ns (2 * pos)) as [l n1] eqn:E1.
      destruct (play_game lcmp wlen f k n1 (2 * pos + 1)) as [r n2] eqn:E2.
      destruct (IH ns (2 * pos) l n1 ltac:(lia) ltac:(lia) Hlen ltac:(lia) E1) as [W1 [L1 [F1 K1]]].
      destruct (IH n1 (2 * pos + 1) r n2 ltac:(lia) ltac:(lia) ltac:(lia) ltac:(lia) E2) as [W2 [L2 [F2 K2]]].
      assert (W1' : wins k n2 (2 * pos) l).
      { eapply wins_frame; [exact W1|]. intros q Hq. apply F2. intros Hq2. eapply under_disjoint; eauto. }
      pose proof (wins_under _ _ _ _ W1') as [U1 Kl]. pose proof (wins_under _ _ _ _ W2) as [U2 Kr].
      set (lv := nval (nth l n2 dnode)) in *. set (rv := nval (nth r n2 dnode)) in *.
      assert (Hres : forall loser winner cw cl,
                 (cw = 2 * pos /\ cl = 2 * pos + 1 \/ cw = 2 * pos + 1 /\ cl = 2 * pos) ->
                 wins k n2 cw winner -> wins k n2 cl loser -> vle (val n2 winner) (val n2 loser) ->
                 let n3 := upd pos (MkNode (Z.of_nat loser) (nval (nth loser n2 dnode))) n2 in
                 wins k n3 pos winner /\ length n3 = length ns
                 /\ (forall q, ~ under pos q -> nth q n3 dnode = nth q ns dnode)
                 /\ (forall q, k <= q -> nth q n3 dnode = nth q ns dnode)).
      { intros loser winner cw cl Hc Hw Hlo Hv n3.
        pose proof (wins_under _ _ _ _ Hw) as [Uw Kw]. pose proof (wins_under _ _ _ _ Hlo) as [Ul Klo].
        assert (Hne : forall q c, (c = 2 * pos \/ c = 2 * pos + 1) -> under c q -> nth q n3 dnode = nth q n2 dnode).
        { intros q c Hcc Hq. unfold n3. apply nth_upd_neq. apply under_le in Hq. lia. }
        split; [|split; [|split]].
        - eapply w_node with (ca := cw) (cb := cl) (b := loser); [lia | exact Hc | | | |].
          + eapply wins_frame; [exact Hw|]. intros q Hq. eapply Hne; [|exact Hq]. lia.
          + eapply wins_frame; [exact Hlo|]. intros q Hq. eapply Hne; [|exact Hq]. lia.
          + unfold n3. rewrite nth_upd_eq by lia. f_equal. unfold val. rewrite nth_upd_neq by lia. reflexivity.
          + unfold val, n3. rewrite !nth_upd_neq by lia. exact Hv.
        - unfold n3. rewrite length_upd. lia.
        - intros q Hq. unfold n3. rewrite nth_upd_neq by (intros ->; apply Hq; apply u_refl).
          rewrite F2 by (intros Hq2; apply Hq; apply u_r; exact Hq2).
          apply F1. intros Hq2; apply Hq; apply u_l; exact Hq2.
        - intros q Hq. unfold n3. rewrite nth_upd_neq by lia. rewrite K2 by exact Hq. apply K1. exact Hq. }
      destruct (vless lv rv) eqn:EV; injection H as <- <-.
      * apply (Hres r l (2 * pos) (2 * pos + 1)); [left; auto | exact W1' | exact W2|]. apply vless_true_vle. exact EV.
      * apply (Hres l r (2 * pos + 1) (2 * pos)); [right; auto | exact W2 | exact W1'|]. apply vless_false_vle. exact EV.
Qed.

End LT.


(* ======== part LT3 ======== *)

Section LT.
Context {L C W : Type} (lcmp : L -> L -> comparison) (Hl : OrdSpec lcmp) (wlen : W -> N).
Notation resp := (@resp L C W).
Notation node := (@node L C W).
Notation dnode := (@dnode L C W).
Notation vless := (@Proxy_Model.vless L C W lcmp wlen).
Notation vle := (@vle L C W lcmp wlen).
Notation wins := (@wins L C W lcmp wlen).
Notation val := (@val L C W).

Lemma replay_ok k ns0 ns1 Wn :
  1 <= k -> length ns1 = 2 * k -> k <= Wn < 2 * k ->
  wins k ns0 1 Wn ->
  (forall q, q <> Wn -> nth q ns1 dnode = nth q ns0 dnode) ->
  forall f ns c q wv,
    under q Wn -> 1 <= q -> q < 2 * k -> wins k ns q c -> length ns = 2 * k ->
    (forall p, ~ under q p -> nth p ns dnode = nth p ns1 dnode) ->
    (forall p, k <= p -> nth p ns dnode = nth p ns1 dnode) ->
    wv = val ns c ->
    Nat.div2 q < f ->
    exists c', let ns' := replay lcmp wlen f ns c wv (Nat.div2 q) in
      wins k ns' 1 c' /\ nth 0 ns' dnode = MkNode (Z.of_nat c') (val ns' c')
      /\ length ns' = 2 * k /\ (forall p, k <= p -> nth p ns' dnode = nth p ns1 dnode).
Proof.
  intros Hk Hlen1 HW Hw0 H01.
  induction f as [|f IH]; intros ns c q wv Hu Hq Hq2 Hw Hlen Hout Hleaf Hwv Hf; [lia|].
  pose proof (wins_under _ _ _ _ _ _ Hw) as [Uc Kc]. subst wv.
  cbn [replay]. destruct (Nat.div2 q =? 0) eqn:E0.
  - apply Nat.eqb_eq in E0. assert (q = 1) as -> by (destruct q as [|[|q]]; cbn in E0; lia).
    exists c. cbv zeta. split; [|split; [|split]].
    + eapply wins_frame; [exact Hw|]. intros p Hp. apply nth_upd_neq. apply under_le in Hp. lia.
    + rewrite nth_upd_eq by lia. f_equal. unfold val. rewrite nth_upd_neq by lia. reflexivity.
    + rewrite length_upd. exact Hlen.
    + intros p Hp. rewrite nth_upd_neq by lia. apply Hleaf. exact Hp.
  - apply Nat.eqb_neq in E0. set (n := Nat.div2 q) in *.
    assert (Hq2' : 2 <= q) by (destruct q as [|[|q]]; cbn in n; lia).
    pose proof (div2_child q Hq2') as Hch. fold n in Hch.
    assert (Hnk : n < k) by lia.
    assert (Hn1 : 1 <= n) by lia.
    assert (Hd2 : Nat.div2 n < f) by (pose proof (Nat.lt_div2 n ltac:(lia)); lia).
    clearbody n.
    assert (Unq : under n q).
    { destruct Hch as [E|E]; [apply u_l|apply u_r]; rewrite <- E; apply u_refl. }
    assert (Hwn : wins k ns0 n Wn).
    { apply (wins_sub lcmp wlen k ns0 1 n); [apply under_one; lia | lia | exact Hw0 | exact (under_trans _ _ _ Unq Hu)]. }
    inversion Hwn as [p' Hk'|p' a' l ca cb Hpk Hc H1 H2 Hnth Hv]; subst; [lia|].
    pose proof (wins_under _ _ _ _ _ _ H1) as [U1 _]. pose proof (wins_under _ _ _ _ _ _ H2) as [U2 Kl].
    assert (Eca : ca = q).
    { destruct Hc as [[-> ->]|[-> ->]]; destruct Hch as [E|E]; try (symmetry; exact E); exfalso.
      - apply (under_disjoint n Wn); [lia|exact U1|]. rewrite <- E. exact Hu.
      - apply (under_disjoint n Wn); [lia| |exact U1]. rewrite <- E. exact Hu. }
    subst ca.
    assert (Dis : forall p, under q p -> under cb p -> False).
    { intros p P1 P2. destruct Hc as [[E1 E2]|[E1 E2]]; rewrite E1 in P1; rewrite E2 in P2;
        [apply (under_disjoint n p); [lia|exact P1|exact P2] | apply (under_disjoint n p); [lia|exact P2|exact P1]]. }
    assert (Hcb : 2 * n <= cb) by (destruct Hc as [[_ ->]|[_ ->]]; lia).
    assert (Fn : nth n ns dnode = nth n ns0 dnode).
    { rewrite Hout by (intros Hx; apply under_le in Hx; lia). apply H01. lia. }
    assert (Fs : forall p, under cb p -> nth p ns dnode = nth p ns0 dnode).
    { intros p Hp. rewrite Hout by (intros Hx; exact (Dis p Hx Hp)). apply H01. intros ->. exact (Dis Wn Hu Hp). }
    assert (Wl : wins k ns cb l) by (eapply wins_frame; [exact H2 | exact Fs]).
    assert (Vl : val ns l = val ns0 l) by (unfold val; rewrite (Fs l U2); reflexivity).
    rewrite Fn, Hnth. cbn [nval nidx]. rewrite Nat2Z.id.
    assert (Hc' : cb = 2 * n /\ q = 2 * n + 1 \/ cb = 2 * n + 1 /\ q = 2 * n) by (destruct Hc as [[-> ->]|[-> ->]]; auto).
    destruct (vless (val ns0 l) (val ns c)) eqn:EV.
    + set (ns2 := upd n (MkNode (Z.of_nat c) (val ns c)) ns).
      assert (N2 : forall p, p <> n -> nth p ns2 dnode = nth p ns dnode) by (intros p Hp; apply nth_upd_neq; lia).
      apply (IH ns2 l n (val ns0 l)); try lia.
      * exact (under_trans _ _ _ Unq Hu).
      * apply w_node with (b := c) (ca := cb) (cb := q); [lia | exact Hc' | | | |].
        -- eapply wins_frame; [exact Wl|]. intros p Hp. apply N2. apply under_le in Hp. lia.
        -- eapply wins_frame; [exact Hw|]. intros p Hp. apply N2. apply under_le in Hp. lia.
        -- unfold ns2. rewrite nth_upd_eq by lia. f_equal. unfold val. rewrite nth_upd_neq by lia. reflexivity.
        -- unfold val. rewrite !N2 by lia. fold (val ns l). fold (val ns c). rewrite Vl.
           apply (vless_true_vle lcmp Hl wlen). exact EV.
      * unfold ns2. rewrite length_upd. exact Hlen.
      * intros p Hp. rewrite N2 by (intros ->; apply Hp; apply u_refl). apply Hout.
        intros Hx. apply Hp. exact (under_trans _ _ _ Unq Hx).
      * intros p Hp. rewrite N2 by lia. apply Hleaf. exact Hp.
      * unfold val. rewrite N2 by lia. symmetry. exact Vl.
    + apply (IH ns c n (val ns c)); try lia; try assumption; try reflexivity.
      * exact (under_trans _ _ _ Unq Hu).
      * apply w_node with (b := l) (ca := q) (cb := cb); [lia | exact Hc | exact Hw | exact Wl | |].
        -- rewrite Fn, Hnth, Vl. reflexivity.
        -- rewrite Vl. apply (vless_false_vle lcmp wlen). exact EV.
      * intros p Hp. apply Hout. intros Hx. apply Hp. exact (under_trans _ _ _ Unq Hx).
Qed.

End LT.


(* ======== part LT4 ======== *)

Lemma upd_map_seq {A} (f : nat -> A) v : forall k s i, i < k ->
  upd i v (map f (seq s k)) = map (fun j => if j =? s + i then v else f j) (seq s k).
Proof.
  induction k as [|k IH]; intros s i Hi; [lia|]. cbn [seq map]. destruct i as [|i]; cbn [upd].
  - rewrite Nat.add_0_r, Nat.eqb_refl. f_equal. apply map_ext_in. intros j Hj. apply in_seq in Hj.
    destruct (j =? s) eqn:E; [apply Nat.eqb_eq in E; lia | reflexivity].
  - destruct (s =? s + S i) eqn:E; [apply Nat.eqb_eq in E; lia|]. f_equal.
    rewrite IH by lia. apply map_ext. intros j. replace (S s + i) with (s + S i) by lia. reflexivity.
Qed.

Lemma nth_error_map_seq {A} (f : nat -> A) k i : i < k -> nth_error (map f (seq 0 k)) i = Some (f i).
Proof.
  intros Hi. rewrite (nth_error_nth' _ (f 0)) by (rewrite map_length, seq_length; exact Hi).
  f_equal. rewrite map_nth. rewrite seq_nth by exact Hi. reflexivity.
Qed.

Lemma map_nth_seq {A} (d : A) (l : list A) : map (fun j => nth j l d) (seq 0 (length l)) = l.
Proof.
  apply (nth_ext _ _ d d); [rewrite map_length, seq_length; reflexivity|].
  intros n Hn. rewrite map_length, seq_length in Hn.
  rewrite (nth_indep _ d ((fun j => nth j l d) 0)) by (rewrite map_length, seq_length; exact Hn).
  rewrite (map_nth (fun j => nth j l d) (seq 0 (length l)) 0 n). rewrite seq_nth by exact Hn. reflexivity.
Qed.

Section LT.
Context {L C W : Type} (lcmp : L -> L -> comparison) (Hl : OrdSpec lcmp) (wlen : W -> N).
Notation resp := (@resp L C W).
Notation node := (@node L C W).
Notation tree := (@tree L C W).
Notation dnode := (@dnode L C W).
Notation rless := (@Proxy_Model.rless L C W lcmp wlen).
Notation vless := (@Proxy_Model.vless L C W lcmp wlen).
Notation vle := (@vle L C W lcmp wlen).
Notation wins := (@wins L C W lcmp wlen).
Notation val := (@val L C W).
Notation min_run := (@min_run L C W lcmp wlen).

Lemma wins_lt k ns p a : wins k ns p a -> p < 2 * k -> a < 2 * k.
Proof.
  induction 1 as [p Hp'|p a b ca cb Hpk Hc _ IH1 _ _ _ _]; intros Hp; [exact Hp|].
  apply IH1. destruct Hc as [[-> _]|[-> _]]; lia.
Qed.

(* the stream leaf j still has to deliver: its current value, then the rest of its sequence *)
Definition cur (k : nat) (ns : list node) (sq : list (list resp)) (j : nat) : list resp :=
  match val ns (k + j) with Some x => x :: nth j sq [] | None => [] end.
Definition absS (k : nat) (t : tree) : list (list resp) := map (cur k (nodes t) (seqs t)) (seq 0 k).
(* the same once the winner's current value has been emitted *)
Definition remS (k : nat) (t : tree) (Wn : nat) : list (list resp) :=
  map (fun j => if j =? 0 + (Wn - k) then nth (Wn - k) (seqs t) [] else cur k (nodes t) (seqs t) j) (seq 0 k).

Definition flags (k : nat) (ns : list node) : Prop :=
  forall j, j < k -> (nidx (nth (k + j) ns dnode) = (-1)%Z <-> nval (nth (k + j) ns dnode) = None).

Definition Inv (k : nat) (t : tree) (Wn : nat) : Prop :=
  length (nodes t) = 2 * k /\ length (seqs t) = k /\ 1 <= k /\ flags k (nodes t)
  /\ k <= Wn < 2 * k /\ nth 0 (nodes t) dnode = MkNode (Z.of_nat Wn) (val (nodes t) Wn)
  /\ wins k (nodes t) 1 Wn.

Lemma winner_live_val k t Wn : Inv k t Wn -> winner_live (nodes t) = true <-> exists x, val (nodes t) Wn = Some x.
Proof.
  intros (Hn & Hs & Hk & Hfl & HW & H0 & Hw). unfold winner_live. rewrite H0. cbn [nidx]. rewrite Nat2Z.id.
  specialize (Hfl (Wn - k) ltac:(lia)). replace (k + (Wn - k)) with Wn in Hfl by lia.
  unfold val. destruct (nval (nth Wn (nodes t) dnode)) as [x|] eqn:E.
  - split; [intros _; exists x; reflexivity|]. intros _. apply negb_true_iff. apply Z.eqb_neq. intros Hx.
    apply Hfl in Hx. discriminate.
  - split; [|intros [x Hx]; discriminate]. intros Hx. apply negb_true_iff in Hx. apply Z.eqb_neq in Hx.
    exfalso. apply Hx. apply Hfl. reflexivity.
Qed.

(* one Next() on an initialised tree whose winner is live *)
Lemma next_ok k t Wn x :
  Inv k t Wn -> val (nodes t) Wn = Some x ->
  exists t' Wn', lt_next lcmp wlen t = (winner_live (nodes t'), t')
    /\ Inv k t' Wn' /\ absS k t' = remS k t Wn.
Proof.
  intros HI Hx. pose proof HI as (Hn & Hs & Hk & Hfl & HW & H0 & Hw).
  assert (Hlive : winner_live (nodes t) = true) by (apply (winner_live_val k t Wn HI); exists x; exact Hx).
  unfold lt_next. rewrite Hs.
  destruct (nodes t) as [|n0 rest] eqn:En; [cbn in Hn; lia|].
  assert (En0 : n0 = MkNode (Z.of_nat Wn) (val (n0 :: rest) Wn)) by (cbn in H0; exact H0).
  assert ((nidx n0 =? -1)%Z = false) as -> by (rewrite En0; cbn; apply Z.eqb_neq; lia).
  rewrite Hlive. cbn [negb]. rewrite <- En in *. clear En.
  assert (Ew : Z.to_nat (nidx n0) = Wn) by (rewrite En0; cbn; apply Nat2Z.id). rewrite Ew.
  set (t1 := move_next k t Wn).
  assert (H1 : length (nodes t1) = 2 * k /\ length (seqs t1) = k
               /\ (forall q, q <> Wn -> nth q (nodes t1) dnode = nth q (nodes t) dnode)
               /\ val (nodes t1) Wn = hd_error (nth (Wn - k) (seqs t) [])
               /\ (nidx (nth Wn (nodes t1) dnode) = (-1)%Z <-> val (nodes t1) Wn = None)
               /\ (forall j, nth j (seqs t1) [] = if j =? Wn - k then tl (nth (Wn - k) (seqs t) []) else nth j (seqs t) [])).
  { unfold t1, move_next. destruct (nth (Wn - k) (seqs t) []) as [|y r] eqn:Es; cbn [nodes seqs hd_error tl].
    - rewrite length_upd. split; [exact Hn|]. split; [exact Hs|]. split; [intros q Hq; apply nth_upd_neq; lia|].
      unfold val. rewrite nth_upd_eq by lia. cbn. split; [reflexivity|]. split; [tauto|].
      intros j. destruct (j =? Wn - k) eqn:E; [apply Nat.eqb_eq in E; subst; exact Es | reflexivity].
    - rewrite !length_upd. split; [exact Hn|]. split; [exact Hs|]. split; [intros q Hq; apply nth_upd_neq; lia|].
      unfold val. rewrite nth_upd_eq by lia. cbn. split; [reflexivity|]. split.
      + split; [|discriminate]. intros Hm. specialize (Hfl (Wn - k) ltac:(lia)). replace (k + (Wn - k)) with Wn in Hfl by lia.
        apply Hfl in Hm. unfold val in Hx. congruence.
      + intros j. destruct (j =? Wn - k) eqn:E.
        * apply Nat.eqb_eq in E. subst. apply nth_upd_eq. lia.
        * apply Nat.eqb_neq in E. apply nth_upd_neq. lia. }
  destruct H1 as (Hn1 & Hs1 & Hne1 & Hv1 & Hf1 & Hq1).
  destruct (replay_ok lcmp Hl wlen k (nodes t) (nodes t1) Wn Hk Hn1 HW Hw Hne1
              (length (nodes t1)) (nodes t1) Wn Wn (val (nodes t1) Wn)) as [Wn' HR]; try lia; try reflexivity.
  - apply u_refl.
  - apply w_leaf. lia.
  - rewrite Hn1. pose proof (Nat.lt_div2 Wn ltac:(lia)). lia.
  - cbv zeta in HR. fold (replay_games lcmp wlen (nodes t1) Wn) in HR.
    unfold replay_games at 1. unfold val in HR at 1.
    set (ns' := replay lcmp wlen (length (nodes t1)) (nodes t1) Wn (nval (nth Wn (nodes t1) dnode)) (Nat.div2 Wn)) in *.
    destruct HR as (Hw' & H0' & Hn' & Hleaf').
    exists (MkTree ns' (seqs t1)), Wn'. cbn [nodes seqs]. split; [reflexivity|].
    pose proof (wins_under _ _ _ _ _ _ Hw') as [_ Kw'].
    assert (HW' : k <= Wn' < 2 * k).
    { split; [exact Kw'|]. apply (wins_lt k ns' 1 Wn' Hw'). lia. }
    split.
    + split; [exact Hn'|]. split; [exact Hs1|]. split; [exact Hk|]. split; [|split; [exact HW'|split; [exact H0'|exact Hw']]].
      intros j Hj. rewrite Hleaf' by lia. destruct (Nat.eq_dec (k + j) Wn) as [E|E].
      * rewrite E. exact Hf1.
      * rewrite Hne1 by exact E. apply Hfl. exact Hj.
    + unfold absS, remS. cbn [nodes seqs]. apply map_ext_in. intros j Hj. apply in_seq in Hj. cbn [Nat.add].
      unfold cur, val. rewrite Hleaf' by lia. rewrite Hq1.
      destruct (j =? Wn - k) eqn:E.
      * apply Nat.eqb_eq in E. subst j. replace (k + (Wn - k)) with Wn by lia. fold (val (nodes t1) Wn). rewrite Hv1.
        destruct (nth (Wn - k) (seqs t) []); reflexivity.
      * apply Nat.eqb_neq in E. rewrite Hne1 by lia. reflexivity.
Qed.

End LT.


(* ======== part LT5 ======== *)

Section LT.
Context {L C W : Type} (lcmp : L -> L -> comparison) (Hl : OrdSpec lcmp) (wlen : W -> N).
Notation resp := (@resp L C W).
Notation node := (@node L C W).
Notation tree := (@tree L C W).
Notation dnode := (@dnode L C W).
Notation rless := (@Proxy_Model.rless L C W lcmp wlen).
Notation vle := (@vle L C W lcmp wlen).
Notation wins := (@wins L C W lcmp wlen).
Notation val := (@val L C W).
Notation min_run := (@min_run L C W lcmp wlen).
Notation Inv := (@Inv L C W lcmp wlen).
Notation absS := (@absS L C W).
Notation remS := (@remS L C W).
Notation cur := (@cur L C W).

Lemma concat_upd_len (ss : list (list resp)) i x rest :
  nth_error ss i = Some (x :: rest) -> length (concat ss) = S (length (concat (upd i rest ss))).
Proof. intros H. apply (concat_upd_perm ss i x rest) in H. apply Permutation_length in H. exact H. Qed.

(* what happens after a Next() that left the tree in a state satisfying Inv *)
Lemma after_next k f t' Wn' :
  (forall t Wn x, Inv k t Wn -> val (nodes t) Wn = Some x ->
      length (concat (remS k t Wn)) < f -> min_run (remS k t Wn) (lt_drain lcmp wlen f t)) ->
  Inv k t' Wn' -> length (concat (absS k t')) <= f ->
  min_run (absS k t')
    (if winner_live (nodes t') then match nval (nth 0 (nodes t') dnode) with Some x => x :: lt_drain lcmp wlen f t' | None => [] end else []).
Proof.
  intros IHd HI' Hlen. pose proof HI' as (Hn & Hs & Hk & Hfl & HW & H0 & Hw).
  destruct (winner_live (nodes t')) eqn:Elive.
  - apply (winner_live_val lcmp wlen k t' Wn' HI') in Elive as [x' Hx'].
    rewrite H0. cbn [nval]. rewrite Hx'.
    assert (Hnth : nth_error (absS k t') (Wn' - k) = Some (x' :: nth (Wn' - k) (seqs t') [])).
    { unfold absS. rewrite nth_error_map_seq by lia. unfold cur. replace (k + (Wn' - k)) with Wn' by lia. rewrite Hx'. reflexivity. }
    apply mr_step with (i := Wn' - k) (rest := nth (Wn' - k) (seqs t') []); [exact Hnth| |].
    + intros j y r Hj.
      assert (Hjk : j < k).
      { assert (nth_error (absS k t') j <> None) as Hne by (rewrite Hj; discriminate).
        apply nth_error_Some in Hne. unfold absS in Hne. rewrite map_length, seq_length in Hne. exact Hne. }
      unfold absS in Hj. rewrite nth_error_map_seq in Hj by exact Hjk. unfold cur in Hj.
      destruct (val (nodes t') (k + j)) as [y'|] eqn:Ey; [|discriminate]. injection Hj as <- _.
      pose proof (wins_min lcmp Hl wlen k (nodes t') 1 Wn' Hw (k + j) ltac:(lia) (under_one (k + j) ltac:(lia))) as Hm.
      rewrite Hx', Ey in Hm. exact Hm.
    + assert (upd (Wn' - k) (nth (Wn' - k) (seqs t') []) (absS k t') = remS k t' Wn') as ->.
      { unfold absS, remS. rewrite upd_map_seq by lia. reflexivity. }
      apply (IHd t' Wn' x' HI' Hx').
      assert (upd (Wn' - k) (nth (Wn' - k) (seqs t') []) (absS k t') = remS k t' Wn') as <-.
      { unfold absS, remS. rewrite upd_map_seq by lia. reflexivity. }
      pose proof (concat_upd_len _ _ _ _ Hnth). lia.
  - apply mr_done. intros s Hin. unfold absS in Hin. apply in_map_iff in Hin as [j [Ej Hj]]. apply in_seq in Hj.
    subst s. unfold cur.
    assert (val (nodes t') Wn' = None) as HN.
    { destruct (val (nodes t') Wn') eqn:E; [|reflexivity].
      assert (winner_live (nodes t') = true) by (apply (winner_live_val lcmp wlen k t' Wn' HI'); eexists; exact E). congruence. }
    pose proof (wins_min lcmp Hl wlen k (nodes t') 1 Wn' Hw (k + j) ltac:(lia) (under_one (k + j) ltac:(lia))) as Hm.
    rewrite HN in Hm. destruct (val (nodes t') (k + j)); [cbn in Hm; contradiction | reflexivity].
Qed.

Lemma drain_ok k : forall f t Wn x,
  Inv k t Wn -> val (nodes t) Wn = Some x -> length (concat (remS k t Wn)) < f ->
  min_run (remS k t Wn) (lt_drain lcmp wlen f t).
Proof.
  induction f as [|f IH]; intros t Wn x HI Hx Hlen; [lia|].
  cbn [lt_drain]. destruct (next_ok lcmp Hl wlen k t Wn x HI Hx) as (t' & Wn' & En & HI' & Habs).
  rewrite En. rewrite <- Habs. apply (after_next k f t' Wn' IH HI'). rewrite Habs. lia.
Qed.

(* ---- New ---- *)
Definition loaded (k : nat) (ss : list (list resp)) (t : tree) (m : nat) : Prop :=
  length (nodes t) = 2 * k /\ length (seqs t) = k
  /\ forall j, j < k ->
       (j < m -> nth (j + k) (nodes t) dnode = match nth j ss [] with x :: _ => MkNode 0 (Some x) | [] => MkNode (-1) None end
                 /\ nth j (seqs t) [] = tl (nth j ss []))
       /\ (m <= j -> nth (j + k) (nodes t) dnode = dnode /\ nth j (seqs t) [] = nth j ss []).

Lemma load_ok k (ss : list (list resp)) : length ss = k -> forall m, m <= k ->
  loaded k ss (fold_left (fun t i => move_next k t (i + k)) (seq 0 m) (MkTree (repeat dnode (2 * k)) ss)) m.
Proof.
  intros Hlen. induction m as [|m IH]; intros Hm.
  - cbn [seq fold_left]. split; [cbn; apply repeat_length|]. split; [exact Hlen|].
    intros j Hj. split; [lia|]. intros _. cbn [nodes seqs]. split; [apply nth_repeat | reflexivity].
  - rewrite seq_S, fold_left_app. cbn [fold_left Nat.add].
    set (tm := fold_left (fun t i => move_next k t (i + k)) (seq 0 m) (MkTree (repeat dnode (2 * k)) ss)) in *.
    destruct (IH ltac:(lia)) as (Hn & Hs & Hj). unfold move_next. rewrite Nat.add_sub.
    destruct (Hj m ltac:(lia)) as [_ Hm2]. destruct (Hm2 ltac:(lia)) as [Hnode Hseq]. rewrite Hseq.
    unfold loaded. destruct (nth m ss []) as [|x r] eqn:Es; cbn [nodes seqs].
    + split; [rewrite length_upd; exact Hn|]. split; [exact Hs|]. intros j Hjk. split.
      * intros Hjm. destruct (Nat.eq_dec j m) as [->|Hne].
        -- rewrite nth_upd_eq by lia. rewrite Es, Hseq. split; reflexivity.
        -- rewrite nth_upd_neq by lia. apply (Hj j Hjk). lia.
      * intros Hjm. rewrite nth_upd_neq by lia. apply (Hj j Hjk). lia.
    + split; [rewrite length_upd; exact Hn|]. split; [rewrite length_upd; exact Hs|]. intros j Hjk. split.
      * intros Hjm. destruct (Nat.eq_dec j m) as [->|Hne].
        -- rewrite !nth_upd_eq by lia. rewrite Es, Hnode. split; reflexivity.
        -- rewrite !nth_upd_neq by lia. apply (Hj j Hjk). lia.
      * intros Hjm. rewrite !nth_upd_neq by lia. apply (Hj j Hjk). lia.
Qed.

Theorem lt_merge_min_run (ss : list (list resp)) : min_run ss (lt_merge lcmp wlen ss).
Proof.
  unfold lt_merge, lt_new. remember (length ss) as k0 eqn:Ek.
  pose proof (load_ok k0 ss (eq_sym Ek) k0 (le_n k0)) as (Hn & Hs & Hj).
  set (t1 := fold_left (fun t i => move_next k0 t (i + k0)) (seq 0 k0) (MkTree (repeat dnode (2 * k0)) ss)) in *.
  destruct k0 as [|k'].
  - destruct ss; [|discriminate]. cbn. apply mr_done. intros s [].
  - set (k := S k') in *. set (t0 := MkTree (upd 0 (MkNode (-1) None) (nodes t1)) (seqs t1)).
    cbn [lt_drain]. unfold lt_next. unfold t0. cbn [nodes seqs]. rewrite Hs.
    assert (Hex : exists m0 rest, nodes t1 = m0 :: rest).
    { destruct (nodes t1) eqn:E; [cbn in Hn; lia | eauto]. }
    destruct Hex as (m0 & rest & En1). rewrite En1. cbn [upd nidx]. cbn [Z.eqb Pos.eqb].
    change (MkNode (-1) None :: rest) with (upd 0 (MkNode (-1) None) (m0 :: rest)). rewrite <- En1.
    set (ns0 := upd 0 (MkNode (-1) None) (nodes t1)).
    assert (Hn0 : length ns0 = 2 * k) by (unfold ns0; rewrite length_upd; exact Hn).
    destruct (play_game lcmp wlen (2 * k) k ns0 1) as [w ns] eqn:Ep.
    destruct (play_game_ok lcmp Hl wlen k (2 * k) ns0 1 w ns ltac:(lia) ltac:(lia) Hn0 ltac:(lia) Ep) as (Hw & Hlen & _ & Hleaf).
    set (ns' := upd 0 (MkNode (Z.of_nat w) (nval (nth w ns dnode))) ns).
    pose proof (wins_under _ _ _ _ _ _ Hw) as [_ Kw]. pose proof (wins_lt lcmp wlen k ns 1 w Hw ltac:(lia)) as Lw.
    assert (Hleaf' : forall j, j < k -> nth (k + j) ns' dnode = nth (j + k) (nodes t1) dnode).
    { intros j Hjk. unfold ns'. rewrite nth_upd_neq by lia. rewrite Hleaf by lia. unfold ns0. rewrite nth_upd_neq by lia.
      f_equal. lia. }
    assert (HI : Inv k (MkTree ns' (seqs t1)) w).
    { unfold Inv. cbn [nodes seqs]. split; [unfold ns'; rewrite length_upd; lia|]. split; [exact Hs|]. split; [lia|]. split; [|split; [lia|split]].
      - intros j Hjk. rewrite Hleaf' by exact Hjk. destruct (Hj j Hjk) as [Hload _]. destruct (Hload Hjk) as [Hnode _].
        rewrite Hnode. destruct (nth j ss []); cbn; split; congruence.
      - unfold ns'. rewrite nth_upd_eq by lia. f_equal. unfold val. rewrite nth_upd_neq by lia. reflexivity.
      - eapply wins_frame; [exact Hw|]. intros q Hq. unfold ns'. apply nth_upd_neq. apply under_le in Hq. lia. }
    assert (Habs : absS k (MkTree ns' (seqs t1)) = ss).
    { unfold absS. cbn [nodes seqs]. transitivity (map (fun j => nth j ss []) (seq 0 (length ss))); [|apply map_nth_seq]. rewrite <- Ek.
      apply map_ext_in. intros j Hjs. apply in_seq in Hjs. unfold cur, val. rewrite Hleaf' by lia.
      destruct (Hj j ltac:(lia)) as [Hload _]. destruct (Hload ltac:(lia)) as [Hnode Hseq]. rewrite Hnode, Hseq.
      destruct (nth j ss []); reflexivity. }
    pose proof (after_next k (length (concat ss)) (MkTree ns' (seqs t1)) w (drain_ok k (length (concat ss))) HI) as Hfin.
    rewrite Habs in Hfin. cbn [nodes] in Hfin. apply Hfin. lia.
Qed.

End LT.
