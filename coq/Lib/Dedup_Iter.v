(* Shared executable model of the penalty deduplication iterator of
   pkg/dedup/iter.go (used by C01, C02, C40). Definitions only.

   Iterators are modelled as objects (a state type with the operations of
   chunkenc.Iterator that the dedup code uses). [leaf_obj] is a chunk sample
   iterator (semantics of tsdb/chunkenc xorIterator on a list of samples),
   [node_obj] is dedupSeriesIterator over an arbitrary iterator object [a] and a
   leaf [b], [tower] is the left fold of dedupSeries.Iterator over the replicas.

   Conventions / abstractions (also listed in props/*.json):
   - only float samples (ValFloat); ValNone is [valid = false];
   - the result of the last Next/Seek of a child, which the Go code caches in
     aval/bval, is kept inside the child's state and read with [valid];
   - lastT's sentinel math.MinInt64 is [None] (then the Go code's
     Seek(MinInt64+1+0) on a positioned child is a no-op and is not issued);
   - int64 arithmetic is exact (Z), values are exact (Z; the harness uses
     integer-valued floats);
   - a node's Seek is the FIXED one (C01-fix.patch): when nothing has been
     returned yet it first calls Next. *)
From Coq Require Import ZArith List Bool Lia.
Import ListNotations.
Open Scope Z_scope.

Definition sample := (Z * Z)%type.
Definition ts (s : sample) : Z := fst s.

(* advance to the first sample with timestamp >= t (no-op if the head has it) *)
Fixpoint drop_lt (t : Z) (l : list sample) : list sample :=
  match l with
  | [] => []
  | s :: r => if ts s <? t then drop_lt t r else l
  end.

Definition nonempty {A} (l : list A) : bool := match l with [] => false | _ => true end.

Record iobj := {
  X : Type;
  valid : X -> bool;       (* last Next/Seek did not return ValNone *)
  next : X -> X;
  seek : Z -> X -> X;
  atT : X -> Z;            (* AtT() *)
  at_ : X -> sample;       (* At() *)
  adjust : Z -> X -> X;    (* adjustAtValue(lastFloatValue) *)
  size : X -> nat;         (* number of samples still held by the leaves; loop fuel only *)
}.

(* ---------- leaf: xorIterator (+ noop / counterErrAdjust wrapper) ---------- *)
Record leaf := mkLeaf { l_started : bool; l_list : list sample; l_adj : Z }.

Definition leaf_valid (l : leaf) : bool := l_started l && nonempty (l_list l).
Definition leaf_next (l : leaf) : leaf :=
  if l_started l then mkLeaf true (tl (l_list l)) (l_adj l) else mkLeaf true (l_list l) (l_adj l).
Definition leaf_seek (t : Z) (l : leaf) : leaf := mkLeaf true (drop_lt t (l_list l)) (l_adj l).
Definition leaf_atT (l : leaf) : Z := match l_list l with [] => 0 | s :: _ => ts s end.
Definition leaf_at (l : leaf) : sample :=
  match l_list l with [] => (0, 0) | s :: _ => (fst s, snd s + l_adj l) end.
(* counterErrAdjustSeriesIterator.adjustAtValue; the noop wrapper when [counter] is false *)
Definition leaf_adjust (counter : bool) (last : Z) (l : leaf) : leaf :=
  if counter then
    let v := snd (leaf_at l) in
    if last >? v then mkLeaf (l_started l) (l_list l) (l_adj l + (last - v)) else l
  else l.

Definition leaf_obj (counter : bool) : iobj := {|
  X := leaf; valid := leaf_valid; next := leaf_next; seek := leaf_seek;
  atT := leaf_atT; at_ := leaf_at; adjust := leaf_adjust counter;
  size := fun l => length (l_list l) |}.

Definition leaf_init (l : list sample) : leaf := mkLeaf false l 0.

(* ---------- node: dedupSeriesIterator ---------- *)
Record nst := mkNst {
  n_ok : bool;            (* value returned by the node's own last Next/Seek *)
  lastT : option Z;       (* None = math.MinInt64 *)
  lastA : bool;           (* lastIter == a *)
  penA : Z; penB : Z;
  useA : bool }.

Definition nst_init : nst := mkNst false None true 0 0 true.

(* penalty configuration: const initialPenalty and the two penalty formulas
   (arguments: timestamp just picked, lastT); supplied from the source (Gen) *)
Record pcfg := mkCfg { ipen : Z; penfA : Z -> Z -> Z; penfB : Z -> Z -> Z }.

Section Node.
  Variable counter : bool.
  Variable cfg : pcfg.
  Variable A : iobj.

  Definition nstate := (X A * leaf * nst)%type.

  Definition node_valid (x : nstate) : bool := let '(_, _, s) := x in n_ok s.
  Definition node_atT (x : nstate) : Z :=
    let '(a, b, s) := x in if useA s then atT A a else leaf_atT b.
  Definition node_at (x : nstate) : sample :=
    let '(a, b, s) := x in if lastA s then at_ A a else leaf_at b.
  Definition node_adjust (last : Z) (x : nstate) : nstate :=
    let '(a, b, s) := x in
    (if valid A a then adjust A last a else a,
     if leaf_valid b then leaf_adjust counter last b else b, s).

  Definition pen_of (f : Z -> Z -> Z) (lt : option Z) (t : Z) : Z :=
    match lt with Some l => f t l | None => ipen cfg end.

  Definition seek_opt {T} (sk : Z -> T -> T) (lt : option Z) (pen : Z) (x : T) : T :=
    match lt with Some l => sk (l + 1 + pen) x | None => x end.

  Definition node_next (x : nstate) : nstate :=
    let '(a, b, s) := x in
    (* lastFloatVal() *)
    let lastv : option Z :=
      if useA s && valid A a then Some (snd (node_at x))
      else if negb (useA s) && leaf_valid b then Some (snd (node_at x))
      else None in
    let a1 := if valid A a then seek_opt (seek A) (lastT s) (penA s) a else a in
    let b1 := if leaf_valid b then seek_opt leaf_seek (lastT s) (penB s) b else b in
    let s1 :=
      if negb (valid A a1) then
        if leaf_valid b1 then mkNst true (Some (leaf_atT b1)) false (penA s) 0 false
        else mkNst false (lastT s) (lastA s) (penA s) (penB s) false
      else if negb (leaf_valid b1) then
        mkNst true (Some (atT A a1)) true 0 (penB s) true
      else
        let ta := atT A a1 in
        let tb := leaf_atT b1 in
        if ta <=? tb then mkNst true (Some ta) true 0 (pen_of (penfB cfg) (lastT s) ta) true
        else mkNst true (Some tb) false (pen_of (penfA cfg) (lastT s) tb) 0 false in
    (* the deferred adjust on a replica switch *)
    match lastv with
    | Some v => if Bool.eqb (useA s1) (useA s) then (a1, b1, s1) else node_adjust v (a1, b1, s1)
    | None => (a1, b1, s1)
    end.

  Definition set_ok (ok : bool) (s : nst) : nst :=
    mkNst ok (lastT s) (lastA s) (penA s) (penB s) (useA s).

  Fixpoint node_seek_loop (fuel : nat) (t : Z) (x : nstate) : nstate :=
    match fuel with
    | O => x
    | S f =>
      let '(a, b, s) := x in
      let t0 := node_atT x in
      if t0 >=? t then
        if useA s then let a' := seek A t0 a in (a', b, set_ok (valid A a') s)
        else let b' := leaf_seek t0 b in (a, b', set_ok (leaf_valid b') s)
      else
        let x' := node_next x in
        if node_valid x' then node_seek_loop f t x' else x'
    end.

  Definition node_size (x : nstate) : nat :=
    let '(a, b, _) := x in (size A a + length (l_list b))%nat.

  (* Seek with the repair: if nothing was returned yet, take the first sample with Next *)
  Definition node_seek (t : Z) (x : nstate) : nstate :=
    let '(_, _, s) := x in
    match lastT s with
    | None =>
      let x0 := node_next x in
      if node_valid x0 then node_seek_loop (S (node_size x0)) t x0 else x0
    | Some _ => node_seek_loop (S (node_size x)) t x
    end.

  Definition node_obj : iobj := {|
    X := nstate; valid := node_valid; next := node_next; seek := node_seek;
    atT := node_atT; at_ := node_at; adjust := node_adjust; size := node_size |}.

  (* newDedupSeriesIterator(a, b): both children are pre-advanced with Next *)
  Definition node_init (a : X A) (b : list sample) : nstate :=
    (next A a, leaf_next (leaf_init b), nst_init).
End Node.

(* ---------- dedupSeries.Iterator: left fold over the replicas ---------- *)
Record iter := mkIter { io : iobj; ist : X io }.

Definition iter_leaf (counter : bool) (l : list sample) : iter :=
  mkIter (leaf_obj counter) (leaf_init l).
Definition iter_node (counter : bool) (cfg : pcfg) (a : iter) (b : list sample) : iter :=
  mkIter (node_obj counter cfg (io a)) (node_init (io a) (ist a) b).

Definition tower (counter : bool) (cfg : pcfg) (first : list sample) (rest : list (list sample)) : iter :=
  fold_left (iter_node counter cfg) rest (iter_leaf counter first).

(* ---------- readers ---------- *)
Inductive op := ONext | OSeek (t : Z).
Definition obs := option sample.

Definition observe (o : iobj) (x : X o) : obs := if valid o x then Some (at_ o x) else None.
Definition step (o : iobj) (p : op) (x : X o) : X o :=
  match p with ONext => next o x | OSeek t => seek o t x end.

Fixpoint run_ops (o : iobj) (x : X o) (ops : list op) : list obs :=
  match ops with
  | [] => []
  | p :: r => let x' := step o p x in observe o x' :: run_ops o x' r
  end.
Definition run_prog (i : iter) (ops : list op) : list obs := run_ops (io i) (ist i) ops.

(* iterate Next until exhaustion; fuel = number of samples + 1 *)
Fixpoint drain_loop (o : iobj) (fuel : nat) (x : X o) : option (list sample) :=
  match fuel with
  | O => None
  | S f =>
    let x' := next o x in
    if valid o x' then
      match drain_loop o f x' with Some r => Some (at_ o x' :: r) | None => None end
    else Some []
  end.
Definition drain (i : iter) : option (list sample) :=
  drain_loop (io i) (S (S (size (io i) (ist i)))) (ist i).

(* ---------- specification level: penalty merge of two sample streams ---------- *)
Section Spec.
  Variable cfg : pcfg.
  Definition spen (f : Z -> Z -> Z) (lt : option Z) (t : Z) : Z :=
    match lt with Some l => f t l | None => ipen cfg end.
  Definition sdrop (lt : option Z) (pen : Z) (l : list sample) : list sample :=
    match lt with Some t => drop_lt (t + 1 + pen) l | None => l end.

  Fixpoint pm (fuel : nat) (lt : option Z) (pA pB : Z) (la lb : list sample) : list sample :=
    match fuel with
    | O => []
    | S f =>
      let la' := sdrop lt pA la in
      let lb' := sdrop lt pB lb in
      match la', lb' with
      | [], [] => []
      | [], sb :: _ => sb :: pm f (Some (ts sb)) pA 0 la' lb'
      | sa :: _, [] => sa :: pm f (Some (ts sa)) 0 pB la' lb'
      | sa :: _, sb :: _ =>
        if ts sa <=? ts sb then sa :: pm f (Some (ts sa)) 0 (spen (penfB cfg) lt (ts sa)) la' lb'
        else sb :: pm f (Some (ts sb)) (spen (penfA cfg) lt (ts sb)) 0 la' lb'
      end
    end.

  Definition pmerge (la lb : list sample) : list sample :=
    pm (S (length la + length lb)) None 0 0 la lb.

  Definition pmerge_all (first : list sample) (rest : list (list sample)) : list sample :=
    fold_left pmerge rest first.
End Spec.

(* a reader over a plain list of samples (what chunkenc.Iterator promises) *)
Definition lstream (cur : option sample) (fut : list sample) : list sample :=
  match cur with Some c => c :: fut | None => fut end.

Fixpoint spec_run (cur : option sample) (fut : list sample) (ops : list op) : list obs :=
  match ops with
  | [] => []
  | p :: r =>
    let l := match p with ONext => fut | OSeek t => drop_lt t (lstream cur fut) end in
    match l with
    | [] => None :: spec_run None [] r
    | s :: f => Some s :: spec_run (Some s) f r
    end
  end.

(* reader protocol: no Seek once the iterator reported exhaustion *)
Fixpoint proto_ok (started : bool) (cur : option sample) (fut : list sample) (ops : list op) : bool :=
  match ops with
  | [] => true
  | p :: r =>
    (match p with ONext => true | OSeek _ => negb started || nonempty (lstream cur fut) end) &&
    let l := match p with ONext => fut | OSeek t => drop_lt t (lstream cur fut) end in
    match l with
    | [] => proto_ok true None [] r
    | s :: f => proto_ok true (Some s) f r
    end
  end.

(* ---------- predicates on sample lists ---------- *)
Fixpoint strict_incr_from (lo : option Z) (l : list sample) : bool :=
  match l with
  | [] => true
  | s :: r => (match lo with Some t => t <? ts s | None => true end) && strict_incr_from (Some (ts s)) r
  end.
Definition strict_incr (l : list sample) : bool := strict_incr_from None l.

Definition sample_eqb (p q : sample) : bool := (fst p =? fst q) && (snd p =? snd q).
Definition mem_sample (s : sample) (l : list sample) : bool := existsb (sample_eqb s) l.
Definition all_from (out : list sample) (reps : list (list sample)) : bool :=
  forallb (fun s => existsb (mem_sample s) reps) out.

Fixpoint nondecr_from (lo : option Z) (l : list Z) : bool :=
  match l with
  | [] => true
  | v :: r => (match lo with Some w => w <=? v | None => true end) && nondecr_from (Some v) r
  end.
Definition nondecr (l : list Z) : bool := nondecr_from None l.
