(* Shared lemmas about downsampleRawLoop's batching (Lib/Downsample_Core.v):
   for time-ordered non-negative raw data the batches partition the non-NaN
   samples and no downsampling window straddles two batches. *)
From Coq Require Import ZArith List Bool Lia Sorted.
Import ListNotations.
From Verif Require Import Lib.Downsample_Core Lib.Downsample_Batch.
Open Scope Z_scope.

Lemma keep_nonnan_app l1 l2 : keep_nonnan (l1 ++ l2) = keep_nonnan l1 ++ keep_nonnan l2.
Proof. unfold keep_nonnan. apply flat_map_app. Qed.

Lemma keep_nonnan_in l s : In s (keep_nonnan l) -> exists s', In s' l /\ fst s' = fst s /\ snd s' = Some (snd s).
Proof.
  unfold keep_nonnan. intros H. apply in_flat_map in H as [[t [v|]] [Hin Hs]]; cbn in Hs; [|contradiction].
  destruct Hs as [<-|[]]. exists (t, Some v). repeat split. exact Hin.
Qed.

Lemma keep_nonnan_forall (P : Z -> Prop) l :
  Forall (fun s => P (fst s)) l -> Forall (fun s => P (fst s)) (keep_nonnan l).
Proof.
  intros H. rewrite Forall_forall in *. intros s Hin.
  apply keep_nonnan_in in Hin as (s' & Hin & E & _). rewrite <- E. apply H. exact Hin.
Qed.

Lemma keep_nonnan_sorted l :
  StronglySorted Z.le (map fst l) -> StronglySorted Z.le (map fst (keep_nonnan l)).
Proof.
  induction l as [|[t [v|]] l IH]; intros Hs; cbn [keep_nonnan flat_map map app fst snd] in *.
  - constructor.
  - apply StronglySorted_inv in Hs as [Hs Hle]. constructor; [apply IH; exact Hs|].
    rewrite Forall_map in Hle |- *. apply (keep_nonnan_forall (fun x => t <= x)). exact Hle.
  - apply StronglySorted_inv in Hs as [Hs _]. apply IH. exact Hs.
Qed.

Section Raw.
Variable cw : Z -> Z -> Z.
Variable res : Z.
Hypothesis res_pos : 0 < res.
Hypothesis cw_ge : forall t, 0 <= t -> t <= cw t res.
Hypothesis cw_same : forall t t', 0 <= t -> t <= t' -> t' <= cw t res -> cw t' res = cw t res.

Let cw_mono := cw_mono cw res cw_ge cw_same.

Lemma take_le_spec W : forall l,
  let '(a, b) := take_le W l in
  a ++ b = l /\ Forall (fun s => fst s <= W) a /\
  (StronglySorted Z.le (map fst l) -> Forall (fun s => W < fst s) b).
Proof.
  induction l as [|s r IH]; cbn [take_le].
  - repeat split; constructor.
  - destruct (fst s <=? W) eqn:E.
    + destruct (take_le W r) as [a b]. destruct IH as (Hab & Ha & Hb). apply Z.leb_le in E.
      split; [cbn; rewrite Hab; reflexivity|]. split; [constructor; assumption|].
      intros Hs. cbn [map] in Hs. apply StronglySorted_inv in Hs as [Hs _]. apply Hb. exact Hs.
    + apply Z.leb_gt in E. split; [reflexivity|]. split; [constructor|].
      intros Hs. cbn [map] in Hs. apply StronglySorted_inv in Hs as [_ Hle].
      constructor; [exact E|]. rewrite Forall_map in Hle.
      eapply Forall_impl; [|exact Hle]. intros x Hx; cbv beta in Hx. lia.
Qed.

(* one batch cut: the taken samples all have windows <= cw t', the rest lie
   strictly after cw t' *)
Lemma take_batch_spec : forall n lt l,
  0 <= lt -> Forall (fun s => lt <= fst s) l -> StronglySorted Z.le (map fst l) ->
  let '(a, b) := take_batch cw res n lt l in
  a ++ b = l /\
  exists t', lt <= t' /\
    Forall (fun s => cw (fst s) res <= cw t' res) a /\ Forall (fun s => cw t' res < fst s) b.
Proof.
  assert (Base : forall lt l, 0 <= lt -> Forall (fun s => lt <= fst s) l -> StronglySorted Z.le (map fst l) ->
     let '(a, b) := take_le (cw lt res) l in
     a ++ b = l /\ exists t', lt <= t' /\
       Forall (fun s => cw (fst s) res <= cw t' res) a /\ Forall (fun s => cw t' res < fst s) b).
  { intros lt l H0 Hge Hs. pose proof (take_le_spec (cw lt res) l) as T.
    destruct (take_le (cw lt res) l) as [a b]. destruct T as (Hab & Ha & Hb).
    split; [exact Hab|]. exists lt. split; [lia|]. split; [|apply Hb; exact Hs].
    assert (Hga : Forall (fun s => lt <= fst s) a).
    { rewrite <- Hab in Hge. apply Forall_app in Hge as [? _]. assumption. }
    rewrite Forall_forall in *. intros s Hin. rewrite (cw_same lt (fst s)); [lia|lia|apply Hga; exact Hin|apply Ha; exact Hin]. }
  induction n as [|n IH]; intros lt l H0 Hge Hs.
  - cbn [take_batch]. apply Base; assumption.
  - destruct l as [|s r]; [cbn [take_batch]; apply (Base lt []); assumption|].
    cbn [take_batch]. cbn [map] in Hs. apply StronglySorted_inv in Hs as [Hs Hle].
    apply Forall_cons_iff in Hge as [Hs0 Hge]. rewrite Forall_map in Hle.
    specialize (IH (fst s) r ltac:(lia) Hle Hs).
    destruct (take_batch cw res n (fst s) r) as [a b]. destruct IH as (Hab & t' & Ht' & Ha & Hb).
    split; [cbn; rewrite Hab; reflexivity|]. exists t'. split; [lia|]. split; [|exact Hb].
    constructor; [apply cw_mono; lia|exact Ha].
Qed.

Lemma take_batch_nonempty n lt s r :
  (1 <= n)%nat -> fst (take_batch cw res n lt (s :: r)) <> [].
Proof.
  destruct n as [|n]; [lia|]. intros _. cbn [take_batch].
  destruct (take_batch cw res n (fst s) r). cbn. discriminate.
Qed.

(* no window straddles two batches *)
Fixpoint seps (bs : list (list sample)) : Prop :=
  match bs with
  | [] => True
  | b :: rest =>
      Forall (fun s1 => Forall (fun s2 => cw (fst s1) res < fst s2) (concat rest)) b /\ seps rest
  end.

Lemma raw_batches_spec bsz : (1 <= bsz)%nat -> forall fuel data,
  (length data <= fuel)%nat ->
  StronglySorted Z.le (map fst data) -> Forall (fun s => 0 <= fst s) data ->
  exists batches, raw_batches cw fuel res bsz data = Some batches /\
    concat batches = keep_nonnan data /\ Forall (fun b => b <> []) batches /\ seps batches /\
    Forall (sorted_nonneg) batches.
Proof.
  intros Hb. induction fuel as [|f IH]; intros data Hlen Hs Hnn.
  - destruct data; [|cbn in Hlen; lia]. exists []. repeat split; constructor.
  - destruct data as [|s0 r]; [exists []; repeat split; constructor|].
    assert (sorted_app_l : forall l1 l2 : list Z, StronglySorted Z.le (l1 ++ l2) -> StronglySorted Z.le l1).
    { clear. induction l1 as [|x l1 IHl]; intros l2 H; [constructor|]. cbn in H.
      apply StronglySorted_inv in H as [H Hx]. constructor; [eapply IHl; exact H|].
      apply Forall_app in Hx as [? _]. assumption. }
    cbn [raw_batches].
    pose proof (take_batch_spec bsz 0 (s0 :: r) ltac:(lia) Hnn Hs) as T.
    pose proof (take_batch_nonempty bsz 0 s0 r Hb) as Ne.
    destruct (take_batch cw res bsz 0 (s0 :: r)) as [taken rest]. cbn [fst] in Ne.
    destruct T as (Hab & t' & Ht' & Ha & Hbr).
    assert (Hlr : (length rest <= f)%nat).
    { apply (f_equal (@length _)) in Hab. rewrite app_length in Hab. cbn [length] in *.
      destruct taken; [congruence|]. cbn [length] in Hab. lia. }
    assert (Hsr : StronglySorted Z.le (map fst rest)).
    { rewrite <- Hab, map_app in Hs. clear - Hs. induction (map fst taken) as [|x l IH]; [exact Hs|].
      cbn in Hs. apply StronglySorted_inv in Hs as [Hs _]. apply IH. exact Hs. }
    assert (Hnr : Forall (fun s => 0 <= fst s) rest).
    { rewrite <- Hab in Hnn. apply Forall_app in Hnn as [_ ?]. assumption. }
    destruct (IH rest Hlr Hsr Hnr) as (more & Em & Hcat & Hne & Hsep & Hgood).
    assert (Hgt : sorted_nonneg (keep_nonnan taken)).
    { split.
      - apply keep_nonnan_sorted. rewrite <- Hab, map_app in Hs. eapply sorted_app_l. exact Hs.
      - apply (keep_nonnan_forall (fun x => 0 <= x)). rewrite <- Hab in Hnn.
        apply Forall_app in Hnn as [? _]. assumption. }
    rewrite Em.
    assert (Hkn : keep_nonnan (s0 :: r) = keep_nonnan taken ++ concat more).
    { rewrite <- Hab, keep_nonnan_app, Hcat. reflexivity. }
    destruct (keep_nonnan taken) as [|b0 bt] eqn:Eb.
    + exists more. split; [reflexivity|]. split; [rewrite Hkn; reflexivity|]. repeat split; assumption.
    + exists ((b0 :: bt) :: more). split; [reflexivity|].
      split; [cbn [concat]; rewrite Hkn; reflexivity|].
      split; [constructor; [discriminate|assumption]|].
      split; [|constructor; [exact Hgt|exact Hgood]].
      cbn [seps]. split; [|exact Hsep].
      rewrite <- Eb. rewrite Hcat.
      assert (A : Forall (fun s => cw (fst s) res <= cw t' res) (keep_nonnan taken))
        by (apply (keep_nonnan_forall (fun x => cw x res <= cw t' res)); exact Ha).
      assert (B : Forall (fun s => cw t' res < fst s) (keep_nonnan rest))
        by (apply (keep_nonnan_forall (fun x => cw t' res < x)); exact Hbr).
      eapply Forall_impl; [|exact A]. intros s1 H1; cbv beta in H1.
      eapply Forall_impl; [|exact B]. intros s2 H2; cbv beta in H2. lia.
Qed.

End Raw.
