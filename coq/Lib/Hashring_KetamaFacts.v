(* Lemmas about the shared ketama model (Lib/Hashring_Ketama.v). *)
From Coq Require Import ZArith List Bool Lia Arith PeanoNat Permutation Sorting.Sorted.
Import ListNotations.
From Verif Require Import Lib.Hashring_Ketama.

(* ------------------------------------------------------------------ *)
(* small arithmetic facts on nat mod                                    *)

Lemma succ_mod_inj n a b : 0 < n -> (S a) mod n = (S b) mod n -> a mod n = b mod n.
Proof.
  intros Hn H.
  assert (E : forall x, x mod n = (S x mod n + (n - 1)) mod n).
  { intro x. rewrite Nat.add_mod_idemp_l by lia.
    replace (S x + (n - 1)) with (x + 1 * n) by lia. rewrite Nat.mod_add by lia. reflexivity. }
  rewrite (E a), (E b), H. reflexivity.
Qed.

Lemma mod_cover n p y : p < n -> y < n -> exists k, 1 <= k <= n /\ (p + k) mod n = y.
Proof.
  intros Hp Hy. destruct (le_lt_dec y p) as [L|L].
  - exists (n - p + y). split; [lia|].
    replace (p + (n - p + y)) with (y + 1 * n) by lia. rewrite Nat.mod_add by lia. apply Nat.mod_small; lia.
  - exists (y - p). split; [lia|]. replace (p + (y - p)) with y by lia. apply Nat.mod_small; lia.
Qed.

(* ------------------------------------------------------------------ *)
(* existsb / membership                                                 *)

Lemma existsb_nat_In x l : existsb (Nat.eqb x) l = true <-> In x l.
Proof.
  rewrite existsb_exists. split.
  - intros [y [Hy E]]. apply Nat.eqb_eq in E. subst. exact Hy.
  - intro H. exists x. split; [exact H|apply Nat.eqb_refl].
Qed.

Lemma nodup_nat_spec l : nodup_nat l = true <-> NoDup l.
Proof.
  induction l as [|x l IH]; simpl.
  - split; [constructor|reflexivity].
  - rewrite andb_true_iff, negb_true_iff, IH. split.
    + intros [H1 H2]. constructor; [|exact H2]. intro Hin. apply existsb_nat_In in Hin. congruence.
    + intro H. inversion H; subst. split; [|assumption].
      destruct (existsb (Nat.eqb x) l) eqn:E; [|reflexivity]. apply existsb_nat_In in E. contradiction.
Qed.

Lemma NoDup_snoc {A} (l : list A) x : NoDup l -> ~ In x l -> NoDup (l ++ [x]).
Proof.
  induction l as [|y l IH]; simpl; intros Hnd Hx.
  - constructor; [intros []|constructor].
  - inversion Hnd; subst. constructor.
    + intro Hin. apply in_app_or in Hin as [Hin|[->|[]]]; [contradiction|]. apply Hx. now left.
    + apply IH; [assumption|]. intro. apply Hx. now right.
Qed.

(* ------------------------------------------------------------------ *)
(* termination of the repaired loop within walk_fuel                    *)

Lemma walk_fuel_enough ring rf : forall fuel jn since reps sp,
  (rf - length reps) * (length ring + 1) + (length ring + 1 - since) <= fuel ->
  walk true fuel ring rf jn since reps sp <> OutOfFuel.
Proof.
  induction fuel as [|f IH]; intros jn since reps sp Hm.
  - simpl. destruct (rf <=? length reps) eqn:E; [discriminate|].
    apply Nat.leb_gt in E. exfalso.
    assert (1 <= rf - length reps) by lia. nia.
  - simpl. destruct (rf <=? length reps) eqn:E; [discriminate|]. apply Nat.leb_gt in E.
    destruct (length ring <=? since) eqn:E2; simpl; [discriminate|]. apply Nat.leb_gt in E2.
    destruct (rejects reps sp _) eqn:R.
    + apply IH. lia.
    + apply IH. rewrite app_length. simpl.
      assert (rf - (length reps + 1) = rf - length reps - 1) by lia.
      assert (1 <= rf - length reps) by lia. nia.
Qed.

Lemma walk_fuel_suffices ring rf jn sp :
  walk true (walk_fuel ring rf) ring rf jn 0 [] sp <> OutOfFuel.
Proof.
  apply walk_fuel_enough. unfold walk_fuel. simpl. nia.
Qed.

(* more fuel does not change a finished walk *)
Lemma walk_fuel_mono check ring rf : forall fuel fuel' jn since reps sp,
  fuel <= fuel' ->
  walk check fuel ring rf jn since reps sp <> OutOfFuel ->
  walk check fuel' ring rf jn since reps sp = walk check fuel ring rf jn since reps sp.
Proof.
  induction fuel as [|f IH]; intros fuel' jn since reps sp Hle Hne.
  - simpl in *. destruct fuel'; simpl; destruct (rf <=? length reps); try reflexivity; congruence.
  - destruct fuel' as [|f']; [lia|]. simpl in *.
    destruct (rf <=? length reps); [reflexivity|].
    destruct (check && (length ring <=? since)); [reflexivity|].
    destruct (rejects reps sp _); apply IH; try lia; exact Hne.
Qed.

(* ------------------------------------------------------------------ *)
(* a generic invariant principle for finished walks                     *)

Section WalkInv.
  Variable ring : list section.
  Variable P : list nat -> spread -> Prop.
  Hypothesis P_step : forall reps sp s,
    P reps sp -> In s ring -> rejects reps sp s = false ->
    P (reps ++ [s_ep s]) (sincr sp (s_az s)).

  Lemma walk_done_inv check rf : forall fuel jn since reps sp out,
    ring <> [] \/ check = true ->
    P reps sp ->
    walk check fuel ring rf jn since reps sp = Done out ->
    exists sp', P out sp'.
  Proof.
    induction fuel as [|f IH]; intros jn since reps sp out Hne HP H; simpl in H.
    - destruct (rf <=? length reps); [|discriminate]. inversion H; subst. eauto.
    - destruct (rf <=? length reps); [inversion H; subst; eauto|].
      destruct (check && (length ring <=? since)) eqn:C; [discriminate|].
      assert (Hring : ring <> []).
      { destruct Hne as [Hn|Hc]; [exact Hn|]. subst check. simpl in C.
        intro E. rewrite E in C. simpl in C. discriminate. }
      assert (Hin : In (nth (jn mod length ring) ring dummy_section) ring).
      { apply nth_In. apply Nat.mod_upper_bound. destruct ring; [congruence|simpl; lia]. }
      destruct (rejects reps sp _) eqn:R.
      + eapply IH; eauto.
      + eapply IH; [exact Hne| |exact H]. apply P_step; assumption.
  Qed.
End WalkInv.

(* when the walk finishes, it holds exactly rf replicas (if it started with at most rf) *)
Lemma walk_done_length check ring rf : forall fuel jn since reps sp out,
  length reps <= rf ->
  walk check fuel ring rf jn since reps sp = Done out -> length out = rf.
Proof.
  induction fuel as [|f IH]; intros jn since reps sp out Hle H; simpl in H.
  - destruct (rf <=? length reps) eqn:E; [|discriminate]. apply Nat.leb_le in E. inversion H; subst. lia.
  - destruct (rf <=? length reps) eqn:E.
    + apply Nat.leb_le in E. inversion H; subst. lia.
    + apply Nat.leb_gt in E. destruct (check && (length ring <=? since)); [discriminate|].
      destruct (rejects reps sp _).
      * eapply IH; [|exact H]. exact Hle.
      * eapply IH; [|exact H]. rewrite app_length. simpl. lia.
Qed.

Lemma rejects_false_notin reps sp s : rejects reps sp s = false -> ~ In (s_ep s) reps.
Proof.
  unfold rejects. intros H Hin. apply orb_false_iff in H as [H _].
  apply existsb_nat_In in Hin. congruence.
Qed.

(* replicas are pairwise distinct and are endpoint indexes of ring sections *)
Lemma walk_done_nodup check ring rf fuel jn since out sp :
  ring <> [] \/ check = true ->
  walk check fuel ring rf jn since [] sp = Done out ->
  NoDup out /\ (forall e, In e out -> exists s, In s ring /\ s_ep s = e).
Proof.
  intros Hne H.
  destruct (walk_done_inv ring (fun reps _ => NoDup reps /\ forall e, In e reps -> exists s, In s ring /\ s_ep s = e))
    with (check := check) (rf := rf) (fuel := fuel) (jn := jn) (since := since) (reps := @nil nat) (sp := sp) (out := out)
    as [sp' HP]; auto.
  - intros reps sp0 s [Hnd Hall] Hin R. split.
    + apply NoDup_snoc; auto. eapply rejects_false_notin; eauto.
    + intros e He. apply in_app_or in He as [He|He]; [auto|]. simpl in He. destruct He as [<-|[]]. eauto.
  - split; [constructor|]. intros e [].
Qed.

(* ------------------------------------------------------------------ *)
(* the repaired loop reports an error only where the original loop spins *)

(* if every section is rejected in the current state, the original loop never leaves it *)
Lemma walk_all_reject_forever ring rf reps sp :
  ring <> [] -> length reps < rf ->
  (forall s, In s ring -> rejects reps sp s = true) ->
  forall fuel jn since, walk false fuel ring rf jn since reps sp = OutOfFuel.
Proof.
  intros Hne Hlt Hall. induction fuel as [|f IH]; intros jn since; simpl.
  - destruct (rf <=? length reps) eqn:E; [apply Nat.leb_le in E; lia|reflexivity].
  - destruct (rf <=? length reps) eqn:E; [apply Nat.leb_le in E; lia|].
    rewrite Hall; [apply IH|].
    apply nth_In. apply Nat.mod_upper_bound. destruct ring; [congruence|simpl; lia].
Qed.

(* "the last [since] visited positions all reject in the current state" *)
Definition lap_inv (ring : list section) (jn since : nat) (reps : list nat) (sp : spread) : Prop :=
  forall p k, p < length ring -> 1 <= k <= since -> (p + k) mod length ring = jn mod length ring ->
    rejects reps sp (nth p ring dummy_section) = true.

Lemma lap_inv_zero ring jn reps sp : lap_inv ring jn 0 reps sp.
Proof. intros p k _ Hk. lia. Qed.

Lemma lap_inv_step ring jn since reps sp :
  ring <> [] ->
  lap_inv ring jn since reps sp ->
  rejects reps sp (nth (jn mod length ring) ring dummy_section) = true ->
  lap_inv ring (S (jn mod length ring)) (S since) reps sp.
Proof.
  intros Hne I R p k Hp Hk E.
  assert (Hn : 0 < length ring) by (destruct ring; [congruence|simpl; lia]).
  set (n := length ring) in *. set (j := jn mod n) in *.
  assert (Hj : j < n) by (apply Nat.mod_upper_bound; lia).
  destruct (Nat.eq_dec k 1) as [->|Hk1].
  - replace (p + 1) with (S p) in E by lia. apply succ_mod_inj in E; [|lia].
    rewrite (Nat.mod_small p), (Nat.mod_small j) in E by lia. subst p. exact R.
  - apply (I p (k - 1)); [exact Hp|lia|].
    replace (p + k) with (S (p + (k - 1))) in E by lia. apply succ_mod_inj in E; [|lia].
    fold n. rewrite E. unfold j. rewrite Nat.mod_mod by lia. reflexivity.
Qed.

Lemma lap_inv_full ring jn since reps sp :
  ring <> [] -> length ring <= since -> lap_inv ring jn since reps sp ->
  forall s, In s ring -> rejects reps sp s = true.
Proof.
  intros Hne Hle I s Hin.
  assert (Hn : 0 < length ring) by (destruct ring; [congruence|simpl; lia]).
  destruct (In_nth _ _ dummy_section Hin) as [p [Hp <-]].
  destruct (mod_cover (length ring) p (jn mod length ring)) as [k [Hk E]]; [exact Hp|apply Nat.mod_upper_bound; lia|].
  apply (I p k); [exact Hp|lia|exact E].
Qed.

Lemma walk_stuck_diverges ring rf : ring <> [] ->
  forall fuel0 jn since reps sp,
  lap_inv ring jn since reps sp ->
  walk true fuel0 ring rf jn since reps sp = Stuck ->
  forall fuel, walk false fuel ring rf jn since reps sp = OutOfFuel.
Proof.
  intros Hne. induction fuel0 as [|f0 IH]; intros jn since reps sp I H fuel; simpl in H.
  - destruct (rf <=? length reps); discriminate.
  - destruct (rf <=? length reps) eqn:E; [discriminate|]. apply Nat.leb_gt in E.
    destruct (length ring <=? since) eqn:E2; simpl in H.
    + apply Nat.leb_le in E2. apply walk_all_reject_forever; [exact Hne|exact E|].
      eapply lap_inv_full; eauto.
    + destruct fuel as [|f]; simpl.
      * destruct (rf <=? length reps) eqn:E3; [apply Nat.leb_le in E3; lia|reflexivity].
      * destruct (rf <=? length reps) eqn:E3; [apply Nat.leb_le in E3; lia|].
        destruct (rejects reps sp _) eqn:R.
        -- eapply IH; [|exact H]. apply lap_inv_step; assumption.
        -- eapply IH; [|exact H]. apply lap_inv_zero.
Qed.

(* where the repaired loop finishes, the original loop finishes with the same
   replicas (or the model's budget was too small) *)
Lemma walk_done_agree ring rf : forall fuel0 fuel jn since reps sp out,
  walk true fuel0 ring rf jn since reps sp = Done out ->
  walk false fuel ring rf jn since reps sp = Done out \/
  walk false fuel ring rf jn since reps sp = OutOfFuel.
Proof.
  induction fuel0 as [|f0 IH]; intros fuel jn since reps sp out H; simpl in H.
  - destruct (rf <=? length reps) eqn:E; [|discriminate]. left. destruct fuel; simpl; rewrite E; exact H.
  - destruct (rf <=? length reps) eqn:E.
    + left. destruct fuel; simpl; rewrite E; exact H.
    + destruct (length ring <=? since) eqn:E2; simpl in H; [discriminate|].
      destruct fuel as [|f]; simpl; rewrite E; [now right|].
      destruct (rejects reps sp _); eapply IH; exact H.
Qed.

Lemma calc_err_diverges ring rf azs : ring <> [] ->
  forall is fuel0, calc_from true fuel0 ring rf azs is = CErr ->
  forall fuel, calc_from false fuel ring rf azs is = CFuel.
Proof.
  intros Hne. induction is as [|i r IH]; intros fuel0 H fuel; simpl in H; [discriminate|].
  simpl. destruct (walk true fuel0 ring rf i 0 [] (spread_init azs)) eqn:W.
  - destruct (calc_from true fuel0 ring rf azs r) eqn:C; try discriminate.
    destruct (walk_done_agree _ _ _ fuel _ _ _ _ _ W) as [-> | ->]; [|reflexivity].
    rewrite (IH fuel0 C fuel). reflexivity.
  - rewrite (walk_stuck_diverges ring rf Hne _ _ _ _ _ (lap_inv_zero _ _ _ _) W fuel). reflexivity.
  - discriminate.
Qed.

Lemma calc_err_stuck ring rf azs fuel : forall is,
  calc_from true fuel ring rf azs is = CErr ->
  exists i, In i is /\ walk true fuel ring rf i 0 [] (spread_init azs) = Stuck.
Proof.
  induction is as [|i r IH]; simpl; intro H; [discriminate|].
  destruct (walk true fuel ring rf i 0 [] (spread_init azs)) eqn:W.
  - destruct (calc_from true fuel ring rf azs r) eqn:C; try discriminate.
    destruct (IH eq_refl) as [i' [Hin W']]. exists i'. split; [now right|exact W'].
  - exists i. split; [now left|exact W].
  - discriminate.
Qed.

(* the repaired outer loop never runs out of the budget walk_fuel *)
Lemma calc_from_total ring rf azs fuel : walk_fuel ring rf <= fuel ->
  forall is, calc_from true fuel ring rf azs is <> CFuel.
Proof.
  intros Hf. induction is as [|i r IH]; simpl; [discriminate|].
  destruct (walk true fuel ring rf i 0 [] (spread_init azs)) eqn:W.
  - destruct (calc_from true fuel ring rf azs r); congruence.
  - discriminate.
  - exfalso. rewrite (walk_fuel_mono true ring rf (walk_fuel ring rf) fuel) in W; [|exact Hf|apply walk_fuel_suffices].
    eapply walk_fuel_suffices; eauto.
Qed.

(* shape of a successful result *)
Lemma calc_from_ok check ring rf azs fuel : forall is out,
  ring <> [] \/ check = true ->
  calc_from check fuel ring rf azs is = COk out ->
  length out = length is /\
  Forall (fun reps => length reps = rf /\ NoDup reps /\ forall e, In e reps -> exists s, In s ring /\ s_ep s = e) out.
Proof.
  induction is as [|i r IH]; intros out Hne H; simpl in H.
  - inversion H; subst. split; [reflexivity|constructor].
  - destruct (walk check fuel ring rf i 0 [] (spread_init azs)) eqn:W; try discriminate.
    destruct (calc_from check fuel ring rf azs r) eqn:C; try discriminate.
    inversion H; subst. destruct (IH _ Hne eq_refl) as [L F]. split; [simpl; lia|].
    constructor; [|exact F]. split; [|apply (walk_done_nodup _ _ _ _ _ _ _ _ Hne W)].
    eapply walk_done_length; [|exact W]. simpl. lia.
Qed.

(* ------------------------------------------------------------------ *)
(* when the repaired loop cannot get stuck                              *)

Section WalkNotStuck.
  Variable ring : list section.
  Variable rf : nat.
  Variable P : list nat -> spread -> Prop.
  Hypothesis P_step : forall reps sp s,
    P reps sp -> In s ring -> rejects reps sp s = false ->
    P (reps ++ [s_ep s]) (sincr sp (s_az s)).
  Hypothesis P_progress : forall reps sp,
    P reps sp -> length reps < rf -> exists s, In s ring /\ rejects reps sp s = false.

  Lemma walk_not_stuck : forall fuel jn since reps sp,
    lap_inv ring jn since reps sp -> P reps sp ->
    walk true fuel ring rf jn since reps sp <> Stuck.
  Proof.
    induction fuel as [|f IH]; intros jn since reps sp I HP; simpl.
    - destruct (rf <=? length reps); discriminate.
    - destruct (rf <=? length reps) eqn:E; [discriminate|]. apply Nat.leb_gt in E.
      destruct (P_progress _ _ HP E) as [s0 [Hin0 R0]].
      assert (Hne : ring <> []) by (intro X; rewrite X in Hin0; contradiction).
      destruct (length ring <=? since) eqn:E2; simpl.
      + apply Nat.leb_le in E2. rewrite (lap_inv_full ring jn since reps sp Hne E2 I s0 Hin0) in R0. discriminate.
      + assert (Hin : In (nth (jn mod length ring) ring dummy_section) ring).
        { apply nth_In. apply Nat.mod_upper_bound. destruct ring; [congruence|simpl; lia]. }
        destruct (rejects reps sp (nth (jn mod length ring) ring dummy_section)) eqn:R.
        * apply IH; [apply lap_inv_step; assumption|exact HP].
        * apply IH; [apply lap_inv_zero|]. apply P_step; assumption.
  Qed.
End WalkNotStuck.

(* ------------------------------------------------------------------ *)
(* ring construction                                                    *)

Lemma sort_sections_perm l : Permutation l (sort_sections l).
Proof. apply SecSort.Permuted_sort. Qed.

Lemma sort_sections_length l : length (sort_sections l) = length l.
Proof. symmetry. apply Permutation_length, sort_sections_perm. Qed.

Lemma sort_sections_In l s : In s (sort_sections l) <-> In s l.
Proof.
  split; intro H.
  - eapply Permutation_in; [apply Permutation_sym, sort_sections_perm|exact H].
  - eapply Permutation_in; [apply sort_sections_perm|exact H].
Qed.

Lemma sorted_hash_of_Sorted l :
  Sorted (fun x y => is_true (s_hash x <=? s_hash y)%Z) l -> sorted_hash l = true.
Proof.
  induction 1 as [|a l Hs IH Hd]; [reflexivity|].
  destruct l as [|b r]; [reflexivity|].
  change (sorted_hash (a :: b :: r)) with ((s_hash a <=? s_hash b)%Z && sorted_hash (b :: r)).
  inversion Hd; subst. rewrite IH. rewrite H0. reflexivity.
Qed.

Lemma sort_sections_sorted l : sorted_hash (sort_sections l) = true.
Proof. apply sorted_hash_of_Sorted, SecSort.Sorted_sort. Qed.

Lemma sections_of_In eps : forall idx s,
  In s (sections_of idx eps) ->
  idx <= s_ep s < idx + length eps /\
  exists hs, nth_error eps (s_ep s - idx) = Some (s_az s, hs) /\ In (s_hash s) hs.
Proof.
  induction eps as [|[az hs] r IH]; intros idx s H; simpl in H; [contradiction|].
  apply in_app_or in H as [H|H].
  - apply in_map_iff in H as [h [<- Hh]]. simpl. split; [lia|].
    exists hs. rewrite Nat.sub_diag. simpl. auto.
  - destruct (IH _ _ H) as [B [hs' [E Hh]]]. simpl. split; [lia|].
    exists hs'. replace (s_ep s - idx) with (S (s_ep s - S idx)) by lia. simpl. auto.
Qed.

Lemma sections_of_length eps : forall idx,
  length (sections_of idx eps) = fold_right (fun e n => length (snd e) + n) 0 eps.
Proof.
  induction eps as [|[az hs] r IH]; intro idx; simpl; [reflexivity|].
  rewrite app_length, map_length, IH. reflexivity.
Qed.

(* every endpoint that owns at least one section occurs in the ring *)
Lemma sections_of_has eps : forall idx k az hs,
  nth_error eps k = Some (az, hs) -> hs <> [] ->
  exists s, In s (sections_of idx eps) /\ s_ep s = idx + k /\ s_az s = az.
Proof.
  induction eps as [|[az0 hs0] r IH]; intros idx k az hs E Hne; [destruct k; discriminate|].
  destruct k as [|k]; simpl in E.
  - inversion E; subst. destruct hs as [|h hs]; [congruence|].
    exists (mkS h idx az). split; [simpl; now left|]. simpl. split; [lia|reflexivity].
  - destruct (IH (S idx) k az hs E Hne) as [s [Hin [He Ha]]].
    exists s. split; [simpl; apply in_or_app; now right|]. split; [lia|exact Ha].
Qed.

Lemma az_set_spec eps : forall seen a,
  In a (az_set seen eps) <-> In a seen \/ exists hs, In (a, hs) eps.
Proof.
  induction eps as [|[az hs] r IH]; intros seen a; simpl.
  - rewrite <- in_rev. split; [now left|]. intros [H|[hs []]]. exact H.
  - destruct (existsb (Z.eqb az) seen) eqn:E.
    + rewrite IH. split.
      * intros [H|[hs' H]]; [now left|right; exists hs'; now right].
      * intros [H|[hs' [H|H]]]; [now left| |right; eauto].
        inversion H; subst. left. apply existsb_exists in E as [y [Hy Ey]]. apply Z.eqb_eq in Ey. subst. exact Hy.
    + rewrite IH. simpl. split.
      * intros [[H|H]|[hs' H]]; [subst; right; exists hs; now left|now left|right; exists hs'; now right].
      * intros [H|[hs' [H|H]]]; [left; now right| |right; eauto].
        inversion H; subst. left. now left.
Qed.

Lemma az_set_NoDup eps : forall seen, NoDup seen -> NoDup (az_set seen eps).
Proof.
  induction eps as [|[az hs] r IH]; intros seen Hnd; simpl.
  - apply NoDup_rev. exact Hnd.
  - destruct (existsb (Z.eqb az) seen) eqn:E; [apply IH; exact Hnd|].
    apply IH. constructor; [|exact Hnd]. intro Hin.
    assert (existsb (Z.eqb az) seen = true); [|congruence].
    apply existsb_exists. exists az. split; [exact Hin|apply Z.eqb_refl].
Qed.
