(* List notions shared by the compactor-planning properties (C30..C34):
   subsequences, contiguous segments, pairwise relations, first_some. *)
From Coq Require Import List Bool Arith Lia Permutation.
Import ListNotations.

Inductive sublist {A} : list A -> list A -> Prop :=
| sl_nil l : sublist [] l
| sl_skip a l1 l2 : sublist l1 l2 -> sublist l1 (a :: l2)
| sl_cons a l1 l2 : sublist l1 l2 -> sublist (a :: l1) (a :: l2).
#[export] Hint Constructors sublist : core.

Lemma sublist_refl {A} (l : list A) : sublist l l.
Proof. induction l; auto. Qed.

Lemma sublist_trans {A} (a b c : list A) : sublist a b -> sublist b c -> sublist a c.
Proof.
  intros H1 H2. revert a H1. induction H2; intros x H1.
  - inversion H1; auto.
  - auto.
  - inversion H1; subst; auto.
Qed.

Lemma sublist_app_l {A} (p l : list A) : sublist l (p ++ l).
Proof. induction p; simpl; auto using sublist_refl. Qed.

Lemma sublist_app_r {A} (l s : list A) : sublist l (l ++ s).
Proof. induction l; simpl; auto. Qed.

Lemma sublist_app {A} (a b c d : list A) : sublist a b -> sublist c d -> sublist (a ++ c) (b ++ d).
Proof.
  intros Hab. induction Hab; intros Hcd; simpl; auto.
  eapply sublist_trans; [exact Hcd | apply sublist_app_l].
Qed.

Lemma sublist_In {A} (a b : list A) x : sublist a b -> In x a -> In x b.
Proof. induction 1; simpl; intros Hin; auto; try contradiction. destruct Hin; auto. Qed.

Lemma sublist_Forall {A} (P : A -> Prop) (a b : list A) : sublist a b -> Forall P b -> Forall P a.
Proof. intros Hs Hf. apply Forall_forall. intros x Hx. rewrite Forall_forall in Hf. eauto using sublist_In. Qed.

Lemma sublist_filter {A} (f : A -> bool) l : sublist (filter f l) l.
Proof. induction l; simpl; auto. destruct (f a); auto. Qed.

Lemma sublist_filter_mono {A} (f : A -> bool) a b : sublist a b -> sublist (filter f a) (filter f b).
Proof. induction 1; simpl; auto. - destruct (f a); auto. - destruct (f a); auto. Qed.

Lemma sublist_length {A} (a b : list A) : sublist a b -> length a <= length b.
Proof. induction 1; simpl; lia. Qed.

Lemma sublist_removelast {A} (l : list A) : sublist (removelast l) l.
Proof. induction l as [|a [|b r] IH]; simpl; auto. Qed.

Lemma sublist_single {A} (x : A) l : In x l -> sublist [x] l.
Proof. induction l; simpl; intros H; [contradiction|]. destruct H; subst; auto. Qed.

Lemma sublist_map {A B} (f : A -> B) a b : sublist a b -> sublist (map f a) (map f b).
Proof. induction 1; simpl; auto. Qed.

(* removing by a predicate that rejects every element of a subsequence p
   shortens the list by at least |p| *)
Lemma filter_sublist_length {A} (f : A -> bool) (p l : list A) :
  sublist p l -> (forall x, In x p -> f x = false) ->
  length (filter f l) + length p <= length l.
Proof.
  induction 1; intros Hf; simpl.
  - pose proof (sublist_length _ _ (sublist_filter f l)). lia.
  - assert (IH := IHsublist Hf). destruct (f a); simpl; lia.
  - rewrite (Hf a (or_introl eq_refl)). simpl.
    assert (IH := IHsublist (fun x Hx => Hf x (or_intror Hx))). lia.
Qed.

(* contiguous segment *)
Definition segment {A} (s l : list A) : Prop := exists a b, l = a ++ s ++ b.

Lemma segment_refl {A} (l : list A) : segment l l.
Proof. exists [], []. simpl. now rewrite app_nil_r. Qed.

Lemma segment_trans {A} (a b c : list A) : segment a b -> segment b c -> segment a c.
Proof.
  intros (x & y & ->) (u & v & ->). exists (u ++ x), (y ++ v).
  now rewrite !app_assoc.
Qed.

Lemma segment_sublist {A} (s l : list A) : segment s l -> sublist s l.
Proof.
  intros (a & b & ->). eapply sublist_trans; [|apply sublist_app_l]. apply sublist_app_r.
Qed.

Lemma segment_cons {A} (x : A) s l : segment s l -> segment s (x :: l).
Proof. intros (a & b & ->). exists (x :: a), b. reflexivity. Qed.

Lemma segment_prefix {A} (s r : list A) : segment s (s ++ r).
Proof. exists [], r. reflexivity. Qed.

Lemma segment_suffix {A} (p s : list A) : segment s (p ++ s).
Proof. exists p, []. now rewrite app_nil_r. Qed.

(* every earlier element is related to every later one *)
Fixpoint pairwise {A} (R : A -> A -> Prop) (l : list A) : Prop :=
  match l with
  | [] => True
  | a :: r => Forall (R a) r /\ pairwise R r
  end.

Lemma pairwise_sublist {A} (R : A -> A -> Prop) a b : sublist a b -> pairwise R b -> pairwise R a.
Proof.
  induction 1; simpl; intros Hp; auto.
  - apply IHsublist, Hp.
  - destruct Hp as [Hf Hp]. split; [eapply sublist_Forall; eauto | auto].
Qed.

Lemma pairwise_app {A} (R : A -> A -> Prop) a b :
  pairwise R (a ++ b) <-> pairwise R a /\ pairwise R b /\ (forall x y, In x a -> In y b -> R x y).
Proof.
  induction a as [|x a IH]; simpl.
  - intuition.
  - rewrite IH, Forall_app, !Forall_forall. split.
    + intros ((H1 & H2) & H3 & H4 & H5). repeat split; auto.
      intros u v [->|Hu] Hv; auto.
    + intros ((H1 & H2) & H3 & H4). repeat split; auto.
Qed.

Fixpoint first_some {A B} (f : A -> option B) (l : list A) : option B :=
  match l with
  | [] => None
  | x :: r => match f x with Some y => Some y | None => first_some f r end
  end.

Lemma first_some_Some {A B} (f : A -> option B) l y :
  first_some f l = Some y -> exists x, In x l /\ f x = Some y.
Proof.
  induction l as [|x r IH]; simpl; [discriminate|].
  destruct (f x) eqn:E; intros H.
  - inversion H; subst. eauto.
  - destruct (IH H) as (z & Hz & Hf). eauto.
Qed.

Lemma filter_filter_comm {A} (f g : A -> bool) l : filter f (filter g l) = filter g (filter f l).
Proof.
  induction l as [|a l IH]; simpl; auto.
  destruct (g a) eqn:G, (f a) eqn:F; simpl; rewrite ?G, ?F, ?IH; auto.
Qed.

Lemma removelast_app_single {A} (l : list A) x : removelast (l ++ [x]) = l.
Proof. apply removelast_last. Qed.

Lemma last_In {A} (l : list A) d : l <> [] -> In (last l d) l.
Proof.
  induction l as [|a [|b r] IH]; intros H; [congruence| simpl; auto |].
  right. apply IH. discriminate.
Qed.

Lemma removelast_last_eq {A} (l : list A) d : l <> [] -> l = removelast l ++ [last l d].
Proof. intros H. apply app_removelast_last, H. Qed.

(* ---- pairwise for symmetric relations: invariant under permutation ------------- *)

Lemma pairwise_perm {A} (R : A -> A -> Prop) (Hsym : forall a b, R a b -> R b a) l l' :
  Permutation l l' -> pairwise R l -> pairwise R l'.
Proof.
  induction 1; simpl; intros Hp; auto.
  - destruct Hp as [Hf Hp]. split; auto. eapply Permutation_Forall; eauto.
  - destruct Hp as [Hy [Hx Hp]]. inversion Hy; subst. repeat split; auto.
Qed.

Lemma pairwise_In_distinct {A} (R : A -> A -> Prop) (Hsym : forall a b, R a b -> R b a) l a b :
  pairwise R l -> In a l -> In b l -> a <> b -> R a b.
Proof.
  induction l as [|x r IH]; simpl; intros Hp Ha Hb Hne; [contradiction|].
  destruct Hp as [Hf Hp]. rewrite Forall_forall in Hf.
  destruct Ha as [->|Ha], Hb as [->|Hb]; auto; try congruence.
Qed.

Lemma filter_perm {A} (f : A -> bool) l l' : Permutation l l' -> Permutation (filter f l) (filter f l').
Proof.
  induction 1; simpl; auto.
  - destruct (f x); auto.
  - destruct (f x), (f y); auto. apply perm_swap.
  - etransitivity; eauto.
Qed.

Lemma filter_all {A} (f : A -> bool) l : Forall (fun x => f x = true) l -> filter f l = l.
Proof. induction 1; simpl; auto. rewrite H. now f_equal. Qed.

Lemma pairwise_Forall2 {A} (R S T : A -> A -> Prop) (P : A -> Prop) l :
  (forall a b, P a -> P b -> R a b -> S a b -> T a b) ->
  Forall P l -> pairwise R l -> pairwise S l -> pairwise T l.
Proof.
  intros H. induction l as [|a r IH]; simpl; auto.
  intros HP [HR HRr] [HS HSr]. inversion HP; subst. split; auto.
  rewrite Forall_forall in *. intros x Hx. apply H; auto.
Qed.
