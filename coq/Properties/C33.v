(* C33 — The compactor does nothing destructive on an incomplete view.
   Property theorems only; lemmas in Proofs/C33.v.  The event lists
   Compact_events / SyncMetas_events / compactMainFn_events and the two
   groupChan facts come from Gen/C33.v, regenerated from pkg/compact/compact.go
   and cmd/thanos/compact.go on every run. *)
From Coq Require Import ZArith List Bool String.
Import ListNotations.
From Verif Require Import Lib.Corr Gen.C33 Model.C33 Proofs.C33.

(* For every sequence of reads a sync performs and EVERY position of a transient
   read failure (listing, meta.json, deletion mark, no-compact mark, any other),
   the iteration issues no mutating operation, whatever work was pending. *)
Theorem C33_no_writes_on_failed_sync : forall (op : Type) pre k post (work : list op),
  iteration (pre ++ (k, Transient) :: post) work = [].
Proof. exact @no_writes_on_failed_sync. Qed.
Print Assumptions C33_no_writes_on_failed_sync.

(* The work list (plans, marks, deletions) is consulted only when every read was
   benign: found, not found (partial block / no marker) or corrupted JSON. *)
Theorem C33_partial_view_never_planned : forall (op : Type) reads (work : list op) o,
  In o (iteration reads work) -> Forall benign reads /\ In o work.
Proof. exact @partial_view_never_planned. Qed.
Print Assumptions C33_partial_view_never_planned.

Theorem C33_sync_error_classification : forall reads,
  sync_error reads = false <-> Forall benign reads.
Proof. exact sync_ok_iff. Qed.
Print Assumptions C33_sync_error_classification.

(* not vacuous: on a complete view the iteration does its work *)
Theorem C33_complete_view_runs_work : forall (op : Type) reads (work : list op),
  Forall benign reads -> iteration reads work = work.
Proof. exact @complete_view_runs_work. Qed.
Print Assumptions C33_complete_view_runs_work.

(* The predicate evaluated on the real compactor's runs holds of the model. *)
Theorem C33_model_pred : forall reads n, existsb is_transient reads = true ->
  List.length (iteration reads (repeat tt n)) = 0%nat.
Proof. exact model_pred. Qed.
Print Assumptions C33_model_pred.

(* Statement order in the CURRENT sources: in BucketCompactor.Compact the calls
   DeleteMarkedBlocks and GarbageCollect come after `c.sy.SyncMetas` whose error
   returns, in every turn of the loop; group compaction (g.Compact,
   RepairIssue347, MarkForNoCompact) runs only in workers fed from groupChan,
   which is fed only after that check; in cmd/thanos compactMainFn downsampling,
   retention and partial-upload cleanup each come after a `sy.SyncMetas` whose
   error returns on the same path; Syncer.SyncMetas returns the fetcher's error
   before it stores the new view; and the error-return lines between a failing
   read and SyncMetas are in place (error_lines_ok): ReadMarker and loadMeta return
   a failed Get, fetchMetadata returns lister/worker errors and sends every
   loadMeta error other than not-found/corrupted to metaErrs, both marker filters
   keep any other ReadMarker error in lastErr and return it, fetch returns the
   fetchMetadata error, the first filter error and "incomplete view". *)
Theorem C33_mutations_dominated_by_sync : order_facts_ok = true.
Proof. exact order_facts. Qed.
Print Assumptions C33_mutations_dominated_by_sync.

(* What a successful scan means at each mutating call. *)
Theorem C33_scanner_sound : forall syncs muts pre m post s1,
  scan syncs muts st0 (pre ++ ("call"%string, m) :: post) <> None ->
  scan syncs muts st0 pre = Some s1 -> depth s1 = 0%nat ->
  mem_str m syncs = false -> mem_str m muts = true ->
  exists l, synced s1 = Some l.
Proof. exact scan_mutation_synced. Qed.
Print Assumptions C33_scanner_sound.

(* ---- the structured model: bucket contents x set of failing reads --------------------

   [sync conc f b] models Syncer.SyncMetas over MetaFetcher (Recursive or Concurrent
   lister; loadMeta's classification: meta.json missing / not JSON => partial block,
   unexpected version or any other read error => incomplete view), then
   IgnoreDeletionMarkFilter, DeduplicateFilter (the C31 model) and
   GatherNoCompactionMarkFilter with their marker reads and error propagation.
   [f : rid -> bool] says which reads fail.  [performed] are the reads the sync can
   issue under f.  A Get can fail when it is opened (RMeta/RDel/RNoc) or in the middle of
   its body after a reader was returned (RMetaBody/RDelBody/RNocBody).  Read errors are
   classified (classify_meta / classify_marker): not found => partial block / no marker,
   content read completely but not JSON => corrupted partial block / marker ignored,
   ANY OTHER error (open failure, body read failure, unexpected version) => incomplete
   view / filter error.  For EVERY bucket, EVERY fault set and EVERY performed read that
   fails — listing, an Exists probe, a meta.json, a deletion mark, a no-compact mark, at
   the open or in the body — the iteration (cleaner deletions, garbage-collection marks,
   any group compaction work, removal of old partial uploads) is empty. *)
Theorem C33_no_writes_on_failed_sync_full : forall conc cleaner old f b r (work : sview -> list cop),
  performed conc f b r = true -> f r = true -> iteration2 conc cleaner old f b work = [].
Proof. exact iteration2_no_writes. Qed.
Print Assumptions C33_no_writes_on_failed_sync_full.

(* Every single fault position: failing exactly one of the reads a fault-free sync
   performs (in whatever order they are issued) empties the iteration. *)
Theorem C33_every_fault_position : forall conc cleaner old b r (work : sview -> list cop),
  In r (read_order conc b) -> iteration2 conc cleaner old (only r) b work = [].
Proof. exact single_fault_no_writes. Qed.
Print Assumptions C33_every_fault_position.

(* A view exists only if no performed read failed; it lists only blocks whose meta.json
   was read successfully and that the deletion-mark filter did not hide (a partial view is
   never handed to the planner); and its "partial" set holds only blocks whose meta.json is
   really missing or really not JSON — never a block whose meta.json read failed (such a
   block would be removed as an aborted partial upload). *)
Theorem C33_view_is_complete : forall conc f b v,
  sync conc f b = Some v ->
  (forall r, performed conc f b r = true -> f r = false) /\
  (forall i, In i (v_metas v) ->
     exists x, In x b /\ sid x = i /\ smeta x = MOk /\ meta_faulted f x = false /\ del_hidden x = false) /\
  (forall i, In i (v_partial v) ->
     exists x, In x b /\ sid x = i /\ (smeta x = MMissing \/ (smeta x = MCorrupt /\ meta_faulted f x = false))).
Proof. exact view_is_complete. Qed.
Print Assumptions C33_view_is_complete.

(* The two levels agree: the structured sync fails exactly when its trace of
   (kind, outcome) reads contains a failing read in the sense of the trace model. *)
Theorem C33_sync_trace : forall conc f b, is_none (sync conc f b) = sync_error (trace conc f b).
Proof. exact sync_trace. Qed.
Print Assumptions C33_sync_trace.

(* not vacuous: without faults and unexpected versions the sync yields a view *)
Theorem C33_sync_succeeds : forall conc b, Forall well_versioned b -> exists v, sync conc no_faults b = Some v.
Proof. exact sync_succeeds. Qed.
Print Assumptions C33_sync_succeeds.

(* Non-vacuity: a sync over two blocks where the second meta.json read fails;
   and the scanner rejects a function that garbage-collects before syncing. *)
Example C33_nonvacuous :
  iteration [(KList, Found); (KMeta, Found); (KMeta, Transient); (KDelMark, NotFound)] [1%nat; 2%nat] = []
  /\ iteration [(KList, Found); (KMeta, Corrupt); (KDelMark, NotFound)] [1%nat; 2%nat] = [1%nat; 2%nat]
  /\ dominated Compact_syncs Compact_muts
       [("call", "c.sy.GarbageCollect"); ("call", "c.sy.SyncMetas"); ("if", "err != nil"); ("return", "err"); ("endif", "")]%string = false
  /\ dominated Compact_syncs Compact_muts
       [("call", "c.sy.SyncMetas"); ("if", "err != nil"); ("call", "log"); ("endif", ""); ("call", "c.sy.GarbageCollect")]%string = false
  /\ dominated Compact_syncs Compact_muts
       [("call", "c.sy.SyncMetas"); ("if", "err != nil"); ("return", "err"); ("endif", ""); ("call", "c.sy.GarbageCollect")]%string = true.
Proof. vm_compute. repeat split; reflexivity. Qed.

(* Non-vacuity of the structured model: five blocks (ok, old-marked, corrupt meta,
   partial, no-compact): the view, the partial set, the cleaner's deletion, and a
   failing no-compact-mark read of block 1. *)
Example C33_structured_nonvacuous :
  let b := [mk_bs 1 0 [1] MOk DNone NOk; mk_bs 2 1 [2] MOk (DOk true true) NNone;
            mk_bs 3 2 [3] MCorrupt DNone NNone; mk_bs 4 3 [4] MMissing DNone NNone;
            mk_bs 5 0 [1] MOk DNone NNone] in
  option_map (fun v => (v_metas v, v_partial v, v_dups v, v_nocompact v)) (sync false no_faults b)
    = Some ([1], [3; 4], [5], [1])%Z
  /\ iteration2 false true true no_faults b (fun _ => []) = [CDelete 2; CMarkDeletion 5; CDelete 3; CDelete 4]
  /\ performed false (only (RNoc 1)) b (RNoc 1) = true
  /\ iteration2 false true true (only (RNoc 1)) b (fun _ => [COther 7]) = []
  /\ iteration2 false true true (only (RMetaBody 1)) b (fun _ => [COther 7]) = []
  /\ option_map v_partial (sync false (only (RMetaBody 3)) b) = None
  /\ performed false no_faults b (RNoc 2) = false.
Proof. vm_compute. repeat split; reflexivity. Qed.
