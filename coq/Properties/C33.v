(* C33 — The compactor does nothing destructive on an incomplete view.
   Property theorems only; lemmas in Proofs/C33.v.  The event lists
   Compact_events / SyncMetas_events / compactMainFn_events and the two
   groupChan facts come from Gen/C33.v, regenerated from pkg/compact/compact.go
   and cmd/thanos/compact.go on every run. *)
From Coq Require Import ZArith List Bool String.
Import ListNotations.
From Verif Require Import Lib.Corr Gen.C33 Model.C33 Proofs.C33.

(* For every sequence of reads a sync performs and EVERY position of a transient
   read failure (listing, meta.json, deletion mark, no-compact mark, any other),
   the iteration issues no mutating operation, whatever work was pending. *)
Theorem C33_no_writes_on_failed_sync : forall (op : Type) pre k post (work : list op),
  iteration (pre ++ (k, Transient) :: post) work = [].
Proof. exact @no_writes_on_failed_sync. Qed.
Print Assumptions C33_no_writes_on_failed_sync.

(* The work list (plans, marks, deletions) is consulted only when every read was
   benign: found, not found (partial block / no marker) or corrupted JSON. *)
Theorem C33_partial_view_never_planned : forall (op : Type) reads (work : list op) o,
  In o (iteration reads work) -> Forall benign reads /\ In o work.
Proof. exact @partial_view_never_planned. Qed.
Print Assumptions C33_partial_view_never_planned.

Theorem C33_sync_error_classification : forall reads,
  sync_error reads = false <-> Forall benign reads.
Proof. exact sync_ok_iff. Qed.
Print Assumptions C33_sync_error_classification.

(* not vacuous: on a complete view the iteration does its work *)
Theorem C33_complete_view_runs_work : forall (op : Type) reads (work : list op),
  Forall benign reads -> iteration reads work = work.
Proof. exact @complete_view_runs_work. Qed.
Print Assumptions C33_complete_view_runs_work.

(* The predicate evaluated on the real compactor's runs holds of the model. *)
Theorem C33_model_pred : forall reads n, existsb is_transient reads = true ->
  List.length (iteration reads (repeat tt n)) = 0%nat.
Proof. exact model_pred. Qed.
Print Assumptions C33_model_pred.

(* Statement order in the CURRENT sources: in BucketCompactor.Compact the calls
   DeleteMarkedBlocks and GarbageCollect come after `c.sy.SyncMetas` whose error
   returns, in every turn of the loop; group compaction (g.Compact,
   RepairIssue347, MarkForNoCompact) runs only in workers fed from groupChan,
   which is fed only after that check; in cmd/thanos compactMainFn downsampling,
   retention and partial-upload cleanup each come after a `sy.SyncMetas` whose
   error returns on the same path; Syncer.SyncMetas returns the fetcher's error
   before it stores the new view. *)
Theorem C33_mutations_dominated_by_sync : order_facts_ok = true.
Proof. exact order_facts. Qed.
Print Assumptions C33_mutations_dominated_by_sync.

(* What a successful scan means at each mutating call. *)
Theorem C33_scanner_sound : forall syncs muts pre m post s1,
  scan syncs muts st0 (pre ++ ("call"%string, m) :: post) <> None ->
  scan syncs muts st0 pre = Some s1 -> depth s1 = 0%nat ->
  mem_str m syncs = false -> mem_str m muts = true ->
  exists l, synced s1 = Some l.
Proof. exact scan_mutation_synced. Qed.
Print Assumptions C33_scanner_sound.

(* Non-vacuity: a sync over two blocks where the second meta.json read fails;
   and the scanner rejects a function that garbage-collects before syncing. *)
Example C33_nonvacuous :
  iteration [(KList, Found); (KMeta, Found); (KMeta, Transient); (KDelMark, NotFound)] [1%nat; 2%nat] = []
  /\ iteration [(KList, Found); (KMeta, Corrupt); (KDelMark, NotFound)] [1%nat; 2%nat] = [1%nat; 2%nat]
  /\ dominated Compact_syncs Compact_muts
       [("call", "c.sy.GarbageCollect"); ("call", "c.sy.SyncMetas"); ("if", "err != nil"); ("return", "err"); ("endif", "")]%string = false
  /\ dominated Compact_syncs Compact_muts
       [("call", "c.sy.SyncMetas"); ("if", "err != nil"); ("call", "log"); ("endif", ""); ("call", "c.sy.GarbageCollect")]%string = false
  /\ dominated Compact_syncs Compact_muts
       [("call", "c.sy.SyncMetas"); ("if", "err != nil"); ("return", "err"); ("endif", ""); ("call", "c.sy.GarbageCollect")]%string = true.
Proof. vm_compute. repeat split; reflexivity. Qed.
