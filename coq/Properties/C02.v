(* C02 — Counter deduplication never fabricates counter resets.
   Property theorems only (proofs: Proofs/C02.v, Lib/Dedup_Counter.v, Lib/Dedup_Sim.v,
   Lib/Dedup_Refine.v). [counter_iter f r] is the model of
   dedup.NewSeriesSet(set, "rate"|"irate"|"increase"|"resets", "penalty").At().Iterator(nil)
   for the replicas f :: r of one series: every replica is wrapped in
   counterErrAdjustSeriesIterator and dedupSeriesIterator.Next adjusts both sides
   to the last value on every replica switch. Values are exact integers here;
   float64 rounding is NOT covered by these theorems (the implementation's own
   output on non-integer floats is checked by the harness; the 1-ulp decrease that
   rounding produced is repaired by repo_patches/C02-fix.patch). *)
From Coq Require Import ZArith List Bool.
Import ListNotations.
From Verif Require Import Lib.Corr Lib.Dedup_Iter Lib.Dedup_SpecFacts Gen.C02 Model.C02 Proofs.C02.
Open Scope Z_scope.

(* Source facts the model relies on: which functions are counters, the guard and
   update of adjustAtValue, At adds errAdjust, the condition of the deferred adjust. *)
Theorem C02_source_shape : adjust_shape_ok = true.
Proof. exact source_shape. Qed.
Print Assumptions C02_source_shape.

(* For ANY replicas (2..n, also 1): iterating terminates and yields exactly the
   timestamps of the non-counter penalty merge (adjusting values never changes
   which samples are picked). *)
Theorem C02_same_samples_as_plain_merge : forall f r,
  exists out, drain (counter_iter f r) = Some out /\ map ts out = map ts (pmerge_all cfg f r).
Proof. exact counter_drain. Qed.
Print Assumptions C02_same_samples_as_plain_merge.

(* The property: if no replica's value ever decreases, the deduplicated series
   never decreases, wherever the merge switches between replicas; for every
   number of replicas, every timing, gaps and start values. *)
Theorem C02_monotone : forall f r,
  Forall values_never_decrease (f :: r) ->
  exists out, drain (counter_iter f r) = Some out /\ values_never_decrease out
              /\ map ts out = map ts (pmerge_all cfg f r).
Proof. exact counter_monotone. Qed.
Print Assumptions C02_monotone.

(* The same for every reader program of Next / Seek calls (PromQL seeks): the
   values it sees never decrease. *)
Theorem C02_reader_monotone : forall f r ops,
  Forall values_never_decrease (f :: r) ->
  proto_ok false None (pmerge_all cfg f r) ops = true ->
  obs_nondecr_from None (obs_vals (run_prog (counter_iter f r) ops)) = true.
Proof. exact counter_reader_monotone. Qed.
Print Assumptions C02_reader_monotone.

(* The boolean predicate evaluated by the check on the implementation's own
   output holds of the model's output. *)
Theorem C02_pred : forall f r ops,
  proto_ok false None (pmerge_all cfg f r) ops = true ->
  exists full reader,
    drain (counter_iter f r) = Some full /\ run_prog (counter_iter f r) ops = reader /\
    corr_ok (CInt (f :: r) ops full reader) = true /\
    pred_ok (CInt (f :: r) ops full reader) = true.
Proof. exact model_pred. Qed.
Print Assumptions C02_pred.

(* Non-vacuity: the example of issue 2401 (replica 2 restarted and lags behind):
   without the adjustment the switch from b (47) to a (40) would look like a reset. *)
Example C02_nonvacuous :
  let a := [(10000, 20); (20000, 30); (30000, 40); (100000, 40); (110000, 45)] in
  let b := [(15000, 25); (25000, 35); (35000, 45); (45000, 47); (55000, 47)] in
  Forall values_never_decrease [a; b]
  /\ drain (counter_iter a [b]) = Some [(10000, 20); (20000, 30); (30000, 40); (55000, 47); (110000, 47)]
  /\ drain (tower false cfg a [b]) = Some [(10000, 20); (20000, 30); (30000, 40); (55000, 47); (110000, 45)].
Proof. split; [repeat constructor|]. vm_compute. split; reflexivity. Qed.
