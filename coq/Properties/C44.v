(* C44 — Sharded query execution returns the unsharded result.
   Stage reached (partial): (1) the shard matcher partitions the series, for every hash
   function; (2) the analyzer's answer is compatible with every grouping construct of the
   query, for every query AST. The remaining stage — a PromQL semantics and
     forall e series n, analyze e shardable ->
       merge (map (fun i => eval e (series of shard i)) [0..n)) = eval e series
   — is NOT proved here (statement kept; DESIGN.md §4 C44_sound). *)
From Coq Require Import ZArith NArith List Bool.
Import ListNotations.
From Verif Require Import Lib.Corr Gen.C44 Model.C44 Proofs.C44.

(* Every series belongs to exactly one shard: for any hash H, any sharding label set (by or
   without), any n >= 1 and any label list, exactly one index below n matches. *)
Theorem C44_partition : forall (H : str -> N) by_ set n ls, (0 < n)%N ->
  let i := shard_of H by_ set n ls in
  (i < n)%N /\ matches H by_ set n i ls = true /\ (forall j, matches H by_ set n j ls = true -> j = i).
Proof. exact exactly_one_shard. Qed.
Print Assumptions C44_partition.

(* Series that agree on the sharding labels (the same selected name/value pairs, in order)
   belong to the same shard, for any hash. *)
Theorem C44_same_labels_same_shard : forall (H : str -> N) by_ set n ls1 ls2,
  filter (fun l => selected by_ set (fst l)) ls1 = filter (fun l => selected by_ set (fst l)) ls2 ->
  shard_of H by_ set n ls1 = shard_of H by_ set n ls2.
Proof. exact same_projection_same_shard. Qed.
Print Assumptions C44_same_labels_same_shard.

(* the same through the predicate evaluated on the implementation's match results *)
Theorem C44_partition_pred : forall (H : str -> N) by_ set n ls tbl, (0 < n)%N ->
  pred_ok (CShard by_ set n ls tbl (map (fun i => matches H by_ set n (N.of_nat i) ls) (seq 0 (N.to_nat n)))) = true.
Proof. exact shard_pred. Qed.
Print Assumptions C44_partition_pred.

(* For every query AST: if the analyzer answers "shard by S" then S lies inside every by(...)
   and on(...) label set of the query and avoids every without(...), ignoring(...)+__name__,
   label_replace/label_join destination and (under histogram_quantile) le; if it answers
   "shard without S" then the query has no by/on construct and S contains all those sets. *)
Theorem C44_scope_compatible_partial : forall e by_ S,
  analyze e = St by_ S -> compatible (all_scopes e) by_ S = true.
Proof. exact analyze_compatible. Qed.
Print Assumptions C44_scope_compatible_partial.

Theorem C44_scope_compatible_reading : forall ss by_ S L b,
  compatible ss by_ S = true -> In (L, b) ss ->
  if by_ then (if b then forall x, In x S -> In x L else forall x, In x S -> ~ In x L)
  else b = false /\ forall x, In x L -> In x S.
Proof. exact compatible_in. Qed.
Print Assumptions C44_scope_compatible_reading.

Theorem C44_analyze_pred : forall e by_ S, analyze e = St by_ S ->
  pred_ok (CAnalyze e (shardable (analyze e)) by_ S) = true.
Proof. exact analyze_pred. Qed.
Print Assumptions C44_analyze_pred.

(* ---- non-vacuity ---- *)
Definition la : str := [97%N]. Definition lb : str := [98%N]. Definition lpod : str := [112;111;100]%N.

(* sum by (a, pod) ( x * on(a, pod, b) y ) / ignoring(b) z : shardable by {a, pod} *)
Example C44_analyze_nonvacuous :
  let e := EBin (Some (false, [lb]))
             (EAgg false [la; lpod] None (EBin (Some (true, [la; lpod; lb])) ELeaf ELeaf)) ELeaf in
  analyze e = St true [la; lpod] /\ shardable (analyze e) = true
  /\ compatible (all_scopes e) true [la; lpod] = true.
Proof. vm_compute. repeat split; reflexivity. Qed.

(* label_replace writing to pod removes pod from the sharding labels *)
Example C44_dynamic_nonvacuous :
  analyze (EAgg false [la; lpod] None (ECall s_label_replace (Some lpod) [ELeaf; ELeaf; ELeaf; ELeaf; ELeaf]))
  = St true [la].
Proof. vm_compute. reflexivity. Qed.

Example C44_partition_nonvacuous :
  let H := fun b : str => N.of_nat (length b) in
  shard_of H true [la] 3 [(la, [120%N]); (lb, [121%N])] = 1%N
  /\ map (fun i => matches H true [la] 3 (N.of_nat i) [(la, [120%N]); (lb, [121%N])]) (seq 0 3) = [false; true; false].
Proof. vm_compute. split; reflexivity. Qed.
