(* C44 — Sharded query execution returns the unsharded result.
   Proved: (1) the shard matcher partitions the series, for every hash function;
   (2) the analyzer's answer is compatible with every grouping construct, for every query AST;
   (3) for the mini-PromQL with a denotational semantics in Model/C44.v — vector selectors with
   = / != matchers, sum / count / min / max aggregations with by / without and one-to-one
   + - * with on / ignoring, nested to any depth — C44_sound: whenever the analyzer says shardable (and the metric name is treated as
   below), evaluating the query on every shard and concatenating the results gives the
   unsharded result up to order, for every hash function, shard count and data set.
   Refuted: without(...) aggregations drop the metric name although the analyzer does not
   count __name__ among their labels; with series of two metric names the sharded result
   differs (C44_without_drops_name_refuted; reproduced on the real engine: corpus/C44).
   partial: functions, group_left/right, comparison and set operators and the other
   aggregations are outside the semantics (only (1) and (2) are proved for them); when the
   unsharded evaluation is an engine error nothing is claimed. *)
From Coq Require Import ZArith NArith List Bool Permutation.
Import ListNotations.
From Verif Require Import Lib.Corr Gen.C44 Model.C44 Proofs.C44 Proofs.C44_sound.

(* Every series belongs to exactly one shard: for any hash H, any sharding label set (by or
   without), any n >= 1 and any label list, exactly one index below n matches. *)
Theorem C44_partition : forall (H : str -> N) by_ set n ls, (0 < n)%N ->
  let i := shard_of H by_ set n ls in
  (i < n)%N /\ matches H by_ set n i ls = true /\ (forall j, matches H by_ set n j ls = true -> j = i).
Proof. exact exactly_one_shard. Qed.
Print Assumptions C44_partition.

(* Series that agree on the sharding labels (the same selected name/value pairs, in order)
   belong to the same shard, for any hash. *)
Theorem C44_same_labels_same_shard : forall (H : str -> N) by_ set n ls1 ls2,
  filter (fun l => selected by_ set (fst l)) ls1 = filter (fun l => selected by_ set (fst l)) ls2 ->
  shard_of H by_ set n ls1 = shard_of H by_ set n ls2.
Proof. exact same_projection_same_shard. Qed.
Print Assumptions C44_same_labels_same_shard.

(* the same through the predicate evaluated on the implementation's match results: both entry
   points of the matcher (MatchesZLabels, used by the proxy, and MatchesLabels, used by the
   shard-aware stores) are the model's function, so each puts the series on exactly one shard
   and both on the same one *)
Theorem C44_partition_pred : forall (H : str -> N) by_ set n ls tbl, (0 < n)%N ->
  let m := map (fun i => matches H by_ set n (N.of_nat i) ls) (seq 0 (N.to_nat n)) in
  pred_ok (CShard by_ set n ls tbl m m) = true.
Proof. exact shard_pred. Qed.
Print Assumptions C44_partition_pred.

(* For every query AST: if the analyzer answers "shard by S" then S lies inside every by(...)
   and on(...) label set of the query and avoids every without(...), ignoring(...)+__name__,
   label_replace/label_join destination and (under histogram_quantile) le; if it answers
   "shard without S" then the query has no by/on construct and S contains all those sets. *)
Theorem C44_scope_compatible_partial : forall e by_ S,
  analyze e = St by_ S -> compatible (all_scopes e) by_ S = true.
Proof. exact analyze_compatible. Qed.
Print Assumptions C44_scope_compatible_partial.

Theorem C44_scope_compatible_reading : forall ss by_ S L b,
  compatible ss by_ S = true -> In (L, b) ss ->
  if by_ then (if b then forall x, In x S -> In x L else forall x, In x S -> ~ In x L)
  else b = false /\ forall x, In x L -> In x S.
Proof. exact compatible_in. Qed.
Print Assumptions C44_scope_compatible_reading.

Theorem C44_analyze_pred : forall e by_ S, analyze e = St by_ S ->
  pred_ok (CAnalyze e (shardable (analyze e)) by_ S) = true.
Proof. exact analyze_pred. Qed.
Print Assumptions C44_analyze_pred.

(* ---- stage 2: semantics and soundness for selectors, aggregations and binary operations ---- *)

(* key lemma: when the evaluation of e on all data succeeds with V, its evaluation on shard i
   succeeds with exactly the samples of V that belong to shard i (as lists, not only as sets) *)
Theorem C44_shard_commutes : forall (H : str -> N) by_ set n e, sound_for by_ set e = true -> forall D V i,
  qeval e D = Some V ->
  qeval e (filter (in_shard H by_ set n i) D) = Some (filter (in_shard H by_ set n i) V).
Proof. exact shard_commutes. Qed.
Print Assumptions C44_shard_commutes.

(* C44_sound for the mini-PromQL (selectors; sum/count/min/max by/without; one-to-one + - *
   with on/ignoring; nested to any depth): if the analyzer (on the query as it sees it) answers
   "shard by / without set", the metric name is on the right side of the sharding set (not a
   by-sharding label when some node drops the name; always a without-sharding label), and the
   unsharded evaluation succeeds with V, then every shard succeeds and the concatenated shard
   results are a permutation of V — for every hash, every n >= 1, every data set.
   partial: when the unsharded evaluation is an error nothing is claimed (a shard whose left
   operand is empty skips the duplicate check, so the sharded run may succeed). *)
Theorem C44_sound : forall (H : str -> N) n e D V by_ set, (0 < n)%N ->
  analyze (erase e) = St by_ set -> name_ok by_ set e = true -> qeval e D = Some V ->
  exists W, sharded H by_ set n e D = Some W /\ Permutation W V.
Proof. exact sound. Qed.
Print Assumptions C44_sound.

(* the frontend's MergeResponse (one sample per label set, the first seen) applied to the shard
   results changes nothing: they have pairwise different label sets when the stored series do *)
Theorem C44_sound_merged : forall (H : str -> N) n e D V by_ set, (0 < n)%N ->
  analyze (erase e) = St by_ set -> name_ok by_ set e = true ->
  has_dup (map fst D) = false -> qeval e D = Some V ->
  exists rs, all_some (shard_results H by_ set n e D) = Some rs
    /\ Permutation (concat rs) V /\ merge_vectors rs = concat rs.
Proof. exact sound_merged. Qed.
Print Assumptions C44_sound_merged.

Theorem C44_sound_pred : forall (H : str -> N) n e D by_ set tbl, (0 < n)%N ->
  analyze (erase e) = St by_ set -> name_ok by_ set e = true -> has_dup (map fst D) = false ->
  pred_ok (CEval e D n by_ set tbl (qeval e D) (shard_results H by_ set n e D)
                 (option_map merge_vectors (all_some (shard_results H by_ set n e D)))) = true.
Proof. exact sound_pred. Qed.
Print Assumptions C44_sound_pred.

(* the analyzer's guarantee is enough except for the metric name *)
Theorem C44_analyzer_gives_sound_for : forall e by_ set,
  compatible (scopes (erase e)) by_ set = true -> name_ok by_ set e = true -> sound_for by_ set e = true.
Proof. exact analyzer_sound_for. Qed.
Print Assumptions C44_analyzer_gives_sound_for.

(* sum without (a) ({job="j"}) over m1{a="x",job="j"} = 1 and m2{a="x",job="j"} = 2: the analyzer
   says "shardable without [a]"; the two series differ in __name__, which the matcher hashes, so
   they can sit on different shards, each shard returns its own {job="j"} sample, and the frontend's
   MergeResponse silently keeps the first of the two (value 1 instead of 3) *)
Definition w_job : str := [106;111;98]%N. Definition w_j : str := [106%N].
Definition w_q : qexpr := QAgg ASum true [[97%N]] (QSel [MEq w_job w_j]).
Definition w_D : vector :=
  [([(s_name, [109;49]%N); ([97%N], [120%N]); (w_job, w_j)], 1%Z);
   ([(s_name, [109;50]%N); ([97%N], [120%N]); (w_job, w_j)], 2%Z)].
Definition w_H (b : str) : N := fold_right N.add 0%N b.

Theorem C44_without_drops_name_refuted :
  analyze (erase w_q) = St false [[97%N]] /\ shardable (analyze (erase w_q)) = true
  /\ qeval w_q w_D = Some [([(w_job, w_j)], 3%Z)]
  /\ sharded w_H false [[97%N]] 2 w_q w_D = Some [([(w_job, w_j)], 1%Z); ([(w_job, w_j)], 2%Z)]
  /\ ~ Permutation [([(w_job, w_j)], 1%Z); ([(w_job, w_j)], 2%Z)] [([(w_job, w_j)], 3%Z)]
  /\ merge_vectors [[([(w_job, w_j)], 1%Z)]; [([(w_job, w_j)], 2%Z)]] = [([(w_job, w_j)], 1%Z)].
Proof.
  split; [vm_compute; reflexivity|]. split; [vm_compute; reflexivity|].
  split; [vm_compute; reflexivity|]. split; [vm_compute; reflexivity|].
  split; [|vm_compute; reflexivity].
  intro P. apply Permutation_length in P. vm_compute in P. discriminate.
Qed.
Print Assumptions C44_without_drops_name_refuted.

(* ---- non-vacuity ---- *)
Definition la : str := [97%N]. Definition lb : str := [98%N]. Definition lpod : str := [112;111;100]%N.

(* sum by (a, pod) ( x * on(a, pod, b) y ) / ignoring(b) z : shardable by {a, pod} *)
Example C44_analyze_nonvacuous :
  let e := EBin (Some (false, [lb]))
             (EAgg false [la; lpod] None (EBin (Some (true, [la; lpod; lb])) ELeaf ELeaf)) ELeaf in
  analyze e = St true [la; lpod] /\ shardable (analyze e) = true
  /\ compatible (all_scopes e) true [la; lpod] = true.
Proof. vm_compute. repeat split; reflexivity. Qed.

(* label_replace writing to pod removes pod from the sharding labels *)
Example C44_dynamic_nonvacuous :
  analyze (EAgg false [la; lpod] None (ECall s_label_replace (Some lpod) [ELeaf; ELeaf; ELeaf; ELeaf; ELeaf]))
  = St true [la].
Proof. vm_compute. reflexivity. Qed.

Example C44_partition_nonvacuous :
  let H := fun b : str => N.of_nat (length b) in
  shard_of H true [la] 3 [(la, [120%N]); (lb, [121%N])] = 1%N
  /\ map (fun i => matches H true [la] 3 (N.of_nat i) [(la, [120%N]); (lb, [121%N])]) (seq 0 3) = [false; true; false].
Proof. vm_compute. split; reflexivity. Qed.

(* sum by (a) (count by (a, pod) ({job="j", pod!="y"})): hypotheses of C44_sound hold *)
Example C44_sound_nonvacuous :
  let e := QAgg ASum false [la] (QAgg ACount false [la; lpod] (QSel [MEq w_job w_j; MNeq lpod [121%N]])) in
  analyze (erase e) = St true [la] /\ name_ok true [la] e = true /\ sound_for true [la] e = true
  /\ qeval e [([(s_name, [109;49]%N); (la, [120%N]); (w_job, w_j); (lpod, [120%N])], 5%Z);
              ([(s_name, [109;50]%N); (la, [120%N]); (w_job, w_j); (lpod, [122%N])], 7%Z);
              ([(s_name, [109;49]%N); (la, [121%N]); (w_job, w_j)], 1%Z)]
     = Some [([(la, [120%N])], 2%Z); ([(la, [121%N])], 1%Z)].
Proof. vm_compute. repeat split; reflexivity. Qed.

(* sum by (a) ({__name__="m1"}) * on(a) sum by (a) ({__name__="m2"}): hypotheses of C44_sound hold *)
Example C44_sound_bin_nonvacuous :
  let sel := fun m => QSel [MEq s_name m] in
  let e := QBin BMul true [la] (QAgg ASum false [la] (sel [109;49]%N)) (QAgg ASum false [la] (sel [109;50]%N)) in
  analyze (erase e) = St true [la] /\ name_ok true [la] e = true
  /\ qeval e [([(s_name, [109;49]%N); (la, [120%N])], 5%Z); ([(s_name, [109;50]%N); (la, [120%N])], 7%Z);
              ([(s_name, [109;49]%N); (la, [121%N])], 2%Z)]
     = Some [([(la, [120%N])], 35%Z)].
Proof. vm_compute. repeat split; reflexivity. Qed.
