(* C23 — Failed replicated writes report retryable and permanent failures
   correctly. Property theorems only; each is closed by [exact] of a lemma from
   Proofs/C23*.v. [fan_status n q ft rs] is the HTTP status the model of
   fanoutForward + replicationErrors.Cause + writeErrors.Cause + the status
   switch of handleV1HTTP produces for n series, success threshold q, failure
   threshold ft and the replica responses rs IN ARRIVAL ORDER; the threshold
   handed to newReplicationErrors, writeQuorum, the failureThreshold
   expression, the switch arms and the expectedErrors orders come from
   Gen/C23.v, regenerated from pkg/receive/handler.go on every run.
   All theorems: any number of series, any replication factor, any outcome per
   (node, replica) among success / conflict / gRPC-unavailable / backoff-
   unavailable / not-ready / unknown error, any arrival order. *)
From Coq Require Import ZArith List Bool String.
Import ListNotations.
From Verif Require Import Lib.Corr Gen.C23 Model.C23 Proofs.C23 Proofs.C23_order Proofs.C23_dist.
Open Scope Z_scope.

(* 409 only if conflicts alone put quorum out of reach for some series. *)
Theorem C23_409_only_if_conflicts_block_quorum : forall n q ft rs,
  1 <= ft -> fan_status n q ft rs = Some 409 ->
  exists s, (s < n)%nat /\ conflicts_of s rs >= ft.
Proof. exact fan_409. Qed.
Print Assumptions C23_409_only_if_conflicts_block_quorum.

(* A failed write that a retry can still fix (no series has ft conflicts) is a 503. *)
Theorem C23_503_when_retryable : forall n q ft rs st,
  1 <= ft -> fan_status n q ft rs = Some st -> st <> 200 ->
  (forall s, (s < n)%nat -> conflicts_of s rs < ft) -> st = 503.
Proof. exact fan_503. Qed.
Print Assumptions C23_503_when_retryable.

(* The fan-out never answers 500, whatever the replicas return (and the model
   is defined on every input: the source still has the modelled skeleton). *)
Theorem C23_never_500_for_conflict_unavailable : forall n q ft rs,
  1 <= ft -> exists st, fan_status n q ft rs = Some st /\ (st = 200 \/ st = 409 \/ st = 503).
Proof. exact fan_never_500. Qed.
Print Assumptions C23_never_500_for_conflict_unavailable.

(* The status does not depend on the order in which replica responses arrive,
   when every series gets one response per replica and the thresholds are the
   ones the handler computes (q + ft = nrep + 1, q <= ft + 1). *)
Theorem C23_order_independent_status : forall n nrep q ft rs rs',
  1 <= q -> 1 <= ft -> q + ft = nrep + 1 -> q <= ft + 1 ->
  (forall s, (s < n)%nat -> responses_of s rs = nrep) ->
  Permutation.Permutation rs rs' ->
  fan_status n q ft rs = fan_status n q ft rs'.
Proof. exact fan_order_independent. Qed.
Print Assumptions C23_order_independent_status.

(* The handler's own thresholds meet those side conditions for every replication factor. *)
Theorem C23_handler_thresholds : forall rf rep, 1 <= rf -> 0 <= rep ->
  let q := success_threshold rf rep in
  let nrep := n_replicas rf rep in
  let ft := failureThreshold_expr nrep q in
  1 <= q /\ 1 <= ft /\ q + ft = nrep + 1 /\ q <= ft + 1 /\ ft = spec_ft nrep q.
Proof. exact handler_thresholds. Qed.
Print Assumptions C23_handler_thresholds.

(* The decisions of replicationErrors.Cause, writeErrors.Cause and canReturnEarly
   still have the if/return shape the hand model was written from. *)
Theorem C23_source_shape : skeleton_ok = true.
Proof. exact skeleton_holds. Qed.
Print Assumptions C23_source_shape.

(* The exact status, as a function of what the replicas answered and not of
   the order: 200 iff every series reached quorum; else 409 iff every series
   that missed quorum collected >= ft conflicts; else 503. (Subsumes the four
   theorems above under their side conditions; in particular a series whose
   conflicts tie with its unavailable responses at the threshold is a 409 in
   every arrival order.) *)
Theorem C23_status_is_spec : forall n nrep q ft rs,
  1 <= ft -> q + ft = nrep + 1 -> q <= ft + 1 ->
  (forall s, (s < n)%nat -> responses_of s rs = nrep) ->
  fan_status n q ft rs = Some (spec_status n q ft rs).
Proof. exact fan_status_is_spec. Qed.
Print Assumptions C23_status_is_spec.

(* Whole request (replica header, bad replica, placement by the hashring,
   distribution of series to (node, replica) writes, one response per write):
   the model is defined and the boolean predicate the check evaluates on the
   implementation's own status — the specification above with the quorum
   stated independently of the source — holds of the model's status. *)
Theorem C23_request_pred : forall rf rep place ws, 1 <= rf -> 0 <= rep ->
  (forall s, (s < List.length place)%nat -> responses_of s (resps_of place ws) = n_replicas rf rep) ->
  exists st, handle rf rep place ws = Some st /\ pred_ok (CFan rf rep place ws st) = true.
Proof. exact handle_pred. Qed.
Print Assumptions C23_request_pred.

(* The same with the side condition replaced by the shape of the forwarded
   writes: distinct (node, replica) destinations that are exactly the hashring
   placements of the request's series on its replicas (C22 proves that the
   model of distributeTimeseriesToReplicas + sendWrites produces exactly one
   response for each of them). *)
Theorem C23_request_pred_structural : forall rf rep place ws, 1 <= rf -> 0 <= rep ->
  NoDup (map write_dest ws) ->
  (forall d, In d (map write_dest ws) <->
     exists s r, (s < List.length place)%nat /\ In r (replicas_of rf rep) /\ d = (placed place s r, r)) ->
  exists st, handle rf rep place ws = Some st /\ pred_ok (CFan rf rep place ws st) = true.
Proof. exact handle_pred_structural. Qed.
Print Assumptions C23_request_pred_structural.

(* The repaired defect, kept as a theorem about the model with the OLD choice
   es.threshold = successThreshold: replication factor 4, one series, two
   conflicts then two successes -> nil cause -> HTTP 500. *)
Theorem C23_success_threshold_refuted :
  let q := writeQuorum 4 in let ft := failureThreshold_expr 4 q in
  loop q q ft [sst0] [([0%nat], KConflict); ([0%nat], KConflict); ([0%nat], KOk); ([0%nat], KOk)]
    = Some (Failed CNil)
  /\ status_of CNil = Some 500.
Proof. exact success_threshold_refuted. Qed.
Print Assumptions C23_success_threshold_refuted.

(* Non-vacuity: rf 4 (q 3, ft 2), two series over 5 nodes; series 0 gets two
   conflicts -> 409; with one conflict and one unavailable instead -> 503;
   one series, two unavailable THEN two conflicts (the tie) -> 409. *)
Example C23_nonvacuous :
  handle 4 0 [[0;1;2;3];[1;2;3;4]]%nat
    [(1,1,KConflict);(0,0,KConflict);(2,2,KOk);(3,3,KOk);(1,0,KOk);(2,1,KOk);(3,2,KOk);(4,3,KOk)]%nat = Some 409
  /\ handle 4 0 [[0;1;2;3];[1;2;3;4]]%nat
    [(1,1,KConflict);(0,0,KUnavailGrpc);(2,2,KOk);(3,3,KOk);(1,0,KOk);(2,1,KOk);(3,2,KOk);(4,3,KOk)]%nat = Some 503
  /\ handle 4 0 [[0;1;2;3]]%nat [(0,0,KUnavailGrpc);(1,1,KUnavailSent);(2,2,KConflict);(3,3,KConflict)]%nat = Some 409
  /\ responses_of 0%nat (resps_of [[0;1;2;3];[1;2;3;4]]%nat
    [(1,1,KConflict);(0,0,KConflict);(2,2,KOk);(3,3,KOk);(1,0,KOk);(2,1,KOk);(3,2,KOk);(4,3,KOk)]%nat) = 4.
Proof. vm_compute. repeat split; reflexivity. Qed.
