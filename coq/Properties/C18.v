(* C18 — Hashring places each series on distinct, deterministic, zone-balanced nodes.
   Property theorems only. Models: Lib/Hashring_Ketama.v (ketama, shared with C19),
   Model/C18.v (hashmod with the index expression regenerated from the source,
   HashWithPrefix byte feeding). Hash values are arbitrary data / an arbitrary
   function H of the statements. *)
From Coq Require Import ZArith NArith List Bool Arith Permutation.
Import ListNotations.
From Verif Require Import Lib.Corr Lib.Hashring_Ketama Lib.Hashring_KetamaFacts Gen.C18 Model.C18 Proofs.C18 Proofs.C18_Order.
Close Scope Z_scope.

(* Determinism in (tenant, labels): for EVERY hash function H and buffer
   capacity, the buffer path and the streaming path of labelpb.HashWithPrefix
   hash the same byte string  tenant 0xff (name 0xff value 0xff)*. *)
Theorem C18_hash_input_paths_equal : forall (H : list N -> Z) cap tenant lbls,
  hash_with_prefix H cap tenant lbls = H (hash_input tenant lbls).
Proof. exact hash_with_prefix_eq. Qed.
Print Assumptions C18_hash_input_paths_equal.

(* Ketama, any endpoints / zones / sections per node / section hashes / series
   hash v: whenever the ring is built, the rf nodes answered for n = 0..rf-1
   are pairwise distinct valid endpoints. *)
Theorem C18_ketama_distinct : forall eps rf v a,
  sections_of 0 eps <> [] ->
  ketama_answers eps rf v = Some a ->
  length a = rf /\ NoDup a /\ forall e, In e a -> e < length eps.
Proof. exact ketama_answers_distinct. Qed.
Print Assumptions C18_ketama_distinct.

(* Ketama zone balance: whenever the ring is built, for every series the
   numbers of replicas in any two configured zones differ by at most one. *)
Theorem C18_ketama_zone_balance : forall eps rf v a,
  sections_of 0 eps <> [] ->
  ketama_answers eps rf v = Some a ->
  forall z1 z2, In z1 (az_set [] eps) -> In z2 (az_set [] eps) ->
    zone_count eps a z1 <= zone_count eps a z2 + 1.
Proof. exact ketama_answers_balanced. Qed.
Print Assumptions C18_ketama_zone_balance.

(* ... and both as the boolean clauses the check evaluates on the implementation's answers *)
Theorem C18_ketama_pred : forall eps rf v a,
  sections_of 0 eps <> [] ->
  ketama_answers eps rf v = Some a ->
  (length a =? rf) && nodup_nat a && forallb (fun e => e <? length eps) a && balanced eps a = true.
Proof. exact ketama_pred_clauses. Qed.
Print Assumptions C18_ketama_pred.

(* Hashmod: the nodes for two different replica numbers are different
   (distinct addresses; h + n below 2^64 is not needed over Z, see the wrap remark below). *)
Theorem C18_hashmod_distinct : forall addrs h n1 n2,
  NoDup addrs -> (0 <= h)%Z -> n1 < n2 < length addrs ->
  exists a b, simple_getn (simple_ring addrs) h n1 = Some a /\
              simple_getn (simple_ring addrs) h n2 = Some b /\ a <> b.
Proof. exact hashmod_distinct. Qed.
Print Assumptions C18_hashmod_distinct.

(* Hashmod: the ring, hence every answer, does not depend on the order of the endpoint list. *)
Theorem C18_hashmod_order_independent : forall addrs addrs' h n,
  Permutation addrs addrs' ->
  simple_getn (simple_ring addrs) h n = simple_getn (simple_ring addrs') h n.
Proof. exact hashmod_order_independent. Qed.
Print Assumptions C18_hashmod_order_independent.

(* The translator reads uint64 arithmetic over Z. With the wrap-around of
   h + n made explicit the distinctness statement is FALSE at the very top of
   the hash range: three nodes, h = 2^64-1: replica numbers 0 and 1 get the
   same index. (Not reachable by a test: it needs a series hashing to 2^64-1.) *)
Theorem C18_hashmod_wrap_refuted :
  exists len h n1 n2, n1 < n2 < len /\ (0 <= h < 2 ^ 64)%Z /\
    simple_idx_wrap len h n1 = simple_idx_wrap len h n2.
Proof. exact hashmod_wrap_witness. Qed.
Print Assumptions C18_hashmod_wrap_refuted.

(* Ketama: placement depends on the SET of endpoints, not on their order in the
   configuration. For every permutation [perm] of the endpoint positions, the
   ring built from the permuted list answers every lookup with the same
   endpoints (positions mapped back through perm) — and fails to build exactly
   when the original does — provided no two sections share a hash. *)
Theorem C18_ketama_order_independent : forall eps perm,
  Permutation perm (seq 0 (length eps)) ->
  NoDup (map s_hash (sections_of 0 eps)) ->
  forall rf v,
  sections_of 0 eps <> [] ->
  option_map (map (fun i => nth i perm 0)) (ketama_answers (permute (0%Z, []) eps perm) rf v)
  = ketama_answers eps rf v.
Proof. exact ketama_answers_perm. Qed.
Print Assumptions C18_ketama_order_independent.

(* Tie T for a decision that random series never hit (a series hash equal to a
   section hash): the comparison handed to sort.Search in ketamaHashring.GetN, read
   from the source on this run, is "section hash >= v", as in the model's search_ge. *)
Theorem C18_search_predicate_from_source : forall h v, ketama_search_pred h v = (v <=? h)%Z.
Proof. exact search_pred_tie. Qed.
Print Assumptions C18_search_predicate_from_source.

(* Non-vacuity: a 2+2 zone ring with 2 sections per node, rf = 3. *)
Example C18_nonvacuous :
  let eps := [(0, [5; 11]); (1, [3; 9]); (0, [7; 2]); (1, [8; 1])]%Z in
  sections_of 0 eps <> [] /\ ketama_answers eps 3 6%Z = Some [2; 3; 1]
  /\ simple_getn (simple_ring [30; 10; 20]%Z) 7%Z 1 = Some 30%Z.
Proof. split; [discriminate|]. split; vm_compute; reflexivity. Qed.

(* Non-vacuity of the order-independence theorem: a permutation of four endpoints
   in two zones with collision-free hashes; both sides evaluate to the same answer. *)
Example C18_order_nonvacuous :
  let eps := [(0, [5; 11]); (1, [3; 9]); (0, [7; 2]); (1, [8; 1])]%Z in
  let perm := [2; 0; 3; 1] in
  Permutation perm (seq 0 (length eps)) /\
  NoDup (map s_hash (sections_of 0 eps)) /\ sections_of 0 eps <> [] /\
  ketama_answers (permute (0%Z, []) eps perm) 3 6%Z = Some [0; 2; 3] /\
  ketama_answers eps 3 6%Z = Some [2; 3; 1].
Proof.
  split; [|split; [|split; [discriminate|split; vm_compute; reflexivity]]].
  - apply NoDup_Permutation; [repeat constructor; simpl; intuition discriminate|apply seq_NoDup|].
    intro x. simpl. intuition.
  - vm_compute. repeat constructor; simpl; intuition discriminate.
Qed.
