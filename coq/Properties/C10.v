(* C10 — Store gateway answers equal a direct TSDB read of the same blocks.
   Property theorems only; each is closed by [exact] of a lemma from Proofs/C10*.v.
   Model: Model/C10.v (toPostingGroup, mergeKeys, matchersToPostingGroups, the set
   computed by ExpandedPostings/mergeFetchedPostings, decodeSeriesForTime's chunk
   selection, series without chunks dropped, external labels attached).
   The two chunk-selection tests come from Gen/C10.v (regenerated from pkg/store/bucket.go).
   The model describes the code WITH repo_patches/C10-fix.patch. *)
From Coq Require Import ZArith NArith List Bool Sorted Lia.
Import ListNotations.
From Verif Require Import Lib.Corr Lib.Storegw_Str Gen.C10 Model.C10 Proofs.C10 Proofs.C10_merge Proofs.C10_select Proofs.C10_part Proofs.C10_lazy Proofs.C10_cache Proofs.C10_heur.
Open Scope Z_scope.

(* Time filter: for every series whose chunks are ordered by start time (the TSDB index
   invariant) and every query range, the chunks returned are exactly the chunks
   overlapping [mint, maxt]; the early break loses nothing. *)
Theorem C10_time_filter : forall cs mint maxt,
  StronglySorted (fun a b => cmin_of a <= cmin_of b) cs ->
  chunks_for cs mint maxt = filter (overlaps mint maxt) cs.
Proof. exact chunks_for_filter. Qed.
Print Assumptions C10_time_filter.

(* Posting groups: for every matcher kind (=, !=, =~, !~, with set matches, ".*", ".+",
   empty value, or an arbitrary regular expression given by its truth function) and every
   label value v of the block (or "" = label absent), membership in the posting group built
   by toPostingGroup is exactly "the matcher matches v". *)
Theorem C10_group_sem : forall m vals v,
  coherent m -> smem [] vals = false -> (smem v vals = true \/ v = []) ->
  in_group (to_group m vals) v = m_fun m v.
Proof. exact group_sem. Qed.
Print Assumptions C10_group_sem.

(* mergeKeys: the merged group of two groups of the same label name denotes the
   intersection, for all strictly sorted key lists, and stays well-formed. *)
Theorem C10_merge_keys_sem : forall a b v, wf_group a -> wf_group b ->
  in_group (merge_keys a b) v = in_group a v && in_group b v.
Proof. exact merge_keys_sem. Qed.
Print Assumptions C10_merge_keys_sem.

Theorem C10_merge_keys_wf : forall a b, wf_group a -> wf_group b -> wf_group (merge_keys a b).
Proof. exact merge_keys_wf. Qed.
Print Assumptions C10_merge_keys_wf.

(* Selection: for every block index, every non-empty list of coherent matchers: the series
   selected through posting groups (merged per label name, key-less groups dropped, the
   all-postings group added when needed, Without(Intersect(adds), Merge(removals))) are
   exactly the series of the index on which every matcher matches, in index order. *)
Theorem C10_expanded_eq_filter : forall idx ms,
  ms <> [] -> Forall coherent ms -> consistent ms -> wf_index idx ->
  select idx ms = filter (fun s : series => forallb (fun m => m_fun m (label_get (fst s) (m_name m))) ms) idx.
Proof. exact select_eq_filter. Qed.
Print Assumptions C10_expanded_eq_filter.

(* Lazy expanded postings: whatever subset of label names is marked lazy (their postings are
   not fetched; their matchers are re-checked on every candidate series), the condition a
   series must satisfy is the same as with every group fetched eagerly. *)
Theorem C10_lazy_equiv : forall idx ms gs (lazy : str -> bool),
  (forall g, In g gs -> good_group idx ms g) ->
  (forall m, In m ms -> exists g, In g gs /\ g_name g = m_name m) ->
  forall s, In s idx ->
  forallb (fun g => in_group g (gval s g)) (filter (fun g => negb (lazy (g_name g))) gs)
  && forallb (fun m => m_fun m (label_get (fst s) (m_name m))) (filter (fun m => lazy (m_name m)) ms)
  = forallb (fun g => in_group g (gval s g)) gs.
Proof. exact lazy_split_sem. Qed.
Print Assumptions C10_lazy_equiv.

(* ... and the groups built by matchersToPostingGroups meet those hypotheses. *)
Theorem C10_groups_good : forall idx ms, Forall coherent ms ->
  forall gs, matchers_to_groups idx ms = Some gs ->
  (forall g, In g gs -> good_group idx (dedup_matchers ms) g)
  /\ (forall m, In m (dedup_matchers ms) -> exists g, In g gs /\ g_name g = m_name m).
Proof. exact groups_good. Qed.
Print Assumptions C10_groups_good.

(* ... end to end: with ANY set of label names marked lazy (as long as one group with add
   keys is still fetched, which the heuristic guarantees) the lazily evaluated selection
   returns exactly the series of the eager selection. *)
Theorem C10_lazy_select_eq : forall idx ms lazy,
  ms <> [] -> Forall coherent ms -> consistent ms -> wf_index idx ->
  (forall gs, matchers_to_groups idx ms = Some gs ->
     existsb g_all gs && negb (existsb (fun g => negb (is_nil (g_add g))) gs) = false ->
     exists g, In g gs /\ g_add g <> [] /\ lazy (g_name g) = false) ->
  select_with idx ms lazy = select idx ms.
Proof. exact select_with_eq. Qed.
Print Assumptions C10_lazy_select_eq.

(* The lazy-marking heuristic (optimizePostingsFetchByDownloadedBytes), for EVERY estimated
   series size, every match ratio and key ratio (any rationals), every cardinality: among
   groups with distinct names it never marks lazy the first group (in cardinality order)
   that has add keys, so a group with add keys is always fetched. *)
Theorem C10_lazy_marking_keeps_add_group : forall idx sz mn md kn kd gs names,
  lazy_marking idx sz mn md kn kd gs = Some names ->
  NoDup (map g_name gs) ->
  (forall g, In g gs -> g_all g = false -> g_add g <> []) ->
  (exists g, In g gs /\ g_all g = false) ->
  exists g, In g gs /\ g_add g <> [] /\ smem (g_name g) names = false.
Proof. exact lazy_marking_ok. Qed.
Print Assumptions C10_lazy_marking_keeps_add_group.

(* ... hence, for the marking the real code makes for a query (model [real_marking], compared
   with the marking observed in ExpandedPostings on every generated case), the lazily
   evaluated selection is exactly the eager selection. *)
Theorem C10_lazy_heuristic_sound : forall idx ms sz mn md kn kd gs names,
  ms <> [] -> Forall coherent ms -> consistent ms -> wf_index idx ->
  matchers_to_groups idx ms = Some gs ->
  real_marking idx sz mn md kn kd gs = Some names ->
  select_with idx ms (fun n => smem n names) = select idx ms.
Proof. exact real_marking_sound. Qed.
Print Assumptions C10_lazy_heuristic_sound.

(* Gap-based partitioner (chunk and series range reads): for every list of ranges sorted by
   start and every max gap, the partition terminates within its fuel, the parts' element
   ranges are contiguous from 0 to the number of ranges, every part is non-empty, and every
   requested range lies inside the [Start, End] of the part that holds it (the predicate
   [parts_cover] that the check also evaluates on the implementation's own output). *)
Theorem C10_partition_covers : forall g rs, StronglySorted by_start rs ->
  exists ps, partition (length rs) g rs 0%nat = Some ps /\ parts_cover rs ps = true.
Proof. exact partition_covers. Qed.
Print Assumptions C10_partition_covers.

(* The whole answer: selected series, each with exactly its chunks overlapping the range,
   series without such chunks dropped, external labels attached. *)
Theorem C10_answer_eq_spec : forall idx ext ms mint maxt,
  ms <> [] -> Forall coherent ms -> consistent ms -> wf_index idx -> chunks_sorted idx ->
  answer idx ext true ms mint maxt = spec_answer idx ext ms mint maxt.
Proof. exact answer_eq_spec. Qed.
Print Assumptions C10_answer_eq_spec.

(* Expanded-postings cache over histories. The cache key is the matcher list only; if every
   entry is the value a cold store computes for its key (true of the empty cache, preserved
   by every query) then for EVERY history of queries - any matchers, any time ranges, in any
   order - every answer is the cold answer for ITS OWN range: finish (cold ms) mint maxt.
   [cold] may be the eager selection or the lazy one (C10_lazy_select_eq); what matters is
   that the cached value does not depend on the time range of the query that wrote it. *)
Theorem C10_cache_transparent : forall cold ext, key_respect cold ->
  forall h c, cache_inv cold c ->
  run_hist cold ext c h = map (fun q => finish ext (cold (q_ms q)) (q_mint q) (q_maxt q)) h.
Proof. exact cache_transparent. Qed.
Print Assumptions C10_cache_transparent.

(* One step: the answer and the preservation of the invariant. *)
Theorem C10_cache_step : forall cold ext c q, cache_inv cold c -> key_respect cold ->
  fst (query_step cold ext c q) = finish ext (cold (q_ms q)) (q_mint q) (q_maxt q)
  /\ cache_inv cold (snd (query_step cold ext c q)).
Proof. exact query_step_ok. Qed.
Print Assumptions C10_cache_step.

(* Connection with the check: histories with one matcher list, every store starting cold. *)
Theorem C10_case_pred : forall idx ext ms (hists : list (list (Z * Z))),
  ms <> [] -> Forall coherent ms -> consistent ms -> wf_index idx -> chunks_sorted idx ->
  let spec := fun mint maxt => spec_answer idx ext ms mint maxt in
  corr_ok (CSel idx ext true ms (map (mk_hist spec) hists) (mk_hist spec (concat hists))) = true
  /\ pred_ok (CSel idx ext true ms (map (mk_hist spec) hists) (mk_hist spec (concat hists))) = true.
Proof. exact case_ok. Qed.
Print Assumptions C10_case_pred.

(* Non-vacuity: a small index and coherent matchers; {a=~"a0|a0", a!~"a.+"} is the selector on
   which the unpatched code returned a series (duplicate set matches survived mergeKeys). *)
Require Import Coq.Strings.String Coq.Strings.Ascii.
Open Scope string_scope.
Definition s_ (x : String.string) : str := map (fun c => N.of_nat (Ascii.nat_of_ascii c)) (String.list_ascii_of_string x).
Definition ex_idx : list series :=
  [([(s_ "__name__", s_ "up"); (s_ "a", s_ "a0")], [(0, 100, 1); (101, 200, 2)]);
   ([(s_ "__name__", s_ "up"); (s_ "a", s_ "a1"); (s_ "b", s_ "x")], [(50, 60, 3)]);
   ([(s_ "__name__", s_ "up"); (s_ "b", s_ "y")], [(300, 400, 4)])].
Definition ex_m1 : matcher :=
  {| m_type := MRe; m_name := s_ "a"; m_value := s_ "a0|a0"; m_sets := [s_ "a0"; s_ "a0"];
     m_fun := fun v => smem v [s_ "a0"; s_ "a0"] |}.
(* a !~ "a.+" *)
Definition ex_m2 : matcher :=
  {| m_type := MNre; m_name := s_ "a"; m_value := s_ "a.+"; m_sets := [];
     m_fun := fun v => negb (match v with 97%N :: _ :: _ => true | _ => false end) |}.
Definition ex_m3 : matcher :=
  {| m_type := MNeq; m_name := s_ "b"; m_value := s_ "x"; m_sets := [];
     m_fun := fun v => negb (str_eqb v (s_ "x")) |}.
Example C10_nonvacuous :
  select ex_idx [ex_m1; ex_m2] = []
  /\ select ex_idx [ex_m1; ex_m3] = [nth 0 ex_idx ([], [])]
  /\ answer ex_idx [(s_ "ext1", s_ "v1")] true [ex_m3] 150 350
     = [([(s_ "__name__", s_ "up"); (s_ "a", s_ "a0"); (s_ "ext1", s_ "v1")], [(101, 200, 2)]);
        ([(s_ "__name__", s_ "up"); (s_ "b", s_ "y"); (s_ "ext1", s_ "v1")], [(300, 400, 4)])]
  /\ Forall coherent [ex_m1; ex_m2; ex_m3] /\ wf_index ex_idx /\ chunks_sorted ex_idx.
Proof.
  split; [vm_compute; reflexivity|]. split; [vm_compute; reflexivity|]. split; [vm_compute; reflexivity|].
  split; [|split].
  - assert (H1 : coherent ex_m1).
    { unfold coherent. cbn [ex_m1 m_type m_sets m_value m_fun]. repeat split; intros;
        first [ reflexivity
              | match goal with H : _ = _ |- _ => vm_compute in H; discriminate H end
              | match goal with H : ?x <> ?x |- _ => exfalso; apply H; reflexivity end ]. }
    assert (H2 : coherent ex_m2).
    { unfold coherent. cbn [ex_m2 m_type m_sets m_value m_fun]. repeat split; intros;
        first [ reflexivity
              | match goal with H : _ = _ |- _ => vm_compute in H; discriminate H end
              | match goal with H : ?x <> ?x |- _ => exfalso; apply H; reflexivity end ]. }
    assert (H3 : coherent ex_m3).
    { unfold coherent. cbn [ex_m3 m_type m_sets m_value m_fun]. intros; reflexivity. }
    constructor; [exact H1|]. constructor; [exact H2|]. constructor; [exact H3|]. constructor.
  - intros s Hs. simpl in Hs. repeat (destruct Hs as [<-|Hs]; [reflexivity|]). contradiction.
  - intros s Hs. simpl in Hs.
    repeat (destruct Hs as [<-|Hs]; [simpl; repeat (constructor; [|repeat constructor; unfold cmin_of; simpl; lia]); constructor|]).
    contradiction.
Qed.

Example C10_partition_nonvacuous :
  partition 4 10 [(0, 5); (3, 4); (14, 20); (40, 41)] 0%nat = Some [(0, 20, 0%nat, 3%nat); (40, 41, 3%nat, 4%nat)]
  /\ StronglySorted by_start [(0, 5); (3, 4); (14, 20); (40, 41)].
Proof.
  split; [vm_compute; reflexivity|].
  repeat (constructor; [|repeat (constructor; [unfold by_start; simpl; lia|]); try constructor]); constructor.
Qed.

Example C10_lazy_nonvacuous :
  select_with ex_idx [ex_m1; ex_m3] (fun n => str_eqb n (s_ "b")) = select ex_idx [ex_m1; ex_m3]
  /\ select_with ex_idx [ex_m1; ex_m3] (fun n => str_eqb n (s_ "b")) = [nth 0 ex_idx ([], [])].
Proof. split; vm_compute; reflexivity. Qed.

(* a narrow query (only the first series has a chunk there) followed by a wide one with the
   same matchers: the second answer still contains every selected series *)
Example C10_cache_nonvacuous :
  run_hist (select ex_idx) [] [] [([ex_m3], 0, 10); ([ex_m3], 0, 1000); ([ex_m3], 0, 10)]
  = [finish [] (select ex_idx [ex_m3]) 0 10; finish [] (select ex_idx [ex_m3]) 0 1000; finish [] (select ex_idx [ex_m3]) 0 10]
  /\ List.length (finish [] (select ex_idx [ex_m3]) 0 10) = 1%nat
  /\ List.length (finish [] (select ex_idx [ex_m3]) 0 1000) = 2%nat.
Proof. split; [vm_compute; reflexivity|]. split; vm_compute; reflexivity. Qed.

(* the heuristic on the example index: est. series size 1, match ratio 1/2: the bigger group
   (__name__, 3 postings) is marked lazy, the group of "a" is fetched *)
Definition ex_m4 : matcher :=
  {| m_type := MNeq; m_name := s_ "__name__"; m_value := []; m_sets := [];
     m_fun := fun v => negb (str_eqb v []) |}.
Example C10_heuristic_nonvacuous :
  exists gs, matchers_to_groups ex_idx [ex_m1; ex_m4] = Some gs
    /\ real_marking ex_idx 1 1 2 0 1 gs = Some [s_ "__name__"]
    /\ select_with ex_idx [ex_m1; ex_m4] (fun n => smem n [s_ "__name__"]) = [nth 0 ex_idx ([], [])].
Proof. eexists. split; [vm_compute; reflexivity|]. split; vm_compute; reflexivity. Qed.
