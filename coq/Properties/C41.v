(* C41 — Splitting a query by interval evaluates every step exactly once.
   Property theorems only; each is closed by [exact] of a lemma from
   Proofs/C41.v. [nextIntervalBoundary] comes from Gen/C41.v, regenerated from
   pkg/queryfrontend/split_by_interval.go on every run. *)
From Coq Require Import ZArith List Bool.
Import ListNotations.
From Verif Require Import Lib.Corr Gen.C41 Model.C41 Proofs.C41.
Open Scope Z_scope.

(* Range queries: for every start <= end, step > 0 and split interval >= 1 ms
   (Go truncating division, so negative timestamps are covered) the split
   terminates (no fuel exhaustion), the sub-queries' evaluation timestamps
   concatenated are exactly the original's, each once, in order, and every
   sub-query start is a whole number of steps from the original start. *)
Theorem C41_steps_partition : forall start end_ step interval,
  0 < step -> 0 < Z.quot interval ns_per_ms -> start <= end_ ->
  exists l, split_query start end_ step interval = Some l
    /\ concat (map (fun p => steps (fst p) (snd p) step) l) = steps start end_ step
    /\ Forall (aligned start step) l.
Proof. exact split_query_correct. Qed.
Print Assumptions C41_steps_partition.

(* The same, through the boolean predicate that the check evaluates on the
   implementation's own output. *)
Theorem C41_range_pred : forall start end_ step interval_ms,
  0 < step -> 0 < interval_ms -> start <= end_ ->
  exists out, split_query start end_ step (interval_ms * ns_per_ms) = Some out
    /\ pred_ok (CRange start end_ step interval_ms out) = true.
Proof. exact range_pred_ok. Qed.
Print Assumptions C41_range_pred.

(* Label / series requests: the sub-ranges are contiguous, non-empty and
   their union is [start, end]. *)
Theorem C41_ranges_cover : forall start end_ interval_ms,
  0 < interval_ms ->
  exists out, split_range start end_ (interval_ms * ns_per_ms) = Some out
    /\ pred_ok (CSplit start end_ interval_ms out) = true.
Proof. exact split_range_correct. Qed.
Print Assumptions C41_ranges_cover.

(* Step alignment moves start and end to multiples of the step, by less than one step. *)
Theorem C41_step_align : forall start end_ step,
  0 < step ->
  pred_ok (CAlign start end_ step (step_align start end_ step)) = true
  /\ Z.abs (start - fst (step_align start end_ step)) < step
  /\ Z.abs (end_ - snd (step_align start end_ step)) < step.
Proof. exact step_align_correct. Qed.
Print Assumptions C41_step_align.

(* Non-vacuity: a concrete request meeting the hypotheses, with a non-trivial split
   (unaligned negative start, 10 ms interval). *)
Example C41_nonvacuous :
  split_query (-5) 27 3 (10 * ns_per_ms) = Some [(-5, 7); (10, 19); (22, 27)]
  /\ 0 < 3 /\ 0 < Z.quot (10 * ns_per_ms) ns_per_ms /\ -5 <= 27.
Proof. split; [vm_compute; reflexivity|]. vm_compute. repeat split; congruence. Qed.
