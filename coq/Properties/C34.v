(* C34 — Compactor and store-gateway delays keep data queryable (protocol model).
   Property theorems only; lemmas in Proofs/C34.v.  The model (Model/C34.v) is a
   timed transition system; its gateway-sync transition is the model of the real
   IgnoreDeletionMarkFilter + DefaultDeduplicateFilter chain (tied by the C34 and
   C31 correspondence checks); the flag defaults and the filter order come from
   Gen/C34.v, regenerated from cmd/thanos/compact.go and cmd/thanos/store.go. *)
From Coq Require Import ZArith List Bool.
Import ListNotations.
From Verif Require Import Lib.Corr Gen.C34 Model.C31 Model.C34 Proofs.C34.
Open Scope Z_scope.

(* For every number of gateways, every initial bucket (distinct ULIDs, every
   source covered by an unmarked block) and EVERY schedule of enabled steps
     Tick dt   (time passes; no gateway goes longer than syncLag without syncing)
     Upload b  (compactor uploads a block)
     Mark i    (compactor marks a block whose sources are all in other unmarked blocks)
     Clean i   (compactor deletes a block whose mark is older than deleteDelay)
     Sync k    (gateway k syncs: hide marks older than ignoreDelay, then the duplicate filter)
   if ignoreDelay + syncLag <= deleteDelay then in the state reached every source
   is served by every gateway: its current view contains a block that still
   exists in the bucket and covers the source. *)
Theorem C34_always_served : forall p u b n ls st,
  good_params p -> covers u b = true -> NoDup (ids b) ->
  run p u (init p b n) ls = Some st -> all_served u st = true.
Proof. exact always_served. Qed.
Print Assumptions C34_always_served.

(* The hypothesis is needed: with ignoreDelay 10, syncLag 5, deleteDelay 12 a
   schedule of enabled steps ends with a gateway serving nothing for a source
   (the gateway re-syncs at age 10, still sees the marked block, prefers it over
   its replacement by the ULID tie-break, and the compactor deletes it at age 13). *)
Theorem C34_tight_refuted :
  exists st, run tight_params [7] (init tight_params tight_bucket 1) tight_schedule = Some st
    /\ all_served [7] st = false
    /\ covers [7] tight_bucket = true /\ NoDup (ids tight_bucket)
    /\ deleteDelay tight_params < ignoreDelay tight_params + syncLag tight_params.
Proof. exact tight_refuted. Qed.
Print Assumptions C34_tight_refuted.

(* The defaults in the sources (compactor --delete-delay 48h, store
   --ignore-deletion-marks-delay 24h, --sync-block-duration 15m) satisfy the
   hypothesis, and in both commands the deletion-mark filter precedes the
   duplicate filter, as the sync transition of the model assumes. *)
Theorem C34_defaults_safe :
  good_params default_params /\ store_marks_filter_before_dedup = true /\ compact_marks_filter_before_dedup = true.
Proof. exact defaults_good. Qed.
Print Assumptions C34_defaults_safe.

(* The compactor's own view ignores marks older than deleteDelay/2 (expression
   from cmd/thanos/compact.go): never later than the cleaner's deleteDelay. *)
Theorem C34_compactor_view_bound : forall d, 0 <= d -> 0 <= compactor_ignore_delay d <= d.
Proof. exact compactor_view_bound. Qed.
Print Assumptions C34_compactor_view_bound.

(* The predicate evaluated on the real filter chain's output holds of the model's sync. *)
Theorem C34_model_view_pred : forall t delay b, NoDup (ids b) ->
  view_pred t delay b (sync_view t delay b) = true.
Proof. exact model_view_pred. Qed.
Print Assumptions C34_model_view_pred.

(* ---- the compactor side, tied to lines of code ------------------------------------------

   Statement order (events regenerated from pkg/compact/compact.go): in Group.compact
   every cg.deleteBlock (= block.MarkForDeletion of a source, see deleteBlock) comes
   after the loop that uploads the result and returns on an upload error (or sits
   under `if meta.Stats.NumSamples == 0`); Syncer.GarbageCollect reads the deletion
   marks and DuplicateIDs() before it marks. *)
Theorem C34_compactor_order_facts : compactor_order_ok = true.
Proof. exact compactor_order_facts. Qed.
Print Assumptions C34_compactor_order_facts.

(* Every operation log the guards accept keeps "each source is in an unmarked block"
   (the hypothesis the protocol theorem needs from the compactor).  The check replays
   the bucket operations of the real BucketCompactor.Compact through apply_log. *)
Theorem C34_accepted_logs_keep_cover : forall u ops b b',
  NoDup (ids b) -> U_cov u b -> apply_log b ops = Some b' -> NoDup (ids b') /\ U_cov u b'.
Proof. exact apply_log_keeps. Qed.
Print Assumptions C34_accepted_logs_keep_cover.

(* DEFECT FOUND AND REPAIRED (C34-fix.patch; real code before the repair, corpus/C34/05):
   the rewrite of a single block (tombstone rule)
   uploads a result with the SAME sources, marks the source, and the next garbage
   collection marks the result as a duplicate of the just-marked source (equal source
   sets tie-break on the older ULID; the source is still in the compactor's view for
   deleteDelay/2).  The guard rejects that mark; afterwards no unmarked block holds the data.  (The repair
   makes the duplicate filter prefer the higher compaction level among blocks with equally
   many sources, see Gen/C31.v; the witness below has equal levels = the old behaviour.) *)
Theorem C34_rewrite_gc_refuted :
  apply_log rw_bucket rw_ops = None /\ first_rejected rw_bucket rw_ops 0 = Some 2%nat
  /\ covers [7] rw_bucket = true /\ covers [7] (apply_log_raw rw_bucket rw_ops) = false.
Proof. exact rewrite_gc_rejected. Qed.
Print Assumptions C34_rewrite_gc_refuted.

(* ... and in the protocol with the code's garbage-collection rule as a step
   (gc_enabled: hidden by the duplicate filter in the compactor's own view, not yet
   marked), delays satisfying ignoreDelay + syncLag <= deleteDelay do not keep the
   data served: C34_always_served holds for the guarded Mark step only. *)
Theorem C34_code_gc_refuted :
  exists st, run_code gc_params [7] (init gc_params rw_bucket 1) gc_schedule = Some st
    /\ all_served [7] st = false
    /\ ignoreDelay gc_params + syncLag gc_params <= deleteDelay gc_params
    /\ covers [7] rw_bucket = true /\ NoDup (ids rw_bucket).
Proof. exact code_gc_refuted. Qed.
Print Assumptions C34_code_gc_refuted.

(* Non-vacuity: a full replacement cycle under the default delays, two gateways. *)
Example C34_nonvacuous :
  let b := [mk_mblk (mk_blk 1 0 [7] 1) None; mk_mblk (mk_blk 2 0 [8] 1) None] in
  let ls := [Upload (mk_blk 3 0 [7; 8] 1); Sync 0; Mark 1; Mark 2; Tick 900; Sync 1; Sync 0; Tick 900; Sync 0; Sync 1] in
  exists st, run default_params [7; 8] (init default_params b 2) ls = Some st
    /\ map view (gws st) = [[3]; [3]] /\ all_served [7; 8] st = true
    /\ covers [7; 8] b = true.
Proof. eexists. vm_compute. repeat split; reflexivity. Qed.
