(* C13 — Cache keys never conflate different cached items.
   Property theorems only; each is closed by [exact] of a lemma of Proofs/C13.v.
   Model: Model/C13.v — CacheKey.String (P:/EP:/S: keys), LabelMatchersToString with
   labels.Matcher.String, and the matchers-cache key WITH C13-fix.patch.
   H = base64url(blake2b-256(.)), quote = strconv.Quote, dec = strconv.FormatUint(.,10)
   are parameters; [hash_ok H] = injective (collision resistance, an explicit
   hypothesis) and ':'-free output; [quote_ok quote] = quote a ++ x = quote b ++ y
   implies a = b and x = y, and every output starts with a double quote; dec injective.
   Byte strings are arbitrary (all of UTF-8 and beyond); block ids contain no ':'. *)
From Coq Require Import String.
From Coq Require Import NArith List Bool.
Import ListNotations.
From Verif Require Import Lib.Corr Gen.C13 Model.C13 Proofs.C13.
Open Scope N_scope.

(* Index cache (postings with ':'-free label names, expanded postings, series):
   two items with the same key are the same item. Covers all pairs of kinds. *)
Theorem C13_index_keys_inj_no_colon : forall H quote dec, hash_ok H -> quote_ok quote ->
  (forall a b, dec a = dec b -> a = b) ->
  forall i1 i2, valid_item i1 -> valid_item i2 -> same_cache i1 i2 = true ->
  key_of H quote dec true i1 = key_of H quote dec true i2 -> i1 = i2.
Proof. exact keys_inj. Qed.
Print Assumptions C13_index_keys_inj_no_colon.

(* Keys of different kinds never collide, whatever H, quote and dec are (first byte P / E / S). *)
Theorem C13_kinds_disjoint : forall H quote dec i1 i2, index_item i1 = true -> index_item i2 = true ->
  key_of H quote dec true i1 = key_of H quote dec true i2 ->
  match i1, i2 with
  | IPostings _ _ _ _, IPostings _ _ _ _ | IExpanded _ _ _, IExpanded _ _ _ | ISeries _ _, ISeries _ _ => True
  | _, _ => False
  end.
Proof. exact kinds_never_collide. Qed.
Print Assumptions C13_kinds_disjoint.

(* LabelMatchersToString is injective on lists of matchers for ALL names and values
   (legacy names unquoted, all other names quoted, values quoted, semicolon between). *)
Theorem C13_matchers_to_string_inj : forall quote, quote_ok quote ->
  forall l1 l2, matchers_to_string quote l1 = matchers_to_string quote l2 -> l1 = l2.
Proof. exact matchers_string_inj. Qed.
Print Assumptions C13_matchers_to_string_inj.

(* Matchers cache (with the fix): type, quoted name, value — injective for all matcher types. *)
Theorem C13_matcher_key_inj : forall quote, quote_ok quote ->
  forall m1 m2, matcher_cache_key quote true m1 = matcher_cache_key quote true m2 -> m1 = m2.
Proof. exact matcher_key_inj. Qed.
Print Assumptions C13_matcher_key_inj.

(* The same through the predicate the check evaluates on the real key strings. *)
Theorem C13_pred : forall H quote dec, hash_ok H -> quote_ok quote -> (forall a b, dec a = dec b -> a = b) ->
  forall i1 i2 oH oQ oD, valid_item i1 -> valid_item i2 ->
  pred_ok (CPair i1 i2 (key_of H quote dec true i1) (key_of H quote dec true i2) oH oQ oD) = true.
Proof. exact keys_pred. Qed.
Print Assumptions C13_pred.

(* Full statement (all label names) is FALSE for postings keys: the hashed text is
   name ++ [colon] ++ value, so (a:b, c) and (a, b:c) share a key for every hash
   function, block and compression (known finding, corpus/C13/01). *)
Theorem C13_postings_refuted : forall H b comp,
  key_postings H b [97; 58; 98] [99] comp = key_postings H b [97] [98; 58; 99] comp
  /\ item_eqb (IPostings b [97; 58; 98] [99] comp) (IPostings b [97] [98; 58; 99] comp) = false.
Proof. exact postings_collision. Qed.
Print Assumptions C13_postings_refuted.

Theorem C13_postings_pred_refuted : forall H quote dec b comp oH oQ oD,
  let i1 := IPostings b [97; 58; 98] [99] comp in
  let i2 := IPostings b [97] [98; 58; 99] comp in
  pred_ok (CPair i1 i2 (key_of H quote dec true i1) (key_of H quote dec true i2) oH oQ oD) = false.
Proof. exact postings_pred_refuted. Qed.
Print Assumptions C13_postings_pred_refuted.

(* The matchers-cache key before the fix (name ++ type ++ value): name a, regex b=~c
   against name a=~b, regex c; and name a, equal ~b against name a, regex b (corpus/C13/02, 03). *)
Theorem C13_matcher_key_unfixed_refuted : forall quote,
  matcher_cache_key quote false (mkM MRe [97] [98; 61; 126; 99]) =
  matcher_cache_key quote false (mkM MRe [97; 61; 126; 98] [99])
  /\ matcher_cache_key quote false (mkM MEq [97] [126; 98]) = matcher_cache_key quote false (mkM MRe [97] [98]).
Proof. exact matcher_key_unfixed_collision. Qed.
Print Assumptions C13_matcher_key_unfixed_refuted.

(* The matchers cache under concurrent lookups (LruMatchersCache.GetOrSet: singleflight around
   "LRU hit, else convert and store"). Lookups are items; events issue a lookup or let a running
   conversion return. If the singleflight key and the LRU key separate the different items of
   the history, then for EVERY interleaving every lookup that returns gets the matcher of ITS
   item ... *)
Theorem C13_inflight_own_item : forall sfk lruk items,
  (forall a b, In a items -> In b items -> sfk a = sfk b -> a = b) ->
  (forall a b, In a items -> In b items -> lruk a = lruk b -> a = b) ->
  forall evs i r, f_ls (frun sfk lruk items evs) i = LDone r -> nth_error items i = Some r.
Proof. exact inflight_own_item. Qed.
Print Assumptions C13_inflight_own_item.

(* ... and only then: whenever the singleflight key conflates two items, the interleaving
   "issue 0, issue 1, conversion 0 returns" answers lookup 1 with item 0, whatever the LRU key. *)
Theorem C13_inflight_conflated_refuted : forall sfk lruk m0 m1, sfk m0 = sfk m1 ->
  f_ls (frun sfk lruk [m0; m1] [FBegin 0; FBegin 1; FFinish 0]) 1 = LDone m0.
Proof. exact inflight_conflated. Qed.
Print Assumptions C13_inflight_conflated_refuted.

(* the code's key (C13_matcher_key_inj: injective) used for both purposes (C13_get_or_set_keys):
   the results the check compares with the real cache are each lookup's own item *)
Theorem C13_inflight_results : forall items evs i r,
  nth_error (flight_results flight_key flight_key items evs) i = Some (Some r) -> nth_error items i = Some r.
Proof. exact flight_results_own. Qed.
Print Assumptions C13_inflight_results.

(* Tie T: the singleflight key, the LRU lookup key and the LRU store key are one expression *)
Theorem C13_get_or_set_keys :
  getOrSetKeys = ["key := cacheKey(m)"; "c.sf.Do(key)"; "c.cache.Get(key)"; "c.cache.Add(key)"]%string.
Proof. exact get_or_set_keys. Qed.
Print Assumptions C13_get_or_set_keys.

Example C13_inflight_nonvacuous :
  let a := mkM MRe [106] [120] in let b := mkM MNre [105] [120] in
  flight_results flight_key flight_key [a; b; a] [FBegin 0; FBegin 1; FFinish 1; FFinish 0; FBegin 2] = [Some a; Some b; Some a] /\
  flight_codes flight_key flight_key [a; b; a] [FBegin 0; FBegin 1; FFinish 1; FFinish 0; FBegin 2] = [1; 1; 3; 3; 3] /\
  (* a key made of the value alone: lookup 1 waits for lookup 0 and is answered with a *)
  flight_results mvalue flight_key [a; b] [FBegin 0; FBegin 1; FFinish 0] = [Some a; Some a].
Proof. vm_compute. repeat split; reflexivity. Qed.

(* Tie T. *)
Theorem C13_source_shape :
  cacheKeyStringAssigns =
    ["lbl := c.Key.(CacheKeyPostings)";
     "lblHash := blake2b.Sum256([]byte(lbl.Name + "":"" + lbl.Value))";
     "key := ""P:"" + c.Block + "":"" + base64.RawURLEncoding.EncodeToString(lblHash[0:])";
     "key += "":"" + c.Compression";
     "matchers := c.Key.(CacheKeyExpandedPostings)";
     "matchersHash := blake2b.Sum256([]byte(matchers))";
     "key := ""EP:"" + c.Block + "":"" + base64.RawURLEncoding.EncodeToString(matchersHash[0:])";
     "key += "":"" + c.Compression"]%string /\
  cacheKeyStringReturns =
    ["key"; "key"; """S:"" + c.Block + "":"" + strconv.FormatUint(uint64(c.Key.(CacheKeySeries)), 10)"; """"""]%string /\
  matcherCacheKeyWrites =
    ["typeStr := t.String()"; "name := strconv.Quote(m.GetName())"; "WriteString(typeStr)"; "WriteString(name)";
     "WriteString(m.GetValue())"]%string /\
  labelMatchersToStringEvents =
    [("for", "range"); ("call", "lbl.String"); ("call", "sb.WriteString"); ("call", "len");
     ("if", "i < len(matchers)-1"); ("call", "sb.WriteRune"); ("endif", ""); ("endfor", "");
     ("call", "sb.String"); ("return", "sb.String()")]%string.
Proof. exact source_shape. Qed.
Print Assumptions C13_source_shape.

(* Non-vacuity of the hypotheses: functions satisfying hash_ok, quote_ok and the injectivity of
   dec exist (a two-letters-per-byte encoding, a unary-length-prefixed quote, unary numbers),
   and with them two different lists of matchers whose naive join would coincide get different keys. *)
Example C13_hypotheses_satisfiable :
  exists H quote dec, hash_ok H /\ quote_ok quote /\ (forall a b : N, dec a = dec b -> a = b) /\
    key_of H quote dec true (IExpanded [48] [mkM MEq [97] [98; 59; 99]] []) <>
    key_of H quote dec true (IExpanded [48] [mkM MEq [97] [98]; mkM MEq [99] []] []).
Proof. exact hypotheses_satisfiable. Qed.

(* Non-vacuity: with a concrete quote on the strings involved, two expanded-postings
   texts that a naive join would confuse are different, and valid items exist. *)
Example C13_nonvacuous :
  let q := fun s : str => dquote :: s ++ [dquote] in
  matchers_to_string q [mkM MEq [97] [98]; mkM MRe [99; 58] [100]] =
    [97; 61; 34; 98; 34; 59; 34; 99; 58; 34; 61; 126; 34; 100; 34] /\
  should_quote [99; 58] = true /\ should_quote [97; 95; 49] = false /\ should_quote [49; 97] = true /\
  valid_item (IPostings [48; 49] [97] [58; 58] []) /\
  key_series (fun n => [48 + n]) [48; 49] 7 = [83; 58; 48; 49; 58; 55].
Proof.
  cbn zeta. repeat split; try reflexivity; unfold no_colon, colon; cbn; intuition discriminate.
Qed.
