(* C48 — Bucket rewrite deletes exactly the requested data.
   The theorems describe the code WITH repo_patches/C48-fix.patch. [re] is the
   regular-expression match of labels.Matcher (any function). A request applies
   to a series when every matcher names a label the series carries and matches
   it; [spec_intervals] collects the intervals of the applying requests,
   [whole_deleted] says that an applying request has no intervals. *)
From Coq Require Import NArith ZArith List Bool Lia Sorted.
Import ListNotations.
From Verif Require Import Lib.Corr Lib.Misc_Cmp Gen.C48 Model.C48 Proofs.C48 Proofs.C48_complete.
Open Scope Z_scope.

(* Never removes a sample outside the requested intervals or from a series the
   selectors do not match: for every series of the block that is not wholly
   deleted the rewritten block contains the series, every rewritten sample is
   an original one, and every original sample outside the intervals of the
   applying requests survives. No assumption on the order, overlap or adjacency
   of the requested intervals. *)
Theorem C48_keeps_outside : forall re reqs ss s,
  In s ss -> series_ok s -> whole_deleted re reqs (fst s) = false ->
  exists ocs, In (fst s, ocs) (rewrite re reqs ss)
    /\ (forall sm, In sm (concat (map snd ocs)) -> In sm (concat (snd s)))
    /\ (forall sm, In sm (concat (snd s)) ->
          covered (spec_intervals re reqs (fst s)) (fst sm) = false ->
          In sm (concat (map snd ocs))).
Proof. exact keeps_outside. Qed.
Print Assumptions C48_keeps_outside.

(* Every series of the rewritten block is a series of the original one that no
   applying request deletes wholly; a series vanishes iff such a request exists. *)
Theorem C48_series_kept_iff : forall re reqs ss,
  (forall ls ocs, In (ls, ocs) (rewrite re reqs ss) ->
     exists s, In s ss /\ fst s = ls /\ whole_deleted re reqs ls = false)
  /\ (forall s, In s ss -> whole_deleted re reqs (fst s) = false ->
     exists ocs, In (fst s, ocs) (rewrite re reqs ss)).
Proof.
  intros re reqs ss. split.
  - intros ls ocs H. destruct (rewrite_in re reqs ss ls ocs H) as [s [ivs [H1 [H2 [_ [_ H5]]]]]].
    exists s. auto.
  - intros s Hs W. destruct (rewrite_keeps re reqs ss s Hs W) as [ivs [_ H]]. eexists. exact H.
Qed.
Print Assumptions C48_series_kept_iff.

(* Exactness: for well-formed blocks and requests whose intervals are non-empty
   (Mint <= Maxt; any order, overlap or adjacency), the rewritten block is
   EXACTLY the filter specification: series wholly deleted vanish, every other
   series keeps, in order, precisely the samples outside the intervals of the
   applying requests, and every rewritten chunk is non-empty with
   MinTime/MaxTime equal to its first/last sample. This is the boolean predicate
   the check evaluates on the implementation's own output. *)
Theorem C48_exact : forall reqs rt ss,
  Forall series_ok ss -> reqs_ok reqs ->
  pred_ok (CDel reqs rt ss (rewrite (re_of rt) reqs ss) false) = true.
Proof. intros reqs rt ss H1 H2. simpl. apply rewrite_exact; assumption. Qed.
Print Assumptions C48_exact.

(* The same for the end-to-end path (Compactor.WriteSeries from a real block into
   a new block, read back from disk), where a series left without samples is not
   written at all. *)
Theorem C48_exact_block : forall reqs rt ss,
  Forall series_ok ss -> reqs_ok reqs ->
  pred_ok (CBlock reqs rt ss (filter has_chunks (rewrite (re_of rt) reqs ss)) false) = true.
Proof. intros reqs rt ss H1 H2. simpl. apply rewrite_exact_block; assumption. Qed.
Print Assumptions C48_exact_block.

(* Readable form of the removal half: the samples of a rewritten series are the
   original ones not covered by an interval of an applying request; so every
   sample inside such an interval is removed. *)
Theorem C48_removes_inside : forall re reqs s ivs,
  series_ok s -> reqs_ok reqs ->
  del_loop re reqs (fst s) [] = Some ivs ->
  concat (map snd (series_chunks ivs (snd s)))
  = filter (fun sm => negb (covered (spec_intervals re reqs (fst s)) (fst sm))) (concat (snd s)).
Proof.
  intros re reqs s ivs Hs Hr E.
  apply (removes_inside re reqs [s] s (series_chunks ivs (snd s)) Hs Hr (or_introl eq_refl)).
  - congruence.
  - exists ivs. split; [exact E | reflexivity].
Qed.
Print Assumptions C48_removes_inside.

(* Before the repair the statement is false: a chunk whose samples are all
   deleted by two different intervals (no single interval covers the chunk)
   ended the series silently; the next chunk's samples (t = 30, 40), outside
   every interval, were lost. Same witness: corpus/C48/01. *)
Theorem C48_unfixed_refuted :
  rewrite_unfixed (fun _ _ => false) w_reqs w_series = [([([97%N], [120%N])], [])]
  /\ covered (spec_intervals (fun _ _ => false) w_reqs [([97%N], [120%N])]) 30 = false
  /\ rewrite (fun _ _ => false) w_reqs w_series = [([([97%N], [120%N])], [(30, 40, [(30, 3); (40, 4)])])].
Proof. exact unfixed_loses_samples. Qed.
Print Assumptions C48_unfixed_refuted.

(* Tie T: in the source, the emptied-chunk branch of delChunkSeriesIterator.Next
   moves on to the next chunk. *)
Theorem C48_emptied_branch : emptied_branch_ok = true.
Proof. exact emptied_branch. Qed.
Print Assumptions C48_emptied_branch.

(* Non-vacuity: a well-formed series to which the request applies. *)
Example C48_nonvacuous :
  series_ok (hd ([], []) w_series) /\ whole_deleted (fun _ _ => false) w_reqs [([97%N], [120%N])] = false
  /\ spec_intervals (fun _ _ => false) w_reqs [([97%N], [120%N])] = [(10, 10); (20, 20)].
Proof.
  split; [|vm_compute; split; reflexivity].
  repeat constructor; try discriminate; simpl; lia.
Qed.
