(* C49 — Memcached key placement is consistent.
   [nextj b key] stands for the float64 expression of jumpHash; the general
   theorems hold for every function with [b < nextj b key] on the domain where
   the loop evaluates it, and C49_float_expression proves this for the IEEE-754
   binary64 semantics of the Go expression (Flocq).
   Keys carry their xxhash value. [nat_less] is natsort.Compare. *)
From Coq Require Import NArith ZArith List Bool Permutation String Lia.
Import ListNotations.
From Verif Require Import Lib.Corr Lib.Misc_Cmp Gen.C49 Model.C49 Proofs.C49 Proofs.C49_ieee Proofs.C49_prim Proofs.C49_natsort.
Open Scope Z_scope.

(* The hypothesis on [nextj] is only needed where the code evaluates the
   expression: on bucket numbers 0 <= b < N (N bounds the number of buckets) and
   64-bit keys. C49_float_expression proves it for the IEEE-754 binary64 reading
   of the Go expression with N = 2^53 - 1; the *_ieee theorems are the
   instances without any hypothesis left. *)
Definition nextj_ok (nextj : Z -> Z -> Z) (N : Z) : Prop :=
  forall b k, 0 <= b < N -> 0 <= k < two64 -> b < nextj b k.

(* jumpHash terminates (the fuel is never exhausted) with a bucket in [0, n). *)
Theorem C49_jump_range : forall nextj N, nextj_ok nextj N ->
  forall key n, 1 <= n <= N -> exists r, jump nextj key n = Some r /\ 0 <= r < n.
Proof. exact jump_range. Qed.
Print Assumptions C49_jump_range.

(* One more bucket: a key keeps its bucket or moves to the new one. *)
Theorem C49_jump_consistent : forall nextj N, nextj_ok nextj N ->
  forall key n, 1 <= n -> n + 1 <= N ->
  jump nextj key (n + 1) = jump nextj key n \/ jump nextj key (n + 1) = Some n.
Proof. exact jump_consistent. Qed.
Print Assumptions C49_jump_consistent.

(* Looked up alone or in a batch: with at least one server, PickServerForKeys
   succeeds and files under server [a] exactly the keys PickServer sends to [a]
   (order and multiplicity kept); with no server both fail. *)
Theorem C49_single_eq_batch : forall nextj N, 1 <= N -> nextj_ok nextj N ->
  forall addrs keys, Z.of_nat (List.length addrs) <= N ->
  (addrs <> [] ->
     exists m, pick_for_keys nextj addrs keys = Some m
       /\ forall a, mget m a = filter (fun k => ostr_eqb (pick nextj addrs k) (Some a)) keys)
  /\ (addrs = [] -> pick_for_keys nextj addrs keys = None /\ forall k, pick nextj addrs k = None).
Proof.
  intros nextj N HN H addrs keys HL. split.
  - intro Hne. eapply batch_eq_single; eauto.
  - intro E. subst. split; reflexivity.
Qed.
Print Assumptions C49_single_eq_batch.

(* Listing order: if natsort.Compare is a strict total order on the listed
   (distinct) servers — a decidable condition the check evaluates on every
   concrete list — SetServers stores the same order for every permutation of
   the list, hence every key is sent to the same server. *)
Theorem C49_order_independent : forall nextj servers servers2,
  nodup_b servers = true -> strict_total_b nat_less servers = true ->
  Permutation servers servers2 ->
  set_servers servers = set_servers servers2
  /\ forall k, pick nextj (set_servers servers) k = pick nextj (set_servers servers2) k.
Proof.
  intros nextj servers servers2 H1 H2 H3.
  pose proof (set_servers_order_independent _ _ H1 H2 H3) as E. split; [exact E|]. intro k. rewrite E. reflexivity.
Qed.
Print Assumptions C49_order_independent.

(* natsort.Compare on "statefulset-like" names — a common prefix P that does not
   end with a digit, a run of digits, a common suffix S that does not begin with
   one (memcached-<n>.memcached.svc:11211, 10.0.0.<n>:11211, /run/mc-<n>.sock) —
   is the order of the numbers, provided they fit int64 and are pairwise
   different; so for every such list the stored order, hence every pick, does
   not depend on the listing order, without evaluating the comparison. *)
Theorem C49_natsort_statefulset : forall P S,
  match rev P with x :: _ => is_digit x = false | [] => True end ->
  match S with y :: _ => is_digit y = false | [] => True end ->
  forall d1 d2, okd d1 -> okd d2 -> digits_val d1 <> digits_val d2 ->
  nat_less (name P S d1) (name P S d2) = (digits_val d1 <? digits_val d2).
Proof. exact nat_less_names. Qed.
Print Assumptions C49_natsort_statefulset.

Theorem C49_order_independent_statefulset : forall nextj P S,
  match rev P with x :: _ => is_digit x = false | [] => True end ->
  match S with y :: _ => is_digit y = false | [] => True end ->
  forall ds, Forall okd ds -> NoDup (map digits_val ds) ->
  forall listed2, Permutation (map (name P S) ds) listed2 ->
  set_servers (map (name P S) ds) = set_servers listed2
  /\ forall k, pick nextj (set_servers (map (name P S) ds)) k = pick nextj (set_servers listed2) k.
Proof.
  intros nextj P S HP HS ds Hok Hnd l2 Hp.
  pose proof (names_order_independent P S HP HS ds Hok Hnd l2 Hp) as E.
  split; [exact E | intro k; rewrite E; reflexivity].
Qed.
Print Assumptions C49_order_independent_statefulset.

(* Adding a server that sorts last only moves keys onto it. *)
Theorem C49_add_last : forall nextj N, 1 <= N -> nextj_ok nextj N ->
  forall servers new_list new,
  Z.of_nat (List.length servers) + 1 <= N ->
  set_servers new_list = set_servers servers ++ [new] ->
  forall k, pick nextj (set_servers new_list) k = pick nextj (set_servers servers) k
            \/ pick nextj (set_servers new_list) k = Some new.
Proof.
  intros nextj N HN H servers new_list new HL E k. rewrite E.
  apply (pick_push nextj N HN H). rewrite set_servers_length. exact HL.
Qed.
Print Assumptions C49_add_last.

(* The same two facts through the boolean predicates that the check evaluates
   on the implementation's own outputs. *)
Theorem C49_jump_pred : forall nextj N, nextj_ok nextj N ->
  forall key tab outs, Z.of_nat (List.length outs) <= N ->
  map Some outs = map (jump nextj key) (seqZ 1 (List.length outs)) ->
  pred_ok (CJump key tab outs) = true.
Proof. exact jump_pred. Qed.
Print Assumptions C49_jump_pred.

Theorem C49_add_last_pred : forall nextj N, 1 <= N -> nextj_ok nextj N ->
  forall servers new keys tab,
  Z.of_nat (List.length servers) + 1 <= N ->
  set_servers (servers ++ [new]) = set_servers servers ++ [new] ->
  pred_ok (CAdd servers new keys tab
             (map (pick nextj (set_servers servers)) keys)
             (map (pick nextj (set_servers (servers ++ [new]))) keys)) = true.
Proof. exact add_pred. Qed.
Print Assumptions C49_add_last_pred.

(* The float64 expression of jumpHash under IEEE-754 binary64 semantics (Flocq:
   round to nearest even; exact conversion of integers below 2^53; truncating
   int64 conversion) exceeds b wherever the loop evaluates it. Depends on the
   classical real-number axioms of the standard library (through Flocq). *)
Theorem C49_float_expression : nextj_ok nextj_ieee (2 ^ 53 - 1).
Proof. exact nextj_ieee_dom. Qed.
Print Assumptions C49_float_expression.

(* The executable evaluation of the expression with Coq's primitive floats, with
   which the check re-computes every oracle value taken from the Go run, IS the
   IEEE-754 reading; so it satisfies the hypothesis too. Depends on the
   specification axioms of Coq's primitive integers/floats and on the classical
   reals (Flocq). *)
Theorem C49_prim_is_ieee : forall b key,
  0 <= b < 2 ^ 53 - 1 -> 0 <= key < two64 -> nextj_prim b key = nextj_ieee b key.
Proof. exact nextj_prim_ieee. Qed.
Print Assumptions C49_prim_is_ieee.

Theorem C49_float_expression_prim : nextj_ok nextj_prim (2 ^ 53 - 1).
Proof. intros b k Hb Hk. rewrite nextj_prim_ieee by assumption. apply nextj_ieee_dom; assumption. Qed.
Print Assumptions C49_float_expression_prim.

(* Instances with no hypothesis left: termination and range, consistency, and
   add-last for up to 2^53 - 2 buckets / servers. *)
Theorem C49_jump_ieee : forall key n, 1 <= n -> n + 1 <= 2 ^ 53 - 1 ->
  (exists r, jump nextj_ieee key n = Some r /\ 0 <= r < n)
  /\ (jump nextj_ieee key (n + 1) = jump nextj_ieee key n \/ jump nextj_ieee key (n + 1) = Some n).
Proof.
  intros key n H1 H2. split.
  - apply (jump_range nextj_ieee N64 nextj_ieee_dom). unfold N64. lia.
  - apply (jump_consistent nextj_ieee N64 nextj_ieee_dom); unfold N64; lia.
Qed.
Print Assumptions C49_jump_ieee.

Theorem C49_add_last_ieee : forall servers new_list new,
  Z.of_nat (List.length servers) + 1 <= 2 ^ 53 - 1 ->
  set_servers new_list = set_servers servers ++ [new] ->
  forall k, pick nextj_ieee (set_servers new_list) k = pick nextj_ieee (set_servers servers) k
            \/ pick nextj_ieee (set_servers new_list) k = Some new.
Proof.
  intros servers new_list new HL E k. rewrite E.
  apply (pick_push nextj_ieee N64 N64_pos nextj_ieee_dom). rewrite set_servers_length. exact HL.
Qed.
Print Assumptions C49_add_last_ieee.

(* The property as worded ("adding a server only moves keys onto the new
   server", "regardless of the order servers are listed in") is false of the
   faithful model; both witnesses are replayed on the implementation
   (corpus/C49/04, 05) and recorded as known findings. *)
Theorem C49_add_not_last_refuted :
  pick (nextj_of w_tab) (set_servers [srv2; srv0]) w_key = Some srv0
  /\ pick (nextj_of w_tab) (set_servers ([srv2; srv0] ++ [srv1])) w_key = Some srv2.
Proof. exact add_middle_moves_between_old. Qed.
Print Assumptions C49_add_not_last_refuted.

Theorem C49_natsort_not_total_refuted :
  nat_less s1 s01 = true /\ nat_less s01 s1 = true /\ nat_less s1 s1 = true
  /\ set_servers [s1; s01] <> set_servers [s01; s1].
Proof. exact natsort_not_antisymmetric. Qed.
Print Assumptions C49_natsort_not_total_refuted.

(* Tie T: the float expression copied by the harness oracle, `b = j`, the
   branch conditions of PickServer / PickServerForKeys and the callee chain are
   those of the current source. *)
Theorem C49_source_facts : src_facts_ok = true.
Proof. exact src_facts. Qed.
Print Assumptions C49_source_facts.

(* Non-vacuity: a function meeting the hypothesis, a 3-server list on which
   natsort is a strict total order, and a jump through two buckets. *)
Example C49_nonvacuous :
  nextj_ok (fun b _ => b + 2) 100
  /\ jump (fun b _ => b + 2) 7 5 = Some 4
  /\ strict_total_b nat_less [srv2; srv0; srv1] = true /\ nodup_b [srv2; srv0; srv1] = true
  /\ set_servers [srv2; srv0; srv1] = [srv0; srv1; srv2].
Proof. split; [intros b k _ _; lia|]. vm_compute. repeat split; reflexivity. Qed.

(* Non-vacuity for the statefulset class: "/s" ++ digits, numbers 10, 9, 2. *)
Example C49_statefulset_nonvacuous :
  let P := [47; 115]%N in
  let ds := [[49; 48]; [57]; [50]]%N in
  Forall okd ds /\ NoDup (map digits_val ds)
  /\ set_servers (map (name P []) ds) = map (name P []) [[50]; [57]; [49; 48]]%N.
Proof.
  cbv zeta. split; [|split].
  - repeat constructor; try discriminate; vm_compute; congruence.
  - vm_compute. repeat constructor; simpl; intuition discriminate.
  - vm_compute. reflexivity.
Qed.
