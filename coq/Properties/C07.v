(* C07 — Label name/value APIs cover every label seen by Series.
   Property theorems only; proofs in Proofs/C07.v. Model: Model/C07.v — TSDBStore.Series
   label sets (C08), TSDBStore.LabelNames / LabelValues, and ProxyStore in front of several
   TSDB stores (pruning as in C05, strutil.MergeUnsortedSlices). [lfind l n = Some v] reads
   "label n occurs on l with value v" (labels.Get/Has). External label sets are valid when
   names are distinct and values non-empty; stored series have at least one label. *)
From Coq Require Import ZArith NArith List Bool.
Import ListNotations.
From Verif Require Import Lib.Corr Lib.Proxy_Order Model.C05 Model.C08 Proofs.C08_Labels Gen.C07 Model.C07 Proofs.C07.
Open Scope Z_scope.

(* One TSDB store, any external labels (colliding with stored labels or not), any replica-label
   list, any selectors: every label name on a series of the Series response is in the
   LabelNames response for the same request — external labels included, dropped ones do not occur
   on the series. *)
Theorem C07_names_cover_tsdb : forall ext drop ms stored ls l n v,
  valid_ext ext -> stored_ok stored ->
  tsdb_series_labels ext drop ms stored = Some ls -> In l ls -> lfind l n = Some v ->
  In n (tsdb_label_names ext drop ms stored).
Proof. exact names_cover_store. Qed.
Print Assumptions C07_names_cover_tsdb.

(* ... and every value the asked label has on such a series is in the LabelValues response. *)
Theorem C07_values_cover_tsdb : forall ext drop ms label stored ls l v,
  valid_ext ext ->
  tsdb_series_labels ext drop ms stored = Some ls -> In l ls -> lfind l label = Some v ->
  In v (tsdb_label_values ext drop ms label stored).
Proof. exact values_cover_store. Qed.
Print Assumptions C07_values_cover_tsdb.

(* The proxy in front of any number of such stores (same data, different external labels). *)
Theorem C07_names_cover_proxy : forall exts drop ms stored ls l n v,
  (forall e, In e exts -> valid_ext e) -> stored_ok stored ->
  proxy_series_labels exts drop ms stored = Some ls -> In l ls -> lfind l n = Some v ->
  In n (proxy_label_names exts drop ms stored).
Proof. exact names_cover_proxy. Qed.
Print Assumptions C07_names_cover_proxy.

Theorem C07_values_cover_proxy : forall exts drop ms label stored ls l v,
  (forall e, In e exts -> valid_ext e) ->
  proxy_series_labels exts drop ms stored = Some ls -> In l ls -> lfind l label = Some v ->
  In v (proxy_label_values exts drop ms label stored).
Proof. exact values_cover_proxy. Qed.
Print Assumptions C07_values_cover_proxy.

(* Histories: a TSDB store may be built with some external labels and reloaded with others
   (SetExtLset, e.g. on a receiver hashring reload) before it is queried. LabelNames and
   LabelValues read the store's CURRENT external labels (source facts of Gen/C07.v), so all three
   responses — of each store and of the proxy in front — are those of a store built with the current
   labels, whatever the history; the coverage theorems above therefore hold after any reload. *)
Theorem C07_history_irrelevant : forall stored drop ms label (inits exts : list labels),
  length inits = length exts ->
  map (model_store_h stored drop ms label) (combine inits exts) = map (model_store stored drop ms label) exts
  /\ model_proxy_h stored (combine inits exts) drop ms label = model_proxy stored exts drop ms label.
Proof. exact history_irrelevant. Qed.
Print Assumptions C07_history_irrelevant.

(* The object-storage store gateway (BucketStore) over any set of blocks (external labels +
   stored series per block; blocks may have different external labels): names and values cover,
   both through the index-header path (no series matcher left after stripping the external-label
   matchers) and through the series path (incl. the `label != ""` matcher it adds). *)
Theorem C07_names_cover_bucket : forall blocks drop ms l n v,
  (forall b, In b blocks -> valid_ext (fst b)) ->
  In l (bucket_series_labels blocks drop ms) -> lfind l n = Some v ->
  In n (bucket_label_names blocks drop ms).
Proof. exact names_cover_bucket. Qed.
Print Assumptions C07_names_cover_bucket.

Theorem C07_values_cover_bucket : forall hne blocks drop ms label l v,
  (forall b, In b blocks -> valid_ext (fst b)) ->
  (forall b, In b blocks -> stored_vals_ok (snd b)) ->
  In l (bucket_series_labels blocks drop ms) -> lfind l label = Some v ->
  In v (bucket_label_values hne blocks drop ms label).
Proof. exact values_cover_bucket. Qed.
Print Assumptions C07_values_cover_bucket.

(* ... and the proxy in front of the store gateway. *)
Theorem C07_names_cover_bucket_proxy : forall blocks drop ms hne label ls l n v,
  (forall b, In b blocks -> valid_ext (fst b)) ->
  o_series (model_bucket_proxy blocks drop ms hne label) = Some ls -> In l ls -> lfind l n = Some v ->
  In n (o_names (model_bucket_proxy blocks drop ms hne label)).
Proof. exact names_cover_bucket_proxy. Qed.
Print Assumptions C07_names_cover_bucket_proxy.

Theorem C07_values_cover_bucket_proxy : forall blocks drop ms hne label ls l v,
  (forall b, In b blocks -> valid_ext (fst b)) ->
  (forall b, In b blocks -> stored_vals_ok (snd b)) ->
  o_series (model_bucket_proxy blocks drop ms hne label) = Some ls -> In l ls -> lfind l label = Some v ->
  In v (o_values (model_bucket_proxy blocks drop ms hne label)).
Proof. exact values_cover_bucket_proxy. Qed.
Print Assumptions C07_values_cover_bucket_proxy.

(* Non-vacuity: two replicas (replica="r0"/"r1", region="eu") of a database with one series
   {__name__="up", region="us"}; request {__name__="up"} dropping "replica", asking for "region":
   the proxy returns the series once as {__name__="up", region="eu"}, names and values cover it. *)
Definition NAME : str := [95;95;110;97;109;101;95;95]%N.
Definition UP : str := [117;112]%N.
Definition REGION7 : str := [114;101;103;105;111;110]%N.
Definition REPLICA7 : str := [114;101;112;108;105;99;97]%N.
Definition EU : str := [101;117]%N.
Definition ex_m : matcher := MkM 0 NAME [([], false); (UP, true); (EU, false); ([117;115]%N, false)].
Definition ex_exts : list labels := [[(REGION7, EU); (REPLICA7, [114;48]%N)]; [(REGION7, EU); (REPLICA7, [114;49]%N)]].
Definition ex_db : list labels := [[(NAME, UP); (REGION7, [117;115]%N)]].
Example C07_nonvacuous :
  proxy_series_labels ex_exts [REPLICA7] [ex_m] ex_db = Some [[(NAME, UP); (REGION7, EU)]]
  /\ proxy_label_names ex_exts [REPLICA7] [ex_m] ex_db = [NAME; REGION7; REGION7]
  /\ proxy_label_values ex_exts [REPLICA7] [ex_m] REGION7 ex_db = [EU]
  (* the same data as one block of a store gateway *)
  /\ bucket_series_labels [(nth 0 ex_exts [], ex_db)] [REPLICA7] [ex_m] = [[(NAME, UP); (REGION7, EU)]]
  /\ bucket_label_names [(nth 0 ex_exts [], ex_db)] [REPLICA7] [ex_m] = [NAME; REGION7]
  /\ bucket_label_values false [(nth 0 ex_exts [], ex_db)] [REPLICA7] [ex_m] REGION7 = [EU].
Proof. vm_compute. repeat split. Qed.
