(* C12 — Cached posting-list encodings decode to the original list, and seeking
   in the decoded list behaves as seeking in the original.
   Property theorems only; each is closed by [exact] of a lemma of Proofs/C12.v.
   Model: Model/C12.v (pkg/store/postings_codec.go: diff+varint encoder,
   diffVarintPostings, streamedDiffVarintPostings over decoded snappy chunk
   payloads; binary.PutUvarint/Uvarint; index.ListPostings as the reference). *)
From Coq Require Import String.
From Coq Require Import NArith List Bool.
Import ListNotations.
From Verif Require Import Lib.Corr Gen.C12 Model.C12 Proofs.C12.
Open Scope N_scope.

(* Round trip, both codecs. For every non-decreasing list of uint64 references
   (any length, duplicates allowed): the encoder succeeds; reading the
   diffVarintPostings over the encoded bytes with Next yields exactly the list
   and no error; and for EVERY way of cutting the encoded bytes into snappy
   chunk payloads (also inside a varint, also with empty chunks) the streamed
   decoder yields exactly the list and no error. No fuel runs out. *)
Theorem C12_roundtrip : forall l, valid l = true ->
  exists bs, diff_varint_encode l = Some bs /\ dv_decode bs = Some (l, false) /\
    forall chunks, concat chunks = bs -> sd_decode chunks = Some (l, false).
Proof. exact roundtrip. Qed.
Print Assumptions C12_roundtrip.

(* The encoder refuses a list that is not sorted (v < prev). *)
Theorem C12_rejects_unsorted : forall l, sorted_from 0 l = false -> diff_varint_encode l = None.
Proof. exact rejects_unsorted. Qed.
Print Assumptions C12_rejects_unsorted.

(* Seek equivalence. For every valid list, every program of Next / Seek x calls
   and every chunking of the streamed encoding: up to and including the first
   call that returns false, diffVarintPostings and streamedDiffVarintPostings
   return the same booleans as index.ListPostings over the original list, and
   the same At() after every call that returned true. *)
Theorem C12_seek_equiv : forall l prog, valid l = true ->
  exists bs, diff_varint_encode l = Some bs /\
    forall chunks, concat chunks = bs ->
    exists tl td ts, run_lp prog l = Some tl /\ run_dv prog bs = Some td /\ run_sd prog chunks = Some ts /\
      visible td = visible tl /\ visible ts = visible tl.
Proof. exact seek_equiv. Qed.
Print Assumptions C12_seek_equiv.

(* The same through the boolean predicates that the check evaluates on the
   implementation's own observables (chunk boundaries given as lengths). *)
Theorem C12_round_pred : forall l lens, valid l = true ->
  exists bs, diff_varint_encode l = Some bs /\
    (lens_ok lens bs = true ->
     exists dvo sto, dv_decode bs = Some dvo /\ sd_decode (split_by lens bs) = Some sto /\
       pred_ok (CRound l (Some bs) dvo lens sto) = true /\ pred_ok (CSplit l lens sto) = true).
Proof. exact round_pred. Qed.
Print Assumptions C12_round_pred.

Theorem C12_seek_pred : forall l lens prog, valid l = true ->
  exists bs, diff_varint_encode l = Some bs /\
    (lens_ok lens bs = true ->
     exists tl td ts, run_lp prog l = Some tl /\ run_dv prog bs = Some td /\ run_sd prog (split_by lens bs) = Some ts /\
       pred_ok (CSeek l lens prog tl td ts) = true).
Proof. exact seek_pred_ok. Qed.
Print Assumptions C12_seek_pred.

(* Varint law used by all of the above: Uvarint (PutUvarint v ++ tail) = (v, tail) for every uint64. *)
Theorem C12_uvarint_put : forall v tail, v < two64 -> uvarint (put_uvarint v ++ tail) = Some (v, tail).
Proof. exact uvarint_put. Qed.
Print Assumptions C12_uvarint_put.

(* Tie T: the iterator methods and the encoder loop in the current source have
   the statement shape the model was written against (Gen/C12.v is regenerated
   from pkg/store/postings_codec.go on every run). *)
Theorem C12_source_shape :
  dvSeekEvents = seek_events "it.cur" /\ sdSeekEvents = seek_events "it.curSeries" /\
  dvNextEvents =
    [("call", "it.buf.Err"); ("call", "it.buf.Len"); ("if", "it.buf.Err() != nil || it.buf.Len() == 0");
     ("return", "false"); ("endif", ""); ("call", "it.buf.Uvarint64"); ("call", "it.buf.Err");
     ("if", "it.buf.Err() != nil"); ("return", "false"); ("endif", "");
     ("call", "storage.SeriesRef"); ("return", "true")]%string /\
  sdNextEvents =
    [("for", ""); ("call", "it.db.Uvarint64"); ("call", "it.db.Err"); ("if", "it.db.Err() != nil");
     ("call", "it.readNextChunk"); ("if", "!it.readNextChunk(it.db.B)"); ("return", "false"); ("endif", "");
     ("endif", ""); ("call", "storage.SeriesRef"); ("return", "true"); ("endfor", "")]%string /\
  streamedEncodeUvarintRHS = "binary.PutUvarint(uvarintEncodeBuf, uint64(v-prev))"%string /\
  readNextChunkDbBAssigns = ["append(remainder, decoded...)"; "decoded"; "append(remainder, uncompressedData...)";
                             "uncompressedData"]%string /\
  In ("if", "v < prev")%string encodeEvents /\ In ("call", "buf.PutUvarint64")%string encodeEvents.
Proof. exact source_shape. Qed.
Print Assumptions C12_source_shape.

(* Histories of pooled decoders (decodePostings / Next / close on several streamed decoders
   sharing decodedBufPool). close() is NOT idempotent in the code — it puts &it.buf whenever
   it.buf != nil and assigns nothing (C12_close_shape) — so the callers' discipline "close a
   decoder at most once and do not use it afterwards" is what the pool relies on; steps outside
   it are rejected by hp_step. For EVERY such history and whatever buffers sync.Pool hands out:
   a decode buffer is in the pool at most once and never while a live decoder holds it — so no
   two live decoders share a backing array and each decodes its own list (C12_roundtrip). *)
Theorem C12_pool_single_put : forall evs st, hp_run false hp_init evs = Some st ->
  NoDup (hp_pool st ++ live_bufs (hp_decs st)).
Proof. exact pool_single_put. Qed.
Print Assumptions C12_pool_single_put.

(* a Next that calls close() itself at the end of the input, then the caller's close(): the buffer
   is pooled twice and the next two live decoders hold the same buffer *)
Theorem C12_pool_early_close_refuted :
  option_map hp_pool (hp_run true hp_init [(HNew 0, None); (HExhaust 0, Some 0); (HClose 0, None)]) = Some [0; 0] /\
  option_map (fun st => live_bufs (hp_decs st))
    (hp_run true hp_init [(HNew 0, None); (HExhaust 0, Some 0); (HClose 0, None);
                          (HNew 1, None); (HNew 2, None); (HNext 1 5, Some 0); (HNext 2 5, Some 0)]) = Some [0; 0] /\
  option_map hp_pool (hp_run false hp_init [(HNew 0, None); (HExhaust 0, Some 0); (HClose 0, None)]) = Some [0].
Proof. exact pool_early_close_refuted. Qed.
Print Assumptions C12_pool_early_close_refuted.

(* the predicate of history cases holds of the model's outputs: every decoder returns the
   beginning of its own list *)
Theorem C12_history_pred : forall lists evs,
  pred_ok (CHist lists evs (map (fun x => (hd_read x, true, false))
     (hout (map (fun t : N * list N * N => big_list (fst (fst t)) (snd (fst t)) (snd t)) lists) evs))) = true.
Proof. exact hist_case_pred. Qed.
Print Assumptions C12_history_pred.

Theorem C12_close_shape :
  sdCloseEvents = [("if", "it.buf == nil"); ("return", ""); ("endif", ""); ("if", "it.disablePooling"); ("return", "");
                   ("endif", ""); ("call", "decodedBufPool.Put")]%string /\ sdCloseAssigns = []%string.
Proof. exact close_shape. Qed.
Print Assumptions C12_close_shape.

(* Non-vacuity: a valid list with a duplicate, a 2-byte and a 10-byte difference;
   its encoding; a chunking that cuts inside varints; a program whose Seek skips. *)
Example C12_nonvacuous :
  let l := [5; 5; 300; 18446744073709551615] in
  valid l = true /\
  diff_varint_encode l = Some [5; 0; 167; 2; 211; 253; 255; 255; 255; 255; 255; 255; 255; 1] /\
  sd_decode [[5; 0; 167]; []; [2; 211; 253; 255]; [255; 255; 255; 255; 255; 255]; [1]] = Some (l, false) /\
  run_lp [OSeek 6; ONext; ONext] l = Some [(true, 300); (true, 18446744073709551615); (false, 0)] /\
  run_sd [OSeek 6; ONext; ONext] [[5; 0; 167]; [2; 211; 253; 255; 255; 255; 255; 255; 255; 255; 1]]
    = Some [(true, 300); (true, 18446744073709551615); (false, 18446744073709551615)] /\
  sorted_from 0 [3; 2] = false.
Proof. vm_compute. repeat split; reflexivity. Qed.
