(* C43 — Results-cache keys separate tenants and result-changing parameters.
   Model/C43.v mirrors pkg/queryfrontend/cache.go (with the tenant field escaped by
   escapeCacheKeyTenant: repo_patches/C43-fix.patch); byte strings are [list N].

   Full statement wanted: for all accepted tenants t1 t2 and cacheable requests r1 r2,
     key t1 r1 = key t2 r2 -> t1 = t2 /\ same_params r1 r2 = true.
   Proved: the tenant half for ALL inputs (C43_tenant_separation); the parameter half
   for range requests whose engine / replica-label strings avoid the separators
   (C43_range_injective, C43_range_pred), and for label / series requests except
   the parameters their key formats leave out (…_partial). The remaining cases are
   false of the code and are proved so (…_refuted). *)
From Coq Require Import ZArith NArith List Bool Permutation.
Import ListNotations.
From Verif Require Import Lib.Corr Gen.C43 Model.C43 Proofs.C43.
Open Scope Z_scope.

(* Requests of different tenants never share a key: every tenant string, every
   request of any of the three kinds, no side condition. *)
Theorem C43_tenant_separation : forall t1 r1 t2 r2,
  key t1 r1 = key t2 r2 -> t1 = t2.
Proof. exact tenant_separation. Qed.
Print Assumptions C43_tenant_separation.

(* Range requests: when engine and replica labels are free of ':' (and replica labels
   non-empty and free of ','), equal keys force equal tenant, query (ANY query text,
   colons included), step, split interval and window, resolution class, shard,
   lookback delta, engine, partial response, replica labels (as sorted lists) and analyze. *)
Theorem C43_range_injective : forall t1 r1 t2 r2,
  is_range r1 -> is_range r2 -> safe_range r1 -> safe_range r2 ->
  key t1 r1 = key t2 r2 -> t1 = t2 /\ range_same r1 r2.
Proof. exact range_injective. Qed.
Print Assumptions C43_range_injective.

(* the same through the boolean predicate the check evaluates on the implementation's keys *)
Theorem C43_range_pred : forall t1 r1 t2 r2,
  is_range r1 -> is_range r2 -> safe_range r1 -> safe_range r2 ->
  pred_ok (CPair t1 r1 (key t1 r1) t2 r2 (key t2 r2)) = true.
Proof. exact range_pred. Qed.
Print Assumptions C43_range_pred.

(* Label names/values requests: the key determines tenant, label name (free of ':'),
   the matchers' rendering and the window. partial: PartialResponse is not in the key. *)
Theorem C43_labels_injective_partial : forall t1 t2 l1 m1 st1 sp1 p1 l2 m2 st2 sp2 p2,
  no c_colon l1 -> no c_colon l2 ->
  key t1 (RLabels l1 m1 st1 sp1 p1) = key t2 (RLabels l2 m2 st2 sp2 p2) ->
  t1 = t2 /\ l1 = l2 /\ m1 = m2 /\ sp1 = sp2 /\ Z.quot st1 sp1 = Z.quot st2 sp2.
Proof. exact labels_injective. Qed.
Print Assumptions C43_labels_injective_partial.

(* Series requests: the key determines tenant, matchers' rendering and window.
   partial: PartialResponse and ReplicaLabels are not in the key. *)
Theorem C43_series_injective_partial : forall t1 t2 m1 st1 sp1 p1 rl1 m2 st2 sp2 p2 rl2,
  key t1 (RSeries m1 st1 sp1 p1 rl1) = key t2 (RSeries m2 st2 sp2 p2 rl2) ->
  t1 = t2 /\ m1 = m2 /\ sp1 = sp2 /\ Z.quot st1 sp1 = Z.quot st2 sp2.
Proof. exact series_injective. Qed.
Print Assumptions C43_series_injective_partial.

(* Keys of different request kinds are different (matters when one cache backend
   serves both the query-range and the labels tripperware). *)
Theorem C43_range_vs_other : forall t1 r1 t2 r2,
  is_range r1 -> ~ is_range r2 -> key t1 r1 <> key t2 r2.
Proof. exact range_vs_other. Qed.
Print Assumptions C43_range_vs_other.

Theorem C43_labels_vs_series : forall t1 t2 l1 m1 st1 sp1 p1 m2 st2 sp2 p2 rl2,
  no c_colon l1 -> hd_error l1 <> Some c_lbrack -> hd_error m2 = Some c_lbrack ->
  key t1 (RLabels l1 m1 st1 sp1 p1) <> key t2 (RSeries m2 st2 sp2 p2 rl2).
Proof. exact labels_vs_series. Qed.
Print Assumptions C43_labels_vs_series.

(* Max source resolution enters the key through its class; two values are in the same
   class exactly when they allow the same resolution levels (the list regenerated from
   the source), i.e. when the querier may read the same blocks. *)
Theorem C43_resolution_class : forall msr1 msr2,
  res_class msr1 = res_class msr2 <->
  (forall l, In l key_resolutions -> (l <=? msr1) = (l <=? msr2)).
Proof. exact resolution_class. Qed.
Print Assumptions C43_resolution_class.

(* replica labels enter as a sorted list: order does not matter, multiplicity does *)
Theorem C43_replicas_sorted_permutation : forall l, Permutation l (sort_strs l).
Proof. exact sort_strs_permutation. Qed.
Print Assumptions C43_replicas_sorted_permutation.

(* tenants accepted by tenant.SingleResolver: no path separators, not "." / ".." — ':' is allowed *)
Theorem C43_tenant_accepted_spec : forall t,
  tenant_accepted t = true <->
  t <> [c_dot] /\ t <> [c_dot; c_dot] /\ ~ In c_slash t /\ ~ In c_bslash t.
Proof. exact tenant_accepted_spec. Qed.
Print Assumptions C43_tenant_accepted_spec.

(* ---- refutations (witnesses replayed on the real code: corpus/C43) ---- *)

Definition b_a : N := 97%N. Definition b_b : N := 98%N. Definition b_c : N := 99%N.
Definition rq (q : str) (eng : str) (reps : list str) : req :=
  RRange q 0 1000 3600000 0 None 0 eng false reps false.

(* the key as built BEFORE the fix: tenant "a:b" asking "c" and tenant "a" asking "b:c"
   (both accepted tenants) share a key *)
Theorem C43_unescaped_tenant_refuted :
  exists t1 t2 r1 r2, tenant_accepted t1 = true /\ tenant_accepted t2 = true /\ t1 <> t2 /\
    key_unescaped t1 r1 = key_unescaped t2 r2.
Proof.
  exists [b_a; c_colon; b_b], [b_a], (rq [b_c] [] []), (rq [b_b; c_colon; b_c] [] []).
  repeat split; try (vm_compute; reflexivity). discriminate.
Qed.
Print Assumptions C43_unescaped_tenant_refuted.

(* replica labels ["a,b"] vs ["a";"b"], and [""] vs []: same key *)
Theorem C43_replica_separator_refuted :
  exists t r1 r2, is_range r1 /\ is_range r2 /\ key t r1 = key t r2 /\ same_params r1 r2 = false.
Proof.
  exists [b_a], (rq [b_c] [] [[b_a; c_comma; b_b]]), (rq [b_c] [] [[b_a]; [b_b]]).
  repeat split; vm_compute; reflexivity.
Qed.
Print Assumptions C43_replica_separator_refuted.

Theorem C43_replica_empty_refuted :
  exists t r1 r2, is_range r1 /\ is_range r2 /\ key t r1 = key t r2 /\ same_params r1 r2 = false.
Proof.
  exists [b_a], (rq [b_c] [] [[]]), (rq [b_c] [] []).
  repeat split; vm_compute; reflexivity.
Qed.
Print Assumptions C43_replica_empty_refuted.

(* an engine string containing ':' can absorb fields: engine "e" + replica label "r:true:x"
   vs engine "e:true:r" + replica label "x" (partial response true in both) *)
Theorem C43_engine_separator_refuted :
  exists t r1 r2, is_range r1 /\ is_range r2 /\ key t r1 = key t r2 /\ same_params r1 r2 = false.
Proof.
  exists [b_a],
    (RRange [b_c] 0 1000 3600000 0 None 0 [101%N] true [[114; 58; 116; 114; 117; 101; 58; 120]%N] false),
    (RRange [b_c] 0 1000 3600000 0 None 0 [101; 58; 116; 114; 117; 101; 58; 114]%N true [[120%N]] false).
  repeat split; vm_compute; reflexivity.
Qed.
Print Assumptions C43_engine_separator_refuted.

(* series requests differing only in replica labels, labels requests differing only in
   partial response: same key *)
Theorem C43_series_replicas_refuted :
  exists t m st sp p rl1 rl2, sort_strs rl1 <> sort_strs rl2 /\
    key t (RSeries m st sp p rl1) = key t (RSeries m st sp p rl2).
Proof.
  exists [b_a], [c_lbrack; 93%N], 0, 3600000, false, [[b_a]], [].
  split; [vm_compute; discriminate | reflexivity].
Qed.
Print Assumptions C43_series_replicas_refuted.

Theorem C43_labels_series_partial_response_refuted :
  exists t l m st sp rl,
    key t (RLabels l m st sp true) = key t (RLabels l m st sp false) /\
    key t (RSeries m st sp true rl) = key t (RSeries m st sp false rl).
Proof.
  exists [b_a], [b_b], [c_lbrack; 93%N], 0, 3600000, []. split; reflexivity.
Qed.
Print Assumptions C43_labels_series_partial_response_refuted.

(* ---- non-vacuity ---- *)

(* two different accepted tenants with ':' and '%', a query with colons, safe engine and
   replica labels: hypotheses of C43_range_injective hold and the keys are as in Go *)
Example C43_nonvacuous :
  let r := RRange [b_b; c_colon; b_c] 7200001 60000 3600000 300000 (Some (3, 1)) 0 [b_a] true [[b_b]; [b_a]] false in
  is_range r /\ safe_range r /\ tenant_accepted [b_a; c_colon; b_b] = true
  /\ key [b_a; c_colon; b_b] r
     = [102;101;58; 97;37;51;65;98; 58; 98;58;99; 58;54;48;48;48;48; 58;51;54;48;48;48;48;48; 58;50; 58;49;
        58;51;58;49; 58;48; 58;97; 58;116;114;117;101; 58;97;44;98; 58;102;97;108;115;101]%N
  /\ key [b_a] (rq [b_b; c_colon; b_c] [] []) <> key [b_a; c_colon; b_b] (rq [b_c] [] []).
Proof.
  cbv zeta. split; [exact I|]. split.
  - cbn. split.
    + unfold no, c_colon, b_a. cbn. intuition discriminate.
    + repeat constructor; unfold no, c_colon, c_comma, b_a, b_b; cbn; try discriminate; intuition discriminate.
  - split; [vm_compute; reflexivity|]. split; [vm_compute; reflexivity|]. vm_compute. discriminate.
Qed.

Example C43_labels_nonvacuous :
  no c_colon [b_a] /\ hd_error [b_a] <> Some c_lbrack
  /\ key [] (RLabels [b_a] [c_lbrack; 93%N] 5 3600000 false)
     = [102;101;58; 58; 97; 58;91;93; 58;51;54;48;48;48;48;48; 58;48]%N.
Proof.
  split; [unfold no, c_colon, b_a; cbn; intuition discriminate|].
  split; [cbn; unfold b_a, c_lbrack; congruence|]. vm_compute. reflexivity.
Qed.

Example C43_resolution_class_nonvacuous :
  res_class 3600000 = 0 /\ res_class 3599999 = 1 /\ res_class 300000 = 1 /\ res_class 299999 = 2
  /\ res_class 0 = 2 /\ res_class (-1) = 3.
Proof. vm_compute. repeat split; reflexivity. Qed.
