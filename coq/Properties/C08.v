(* C08 — Stores present external labels consistently (TSDBStore).
   Property theorems only; proofs in Proofs/C08.v. Model: Model/C08.v (TSDBStore.Series:
   matchesExternalLabels as in C05, rmLabels, labelpb.ExtendSortedLabels, frame
   splitting); the frame-continuation test comes from Gen/C08.v, regenerated from
   pkg/store/tsdb.go on every run. [lfind l n] is labels.Get/Has: Some v when the label
   set has name n. External label sets are valid when names are distinct and values
   non-empty ([valid_ext]). *)
From Coq Require Import ZArith NArith List Bool.
Import ListNotations.
From Verif Require Import Lib.Corr Lib.Proxy_Order Gen.C08 Model.C05 Model.C08 Proofs.C08_Labels Proofs.C08.
Open Scope Z_scope.

(* For all external label sets, stored label sets (colliding or not) and replica-label
   lists: in the label set TSDBStore.Series sends, a label the request asked to drop is
   absent; otherwise an external label has the external value (it overrides a stored
   label of the same name); otherwise the stored label is kept. *)
Theorem C08_present_spec : forall ext drop stored m, valid_ext ext ->
  lfind (present ext drop stored) m
  = if in_drop drop m then None
    else match lfind ext m with Some v => Some v | None => lfind stored m end.
Proof. exact present_spec. Qed.
Print Assumptions C08_present_spec.

Theorem C08_ext_override : forall ext drop stored, valid_ext ext ->
  (forall n v, In (n, v) ext -> in_drop drop n = false -> lget (present ext drop stored) n = v)
  /\ (forall n, in_drop drop n = true -> lhas (present ext drop stored) n = false)
  /\ (forall n, in_drop drop n = false -> lhas ext n = false -> lget (present ext drop stored) n = lget stored n).
Proof. exact ext_override. Qed.
Print Assumptions C08_ext_override.

(* The two orders used in the code base — TSDBStore removes the replica labels from the stored
   and the external labels and then extends; the bucket store removes them from the external labels, extends, and removes them from the result — present
   the same labels. *)
Theorem C08_two_orders_agree : forall ext drop stored m, valid_ext ext ->
  lfind (present ext drop stored) m = lfind (present_bucket ext drop stored) m.
Proof. exact two_orders_agree. Qed.
Print Assumptions C08_two_orders_agree.

(* BucketStore.Series over any set of blocks (external labels + stored series): every returned
   series stands for a stored series of a block whose external labels do not contradict the
   selectors, under the bucket-order label set; with valid external labels it carries those of
   its block that were not dropped and none of the dropped labels. *)
Theorem C08_bucket_series_spec : forall blocks drop ms l,
  In l (bucket_series_labels blocks drop ms) ->
  exists ext stored sl, In (ext, stored) blocks /\ In sl stored /\ l = present_bucket ext drop sl
    /\ ext_loop mname mmatch ms ext <> None.
Proof. exact bucket_series_spec. Qed.
Print Assumptions C08_bucket_series_spec.

Theorem C08_bucket_ext_override : forall blocks drop ms l,
  (forall b, In b blocks -> valid_ext (fst b)) ->
  In l (bucket_series_labels blocks drop ms) ->
  exists ext stored, In (ext, stored) blocks
    /\ (forall n v, In (n, v) ext -> in_drop drop n = false -> lget l n = v)
    /\ (forall n, in_drop drop n = true -> lhas l n = false).
Proof. exact bucket_ext_override. Qed.
Print Assumptions C08_bucket_ext_override.

(* Frame splitting, for every frame limit (also limits smaller than one chunk or than the
   labels) and every chunk size list: the frames of a series repeat the full label set,
   each carries at least one chunk, and concatenated they give back the chunk list. *)
Theorem C08_frames_preserve : forall maxBytes lbls cs,
  concat (map snd (frames_of maxBytes false lbls cs)) = cs
  /\ Forall (fun f => fst f = lbls /\ snd f <> []) (frames_of maxBytes false lbls cs).
Proof. exact frames_preserve. Qed.
Print Assumptions C08_frames_preserve.

(* The frame budget (pins the regenerated loop condition): a chunk is added to a frame only
   while bytes are left, so every frame without its last chunk is strictly below the budget
   (the code comment's "minor inaccuracy ... max of full chunk size"). *)
Theorem C08_frames_budget : forall maxBytes lbls cs,
  let base := maxBytes - fold_right Z.add 0 (map label_size lbls) in
  Forall (fun f => removelast (snd f) <> [] -> fsum (removelast (snd f)) < base) (frames_of maxBytes false lbls cs).
Proof. exact frames_budget. Qed.
Print Assumptions C08_frames_budget.

(* The response: selectors that contradict the external labels give an empty response; every
   frame sent stands for a stored series, under the label set of C08_present_spec, with
   chunks of that series. *)
Theorem C08_series_spec : forall ext drop ms maxBytes skip stored fs,
  tsdb_series ext drop ms maxBytes skip stored = ROkFrames fs ->
  (matches_external_labels mname mmatch ms ext = None -> fs = [])
  /\ forall l f, In (l, f) fs ->
       exists sl cs, In (sl, cs) stored /\ l = present ext drop sl
                     /\ (skip = false -> f <> [] /\ incl f cs).
Proof. exact series_spec. Qed.
Print Assumptions C08_series_spec.

(* Non-vacuity: external labels {region="eu", replica="r0"}, stored series
   {a="1", region="us"} with three chunks, request dropping "replica", frame limit 60 (42 bytes left
   after the labels): region is overridden, replica dropped, the series is split into two frames.
   (97 "a", 49 "1"; region = 114 101 103 105 111 110; replica = 114 101 112 108 105 99 97) *)
Definition REGION : str := [114;101;103;105;111;110]%N.
Definition REPLICA : str := [114;101;112;108;105;99;97]%N.
Definition ex_ext : labels := [(REGION, [101;117]%N); (REPLICA, [114;48]%N)].
Definition ex_stored : labels := [([97]%N, [49]%N); (REGION, [117;115]%N)].
Example C08_nonvacuous :
  present ex_ext [REPLICA] ex_stored = [([97]%N, [49]%N); (REGION, [101;117]%N)]
  /\ map snd (frames_of 60 false (present ex_ext [REPLICA] ex_stored) [(0,3,30); (4,7,30); (8,11,30)])
     = [[(0,3,30); (4,7,30)]; [(8,11,30)]]
  /\ map snd (frames_of 100 false (present ex_ext [REPLICA] ex_stored) [(0,3,30); (4,7,30); (8,11,30)])
     = [[(0,3,30); (4,7,30); (8,11,30)]].
Proof. vm_compute. repeat split. Qed.
