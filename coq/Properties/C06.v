(* C06 — Partial-response strategy is honoured under store failures.
   Property theorems only (proofs: Lib/Proxy_Fail.v, Proofs/C06.v). The model is the
   executable model of ProxyStore.Series shared with C03 (array loser tree, lazy / eager
   response sets, de-duplicator, batching); the strategy tests `open_warn_mode`,
   `loop_abort_mode` and the limit test come from Gen/C06.v, regenerated from
   pkg/store/proxy.go on every run. A store's script may fail when it is opened
   (Series() returns an error) or after any number of frames (Recv error; a frame
   timeout is a Recv error of the cancelled stream). *)
From Coq Require Import ZArith NArith List Bool Permutation Sorted.
Import ListNotations.
From Verif Require Import Lib.Corr Lib.Proxy_Order Lib.Proxy_Model Lib.Proxy_Proofs Lib.Proxy_Fail
  Gen.C06 Model.C03 Proofs.C03_Inst Model.C06 Proofs.C06 Proofs.C06_Timer.
Open Scope Z_scope.

(* The two places where ProxyStore.Series consults the strategy decide alike. *)
Theorem C06_modes_consistent : forall disabled strategy,
  open_warn_mode disabled strategy = negb (loop_abort_mode disabled strategy).
Proof. exact modes_consistent. Qed.
Print Assumptions C06_modes_consistent.

(* ABORT (or partial response disabled): for every set of stores, every subset of
   failing stores, every failure point (at open, after k frames), lazy and eager
   retrieval, any batch size: if some queried store fails, the request fails. *)
Theorem C06_abort_fails : forall lazy wrl disabled strategy limit batch (scripts : list script),
  limit <= 0 ->
  disabled = true \/ strategy = ABORT ->
  (exists s w, In s scripts /\ fail_warning s = Some w) ->
  proxy6 lazy wrl disabled strategy limit batch scripts = None.
Proof. exact abort_fails6. Qed.
Print Assumptions C06_abort_fails.

(* WARN: for every set of stores, failing subset and failure points, the request
   succeeds; the warning made of each failed store's error reaches the client; and
   every series that a store whose stream opened delivered — in particular every series
   of every store that did not fail — is in the response under its (presented) label
   set with all its chunk keys. No sortedness assumption is needed for this. *)
Theorem C06_warn_succeeds : forall lazy wrl disabled strategy limit batch (scripts : list script),
  limit <= 0 ->
  disabled = false -> strategy <> ABORT ->
  exists frames,
    proxy6 lazy wrl disabled strategy limit batch scripts = Some frames
    /\ (forall s w, In s scripts -> fail_warning s = Some w -> In w (warns (unbatch frames)))
    /\ (forall s X cs, In s scripts -> sopen_err s = None -> In (X, cs) (presented (wrlb wrl) (rm_labels wrl) s) ->
          exists cs', In (X, cs') (sers (unbatch frames)) /\ forall c, In c cs -> In (ckey c) (map ckey cs')).
Proof. exact warn_succeeds6. Qed.
Print Assumptions C06_warn_succeeds.

(* The same through the Thanos querier (pkg/query/querier.go Select; deduplication off): with
   partial response off a failing store makes the series set fail; with partial response on it
   succeeds, every failed store's warning is among the annotations and every label set delivered
   by a store whose stream opened is among the series. *)
Theorem C06_querier_abort_fails : forall lazy batch (scripts : list script),
  (exists s w, In s scripts /\ fail_warning s = Some w) ->
  querier_select lazy false batch scripts = None.
Proof. exact querier_abort_fails. Qed.
Print Assumptions C06_querier_abort_fails.

Theorem C06_querier_warn_succeeds : forall lazy batch (scripts : list script),
  exists ls ws,
    querier_select lazy true batch scripts = Some (ls, ws)
    /\ (forall s w, In s scripts -> fail_warning s = Some w -> In w ws)
    /\ (forall s X cs, In s scripts -> sopen_err s = None -> In (X, cs) (presented false (rm_labels []) s) -> In X ls).
Proof. exact querier_warn_succeeds. Qed.
Print Assumptions C06_querier_warn_succeeds.

(* Failure kinds: both receivers (lazy and eager; tests regenerated from the source) treat a Recv
   error as the clean end of a stream only when it IS io.EOF. An error that merely wraps io.EOF
   (errors.Is would accept it: net/http `Post "...": EOF`), io.ErrUnexpectedEOF, a gRPC status, a
   context cancellation ... keeps the store a failing store, so the scripts the theorems above
   speak about are the scripts the receivers see, whatever the kind of the error. *)
Theorem C06_only_io_eof_ends_a_stream : forall lazy wrl wraps (scripts : list script),
  effective_all lazy wrl wraps scripts = scripts
  /\ forall w, recv_eos_lazy false w = false /\ recv_eos_eager false w = false.
Proof. exact only_io_eof_ends_a_stream. Qed.
Print Assumptions C06_only_io_eof_ends_a_stream.

(* The frame-timeout timer of a lazy receiver (handleRecvResponse), with the pause condition and
   its position regenerated from the source: it is paused after cl.Recv() returned and before the
   first (possibly blocking) append into the ring buffer, whatever the buffer state. Hence, for
   every timeout >= 1 tick, every buffer size, every batching of the store's responses and EVERY
   schedule of the consumer (it may stall for any time between pops): a store whose every Recv
   returns within the timeout is never cancelled — a slow reader cannot turn a healthy store into
   a failed one (which under the warn strategy would lose its remaining series). *)
Theorem C06_lazy_receiver_no_spurious_timeout : forall (A : Type) (T cap : nat) (frames : list (list A)) st,
  (1 <= T)%nat -> reach T cap timer_pause_cond (init frames) st -> cancelled st = false.
Proof. exact lazy_receiver_no_spurious_timeout. Qed.
Print Assumptions C06_lazy_receiver_no_spurious_timeout.

Theorem C06_timer_pause_position : timer_pause_after_recv_before_append = true /\ forall b, timer_pause_cond b = true.
Proof. exact (conj source_pause_position source_pauses_always). Qed.
Print Assumptions C06_timer_pause_position.

(* Pausing only when the buffer is already full before queuing is NOT enough: a frame of two
   responses, a buffer of one and a stalled consumer get a healthy store cancelled. *)
Theorem C06_pause_only_when_full_refuted :
  exists st, reach 1 1 (fun full : bool => full) (init [[0; 1]%nat]) st /\ cancelled st = true.
Proof. exact pause_only_when_full_refuted. Qed.
Print Assumptions C06_pause_only_when_full_refuted.

(* Non-vacuity: three stores; the first fails after one frame, the second cannot be
   opened, the third is healthy. ABORT fails; WARN succeeds with both warnings and with
   the healthy store's series (and the frame the first store delivered before failing). *)
Definition ex_c (t : Z) (h : N) : chunk := MkChunk t (t + 5) [Some (1, h, [h]); None; None; None; None; None].
Definition ex_l (v : N) : labels := [([97%N], [v])].
Definition ex6 : list script :=
  [ MkScript None [FSeries (ex_l 49) [ex_c 0 1]] (ERecvErr [33%N; 48%N]) true;
    MkScript (Some [33%N; 49%N]) [FSeries (ex_l 51) [ex_c 0 9]] EEof true;
    MkScript None [FSeries (ex_l 49) [ex_c 10 2]; FSeries (ex_l 50) [ex_c 0 4]] EEof true ].
Example C06_nonvacuous :
  proxy6 true [] false ABORT 0 0 ex6 = None
  /\ proxy6 false [] false WARN 0 0 ex6
     = Some [FWarn [33%N; 49%N]; FWarn [33%N; 48%N]; FSeries (ex_l 49) [ex_c 0 1; ex_c 10 2]; FSeries (ex_l 50) [ex_c 0 4]]
  /\ fail_warning (nth 0 ex6 (MkScript None [] EEof true)) = Some [33%N; 48%N]
  /\ WARN <> ABORT.
Proof. vm_compute. repeat split; congruence. Qed.
