(* C42 — The results cache never changes query results.
   Model/C42.v mirrors results_cache.go / query_range.go with the two repairs that are now in
   the repository (minTime over all series; partition continues on the request's grid after a
   lower-step extent), and the chain step-align -> [split-by-interval ->] results cache.

   Proved for the model, for every deterministic downstream f (series may be absent anywhere),
   every sorted id list, every split interval, with or without the split middleware, and every
   history of range queries with step > 0 and 0 <= start <= end — any mixture of steps, so the
   lower-step cache path is included:
     C42_history: whatever fetched responses are non-storable (no-store header, @ modifier
     beyond the end), every answer equals direct evaluation of the (step-aligned) query, the run
     never fails, and the invariant "every cached extent is exact for its key" is preserved.
   Building blocks: extraction, MergeResponse of any number of exact pieces in any order
   (C42_merge_pieces_exact), partition cover (inside C42_do_cache_exact).
   Refuted for the code before the repairs: the first-series minTime loses samples, the
   unaligned partition asks for off-grid timestamps.
   Model assumptions (not theorems): requests older than the freshness window, sort.Sort /
   sort.Slice as stable insertion sort (Go: at most 12 elements), parallelism 1. *)
From Coq Require Import ZArith List Bool Lia.
Import ListNotations.
From Verif Require Import Lib.Corr Gen.C41 Model.C41 Gen.C42 Model.C42 Proofs.C42 Proofs.C42_history.
Open Scope Z_scope.

(* extractMatrix applied to a response that is exact on the timestamps ts is exact on the
   timestamps that pass isTimestampAtStep (the function regenerated from the source) *)
Theorem C42_extract_exact : forall f a b m ts sids,
  extract a b m (eval_on f sids ts) = eval_on f sids (filter (isTimestampAtStep a b m) ts).
Proof. exact extract_eval_on. Qed.
Print Assumptions C42_extract_exact.

(* matrixMerge's per-series step: samples exact on ts1 merged with samples exact on ts2
   (ts2 agreeing with ts1 on their overlap) are exact on the union, absent samples included *)
Theorem C42_merge_stream_exact : forall f s ts1 ts2,
  incr ts1 -> incr ts2 -> compat ts1 ts2 ->
  merge_stream (samples_on f s ts1) (samples_on f s ts2) = samples_on f s (union_ts ts1 ts2).
Proof. exact merge_stream_exact. Qed.
Print Assumptions C42_merge_stream_exact.

(* MergeResponse (sort by minTime, then matrixMerge) of an exact response and an exact later
   response is exact on the union: the step of handleHit's extent-merge loop *)
Theorem C42_merge_exact_partial : forall f sids ts1 ts2,
  incr sids -> incr ts1 -> incr ts2 -> compat ts1 ts2 -> nonneg ts1 -> nonneg ts2 ->
  merge_response [eval_on f sids ts1; eval_on f sids ts2] = eval_on f sids (union_ts ts1 ts2).
Proof. exact merge_response_two. Qed.
Print Assumptions C42_merge_exact_partial.

(* a fully cached answer: MergeResponse of one exact piece is that piece *)
Theorem C42_merge_single : forall f sids ts, incr sids ->
  merge_response [eval_on f sids ts] = eval_on f sids ts.
Proof. exact merge_response_one. Qed.
Print Assumptions C42_merge_single.

(* direct evaluation is evaluation on the step grid (link between eval and eval_on) *)
Theorem C42_eval_grid : forall f sids a b st, eval f sids a b st = eval_on f sids (steps a b st).
Proof. exact eval_eval_on. Qed.
Print Assumptions C42_eval_grid.

(* lower-step entries (matching-step mode): whatever the cached extents are, every request
   sent downstream starts a whole number of steps after the request's start *)
Theorem C42_partition_on_grid : forall rs re st exts reqs cached, 0 < st ->
  partition rs re st exts = (reqs, cached) ->
  forall ab, In ab reqs -> on_grid rs st (fst ab).
Proof. exact partition_on_grid. Qed.
Print Assumptions C42_partition_on_grid.

(* ---- whole histories ---- *)

(* MergeResponse (sort by minTime, then matrixMerge) of ANY number of exact pieces, given in ANY
   order, whose timestamps are intervals of the step grid, is exact on their union: no overlap
   or adjacency condition is needed *)
Theorem C42_merge_pieces_exact : forall f sids, incr sids -> forall st tss ts, 0 < st ->
  Forall (iv st) tss -> incr ts ->
  (forall t, In t ts <-> exists ts', In ts' tss /\ In t ts') ->
  merge_response (map (eval_on f sids) tss) = eval_on f sids ts.
Proof. exact merge_pieces_exact. Qed.
Print Assumptions C42_merge_pieces_exact.

(* resultsCache.Do on a step-aligned request, in a cache whose extents are all exact: the
   answer is direct evaluation and the new cache again holds only exact extents (hit, lower-step
   hit and miss paths) *)
Theorem C42_do_cache_exact : forall f sids, incr sids -> forall sto split c rs re st resp c',
  0 < st -> (st | rs) -> (st | re) -> 0 <= rs -> rs <= re -> cache_ok f sids c ->
  do_cache f sids sto split c rs re st = (resp, c') ->
  resp = eval f sids rs re st /\ cache_ok f sids c'.
Proof. exact do_cache_spec. Qed.
Print Assumptions C42_do_cache_exact.

(* [sto] says which fetched responses may be stored (no Cache-Control: no-store, no @ modifier
   beyond the request's end): it is arbitrary in these theorems — every fetched response goes
   into the answer whatever it says, only the extents written back depend on it.
   any history, from any cache of exact extents: it runs to the end, every answer equals direct
   evaluation, the invariant holds afterwards *)
Theorem C42_history : forall f sids, incr sids -> forall sto split use_split, 0 < split -> forall qs c,
  Forall query_ok qs -> cache_ok f sids c ->
  exists rs c', history f sids sto split use_split c qs = Some (rs, c')
    /\ rs = map (direct f sids) qs /\ cache_ok f sids c'.
Proof. exact history_exact. Qed.
Print Assumptions C42_history.

(* the same from the empty cache, through the predicate the check evaluates on the
   implementation's answers *)
Theorem C42_history_pred : forall d ns atm split use_split qs,
  incr (map fst d) -> 0 < split -> Forall query_ok qs ->
  exists rs c, history (f_of d) (map fst d) (sto_of ns atm) split use_split [] qs = Some (rs, c)
    /\ pred_ok (CHist split use_split d ns atm qs rs c) = true.
Proof. exact history_pred. Qed.
Print Assumptions C42_history_pred.

(* native-histogram samples: a model stream holds one kind of samples; series s of the code is
   the pair of model series 2s (floats) and 2s+1 (histograms). The theorems above quantify over
   all series ids, so they cover both kinds; this is the statement for such paired descriptions,
   with the source fact that SliceSamples and SliceHistogram both cut with `> minTs` *)
Definition both_kinds (l : list (Z * list (Z * Z) * list (Z * Z))) : list series_desc :=
  flat_map (fun x => [(2 * fst (fst x), snd (fst x)); (2 * fst (fst x) + 1, snd x)]) l.

Theorem C42_history_float_and_histogram : forall l ns atm split use_split qs,
  incr (map (fun x => fst (fst x)) l) -> 0 < split -> Forall query_ok qs ->
  slice_keeps_equal = false /\
  exists rs c, history (f_of (both_kinds l)) (map fst (both_kinds l)) (sto_of ns atm) split use_split [] qs = Some (rs, c)
    /\ pred_ok (CHist split use_split (both_kinds l) ns atm qs rs c) = true.
Proof. exact history_kinds. Qed.
Print Assumptions C42_history_float_and_histogram.

(* ---- refutations of the code before the repairs (replayed on the real code: corpus/C42) ---- *)

(* series 0 is born exactly where the cached extent starts; series 1 exists all along.
   Sorting by the first series' first timestamp leaves the cached (later) piece first and
   matrixMerge then drops series 1's earlier samples. *)
Definition w_f : downstream := f_of [(0, [(600000, 2000000)]); (1, [(-1000000, 2000000)])].

Theorem C42_first_series_order_refuted :
  let cached := eval w_f [0; 1] 600000 1200000 60000 in
  let fetched := eval w_f [0; 1] 0 600000 60000 in
  merge_response_first [cached; fetched] <> eval w_f [0; 1] 0 1200000 60000
  /\ merge_response [cached; fetched] = eval w_f [0; 1] 0 1200000 60000.
Proof. cbv zeta. split; [vm_compute; discriminate | vm_compute; reflexivity]. Qed.
Print Assumptions C42_first_series_order_refuted.

(* an extent [0, 90000] of the 30 s entry serving a 60 s request from 0: the next downstream
   request started at 90000, off the 0/60000/120000 grid *)
Theorem C42_lower_step_offgrid_refuted :
  exists exts reqs cached ab,
    partition_unaligned 0 300000 60000 exts = (reqs, cached) /\ In ab reqs /\ ~ on_grid 0 60000 (fst ab).
Proof.
  exists [(0, 90000, eval (f_of [(1, [(-1000000, 2000000)])]) [1] 0 90000 30000)].
  eexists. eexists. exists (90000, 300000).
  split; [vm_compute; reflexivity|]. split; [left; reflexivity|]. unfold on_grid. vm_compute. discriminate.
Qed.
Print Assumptions C42_lower_step_offgrid_refuted.

(* ---- non-vacuity ---- *)

(* two overlapping step-60s ranges of a downstream with a series that comes and goes: the
   hypotheses of C42_merge_exact_partial hold and the union is the whole range *)
Example C42_nonvacuous :
  let f := f_of [(0, [(120000, 180000); (420000, 600000)]); (3, [(0, 900000)])] in
  let ts1 := steps 0 300000 60000 in let ts2 := steps 240000 600000 60000 in
  incr [0; 3] /\ incr ts1 /\ incr ts2 /\ compat ts1 ts2 /\ nonneg ts1 /\ nonneg ts2
  /\ union_ts ts1 ts2 = steps 0 600000 60000
  /\ merge_response [eval f [0; 3] 0 300000 60000; eval f [0; 3] 240000 600000 60000] = eval f [0; 3] 0 600000 60000.
Proof.
  cbv zeta. split; [apply incrb_incr; vm_compute; reflexivity|].
  split; [apply incrb_incr; vm_compute; reflexivity|].
  split; [apply incrb_incr; vm_compute; reflexivity|].
  split; [apply compatb_compat; vm_compute; reflexivity|].
  split; [apply nonnegb_nonneg; vm_compute; reflexivity|].
  split; [apply nonnegb_nonneg; vm_compute; reflexivity|].
  split; vm_compute; reflexivity.
Qed.

Example C42_partition_nonvacuous :
  fst (partition 0 300000 60000 [(0, 90000, eval (f_of [(1, [(-1000000, 2000000)])]) [1] 0 90000 30000)])
  = [(60000, 300000)].
Proof. vm_compute. reflexivity. Qed.

(* the hypotheses of C42_history on a concrete mixed-step history (lower-step path included) *)
Example C42_history_hyps_nonvacuous :
  incr [0; 3] /\ Forall query_ok [(600000, 1200000, 30000); (0, 900000, 60000); (300001, 4200000, 60000)]
  /\ cache_ok (f_of [(3, [(0, 9000000)])]) [0; 3] [].
Proof.
  split; [apply incrb_incr; vm_compute; reflexivity|]. split; [|apply cache_ok_empty].
  repeat constructor; cbn; lia.
Qed.

(* a three-query history through step-align, split and cache answers every query exactly *)
Example C42_history_nonvacuous :
  let d := [(0, [(0, 400000); (900000, 5000000)]); (3, [(-1000000, 9000000)])] in
  let qs := [(600000, 1200000, 60000); (0, 900000, 60000); (300000, 4200000, 60000)] in
  option_map fst (history (f_of d) [0; 3] (sto_of [(0, 300000)] (Some 1000000)) 3600000 true [] qs)
  = Some (map (direct (f_of d) [0; 3]) qs).
Proof. vm_compute. reflexivity. Qed.
