(* C42 — The results cache never changes query results.
   Model/C42.v mirrors results_cache.go / query_range.go with the two repairs of
   repo_patches/C42-fix.patch (minTime over all series; partition continues on the
   request's grid after a lower-step extent).

   Full statement wanted (kept visible; proved here only in part, the composition is
   carried by the checked tie on generated histories):
     forall f sids split qs, (all queries step-aligned, old enough, <= 12 pieces per merge) ->
       history f sids split use_split [] qs = Some (rs, c) ->
       rs = map (direct f sids) qs.
   Proved (partial): the building blocks the cache composes, for every downstream f
   (series may be absent anywhere), every sorted id list, every timestamp lists:
   extraction of an exact piece is exact; merging an exact piece with an exact later,
   overlapping-or-adjacent piece (per series and for whole responses through the
   byFirstTime sort) is exact on the union — which is each step of the extent-merge
   loop; in matching-step mode every downstream request starts on the request's grid.
   Refuted for the code before the repairs: the first-series minTime loses samples,
   the unaligned partition asks for off-grid timestamps. *)
From Coq Require Import ZArith List Bool Lia.
Import ListNotations.
From Verif Require Import Lib.Corr Gen.C41 Model.C41 Gen.C42 Model.C42 Proofs.C42.
Open Scope Z_scope.

(* extractMatrix applied to a response that is exact on the timestamps ts is exact on the
   timestamps that pass isTimestampAtStep (the function regenerated from the source) *)
Theorem C42_extract_exact : forall f a b m ts sids,
  extract a b m (eval_on f sids ts) = eval_on f sids (filter (isTimestampAtStep a b m) ts).
Proof. exact extract_eval_on. Qed.
Print Assumptions C42_extract_exact.

(* matrixMerge's per-series step: samples exact on ts1 merged with samples exact on ts2
   (ts2 agreeing with ts1 on their overlap) are exact on the union, absent samples included *)
Theorem C42_merge_stream_exact : forall f s ts1 ts2,
  incr ts1 -> incr ts2 -> compat ts1 ts2 ->
  merge_stream (samples_on f s ts1) (samples_on f s ts2) = samples_on f s (union_ts ts1 ts2).
Proof. exact merge_stream_exact. Qed.
Print Assumptions C42_merge_stream_exact.

(* MergeResponse (sort by minTime, then matrixMerge) of an exact response and an exact later
   response is exact on the union: the step of handleHit's extent-merge loop *)
Theorem C42_merge_exact_partial : forall f sids ts1 ts2,
  incr sids -> incr ts1 -> incr ts2 -> compat ts1 ts2 -> nonneg ts1 -> nonneg ts2 ->
  merge_response [eval_on f sids ts1; eval_on f sids ts2] = eval_on f sids (union_ts ts1 ts2).
Proof. exact merge_response_two. Qed.
Print Assumptions C42_merge_exact_partial.

(* a fully cached answer: MergeResponse of one exact piece is that piece *)
Theorem C42_merge_single : forall f sids ts, incr sids ->
  merge_response [eval_on f sids ts] = eval_on f sids ts.
Proof. exact merge_response_one. Qed.
Print Assumptions C42_merge_single.

(* direct evaluation is evaluation on the step grid (link between eval and eval_on) *)
Theorem C42_eval_grid : forall f sids a b st, eval f sids a b st = eval_on f sids (steps a b st).
Proof. exact eval_eval_on. Qed.
Print Assumptions C42_eval_grid.

(* lower-step entries (matching-step mode): whatever the cached extents are, every request
   sent downstream starts a whole number of steps after the request's start *)
Theorem C42_partition_on_grid : forall rs re st exts reqs cached, 0 < st ->
  partition rs re st exts = (reqs, cached) ->
  forall ab, In ab reqs -> on_grid rs st (fst ab).
Proof. exact partition_on_grid. Qed.
Print Assumptions C42_partition_on_grid.

(* ---- refutations of the code before the repairs (replayed on the real code: corpus/C42) ---- *)

(* series 0 is born exactly where the cached extent starts; series 1 exists all along.
   Sorting by the first series' first timestamp leaves the cached (later) piece first and
   matrixMerge then drops series 1's earlier samples. *)
Definition w_f : downstream := f_of [(0, [(600000, 2000000)]); (1, [(-1000000, 2000000)])].

Theorem C42_first_series_order_refuted :
  let cached := eval w_f [0; 1] 600000 1200000 60000 in
  let fetched := eval w_f [0; 1] 0 600000 60000 in
  merge_response_first [cached; fetched] <> eval w_f [0; 1] 0 1200000 60000
  /\ merge_response [cached; fetched] = eval w_f [0; 1] 0 1200000 60000.
Proof. cbv zeta. split; [vm_compute; discriminate | vm_compute; reflexivity]. Qed.
Print Assumptions C42_first_series_order_refuted.

(* an extent [0, 90000] of the 30 s entry serving a 60 s request from 0: the next downstream
   request started at 90000, off the 0/60000/120000 grid *)
Theorem C42_lower_step_offgrid_refuted :
  exists exts reqs cached ab,
    partition_unaligned 0 300000 60000 exts = (reqs, cached) /\ In ab reqs /\ ~ on_grid 0 60000 (fst ab).
Proof.
  exists [(0, 90000, eval (f_of [(1, [(-1000000, 2000000)])]) [1] 0 90000 30000)].
  eexists. eexists. exists (90000, 300000).
  split; [vm_compute; reflexivity|]. split; [left; reflexivity|]. unfold on_grid. vm_compute. discriminate.
Qed.
Print Assumptions C42_lower_step_offgrid_refuted.

(* ---- non-vacuity ---- *)

(* two overlapping step-60s ranges of a downstream with a series that comes and goes: the
   hypotheses of C42_merge_exact_partial hold and the union is the whole range *)
Example C42_nonvacuous :
  let f := f_of [(0, [(120000, 180000); (420000, 600000)]); (3, [(0, 900000)])] in
  let ts1 := steps 0 300000 60000 in let ts2 := steps 240000 600000 60000 in
  incr [0; 3] /\ incr ts1 /\ incr ts2 /\ compat ts1 ts2 /\ nonneg ts1 /\ nonneg ts2
  /\ union_ts ts1 ts2 = steps 0 600000 60000
  /\ merge_response [eval f [0; 3] 0 300000 60000; eval f [0; 3] 240000 600000 60000] = eval f [0; 3] 0 600000 60000.
Proof.
  cbv zeta. split; [apply incrb_incr; vm_compute; reflexivity|].
  split; [apply incrb_incr; vm_compute; reflexivity|].
  split; [apply incrb_incr; vm_compute; reflexivity|].
  split; [apply compatb_compat; vm_compute; reflexivity|].
  split; [apply nonnegb_nonneg; vm_compute; reflexivity|].
  split; [apply nonnegb_nonneg; vm_compute; reflexivity|].
  split; vm_compute; reflexivity.
Qed.

Example C42_partition_nonvacuous :
  fst (partition 0 300000 60000 [(0, 90000, eval (f_of [(1, [(-1000000, 2000000)])]) [1] 0 90000 30000)])
  = [(60000, 300000)].
Proof. vm_compute. reflexivity. Qed.

(* a three-query history through step-align, split and cache answers every query exactly *)
Example C42_history_nonvacuous :
  let d := [(0, [(0, 400000); (900000, 5000000)]); (3, [(-1000000, 9000000)])] in
  let qs := [(600000, 1200000, 60000); (0, 900000, 60000); (300000, 4200000, 60000)] in
  option_map fst (history (f_of d) [0; 3] 3600000 true [] qs) = Some (map (direct (f_of d) [0; 3]) qs).
Proof. vm_compute. reflexivity. Qed.
