(* C28 — A block is visible in object storage only when all its files are.
   Property theorems only; each is closed by [exact] of a lemma of Proofs/C28.v.
   The orders of the bucket mutations inside block.upload, block.Delete /
   deleteDirRec and ensureBlockIsReplicated / ensureObjectReplicated
   ([upload_phases], [delete_phases], [replicate_phases]) are computed from the
   call lists of Gen/C28.v, regenerated from the source on every run.

   Vocabulary (Lib/Crash_Block.v, Lib/Crash_BlockFacts.v):
     bucket           association list  (block number, file) -> object
     univ             block number -> its files and sizes (a ULID names one content for ever)
     binv U b         every chunk/index object of b has the size U gives it, and a
                      meta.json in b lists exactly U's files and all of them are in b
     visible_complete b   a meta.json in b => every file it lists is in b with the listed size
     cut crash l      the first k operations of l when the process dies after k of them *)
From Coq Require Import ZArith NArith List Bool.
Import ListNotations.
From Verif Require Import Lib.Corr Lib.Crash_Store Lib.Crash_Block Lib.Crash_BlockFacts Lib.Crash_BlockProgs Lib.Crash_BlockRace.
From Verif Require Import Gen.C28 Model.C28 Proofs.C28.

(* Any sequence of uploads, deletions, deletion markings (on either bucket) and
   replications, of any blocks with any number of segment files, each cut by a
   crash after any number of mutating operations or not at all, starting from
   empty buckets: in EVERY bucket state passed through (all prefixes of all op
   logs) a block whose meta.json is present has all the files it lists with the
   recorded sizes. [run_states] = None only when an order oracle is not a
   permutation. *)
Theorem C28_every_crash_point_visible_complete : forall U acts all,
  wf_univ_b U = true -> run_states U ([], []) acts = Some all ->
  forall b, In b all -> visible_complete b.
Proof. exact all_prefixes_visible_complete. Qed.
Print Assumptions C28_every_crash_point_visible_complete.

(* Link to the check: a case is what the real code did (op logs, bucket listing
   after every mutating operation, whether the call returned nil). If the model
   reproduces it (corr_ok) then the property predicate evaluated on those real
   listings holds: visible => complete in every listing; a Delete of a marked
   block keeps the mark until everything else is gone; a returned upload /
   delete / mark / replication has made the block visible / gone / marked /
   identical in the target. *)
Theorem C28_accepted_case_satisfies_property : forall c,
  corr_ok c = true -> safe_case c = true -> pred_ok c = true.
Proof. exact corr_implies_pred. Qed.
Print Assumptions C28_accepted_case_satisfies_property.

(* [safe_case]: every two-actor action (ARepDel: replication interleaved with the deletion of the
   origin block) in the case has a deleter that removes the index before any chunk file and a
   target that does not hold the index yet; see C28_replicate_during_delete_safe / _refuted.
   [run_states] and [model_steps] are undefined on scenarios that violate this. *)

(* ... and the model accepts its own run on every input on which it is defined. *)
Theorem C28_model_run_is_accepted : forall U acts steps,
  wf_univ_b U = true -> model_steps U ([], []) acts = Some steps ->
  corr_ok (CScen U steps) = true /\ pred_ok (CScen U steps) = true.
Proof. exact model_case_ok. Qed.
Print Assumptions C28_model_run_is_accepted.

(* block.Upload from any bucket satisfying the invariant, any crash point k. *)
Theorem C28_upload_prefix_safe : forall ph U b id order cid lbl l k,
  upload_phases = Some ph -> wf_univ U -> binv U b -> upload_ops ph U id order cid lbl = Some l ->
  visible_complete (bapply_ops b (firstn k l)).
Proof. exact upload_prefix_safe_src. Qed.
Print Assumptions C28_upload_prefix_safe.

(* Crash at any point k of an upload, then upload again: safe at every point j
   of the retry, and the retry ends with the block visible and complete. *)
Theorem C28_reupload_after_crash : forall ph U b id order cid lbl l k order' cid' lbl' l' bl,
  upload_phases = Some ph -> wf_univ U -> binv U b -> ublock U id = Some bl ->
  upload_ops ph U id order cid lbl = Some l ->
  upload_ops ph U id order' cid' lbl' = Some l' ->
  let crashed := bapply_ops b (firstn k l) in
  (forall j, visible_complete (bapply_ops crashed (firstn j l')))
  /\ bget (bapply_ops crashed l') (id, FMeta) = Some (MetaO cid' (files_of bl) lbl')
  /\ visible_complete (bapply_ops crashed l').
Proof. exact reupload_after_crash_src. Qed.
Print Assumptions C28_reupload_after_crash.

(* block.Delete, any crash point k: no visible incomplete block, and a block that
   carried a deletion mark keeps it until nothing else of the block is left
   (directory-marker objects, which the code deletes after the mark, aside). *)
Theorem C28_delete_prefix_safe : forall ph U b id order l k,
  delete_phases = Some ph -> wf_univ U -> binv U b -> delete_ops ph b id order = Some l ->
  let b' := bapply_ops b (firstn k l) in
  visible_complete b'
  /\ (bget b (id, FDelMark) <> None ->
      bget b' (id, FDelMark) <> None \/ forall f, is_dirmarker f = false -> bget b' (id, f) = None).
Proof. exact delete_prefix_safe_src. Qed.
Print Assumptions C28_delete_prefix_safe.

(* a Delete that is not interrupted (also: re-run after a crash) removes everything *)
Theorem C28_delete_completes : forall ph b id order l,
  delete_phases = Some ph -> delete_ops ph b id order = Some l ->
  forall f, is_dirmarker f = false -> bget (bapply_ops b l) (id, f) = None.
Proof. exact delete_completes_src. Qed.
Print Assumptions C28_delete_completes.

(* ensureBlockIsReplicated, any crash point k, any prior content of the target
   that satisfies the invariant (in particular the leftovers of an earlier cut
   replication of the same block): safe, and the invariant is kept (so a retry is
   covered by the same theorem). *)
Theorem C28_replicate_prefix_safe : forall ph U src dst id k,
  replicate_phases = Some ph -> wf_univ U -> binv U src -> binv U dst ->
  visible_complete (bapply_ops dst (firstn k (replicate_ops ph src dst id)))
  /\ binv U (bapply_ops dst (firstn k (replicate_ops ph src dst id))).
Proof. exact replicate_prefix_safe_src. Qed.
Print Assumptions C28_replicate_prefix_safe.

Theorem C28_replicate_completes : forall ph U src dst id om,
  replicate_phases = Some ph -> binv U src -> bget src (id, FMeta) = Some om ->
  same_content om (bget (bapply_ops dst (replicate_ops ph src dst id)) (id, FMeta)) = true.
Proof. exact replicate_completes_src. Qed.
Print Assumptions C28_replicate_completes.

(* TWO ACTORS. ensureBlockIsReplicated origin -> target while block.Delete removes the same
   block from the origin, the deleter's operations taking effect before ANY of the replicator's
   origin operations ([sched]: every interleaving of the two operation sequences; a Get that
   finds its object gone makes the replicator return the error before meta.json). If the deleter
   removes the index before any chunk file (the order of a bucket that lists files before
   directories, like the in-memory one) and the target does not hold the index yet: at every
   point of the replication the target satisfies the property, and a replication that returns
   nil has made the block visible (and complete). The origin side is block.Delete
   (C28_delete_prefix_safe). *)
Theorem C28_replicate_during_delete_safe : forall ph U src dst id sched order dels ops ok,
  delete_phases = Some ph -> wf_univ U -> binv U src -> binv U dst ->
  delete_ops ph src id order = Some dels ->
  index_first order = true -> bhas dst (id, FIndex) = false ->
  repdel_ops src dst id (combine sched dels) = (ops, ok) ->
  (forall k, visible_complete (bapply_ops dst (firstn k ops)))
  /\ (ok = true -> bhas (bapply_ops dst ops) (id, FMeta) = true).
Proof. exact replicate_during_delete_safe. Qed.
Print Assumptions C28_replicate_during_delete_safe.

(* REFUTED without "index before chunks": on a bucket that lists "chunks/" before "index" (plain
   lexicographic order: S3, GCS, Azure) the deleter removes meta.json and chunks/000001 between
   the replicator's Get of meta.json and its listing of chunks/; the replicator copies what is
   left, still finds the index and uploads meta.json: the target block is visible and lacks
   chunks/000001. Reproduced on the real code with a lexicographically listing bucket
   (corpus/C28/replicate-while-origin-deleted-lexicographic-race.json; known finding
   replicate-races-delete-lexicographic-listing). *)
Theorem C28_replicate_delete_race_refuted :
  exists st ops,
    sinv race_U st /\ bhas (snd st) (0%N, FIndex) = false
    /\ action_ops race_U st (ARepDel 0 [1; 1]%nat race_order) = Some (ops, true)
    /\ visible_complete_b (bapply_ops (snd st) ops) = false
    /\ index_first race_order = false.
Proof. exact replicate_delete_race_refuted. Qed.
Print Assumptions C28_replicate_delete_race_refuted.

(* ---- non-vacuity: a block with three segment files, upload cut after two
   operations (concurrent order 3,1,2), retried; marked; delete cut after three
   operations, retried; a second block replicated with a crash and a retry. ---- *)
Definition ex_U : univ :=
  [(0%N, mkblk [(1%N, 20%Z); (2%N, 16%Z); (3%N, 9%Z)] 35%Z 0%N);
   (1%N, mkblk [(1%N, 5%Z)] 7%Z 1%N)].
Definition ex_acts : list (action * option nat) :=
  [(AUpload false 0 [3; 1; 2]%N 0, Some 2%nat);
   (AUpload false 0 [1; 2; 3]%N 1, None);
   (AMark false 0 40, None);
   (ADelete false 0 [FIndex; FChunk 1; FChunk 2; FChunk 3], Some 3%nat);
   (ADelete false 0 [FChunk 2; FChunk 3], None);
   (AUpload false 1 [1]%N 2, None);
   (AReplicate 1, Some 1%nat);
   (AReplicate 1, None)].

Example C28_nonvacuous :
  wf_univ_b ex_U = true
  /\ (exists all, run_states ex_U ([], []) ex_acts = Some all /\ length all = 30%nat)
  /\ (exists steps, model_steps ex_U ([], []) ex_acts = Some steps /\ corr_ok (CScen ex_U steps) = true)
  /\ upload_phases = Some [PChunks; PIndex; PMeta]
  /\ delete_phases = Some [DMeta; DRest; DMark; DDirs]
  /\ replicate_phases = Some [RChunks; RIndex; RMeta].
Proof.
  split; [vm_compute; reflexivity|].
  split; [eexists; split; [vm_compute; reflexivity|vm_compute; reflexivity]|].
  split; [eexists; split; [vm_compute; reflexivity|vm_compute; reflexivity]|].
  repeat split; vm_compute; reflexivity.
Qed.

(* non-vacuity of the two-actor theorem: the origin holds block 0 (two chunk files, marked); the
   deleter (index first) removes meta.json before the replicator lists chunks/, and the index and
   chunks/000001 before the replicator's 4th origin operation: the replicator copies both chunk
   files, finds the index gone and stops without meta.json. *)
Example C28_race_nonvacuous :
  let src := [kv 0 (FChunk 1) (Blob 11); kv 0 (FChunk 2) (Blob 7); kv 0 FDelMark (Blob 40); kv 0 FIndex (Blob 9);
              kv 0 FMeta (MetaO 0 [(FChunk 1, 11%Z); (FChunk 2, 7%Z); (FIndex, 9%Z); (FMeta, 0%Z)] 0)] in
  let a := ARepDel 0 [1; 3; 3]%nat [FIndex; FChunk 1; FChunk 2] in
  action_safe (src, []) a = true
  /\ action_ops race_U (src, []) a = Some ([up 0 (FChunk 1) (Blob 11); up 0 (FChunk 2) (Blob 7)], false)
  /\ action_ops race_U (src, []) (ARepDel 0 [6; 6]%nat [FIndex; FChunk 1; FChunk 2])
     = Some ([up 0 (FChunk 1) (Blob 11); up 0 (FChunk 2) (Blob 7); up 0 FIndex (Blob 9);
              up 0 FMeta (MetaO 0 [(FChunk 1, 11%Z); (FChunk 2, 7%Z); (FIndex, 9%Z); (FMeta, 0%Z)] 0)], true).
Proof. cbv zeta. repeat split; vm_compute; reflexivity. Qed.
