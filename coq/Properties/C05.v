(* C05 — Store pruning never skips a store that holds matching data.
   Property theorems only; each is closed by [exact] of a lemma from Proofs/C05.v.
   The time-range test [time_skip] comes from Gen/C05.v, regenerated from the
   `if` condition in pkg/store/proxy.go storeMatches on every run.
   All theorems of the Generic part hold for EVERY matcher type M and EVERY
   decision function mmatch : M -> string -> bool, hence for =, !=, =~, !~ with
   any pattern, including empty-value and negative matchers. *)
From Coq Require Import ZArith NArith List Bool.
Import ListNotations.
From Verif Require Import Lib.Corr Lib.Proxy_Order Gen.C05 Model.C05 Proofs.C05.
Open Scope Z_scope.

(* Skipped for its time range => none of the store's samples (all inside the
   advertised range) lies in the query range. *)
Theorem C05_time_prune_sound : forall mint maxt storeMin storeMax t,
  time_skip mint maxt storeMin storeMax = true -> storeMin <= t <= storeMax -> ~ (mint <= t <= maxt).
Proof. exact time_prune_sound. Qed.
Print Assumptions C05_time_prune_sound.

(* LabelSetsMatch = false => every series that carries one of the store's external
   label sets is rejected by one of the request's matchers. *)
Theorem C05_label_prune_sound : forall (M : Type) (mname : M -> str) (mmatch : M -> str -> bool) ms exts,
  label_sets_match mname mmatch ms exts = false ->
  forall s ext, In ext exts -> extends s ext ->
  exists m, In m ms /\ mmatch m (lget s (mname m)) = false.
Proof. exact @label_prune_sound. Qed.
Print Assumptions C05_label_prune_sound.

(* matchesExternalLabels = "no match" => every series carrying the external labels is
   rejected by a request matcher; otherwise the returned (stripped) matchers are a
   sub-list of the request's and select exactly the same series among those carrying
   the external labels. *)
Theorem C05_ext_match_sound : forall (M : Type) (mname : M -> str) (mmatch : M -> str -> bool) ms ext,
  match matches_external_labels mname mmatch ms ext with
  | None => forall s, extends s ext -> exists m, In m ms /\ mmatch m (lget s (mname m)) = false
  | Some kept => incl kept ms /\
      forall s, extends s ext ->
        forallb (fun m => mmatch m (lget s (mname m))) ms = forallb (fun m => mmatch m (lget s (mname m))) kept
  end.
Proof. exact @ext_match_sound. Qed.
Print Assumptions C05_ext_match_sound.

(* The property: whenever the proxy answers a request without querying a store
   because of the store's time range, its external labels, or the proxy's own
   selector labels, that store holds no series selected by the request. For all
   selector labels, debug matchers, query ranges, matcher lists and stores. *)
Theorem C05_skip_sound : forall (M : Type) (mname : M -> str) (mmatch : M -> str -> bool)
    sel dbg mint maxt ms st,
  pruned (proxy_decision mname mmatch sel dbg mint maxt ms st) = true ->
  forall lbls ts, series_of_store sel st lbls ts -> ~ selected mname mmatch ms mint maxt lbls ts.
Proof. exact @skip_sound. Qed.
Print Assumptions C05_skip_sound.

(* The same through the boolean predicate that the check evaluates on the
   implementation's own decisions: on the model's decisions it holds for every input. *)
Theorem C05_pred : forall sel ms dbg son mint maxt stores o_kept o_lsets,
  match matches_external_labels mname mmatch ms sel with
  | None => pred_skip (CPrune sel ms dbg son mint maxt stores None [] o_kept o_lsets) = true
  | Some kept =>
      pred_skip (CPrune sel ms dbg son mint maxt stores (Some (map mid kept))
                 (map (fun s => reason_code (store_matches mname mmatch dbg mint maxt kept (fst s))) stores)
                 o_kept o_lsets) = true
  end.
Proof. exact pred_ok_model. Qed.
Print Assumptions C05_pred.

(* The extra matchers the proxy sends for the label sets kept by the TSDB selector
   (MatchersForLabelSets: per label name the alternation of its values, plus "^$" when a set
   lacks the name). Sound when all kept sets have the same label names ... *)
Theorem C05_selector_matchers_sound_homogeneous : forall lsets,
  (forall l n, In l lsets -> In n (sel_names lsets) -> lhas l n = true) ->
  forall s ext n, In ext lsets -> extends s ext -> In n (sel_names lsets) ->
  (forall v, In v (sel_alts n lsets) -> str_eqb v RE_EMPTY = false) ->
  alt_sem (sel_alts n lsets) (lget s n) = true.
Proof. exact selector_sound_homogeneous. Qed.
Print Assumptions C05_selector_matchers_sound_homogeneous.

(* With a TSDB selector the extra matchers are generated from the label sets that
   ProxyStore.matchingStores collects and are sent to EVERY queried store: the KEPT label sets of
   every queried store are among them (also when all of a store's sets are kept), so for label sets
   with the same names no series of a kept set of a queried store is rejected by them. *)
Theorem C05_selector_keeps_queried : forall dbg mint maxt ms (sts : list (nat * store)) i st,
  In (i, st) sts -> sexts st <> [] -> fst (selector_match true st) = true ->
  store_matches mname mmatch dbg mint maxt ms st = ROk ->
  let L := snd (matching_stores mname mmatch true dbg mint maxt ms sts) in
  (forall l n, In l L -> In n (sel_names L) -> lhas l n = true) ->
  forall s e n, In e (kept_lsets st) -> extends s e -> In n (sel_names L) ->
  (forall v, In v (sel_alts n L) -> str_eqb v RE_EMPTY = false) ->
  alt_sem (sel_alts n L) (lget s n) = true.
Proof. exact selector_keeps_queried. Qed.
Print Assumptions C05_selector_keeps_queried.

(* ... and NOT in general (known finding selector-matcher-rejects-own-label): with kept sets
   {a="1"} and {b="2"} the matchers are a=~"1|^$", b=~"2|^$"; a series {a="1", b="3"} of the
   first set (b is its own label) is rejected by the second matcher. *)
Theorem C05_selector_matchers_refuted :
  exists lsets s ext n, In ext lsets /\ extends_b s ext = true /\ In n (sel_names lsets)
    /\ alt_sem (sel_alts n lsets) (lget s n) = false.
Proof. exact selector_refuted. Qed.
Print Assumptions C05_selector_matchers_refuted.

(* Non-vacuity: a store with external labels {a="1"}, range [10,20]; the request
   a!="1" over [0,30] prunes it for its labels, a="1" over [21,30] for its time range,
   and a="1" over [0,30] queries it; a series of the store exists and is selected by the
   last request. (97 = "a", 49 = "1") *)
Definition ex_store := MkStore 10 20 [[([97%N], [49%N])]] [true] [115%N] false true.
Definition ex_neq := MkM 0 [97%N] [([], true); ([49%N], false)].
Definition ex_eq := MkM 0 [97%N] [([], false); ([49%N], true)].
Example C05_nonvacuous :
  proxy_decision mname mmatch [] [] 0 30 [ex_neq] ex_store = Some RExt
  /\ proxy_decision mname mmatch [] [] 21 30 [ex_eq] ex_store = Some RTime
  /\ proxy_decision mname mmatch [] [] 0 30 [ex_eq] ex_store = Some ROk
  /\ series_of_store_b [] ex_store ([([97%N], [49%N])], [15]) = true
  /\ selected_b mname mmatch [ex_eq] 0 30 ([([97%N], [49%N])], [15]) = true.
Proof. vm_compute. repeat split. Qed.
