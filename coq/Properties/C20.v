(* C20 — Adding a node to a ketama ring (no availability zones) only moves series onto the new node.
   Property theorems only. The statements are about [spec_answers]: the first rf
   distinct endpoints on the successor walk of the hash-sorted ring, starting
   at the first section with hash >= v (Model/C20.v). The check requires the
   implementation's GetN answers to equal both this specification and the
   loop-level model shared with C18/C19 on every generated case. Section and
   series hashes are arbitrary data of the statements. *)
From Coq Require Import ZArith List Bool Arith Lia Permutation.
Import ListNotations.
From Verif Require Import Lib.Corr Lib.Hashring_Ketama Lib.Hashring_Answers Gen.C20 Model.C20 Proofs.C20 Proofs.C20_Loop Proofs.C20_Multi.
Close Scope Z_scope.

(* For every ring (any number of nodes and sections per node), every position
   p at which the new endpoint e is inserted into the endpoint list, every
   replication factor and every series hash v — assuming only that no two
   sections of the new ring share a hash:
   (1) every replica after the change is the new node or was a replica before
       (no series moves between pre-existing nodes);
   (2) at most one of the old replicas loses the series;
   (3) if the new node is not among the replicas, the replica list is unchanged (same order). *)
Theorem C20_only_onto_new : forall hs p e rf v,
  p <= length hs ->
  NoDup (map s_hash (sections_of 0 (nozone (ins p e hs)))) ->
  let A := spec_answers (spec_ring hs) rf v in
  let A' := spec_answers (spec_ring (ins p e hs)) rf v in
  (forall x, In x A' -> x = p \/ exists y, In y A /\ x = iota p y) /\
  length (filter (fun y => negb (mem (iota p y) A')) A) <= 1 /\
  (~ In p A' -> A' = map (iota p) A).
Proof. exact add_node_readable. Qed.
Print Assumptions C20_only_onto_new.

(* The same through the boolean predicate that the check evaluates on the
   implementation's own answers before/after. *)
Theorem C20_pred : forall hs p e rf v,
  p <= length hs ->
  NoDup (map s_hash (sections_of 0 (nozone (ins p e hs)))) ->
  only_onto_new p (spec_answers (spec_ring hs) rf v) (spec_answers (spec_ring (ins p e hs)) rf v) = true.
Proof. exact add_node_only_onto_new. Qed.
Print Assumptions C20_pred.

(* The structural fact behind it: the new ring with the new node's sections
   removed IS the old ring (endpoint positions renamed by iota). *)
Theorem C20_walk_filter : forall p e hs v,
  p <= length hs ->
  NoDup (map s_hash (sections_of 0 (nozone (ins p e hs)))) ->
  filter (fun x => negb (x =? p)) (map s_ep (rot_v (spec_ring (ins p e hs)) v))
  = map (iota p) (map s_ep (rot_v (spec_ring hs) v)).
Proof. exact walk_lists_related. Qed.
Print Assumptions C20_walk_filter.

(* The loop-level model — calculateSectionReplicas' index walk with `% len` and
   the lap counter, newKetamaHashring, ketamaHashring.GetN — computes exactly the
   specification on every zone-free ring in which each node owns a section and
   rf <= #nodes. *)
Theorem C20_loop_is_spec : forall hs rf v,
  rf <= length hs -> Forall (fun h => h <> []) hs -> hs <> [] ->
  loop_answers hs rf v = Some (spec_answers (spec_ring hs) rf v).
Proof. exact loop_is_spec. Qed.
Print Assumptions C20_loop_is_spec.

(* Hence the property for the loop-level model itself: both rings answer, and
   the answers before/after satisfy the predicate evaluated by the check. *)
Theorem C20_only_onto_new_loop : forall hs p e rf v,
  p <= length hs -> rf <= length hs -> hs <> [] ->
  Forall (fun h => h <> []) (ins p e hs) ->
  NoDup (map s_hash (sections_of 0 (nozone (ins p e hs)))) ->
  exists A A', loop_answers hs rf v = Some A /\ loop_answers (ins p e hs) rf v = Some A' /\
               only_onto_new p A A' = true.
Proof. exact add_node_loop. Qed.
Print Assumptions C20_only_onto_new_loop.

(* ---- the public constructor NewMultiHashring (one ketama hashring config) ----
   Source fact read on this run: every assignment to m.nodes appends onto m.nodes itself,
   so the constructor's final sort of m.nodes cannot reorder the endpoint slice the ring
   sections index into. *)
Theorem C20_nodes_not_aliased : nodes_copied = true.
Proof. exact nodes_copied_true. Qed.
Print Assumptions C20_nodes_not_aliased.

(* Placement depends on the SET of configured endpoints only: for every permutation of
   the endpoint list (addresses and their sections permuted together, any zones, any
   collision-free hashes) GetN of the multi-hashring answers the same addresses. *)
Theorem C20_multi_placement_depends_on_set_only : forall addrs eps perm,
  Permutation perm (seq 0 (length eps)) ->
  NoDup (map s_hash (sections_of 0 eps)) ->
  forall rf v, sections_of 0 eps <> [] ->
  multi_getn_gen true (permute (-1)%Z addrs perm) (permute (0%Z, []) eps perm) rf v
  = multi_getn_gen true addrs eps rf v.
Proof. exact multi_set_only. Qed.
Print Assumptions C20_multi_placement_depends_on_set_only.

(* Were m.nodes the ring's own slice, the sort would make placement depend on the list order. *)
Theorem C20_aliased_nodes_refuted :
  exists addrs eps perm rf v,
    Permutation perm (seq 0 (length eps)) /\ NoDup (map s_hash (sections_of 0 eps)) /\
    multi_getn_gen false (permute (-1)%Z addrs perm) (permute (0%Z, []) eps perm) rf v
    <> multi_getn_gen false addrs eps rf v.
Proof. exact aliased_order_dependent. Qed.
Print Assumptions C20_aliased_nodes_refuted.

(* Adding a node through the public constructor, endpoint lists in ANY order, the new
   endpoint inserted at ANY position: the answers, as positions in the configured lists,
   satisfy the predicate the check evaluates. *)
Theorem C20_only_onto_new_multi : forall addrs a_new hs p e rf v,
  p <= length hs -> length addrs = length hs ->
  NoDup addrs -> NoDup (ins p a_new addrs) ->
  NoDup (map s_hash (sections_of 0 (nozone (ins p e hs)))) ->
  only_onto_new p
    (map (answered_pos addrs) (spec_answers (spec_ring hs) rf v))
    (map (answered_pos (ins p a_new addrs)) (spec_answers (spec_ring (ins p e hs)) rf v)) = true.
Proof. exact add_node_multi. Qed.
Print Assumptions C20_only_onto_new_multi.

(* Non-vacuity: three nodes with two sections each, a node added in the middle;
   the series at hash 10 gains the new node (position 1) in place of old node 2. *)
Example C20_nonvacuous :
  let hs := [[5; 40]; [20; 70]; [30; 90]]%Z in
  let e := [12; 60]%Z in
  1 <= length hs /\ NoDup (map s_hash (sections_of 0 (nozone (ins 1 e hs)))) /\
  spec_answers (spec_ring hs) 2 10%Z = [1; 2] /\
  spec_answers (spec_ring (ins 1 e hs)) 2 10%Z = [1; 2] /\     (* new node, then old node 1 (now at position 2) *)
  spec_answers (spec_ring hs) 2 65%Z = [1; 2] /\
  spec_answers (spec_ring (ins 1 e hs)) 2 65%Z = [2; 3].       (* unchanged: old nodes 1 and 2 *)
Proof.
  split; [vm_compute; lia|]. split; [|vm_compute; repeat split; reflexivity].
  vm_compute. repeat (constructor; [simpl; intuition discriminate|]). constructor.
Qed.

Example C20_loop_nonvacuous :
  let hs := [[5; 40]; [20; 70]; [30; 90]]%Z in
  loop_answers hs 2 10%Z = Some [1; 2] /\ loop_answers (ins 1 [12; 60]%Z hs) 2 10%Z = Some [1; 2]
  /\ Forall (fun h => h <> []) (ins 1 [12; 60]%Z hs).
Proof. split; [vm_compute; reflexivity|]. split; [vm_compute; reflexivity|]. repeat constructor; discriminate. Qed.

Example C20_multi_nonvacuous :
  let addrs := [2; 0; 1]%Z in let eps := [(0, [5; 40]); (0, [20; 70]); (0, [30; 90])]%Z in
  Permutation [1; 2; 0] (seq 0 (length eps)) /\ NoDup (map s_hash (sections_of 0 eps)) /\
  multi_getn_gen true addrs eps 2 10%Z = Some [0; 1]%Z /\
  multi_getn_gen true (permute (-1)%Z addrs [1; 2; 0]) (permute (0%Z, []) eps [1; 2; 0]) 2 10%Z = Some [0; 1]%Z.
Proof.
  split; [apply NoDup_Permutation; [repeat constructor; simpl; intuition discriminate|apply seq_NoDup|intro x; simpl; intuition]|].
  split; [vm_compute; repeat constructor; simpl; intuition discriminate|]. split; vm_compute; reflexivity.
Qed.
